/-
  C04 — the composition laws of `gts.Rotate` at the RECORD level (residues and feature table).
  Property theorems only.  (`Props/C04.lean` has the laws for the position maps, `rotMap_add / _mul / _neg`,
  and for one location through the two steps of one rotation.)
-/
import Gts.Props.C04
import Gts.Lemmas.RotateCompose
namespace Gts.C04
open Gts Loc

/-! ### residues: no guard -/

/-- **Rotations compose additively on the residues**: for every record with at least one residue and
all integers `a`, `b` (any sign and magnitude) rotating by `a` and then by `b` yields the same residue
string as rotating once by `a + b`.  No guard. -/
theorem rotate_rotate_bytes (s : Gts.Seq) (a b : Int) (hL : 0 < s.len) :
    ((s.rotate a).rotate b).bytes = (s.rotate (a + b)).bytes := by
  have hlen : s.len = s.bytes.length := rfl
  have hL0 : s.len ≠ 0 := by omega
  apply List.ext_getElem?
  intro j
  by_cases hj : j < s.bytes.length
  · -- position `j` is the image of residue `k = (j - (a + b)) mod L` under both
    have hk0 := Int.emod_nonneg ((j : Int) - (a + b)) hL0
    have hk1 := Int.emod_lt_of_pos ((j : Int) - (a + b)) hL
    generalize hkd : ((j : Int) - (a + b)) % s.len = kk at hk0 hk1
    have hkn : ((kk.toNat : Nat) : Int) = kk := by omega
    have hk : kk.toNat < s.bytes.length := by omega
    have e1 : (kk + (a + b)) % s.len = j := by
      rw [← hkd, Int.emod_add_emod]
      have : (j : Int) - (a + b) + (a + b) = j := by omega
      rw [this, Int.emod_eq_of_lt (by omega) (by omega)]
    have r1 := rotate_bytes_get s (a + b) kk.toNat hk
    rw [hkn, e1] at r1
    -- the two-step side: `k ↦ k₁ = (k + a) mod L ↦ (k₁ + b) mod L`
    have h10 := Int.emod_nonneg (kk + a) hL0
    have h11 := Int.emod_lt_of_pos (kk + a) hL
    have r2 := rotate_bytes_get s a kk.toNat hk
    rw [hkn] at r2
    generalize hk1d : (kk + a) % s.len = k1 at h10 h11 r2
    have hk1n : ((k1.toNat : Nat) : Int) = k1 := by omega
    have hk1' : k1.toNat < (s.rotate a).bytes.length := by
      rw [Seq.rotate_bytes_length]; omega
    have r3 := rotate_bytes_get (s.rotate a) b k1.toNat hk1'
    rw [hk1n, Seq.rotate_len] at r3
    have e2 : (k1 + b) % s.len = j := by
      rw [← hk1d, Int.emod_add_emod]
      have : kk + a + b = kk + (a + b) := by omega
      rw [this, e1]
    rw [e2] at r3
    have hjj : ((j : Int)).toNat = j := by omega
    rw [hjj] at r1 r3
    rw [r3, r2, r1]
  · have l1 : ((s.rotate a).rotate b).bytes.length = s.bytes.length := by
      rw [Seq.rotate_bytes_length, Seq.rotate_bytes_length]
    have l2 : (s.rotate (a + b)).bytes.length = s.bytes.length := Seq.rotate_bytes_length _ _
    rw [List.getElem?_eq_none (by omega), List.getElem?_eq_none (by omega)]

/-- rotating by any multiple of the length returns the residue string itself -/
theorem rotate_mul_bytes (s : Gts.Seq) (k : Int) (hL : 0 < s.len) :
    (s.rotate (k * s.len)).bytes = s.bytes := by
  have hlen : s.len = s.bytes.length := rfl
  rw [rotate_bytes_eq, rotN_eq_emod _ _ hL, Int.mul_emod_left]
  have : (s.len - 0).toNat = s.bytes.length := by omega
  rw [this]
  simp

/-- rotating by `n` and then by `-n` returns the residue string itself -/
theorem rotate_neg_bytes (s : Gts.Seq) (n : Int) (hL : 0 < s.len) :
    ((s.rotate n).rotate (-n)).bytes = s.bytes := by
  rw [rotate_rotate_bytes s n (-n) hL]
  have : n + -n = 0 * s.len := by omega
  rw [this, rotate_mul_bytes s 0 hL]

-- non-vacuity: five residues, `a = 7`, `b = -13`
example : 0 < (⟨[], [65, 67, 71, 84, 78]⟩ : Gts.Seq).len ∧
    (((⟨[], [65, 67, 71, 84, 78]⟩ : Gts.Seq).rotate 7).rotate (-13)).bytes = [67, 71, 84, 78, 65] := by decide

/-! ### feature table

`l₁ := Normalize(Expand(l, 0, a mod L), L)` is the location a feature has after the first rotation.
The guards are those of `rotate_feature_partial`, once per rotation that is performed:

* on the feature as it stands in `s`: `wf`, `nonneg`;
* FIRST rotation, on `l` with the amount `rotN a L = a mod L`: `normOk` (no full-length part, no
  ambiguous span across the new origin), `expandAbs = false`, `normalizeAbs = false` (rule K2 fires
  in neither step);
* SECOND rotation, on `l₁` with the amount `rotN b L = b mod L`: the same three.  (`wf l₁` and
  `nonneg l₁` need no hypothesis: they are consequences of the guards of the first rotation.) -/

/-- the location after one rotation is well formed and non-negative under the guards of that rotation -/
private theorem rotated_wf_nonneg (l : Loc) (n L : Int) (hL : 0 < L) (hn : 0 ≤ n) (hw : wf l = true)
    (hnn : nonneg l = true) (hok : normOk L (expand l 0 n) = true) :
    wf (normalize (expand l 0 n) L) = true ∧ nonneg (normalize (expand l 0 n) L) = true :=
  ⟨(normalize_mod (expand l 0 n) L hL (expand_ins l 0 n hw hn).2 hok).2,
   coordsWithin_nonneg _ L (rotate_coords l n L hL hn hw hnn (ambOk_of_normOk L _ hok))⟩

/-- **Rotations compose additively on every feature (meaning side)**: for a record with at least one
residue and all integers `a`, `b`, every feature of `s` is present in `rotate (rotate s a) b` with
unchanged key and qualifiers, at the location `Normalize(Expand(l₁, 0, b mod L), L)`, and that location
denotes the residues of the original feature at `(x + a + b) mod L`, in the same order and strand —
exactly what ONE rotation by `a + b` is specified to do (`rotate_feature_partial`).  Guards: those of
`rotate_feature_partial` for the first rotation (on the feature's location) and for the second one (on the
location the first rotation produced); none for the single rotation, which is not performed here. -/
theorem rotate_rotate_feature_spec_partial (s : Gts.Seq) (a b : Int) (hL : 0 < s.len) (f : Feature)
    (hf : f ∈ s.feats) (hw : wf f.loc = true) (hnn : nonneg f.loc = true)
    (hok1 : normOk s.len (expand f.loc 0 (rotN a s.len)) = true)
    (h11 : expandAbs f.loc 0 (rotN a s.len) = false)
    (h12 : normalizeAbs (expand f.loc 0 (rotN a s.len)) s.len = false)
    (hok2 : normOk s.len (expand (normalize (expand f.loc 0 (rotN a s.len)) s.len) 0 (rotN b s.len)) = true)
    (h21 : expandAbs (normalize (expand f.loc 0 (rotN a s.len)) s.len) 0 (rotN b s.len) = false)
    (h22 : normalizeAbs (expand (normalize (expand f.loc 0 (rotN a s.len)) s.len) 0 (rotN b s.len)) s.len = false) :
    ∃ f2 ∈ ((s.rotate a).rotate b).feats, f2.key = f.key ∧ f2.props = f.props ∧
      f2.loc = normalize (expand (normalize (expand f.loc 0 (rotN a s.len)) s.len) 0 (rotN b s.len)) s.len ∧
      den f2.loc ≼ mapPos (rotMap (a + b) s.len) (den f.loc) := by
  have hra : 0 ≤ rotN a s.len := by rw [rotN_eq_emod a s.len hL]; exact Int.emod_nonneg _ (by omega)
  have hrb : 0 ≤ rotN b s.len := by rw [rotN_eq_emod b s.len hL]; exact Int.emod_nonneg _ (by omega)
  have hwn := rotated_wf_nonneg f.loc (rotN a s.len) s.len hL hra hw hnn hok1
  -- the feature after the first rotation
  have hf1 : ({ f with loc := (f.loc.expand 0 (rotN a s.len)).normalize s.len } : Feature) ∈ (s.rotate a).feats :=
    mem_of_perm_map (rotate_table_perm s a) hf
  have hlen := Seq.rotate_len s a
  refine ⟨{ f with loc := normalize (expand (normalize (expand f.loc 0 (rotN a s.len)) s.len) 0 (rotN b s.len)) s.len }, ?_,
    rfl, rfl, rfl, ?_⟩
  · have := mem_of_perm_map (rotate_table_perm (s.rotate a) b) hf1
    rw [hlen] at this
    exact this
  · have h := rotate_twice_den_partial f.loc (rotN a s.len) (rotN b s.len) s.len hL hra hrb hw hnn hok1 h11 h12
      hwn.2 hok2 h21 h22
    have e : mapPos (rotMap (rotN a s.len + rotN b s.len) s.len) (den f.loc)
        = mapPos (rotMap (a + b) s.len) (den f.loc) := by
      rw [← rotMap_emod (rotN a s.len + rotN b s.len), ← rotMap_emod (a + b),
        rotN_eq_emod a s.len hL, rotN_eq_emod b s.len hL, ← Int.add_emod]
    rw [e] at h
    exact h

/-- **Rotations compose additively on every feature**: the denotation a feature has after rotating by `a`
and then by `b` EQUALS the denotation it has after one rotation by `a + b` (same key and qualifiers on both
sides).  Guards: `wf`, `nonneg` on the feature; `normOk`, `expandAbs = false`, `normalizeAbs = false` for each
of the THREE rotations that occur in the statement — the first (on `l`, amount `a mod L`), the second (on `l₁`,
amount `b mod L`), the single one (on `l`, amount `(a + b) mod L`) —; and the feature denotes positions inside
the record, each once (`denIn`, `Nodup`: every real feature), which turns "same residues, same order, no
duplicate dropped" into equality of the two lists.

FULL STATEMENT (without the K2 / `normOk` guards): false, see `rotate_rotate_feature_den_full_refuted`.
The SYNTACTIC locations may differ although the denotations agree: `rotate_rotate_loc_full_refuted`. -/
theorem rotate_rotate_feature_den_partial (s : Gts.Seq) (a b : Int) (hL : 0 < s.len) (f : Feature)
    (hf : f ∈ s.feats) (hw : wf f.loc = true) (hnn : nonneg f.loc = true)
    (hok1 : normOk s.len (expand f.loc 0 (rotN a s.len)) = true)
    (h11 : expandAbs f.loc 0 (rotN a s.len) = false)
    (h12 : normalizeAbs (expand f.loc 0 (rotN a s.len)) s.len = false)
    (hok2 : normOk s.len (expand (normalize (expand f.loc 0 (rotN a s.len)) s.len) 0 (rotN b s.len)) = true)
    (h21 : expandAbs (normalize (expand f.loc 0 (rotN a s.len)) s.len) 0 (rotN b s.len) = false)
    (h22 : normalizeAbs (expand (normalize (expand f.loc 0 (rotN a s.len)) s.len) 0 (rotN b s.len)) s.len = false)
    (hok3 : normOk s.len (expand f.loc 0 (rotN (a + b) s.len)) = true)
    (h31 : expandAbs f.loc 0 (rotN (a + b) s.len) = false)
    (h32 : normalizeAbs (expand f.loc 0 (rotN (a + b) s.len)) s.len = false)
    (hin : denIn s.len (den f.loc)) (hnd : (den f.loc).Nodup) :
    ∃ f2 ∈ ((s.rotate a).rotate b).feats, ∃ f1 ∈ (s.rotate (a + b)).feats,
      f2.key = f.key ∧ f2.props = f.props ∧ f1.key = f.key ∧ f1.props = f.props ∧
      den f2.loc = den f1.loc := by
  obtain ⟨f2, m2, k2, p2, _, d2⟩ :=
    rotate_rotate_feature_spec_partial s a b hL f hf hw hnn hok1 h11 h12 hok2 h21 h22
  obtain ⟨f1, m1, k1, p1, d1⟩ := rotate_feature_partial s (a + b) hL f hf hw hnn hok3 h31 h32
  have nd := nodup_mapPos_rotMap (a + b) s.len hL _ hin hnd
  exact ⟨f2, m2, f1, m1, k2, p2, k1, p1, (d2.eq_of_nodup nd).trans (d1.eq_of_nodup nd).symm⟩

/-- **A rotation by a multiple of the length gives every feature its own denotation back**: for every
integer `k` every feature of `s` is present in `rotate s (k·L)` with unchanged key and qualifiers and a
location that denotes the same residues in the same order (`≼`: `Join` may drop a residue that is denoted
twice; equality as soon as the feature denotes every position once).  The rotation amount the code computes
is `0`, so the guards are those of `rotate_feature_partial` at `n = 0` — the code still rebuilds every
composite location through `Expand(0, 0)` and `Normalize(L)`, hence through `Join` — plus `denIn`. -/
theorem rotate_mul_feature_partial (s : Gts.Seq) (k : Int) (hL : 0 < s.len) (f : Feature)
    (hf : f ∈ s.feats) (hw : wf f.loc = true) (hnn : nonneg f.loc = true)
    (hok : normOk s.len (expand f.loc 0 0) = true)
    (h1 : expandAbs f.loc 0 0 = false) (h2 : normalizeAbs (expand f.loc 0 0) s.len = false)
    (hin : denIn s.len (den f.loc)) :
    ∃ f' ∈ (s.rotate (k * s.len)).feats, f'.key = f.key ∧ f'.props = f.props ∧
      den f'.loc ≼ den f.loc ∧ ((den f.loc).Nodup → den f'.loc = den f.loc) := by
  have hr : rotN (k * s.len) s.len = 0 := by rw [rotN_eq_emod _ _ hL, Int.mul_emod_left]
  obtain ⟨f', m, hk, hp, d⟩ := rotate_feature_partial s (k * s.len) hL f hf hw hnn
    (by rw [hr]; exact hok) (by rw [hr]; exact h1) (by rw [hr]; exact h2)
  rw [mapPos_rotMap_mul k s.len hL _ hin] at d
  exact ⟨f', m, hk, hp, d, fun nd => d.eq_of_nodup nd⟩

/-- **Rotating by `n` and then by `-n` gives every feature its own denotation back** (same key and
qualifiers; `≼`, equality for a duplicate-free denotation).  Guards: those of `rotate_feature_partial` for
the first rotation (on `l`, amount `n mod L`) and for the second (on `l₁`, amount `(-n) mod L`), plus
`denIn`. -/
theorem rotate_neg_feature_partial (s : Gts.Seq) (n : Int) (hL : 0 < s.len) (f : Feature)
    (hf : f ∈ s.feats) (hw : wf f.loc = true) (hnn : nonneg f.loc = true)
    (hok1 : normOk s.len (expand f.loc 0 (rotN n s.len)) = true)
    (h11 : expandAbs f.loc 0 (rotN n s.len) = false)
    (h12 : normalizeAbs (expand f.loc 0 (rotN n s.len)) s.len = false)
    (hok2 : normOk s.len (expand (normalize (expand f.loc 0 (rotN n s.len)) s.len) 0 (rotN (-n) s.len)) = true)
    (h21 : expandAbs (normalize (expand f.loc 0 (rotN n s.len)) s.len) 0 (rotN (-n) s.len) = false)
    (h22 : normalizeAbs (expand (normalize (expand f.loc 0 (rotN n s.len)) s.len) 0 (rotN (-n) s.len)) s.len = false)
    (hin : denIn s.len (den f.loc)) :
    ∃ f2 ∈ ((s.rotate n).rotate (-n)).feats, f2.key = f.key ∧ f2.props = f.props ∧
      den f2.loc ≼ den f.loc ∧ ((den f.loc).Nodup → den f2.loc = den f.loc) := by
  obtain ⟨f2, m, hk, hp, _, d⟩ :=
    rotate_rotate_feature_spec_partial s n (-n) hL f hf hw hnn hok1 h11 h12 hok2 h21 h22
  have e : n + -n = 0 * s.len := by omega
  rw [e, mapPos_rotMap_mul 0 s.len hL _ hin] at d
  exact ⟨f2, m, hk, hp, d, fun nd => d.eq_of_nodup nd⟩

/-! ### the same laws for the full-length feature (`source 1..L`), which `normOk` excludes above -/

/-- **composition laws for the full-length feature**: a feature whose location is the whole-sequence
range (either strand, any markers; `C04.fullLength`) is, UNCHANGED, a feature of `rotate (rotate s a) b`
and of `rotate s (a + b)` (additivity), of `rotate s (k·L)` (identity) and of `rotate (rotate s n) (-n)`
(inverse), for all integers `a`, `b`, `k`, `n`.  No guard.  (Immediate from `rotate_full_length_feature`:
the feature is a fixed point of every rotation.) -/
theorem rotate_full_length_feature_laws (s : Gts.Seq) (a b k n : Int) (hL : 0 < s.len) (f : Feature)
    (hf : f ∈ s.feats) (hfl : fullLength s.len f.loc = true) :
    f ∈ ((s.rotate a).rotate b).feats ∧ f ∈ (s.rotate (a + b)).feats ∧
    f ∈ (s.rotate (k * s.len)).feats ∧ f ∈ ((s.rotate n).rotate (-n)).feats := by
  have two : ∀ x y : Int, f ∈ ((s.rotate x).rotate y).feats := fun x y =>
    rotate_full_length_feature (s.rotate x) y (by rw [Seq.rotate_len]; exact hL) f
      (rotate_full_length_feature s x hL f hf hfl) (by rw [Seq.rotate_len]; exact hfl)
  exact ⟨two a b, rotate_full_length_feature s (a + b) hL f hf hfl,
    rotate_full_length_feature s (k * s.len) hL f hf hfl, two n (-n)⟩

/-- non-vacuity: the `source` feature of a ten-residue record -/
example :
    let s : Gts.Seq := ⟨[⟨"source", ranged 0 10 false false, []⟩], [65, 67, 71, 84, 65, 67, 71, 84, 65, 67]⟩
    0 < s.len ∧ fullLength s.len (ranged 0 10 false false) = true ∧
    normOk s.len (expand (ranged 0 10 false false) 0 (rotN 3 s.len)) = false := by decide

/-! ### non-vacuity, and where the laws stop -/

/-- non-vacuity of the four feature theorems: a ten-residue record with a complement-strand join carrying
both outer markers, `a = 3` (the join then crosses the origin: `complement(join(<5..6,10,1..>2))`), `b = -5`
(`rotN = 5`), the single rotation by `a + b = -2` (`rotN = 8`); and `n = 3`, `-n` (`rotN = 7`); and `n = 0`. -/
example :
    let l := compl (joined [ranged 1 3 true false, ranged 6 9 false true])
    let s : Gts.Seq := ⟨[⟨"gene", l, []⟩], [65, 67, 71, 84, 65, 67, 71, 84, 65, 67]⟩
    0 < s.len ∧ wf l = true ∧ nonneg l = true ∧
    normOk s.len (expand l 0 (rotN 3 s.len)) = true ∧ expandAbs l 0 (rotN 3 s.len) = false ∧
    normalizeAbs (expand l 0 (rotN 3 s.len)) s.len = false ∧
    normOk s.len (expand (normalize (expand l 0 (rotN 3 s.len)) s.len) 0 (rotN (-5) s.len)) = true ∧
    expandAbs (normalize (expand l 0 (rotN 3 s.len)) s.len) 0 (rotN (-5) s.len) = false ∧
    normalizeAbs (expand (normalize (expand l 0 (rotN 3 s.len)) s.len) 0 (rotN (-5) s.len)) s.len = false ∧
    normOk s.len (expand l 0 (rotN (3 + -5) s.len)) = true ∧ expandAbs l 0 (rotN (3 + -5) s.len) = false ∧
    normalizeAbs (expand l 0 (rotN (3 + -5) s.len)) s.len = false ∧
    normOk s.len (expand (normalize (expand l 0 (rotN 3 s.len)) s.len) 0 (rotN (-3) s.len)) = true ∧
    expandAbs (normalize (expand l 0 (rotN 3 s.len)) s.len) 0 (rotN (-3) s.len) = false ∧
    normalizeAbs (expand (normalize (expand l 0 (rotN 3 s.len)) s.len) 0 (rotN (-3) s.len)) s.len = false ∧
    normOk s.len (expand l 0 0) = true ∧ expandAbs l 0 0 = false ∧ normalizeAbs (expand l 0 0) s.len = false ∧
    denIn s.len (den l) ∧ (den l).Nodup ∧
    (normalize (expand l 0 (rotN 3 s.len)) s.len).beq
      (compl (joined [ranged 4 6 true false, ranged 9 10 false false, ranged 0 2 false true])) = true ∧
    -- the feature after `rotate 3` then `rotate (-5)` and after `rotate (-2)`: the same location here
    (((s.rotate 3).rotate (-5)).feats.map (·.loc)).length = 1 ∧
    (∀ l2 ∈ ((s.rotate 3).rotate (-5)).feats.map (·.loc), ∀ l1 ∈ (s.rotate (3 + -5)).feats.map (·.loc),
      l2.beq (compl (joined [ranged 9 10 true false, ranged 0 1 false false, ranged 4 7 false true])) = true ∧
      l1.beq l2 = true) := by
  decide

/-- FULL STATEMENT of the additive law on denotations — without the `normOk` / K2 guards — is false on the
model, and on the code: `join(2..3,1)` on a circle of three residues (a feature that covers the whole circle,
read from residue 2).  Rotating by 2 makes the parts `1..2`, `3` abut, `Join` merges them into the full-length
range `1..3` (still the right residues in the right order: 2,3,1 → 1,2,3); the next rotation by 1 sees a
full-length range, which `Ranged.Normalize` re-bases to `1..3` — the reading start is gone — while ONE
rotation by `2 + 1 = 3 ≡ 0` leaves `join(2..3,1)`.  The guard that fails is `normOk` of the SECOND rotation
(a full-length part).  This is the case the property words as "a full-length feature stays full-length" and
the harness oracle allows as "either the rotated residues in order or the whole range 1..L" (C04-d). -/
theorem rotate_rotate_feature_den_full_refuted :
    ¬ (∀ (l : Loc) (a b L : Int), 0 < L → 0 ≤ a → 0 ≤ b → wf l = true → nonneg l = true →
        denIn L (den l) → (den l).Nodup →
        den (normalize (expand (normalize (expand l 0 (rotN a L)) L) 0 (rotN b L)) L)
          = den (normalize (expand l 0 (rotN (a + b) L)) L)) := by
  intro h
  have := h (joined [ranged 1 3 false false, ranged 0 1 false false]) 2 1 3 (by decide) (by decide) (by decide)
    (by decide) (by decide) (by decide) (by decide)
  revert this
  decide

/-- … the first rotation of that witness is still inside every guard and correct; it is the second one that
meets a full-length part -/
example :
    let l := joined [ranged 1 3 false false, ranged 0 1 false false]
    normOk 3 (expand l 0 (rotN 2 3)) = true ∧ expandAbs l 0 (rotN 2 3) = false ∧
    normalizeAbs (expand l 0 (rotN 2 3)) 3 = false ∧
    (normalize (expand l 0 (rotN 2 3)) 3).beq (ranged 0 3 false false) = true ∧
    normOk 3 (expand (normalize (expand l 0 (rotN 2 3)) 3) 0 (rotN 1 3)) = false := by
  decide

/-- the guards of `rotate_rotate_feature_den_partial` on a bare location -/
def rotateRotateGuards (l : Loc) (a b L : Int) : Bool :=
  wf l && nonneg l &&
  normOk L (expand l 0 (rotN a L)) && !expandAbs l 0 (rotN a L) && !normalizeAbs (expand l 0 (rotN a L)) L &&
  normOk L (expand (normalize (expand l 0 (rotN a L)) L) 0 (rotN b L)) &&
  !expandAbs (normalize (expand l 0 (rotN a L)) L) 0 (rotN b L) &&
  !normalizeAbs (expand (normalize (expand l 0 (rotN a L)) L) 0 (rotN b L)) L &&
  normOk L (expand l 0 (rotN (a + b) L)) && !expandAbs l 0 (rotN (a + b) L) &&
  !normalizeAbs (expand l 0 (rotN (a + b) L)) L

/-- The SYNTACTIC location after two rotations may differ from the one after the single rotation although
every guard of `rotate_rotate_feature_den_partial` holds and the denotations are equal.  What was looked for
first — a range the first rotation splits at the origin and the second does not merge again — does not occur:
`Join` pushes with `force`, so the two halves `[s, L)`, `[0, e)` abut again after any further rotation and are
merged (searched with `#eval`: no syntactic difference for any unmarked point / range / ambiguous span / join of
up to three parts / order / complement on circles of length 4 and 5 inside the guards).  The difference lives
one step further: the half that was split off merges with the NEIGHBOURING part when that abuts, and the merge
keeps the outer markers of the pair only.  Witness, circle of four: `join(2..4,<1..>1)`, rotated by 1 it is
`join(3..4,1,<2..>2)` pushed with `force` = `join(3..4,1..>2)` — the inner 5' marker of the second part is
dropped; rotated on by 3 it is `join(2..4,1..>1)`, where one rotation by 4 ≡ 0 keeps `join(2..4,<1..>1)`.
Same residues, same outer markers, different text. -/
theorem rotate_rotate_loc_full_refuted :
    ¬ (∀ (l : Loc) (a b L : Int), 0 < L → rotateRotateGuards l a b L = true →
        denIn L (den l) → (den l).Nodup →
        (normalize (expand (normalize (expand l 0 (rotN a L)) L) 0 (rotN b L)) L).beq
          (normalize (expand l 0 (rotN (a + b) L)) L) = true) := by
  intro h
  have := h (joined [ranged 1 4 false false, ranged 0 1 true true]) 1 3 4 (by decide) (by decide)
    (by decide) (by decide)
  revert this
  decide

/-- the witness spelled out: both sides, equal denotations, equal outer markers -/
example :
    let l := joined [ranged 1 4 false false, ranged 0 1 true true]
    let two := normalize (expand (normalize (expand l 0 (rotN 1 4)) 4) 0 (rotN 3 4)) 4
    let one := normalize (expand l 0 (rotN (1 + 3) 4)) 4
    (normalize (expand l 0 (rotN 1 4)) 4).beq (joined [ranged 2 4 false false, ranged 0 2 false true]) = true ∧
    two.beq (joined [ranged 1 4 false false, ranged 0 1 false true]) = true ∧
    one.beq (joined [ranged 1 4 false false, ranged 0 1 true true]) = true ∧
    den two = den one ∧ outerMarks two = outerMarks one := by
  decide

/-- A second syntactic difference, on a feature WITHOUT residues (so no statement about denotations sees it):
a between-site that a rotation has brought to the origin stays there.  `Between.Expand(0, n)` moves `p` only
when `0 < p`, and `Between{L}` is normalised to `Between{0}`: on a circle of four `2^3` (the site between
residues 1 and 2) rotated by 3 is `0^1` — the origin, correct —, rotated on by 1 it is still `0^1`, where one
rotation by 4 ≡ 0 keeps `2^3`.  All guards hold (the denotation is empty on both sides). -/
theorem rotate_rotate_between_origin_stuck :
    rotateRotateGuards (between 1) 3 1 4 = true ∧
    (normalize (expand (between 1) 0 (rotN 3 4)) 4).beq (between 0) = true ∧
    (normalize (expand (normalize (expand (between 1) 0 (rotN 3 4)) 4) 0 (rotN 1 4)) 4).beq (between 0) = true ∧
    (normalize (expand (between 1) 0 (rotN (3 + 1) 4)) 4).beq (between 1) = true ∧
    (∀ n : Int, 0 ≤ n → expand (between 0) 0 n = between 0) := by
  refine ⟨by decide, by decide, by decide, by decide, ?_⟩
  intro n _
  simp [expand, betweenExpand]

end Gts.C04
