/-
  C08 — Resizing a region equals slicing its spliced sequence; locators compose.
  Property theorems only (helper lemmas live in Gts/Lemmas/{Resize,ModText,ModRoundTrip,Locator}).

  Vocabulary: `Reg.den r` is the ordered, stranded list of residues `r.Locate(seq)` reads
  (Gts/Spec/Den.lean); `Reg.bounds m total = (lo, hi)` are the offsets, counted from the 5' end
  of the region along its own direction, that `Regions.Resize` computes for the modifier;
  `Reg.mirror L` is the region as seen on the reverse-complemented record of length `L`.
-/
import Gts.Lemmas.Resize
import Gts.Lemmas.ModRoundTrip
import Gts.Lemmas.Locator
import Gts.Lemmas.ResizeLocate
namespace Gts.C08
open Gts Reg Pars

/-! ### `Modifier.Apply` -/

/-- the five `Apply` on a forward pair (`h ≤ t`), form by form -/
theorem apply_forms_fwd (h t p q : Int) (hle : h ≤ t) :
    (Mod.head p).apply h t = (h + p, h + p) ∧
    (Mod.tail q).apply h t = (t + q, t + q) ∧
    (Mod.headTail p q).apply h t = (h + p, Loc.gmax (h + p) (t + q)) ∧
    (Mod.headHead p q).apply h t = (h + p, Loc.gmax (h + p) (h + q)) ∧
    (Mod.tailTail p q).apply h t = (t + p, Loc.gmax (t + p) (t + q)) := by
  have : ¬ t < h := by omega
  simp [Mod.apply, Mod.applyFwd, this]

/-- the five `Apply` on a backward pair (`t < h`, complement strand): the same offsets, applied
along the pair's own direction (signs flipped, `Max` becomes `Min`) -/
theorem apply_forms_bwd (h t p q : Int) (hlt : t < h) :
    (Mod.head p).apply h t = (h - p, h - p) ∧
    (Mod.tail q).apply h t = (t - q, t - q) ∧
    (Mod.headTail p q).apply h t = (h - p, Loc.gmin (h - p) (t - q)) ∧
    (Mod.headHead p q).apply h t = (h - p, Loc.gmin (h - p) (h - q)) ∧
    (Mod.tailTail p q).apply h t = (t - p, Loc.gmin (t - p) (t - q)) := by
  simp only [Mod.apply, Mod.applyFwd, hlt, ↓reduceIte, Loc.gmax, Loc.gmin, Prod.mk.injEq]
  refine ⟨⟨?_, ?_⟩, ⟨?_, ?_⟩, ⟨?_, ?_⟩, ⟨?_, ?_⟩, ⟨?_, ?_⟩⟩ <;> (repeat' split) <;> omega

/-- all forms at once, forward pair: `(h + lo, h + max lo hi)` with `(lo, hi)` the modifier's
bounds over the pair's length -/
theorem apply_fwd (m : Mod) (h t : Int) (hle : h ≤ t) :
    m.apply h t = (h + (bounds m (t - h)).1, h + Loc.gmax (bounds m (t - h)).1 (bounds m (t - h)).2) := by
  have hg : gabs (t - h) = t - h := by unfold gabs; split <;> omega
  rw [Mod.apply_eq, if_neg (by omega), hg]

/-- all forms at once, backward pair: `(h - lo, h - max lo hi)` -/
theorem apply_bwd (m : Mod) (h t : Int) (hlt : t < h) :
    m.apply h t = (h - (bounds m (h - t)).1, h - Loc.gmax (bounds m (h - t)).1 (bounds m (h - t)).2) := by
  have hg : gabs (t - h) = h - t := by unfold gabs; split <;> omega
  rw [Mod.apply_eq, if_pos hlt, hg]

/-- the negation trick of the Go code as a law: applying to the negated pair and negating back
is the identity on results, for every non-empty pair of either orientation -/
theorem apply_neg (m : Mod) (h t : Int) (hne : h ≠ t) :
    m.apply h t = (-(m.apply (-h) (-t)).1, -(m.apply (-h) (-t)).2) := by
  have hg : gabs (-t - -h) = gabs (t - h) := by unfold gabs; split <;> split <;> omega
  rw [Mod.apply_eq m h t, Mod.apply_eq m (-h) (-t), hg]
  by_cases hth : t < h
  · rw [if_pos hth, if_neg (by omega)]; simp only [Prod.mk.injEq]; constructor <;> omega
  · rw [if_neg hth, if_pos (by omega)]; simp only [Prod.mk.injEq]; constructor <;> omega

/-- mirror law for one pair: on the reverse-complemented record of length `L` the pair
`(h, t)` is `(L - h, L - t)`, and `Apply` commutes with that change of coordinates -/
theorem apply_mirror (m : Mod) (L h t : Int) (hne : h ≠ t) :
    m.apply (L - h) (L - t) = (L - (m.apply h t).1, L - (m.apply h t).2) := by
  rw [Mod.apply_eq m h t, Mod.apply_eq m (L - h) (L - t), gabs_mirror]
  by_cases hth : t < h
  · rw [if_pos hth, if_neg (by omega)]; simp only [Prod.mk.injEq]; constructor <;> omega
  · rw [if_neg hth, if_pos (by omega)]; simp only [Prod.mk.injEq]; constructor <;> omega

/-- … and the guard `h ≠ t` is needed: an empty pair has no orientation, `Apply` reads it as
forward on both records (`Head(2)` on `(5,5)`, `L = 10`: `(7,7)` mirrored is `(3,3)`, but the
mirrored pair `(5,5)` resizes to `(7,7)`). -/
theorem apply_mirror_empty_refuted :
    ¬ ∀ (m : Mod) (L h : Int), m.apply (L - h) (L - h) = (L - (m.apply h h).1, L - (m.apply h h).2) := by
  intro H
  have := H (.head 2) 10 5
  revert this
  decide

/-! ### MAIN: resizing = slicing the spliced sequence -/

/-- a region's length is the number of residues it reads -/
theorem len_eq_residues (r : Reg) (hv : nonvoid r = true) : len r = ((den r).length : Int) :=
  (denLaw_of_nonvoid r hv).1

/-- MAIN.  For every region `r` — a segment of either orientation, a `Regions` value of any
number of elements of any orientation mix, nested to any depth, as long as no `Regions` value
in it is empty — and every modifier `m` of the five forms whose bounds `(lo, hi)` stay inside
the region (`0 ≤ lo ≤ hi ≤ len r`), the residues read by the resized region are exactly the
residues `lo .. hi-1` of the residues read by `r`, in the same order and on the same strand:
`^` is the region's 5' end and `$` its 3' end in the direction of its strand. -/
theorem resize_den (r : Reg) (m : Mod) (hv : nonvoid r = true)
    (h0 : 0 ≤ (bounds m (len r)).1) (h1 : (bounds m (len r)).1 ≤ (bounds m (len r)).2)
    (h2 : (bounds m (len r)).2 ≤ len r) :
    den (resize r m) =
      ((den r).drop (bounds m (len r)).1.toNat).take ((bounds m (len r)).2 - (bounds m (len r)).1).toNat :=
  (denLaw_of_nonvoid r hv).2 m h0 h1 h2

/-- **resize_locate_bytes** — the MAIN theorem at the byte level ("the extracted sequence").  For a record
`s`, a region `r` INSIDE it (`Reg.within s.len r`: both ends of every segment, zero-length ones included, lie
in `[0, len]` — the condition under which no `Slice` inside the real `Locate` panics or wraps), no `Regions`
value in `r` empty, and a modifier whose bounds satisfy `0 ≤ lo ≤ hi ≤ len r`: the residues extracted by
`r.Resize(m).Locate(s)` are the residues of `Slice(r.Locate(s), lo, hi)`, which are bytes `lo .. hi-1` of the
residues extracted by `r.Locate(s)`.  BYTES only: nothing is said about the feature table of the two
sequences, nor — on the real code — about `r.Resize(m)` itself staying clear of a panicking `Slice`. -/
theorem resize_locate_bytes (r : Reg) (m : Mod) (s : Seq) (hv : nonvoid r = true)
    (hb : within s.len r)
    (h0 : 0 ≤ (bounds m (len r)).1) (h1 : (bounds m (len r)).1 ≤ (bounds m (len r)).2)
    (h2 : (bounds m (len r)).2 ≤ len r) :
    (locate (resize r m) s).bytes =
        ((locate r s).slice (bounds m (len r)).1 (bounds m (len r)).2).bytes ∧
    ((locate r s).slice (bounds m (len r)).1 (bounds m (len r)).2).bytes =
      ((locate r s).bytes.drop (bounds m (len r)).1.toNat).take
        ((bounds m (len r)).2 - (bounds m (len r)).1).toNat := by
  have hs := slice_bytes_inside (locate r s) _ _ h0 h1
  exact ⟨(resize_locate_bytes_den r m s hv (denIn_of_within hb) h0 h1 h2).trans hs.symm, hs⟩

/-- non-vacuity: a mixed-orientation three-segment region inside a 12-residue record, `^+2..^+5`:
hypotheses hold and the extraction is evaluated (`acgt` ++ reverse complement of `gt` ++ `gt` = `acgtacgt`,
its bytes 2..4 = `gta`; 97 = a, 99 = c, 103 = g, 116 = t) -/
example :
    let s : Seq := ⟨[], [97, 99, 103, 116, 97, 99, 103, 116, 97, 99, 103, 116]⟩
    let r := many [seg 0 4, seg 8 6, seg 10 12]
    let m := Mod.headHead 2 5
    nonvoid r = true ∧ within s.len r ∧ bounds m (len r) = (2, 5) ∧ len r = 8 ∧
    (locate r s).bytes = [97, 99, 103, 116, 97, 99, 103, 116] ∧
    (locate (resize r m) s).bytes = [103, 116, 97] := by decide

/-- the flat case of the property text: `1..n` segments (`(head, tail)` pairs, forward when
`head ≤ tail`, backward otherwise, any mix, empty segments allowed) -/
theorem resize_den_flat (segs : List (Int × Int)) (m : Mod) (hne : segs ≠ [])
    (h0 : 0 ≤ (bounds m (len (many (segs.map fun s => seg s.1 s.2)))).1)
    (h1 : (bounds m (len (many (segs.map fun s => seg s.1 s.2)))).1 ≤
          (bounds m (len (many (segs.map fun s => seg s.1 s.2)))).2)
    (h2 : (bounds m (len (many (segs.map fun s => seg s.1 s.2)))).2 ≤
          len (many (segs.map fun s => seg s.1 s.2))) :
    den (resize (many (segs.map fun s => seg s.1 s.2)) m) =
      ((den (many (segs.map fun s => seg s.1 s.2))).drop
          (bounds m (len (many (segs.map fun s => seg s.1 s.2)))).1.toNat).take
        ((bounds m (len (many (segs.map fun s => seg s.1 s.2)))).2 -
          (bounds m (len (many (segs.map fun s => seg s.1 s.2)))).1).toNat := by
  refine resize_den _ m ?_ h0 h1 h2
  have hl : ∀ l : List (Int × Int), nonvoidList (l.map fun s => seg s.1 s.2) = true := by
    intro l; induction l with
    | nil => rfl
    | cons a tl ih => simp [nonvoidList, nonvoid, ih]
  cases segs with
  | nil => exact absurd rfl hne
  | cons a tl => simp only [nonvoid, List.map_cons, List.isEmpty_cons, Bool.not_false, Bool.true_and]; exact hl (a :: tl)

/-- a resized segment in closed form: for every modifier with `lo ≤ hi` (inside or outside)
the result is `(h ± lo, h ± hi)` along the segment's own direction -/
theorem resize_seg (h t : Int) (m : Mod)
    (h1 : (bounds m (gabs (t - h))).1 ≤ (bounds m (gabs (t - h))).2) :
    resize (seg h t) m =
      if t < h then seg (h - (bounds m (gabs (t - h))).1) (h - (bounds m (gabs (t - h))).2)
      else seg (h + (bounds m (gabs (t - h))).1) (h + (bounds m (gabs (t - h))).2) :=
  resize_seg_eq h t m h1

/-- offsets outside a single segment extend it outward: with `a = max 0 (-lo)` and
`b = max 0 (hi - len)`, the resized segment reads the residues `lo + a .. hi + a - 1` of the
segment whose head is moved outward by `a` and whose tail is moved outward by `b`
(no bound on `lo`, `hi` other than `lo ≤ hi`) -/
theorem resize_seg_outside (h t : Int) (m : Mod) (lo hi : Int)
    (hb : bounds m (gabs (t - h)) = (lo, hi)) (h1 : lo ≤ hi) :
    den (resize (seg h t) m) =
      sliceDen (den (extSeg h t (Loc.gmax 0 (-lo)) (Loc.gmax 0 (hi - gabs (t - h)))))
        (lo + Loc.gmax 0 (-lo)) (hi + Loc.gmax 0 (-lo)) :=
  resize_seg_ext_den h t m lo hi hb h1

/-- offsets outside a flat region of any number of segments (either orientation, any mix)
extend its first / last segment outward: for every modifier with `lo ≤ hi` (no other bound) the
resized region reads the residues `lo + a .. hi + a - 1` of the region whose first segment's head
is moved outward by `a = max 0 (-lo)` and whose last segment's tail is moved outward by
`b = max 0 (hi - len)`; inside (`a = b = 0`) this is `resize_den` again -/
theorem resize_flat_outside (rs : List Reg) (hflat : rs.all isSeg = true) (hne : rs ≠ []) (m : Mod)
    (lo hi : Int) (hb : bounds m (lenList rs) = (lo, hi)) (h1 : lo ≤ hi) :
    den (resize (many rs) m) =
      sliceDen (denList (extLast (Loc.gmax 0 (hi - lenList rs)) (extFirst (Loc.gmax 0 (-lo)) rs)))
        (lo + Loc.gmax 0 (-lo)) (hi + Loc.gmax 0 (-lo)) :=
  resizeFlat_outside rs hflat hne m lo hi hb h1

/-- non-vacuity of `resize_flat_outside`: `^-2..$+3` on a forward and a backward segment: two
bases before the first segment, three bases beyond the 3' end of the second -/
example : den (resize (many [seg 10 12, seg 20 17]) (.headTail (-2) 3)) =
    [(8, false), (9, false), (10, false), (11, false),
     (19, true), (18, true), (17, true), (16, true), (15, true), (14, true)] ∧
    bounds (.headTail (-2) 3) (lenList [seg 10 12, seg 20 17]) = (-2, 8) := by decide

/-- non-vacuity of `resize_den`: a three-segment region and a modifier spanning all three -/
example : nonvoid (many [seg 0 5, seg 10 12, seg 20 30]) = true ∧
    bounds (.headHead 4 9) (len (many [seg 0 5, seg 10 12, seg 20 30])) = (4, 9) ∧
    len (many [seg 0 5, seg 10 12, seg 20 30]) = 17 := by decide

/-- … and what the theorem says there, evaluated: bases 4 | 10 11 | 20 21 -/
example : den (resize (many [seg 0 5, seg 10 12, seg 20 30]) (.headHead 4 9)) =
    [(4, false), (10, false), (11, false), (20, false), (21, false)] := by decide

/-- the same region on the complement strand (as `complement(join(..))` yields it): `^+4..^+9`
counts from the 5' end of the reverse strand -/
example : den (resize (many [seg 30 20, seg 12 10, seg 5 0]) (.headHead 4 9)) =
    [(25, true), (24, true), (23, true), (22, true), (21, true)] := by decide

/-- the witness of the repaired defect F3 (commit 83028a8), on the model: the walk stops at the
bounding segment -/
example : (resize (many [seg 0 5, seg 10 12, seg 20 30]) (.headHead 2 4) == seg 2 4) = true := by decide

/-- non-vacuity of `resize_seg_outside`: `^-3..$+2` on the backward segment `(9, 4)` -/
example : den (resize (seg 9 4) (.headTail (-3) 2)) =
    sliceDen (den (extSeg 9 4 3 2)) 0 10 ∧ (den (resize (seg 9 4) (.headTail (-3) 2))).length = 10 := by
  decide

/-! ### resizing commutes with strand mirroring -/

/-- For every proper region (no empty `Regions`, every segment non-empty; any orientation mix
and nesting) resizing commutes with `mirror L`: what `^..$`-relative offsets select does not
depend on which strand of the record the coordinates are written on. -/
theorem resize_mirror (L : Int) (r : Reg) (m : Mod) (hp : proper r = true) :
    resize (mirror L r) m = mirror L (resize r m) :=
  mirrorLaw_of_proper L r hp m

/-- `mirror L` is what it claims to be — the change of coordinates to the reverse-complemented
record: a proper region and its mirror image read, position by position, mirrored residues
(`x ↦ L - 1 - x`) on the opposite strand, in the same order.  Together with `resize_mirror`:
a modifier selects the same residues of a feature whichever strand the record is written on. -/
theorem mirror_den (L : Int) (r : Reg) (hp : proper r = true) :
    den (mirror L r) = (den r).map (mirrorPos L) :=
  Gts.den_mirror L r hp

/-- the guard "every segment non-empty" is needed (an empty segment is read as forward on both
records): `Head(2)` on the empty segment `(5, 5)`, `L = 10` -/
theorem resize_mirror_empty_refuted :
    ¬ ∀ (L : Int) (r : Reg) (m : Mod), nonvoid r = true → resize (mirror L r) m = mirror L (resize r m) := by
  intro H
  have := H 10 (seg 5 5) (.head 2) rfl
  simp [mirror, resize, Mod.apply, Mod.applyFwd] at this

/-- the law is *not* commutation with `Region.Complement()`, which swaps the ends that `^` and
`$` refer to: `Head(1)` on `(3, 6)` -/
theorem resize_complement_refuted :
    ¬ ∀ (r : Reg) (m : Mod), proper r = true → resize (complement r) m = complement (resize r m) := by
  intro H
  have := H (seg 3 6) (.head 1) (by decide)
  simp [complement, resize, Mod.apply, Mod.applyFwd] at this

/-- non-vacuity: a mixed-orientation nested region is proper -/
example : proper (many [seg 3 8, many [seg 20 15, seg 30 32], seg 40 41]) = true := by decide

/-! ### modifier text -/

/-- `Modifier.String()` of the forms of the property text, byte for byte:
`^`, `^+3`, `^-2`, `$`, `^..$`, `^+1..$-2`, `^..^+5`, `$-3..$` -/
example : Mod.printB (.head 0) = [94] ∧ Mod.printB (.head 3) = [94, 43, 51] ∧
    Mod.printB (.head (-2)) = [94, 45, 50] ∧ Mod.printB (.tail 0) = [36] ∧
    Mod.printB (.headTail 0 0) = [94, 46, 46, 36] ∧
    Mod.printB (.headTail 1 (-2)) = [94, 43, 49, 46, 46, 36, 45, 50] ∧
    Mod.printB (.headHead 0 5) = [94, 46, 46, 94, 43, 53] ∧
    Mod.printB (.tailTail (-3) 0) = [36, 45, 51, 46, 46, 36] := by decide

/-- `AsModifier(m.String()) = m` for all five forms and all offsets a Go `int` can hold
(the model's `strconv.Atoi` rejects anything beyond 64 bits, hence `fits64`). -/
theorem parse_print_mod (m : Mod) (hf : m.fits64) : asModifier m.printB = .ok m :=
  asModifier_printB m hf

/-- non-vacuity -/
example : (Mod.headTail 1 (-2)).fits64 ∧ (Mod.tailTail (-9223372036854775808) 9223372036854775807).fits64 := by
  simp [Mod.fits64, fits64]

/-! ### locators -/

/-- bare modifier ↦ the whole sequence resized: `AsLocator(m.String())` is
`relativeLocator(m)`, whatever the selector oracle says, and yields `[Segment{0, L}.Resize(m)]` -/
theorem locator_bare_modifier (selOk : Bytes → Bool) (filt : Bytes → Feature → Bool) (seq : Seq)
    (m : Mod) (hf : m.fits64) :
    asLocator selOk m.printB = .bareModifier m ∧
    (asLocator selOk m.printB).apply filt seq = [resize (seg 0 seq.len) m] := by
  have h : asLocator selOk m.printB = .bareModifier m := by
    unfold asLocator
    rw [splitAt_noAt _ (printB_noAt m)]
    simp [asLocatorBare, asModifier_printB m hf]
  exact ⟨h, by rw [h]; rfl⟩

/-- … and that region reads the bases `lo .. hi-1` of the sequence (forward strand) whenever
`lo ≤ hi`, inside or outside `[0, L]` -/
theorem locator_bare_modifier_den (L : Int) (hL : 0 ≤ L) (m : Mod)
    (h1 : (bounds m L).1 ≤ (bounds m L).2) :
    den (resize (seg 0 L) m) = fwd (irange (bounds m L).1 ((bounds m L).2 - (bounds m L).1).toNat) := by
  have hg : gabs (L - 0) = L := by unfold gabs; split <;> omega
  rw [resize_seg_eq 0 L m (by rw [hg]; exact h1), hg, if_neg (by omega)]
  simp only [den, Int.zero_add]
  rw [if_neg (by omega)]

/-- precedence: a string without `@` is read by `asLocatorBare` (Gts/Model/Locator.lean), which
tries, in this order, modifier, point / range / complement location, selector … -/
theorem locator_precedence (selOk : Bytes → Bool) (s : Bytes) (hs : (64 : UInt8) ∉ s) :
    asLocator selOk s = asLocatorBare selOk s := by
  unfold asLocator
  rw [splitAt_noAt s hs]

/-- … so whatever parses as a modifier is never read as a location or a selector -/
theorem locator_modifier_first (selOk : Bytes → Bool) (s : Bytes) (m : Mod) (hs : (64 : UInt8) ∉ s)
    (hm : asModifier s = .ok m) : asLocator selOk s = .bareModifier m := by
  rw [locator_precedence selOk s hs]; simp [asLocatorBare, hm]

/-- … and a string that is none of the three is rejected -/
theorem locator_rejected (selOk : Bytes → Bool) (s : Bytes) (hs : (64 : UInt8) ∉ s)
    (hm : asModifier s = .error .fail) (hl : tryLocation s = .error .fail) (hok : selOk s = false) :
    asLocator selOk s = .error := by
  rw [locator_precedence selOk s hs]; simp [asLocatorBare, hm, hl, hok]

/-- a string that does not start with `^` or `$` is not a modifier (so digits, `<`,
`complement(`, feature keys fall through to the location / selector rules) -/
theorem not_modifier (c : UInt8) (r : Bytes) (h1 : c ≠ 94) (h2 : c ≠ 36) :
    asModifier (c :: r) = .error .fail := asModifier_err_of_first c r h1 h2

/-- bare location ↦ itself -/
theorem locator_location (selOk : Bytes → Bool) (filt : Bytes → Feature → Bool) (seq : Seq) (s : Bytes)
    (l : Loc) (hs : (64 : UInt8) ∉ s) (hm : asModifier s = .error .fail) (hl : tryLocation s = .ok l) :
    asLocator selOk s = .bareLocation l ∧ (asLocator selOk s).apply filt seq = [l.region] := by
  have h : asLocator selOk s = .bareLocation l := by
    rw [locator_precedence selOk s hs]; simp [asLocatorBare, hm, hl]
  exact ⟨h, by rw [h]; rfl⟩

/-- bare point ↦ itself: the decimal `n` (1-based) is the one-base region `[n-1, n)` -/
theorem locator_point (selOk : Bytes → Bool) (filt : Bytes → Feature → Bool) (seq : Seq) (n : Nat)
    (h0 : 0 < n) (hf : n ≤ 9223372036854775807) :
    (asLocator selOk (natDigits n)).apply filt seq = [seg ((n : Int) - 1) ((n : Int) - 1 + 1)] := by
  obtain ⟨d, ds, h3, hd⟩ := natDigits_cons n
  have hm : asModifier (natDigits n) = .error .fail := by
    rw [h3]; exact asModifier_err_of_first d ds (isDigit_ne d 94 hd (by decide)) (isDigit_ne d 36 hd (by decide))
  exact (locator_location selOk filt seq _ _ (natDigits_noAt n) hm (tryLocation_point n h0 hf)).2

/-- bare range ↦ itself: `a..b` (1-based, inclusive) is the region `[a-1, b)` -/
theorem locator_range (selOk : Bytes → Bool) (filt : Bytes → Feature → Bool) (seq : Seq) (a b : Nat)
    (ha : 0 < a) (hfa : a ≤ 9223372036854775807) (hb : 0 < b) (hfb : b ≤ 9223372036854775807) :
    (asLocator selOk (natDigits a ++ 46 :: 46 :: natDigits b)).apply filt seq = [seg ((a : Int) - 1) b] := by
  obtain ⟨d, ds, h3, hd⟩ := natDigits_cons a
  have hm : asModifier (natDigits a ++ 46 :: 46 :: natDigits b) = .error .fail := by
    rw [h3]; exact asModifier_err_of_first d _ (isDigit_ne d 94 hd (by decide)) (isDigit_ne d 36 hd (by decide))
  have hat : (64 : UInt8) ∉ natDigits a ++ 46 :: 46 :: natDigits b := by
    simp only [List.mem_append, List.mem_cons, not_or]
    exact ⟨natDigits_noAt a, by decide, by decide, natDigits_noAt b⟩
  exact (locator_location selOk filt seq _ _ hat hm (tryLocation_range a b ha hfa hb hfb)).2

/-- bare selector ↦ the matching features' regions, in table order.  `tryLocation s` fails exactly
when `s` is not, as a whole, a point / range / complement location (`pars.Exact`, repair 03b944a
of finding F9), so the hypotheses say: `s` is neither a modifier nor entirely a location, and
its qualifier regexps compile. -/
theorem locator_selector (selOk : Bytes → Bool) (filt : Bytes → Feature → Bool) (seq : Seq)
    (s : Bytes) (hs : (64 : UInt8) ∉ s) (hm : asModifier s = .error .fail)
    (hl : tryLocation s = .error .fail) (hok : selOk s = true) :
    asLocator selOk s = .selector s ∧
    (asLocator selOk s).apply filt seq = (seq.feats.filter (filt s)).map fun f => f.loc.region := by
  have h : asLocator selOk s = .selector s := by
    rw [locator_precedence selOk s hs]; simp [asLocatorBare, hm, hl, hok]
  exact ⟨h, by rw [h]; rfl⟩

/-- a location *prefix* does not make a location: a number followed by any byte that is not a
digit or `.` (`5'UTR`, `3'UTR`, `12abc`, `5S_rRNA`, …) is rejected by `tryLocation` -/
theorem number_prefix_not_location (n : Nat) (c : UInt8) (r : Bytes) (h0 : 0 < n)
    (hf : n ≤ 9223372036854775807) (hc : isDigit c = false) (hc46 : c ≠ 46) :
    tryLocation (natDigits n ++ c :: r) = .error .fail :=
  tryLocation_number_prefix n c r h0 hf hc hc46

/-- … hence such a string is read as a selector, at full strength (no hypothesis on
`tryLocation` left): feature keys that start with a number select their features -/
theorem locator_selector_number_prefix (selOk : Bytes → Bool) (filt : Bytes → Feature → Bool) (seq : Seq)
    (n : Nat) (c : UInt8) (r : Bytes) (h0 : 0 < n) (hf : n ≤ 9223372036854775807)
    (hc : isDigit c = false) (hc46 : c ≠ 46) (hs : (64 : UInt8) ∉ natDigits n ++ c :: r)
    (hok : selOk (natDigits n ++ c :: r) = true) :
    (asLocator selOk (natDigits n ++ c :: r)).apply filt seq =
      (seq.feats.filter (filt (natDigits n ++ c :: r))).map fun f => f.loc.region := by
  obtain ⟨d, ds, h3, hd⟩ := natDigits_cons n
  have hm : asModifier (natDigits n ++ c :: r) = .error .fail := by
    rw [h3]; exact asModifier_err_of_first d _ (isDigit_ne d 94 hd (by decide)) (isDigit_ne d 36 hd (by decide))
  exact (locator_selector selOk filt seq _ hs hm (tryLocation_number_prefix n c r h0 hf hc hc46) hok).2

/-- the witnesses of the repaired finding F9, on the model: `5'UTR`, `3'UTR`, `12abc` and
`3..5xyz` are selectors, `5` and `3..5` are still locations -/
example :
    (match asLocator (fun _ => true) [53, 39, 85, 84, 82] with
      | .selector [53, 39, 85, 84, 82] => true | _ => false) = true ∧
    (match asLocator (fun _ => true) [51, 39, 85, 84, 82] with
      | .selector [51, 39, 85, 84, 82] => true | _ => false) = true ∧
    (match asLocator (fun _ => true) [49, 50, 97, 98, 99] with
      | .selector [49, 50, 97, 98, 99] => true | _ => false) = true ∧
    (match asLocator (fun _ => true) [51, 46, 46, 53, 120, 121, 122] with
      | .selector [51, 46, 46, 53, 120, 121, 122] => true | _ => false) = true ∧
    (match asLocator (fun _ => true) [53] with | .bareLocation (.point 4) => true | _ => false) = true ∧
    (match asLocator (fun _ => true) [51, 46, 46, 53] with
      | .bareLocation (.ranged 2 5 false false) => true | _ => false) = true := by decide

/-- non-vacuity of `locator_selector`: the selector `gene` (bytes 103 101 110 101) -/
example : (64 : UInt8) ∉ [103, 101, 110, 101] ∧
    (match asModifier [103, 101, 110, 101] with | .error .fail => true | _ => false) = true ∧
    (match tryLocation [103, 101, 110, 101] with | .error .fail => true | _ => false) = true := by decide

/-- `X@M`: the first `@` splits the specifier from the modifier; the specifier is read by the
bare rules -/
theorem locator_at (selOk : Bytes → Bool) (x : Bytes) (m : Mod) (hx : (64 : UInt8) ∉ x) (hne : x ≠ [])
    (hf : m.fits64) :
    asLocator selOk (x ++ 64 :: m.printB) =
      match asLocator selOk x with
      | .error => .error
      | .panic => .panic
      | d => .at d m := by
  have hb : asLocator selOk x = asLocatorBare selOk x := by
    unfold asLocator; rw [splitAt_noAt x hx]
  rw [hb]
  unfold asLocator
  rw [splitAt_at x _ hx]
  cases x with
  | nil => exact absurd rfl hne
  | cons c r =>
    simp only [asModifier_printB m hf]
    cases asLocatorBare selOk (c :: r) <;> rfl

/-- MAIN (locators): `X@M` denotes exactly the regions of `X`, each resized by `M` (when `X`
is rejected both sides are empty, and `locator_at` says the whole string is rejected) -/
theorem locator_compose (selOk : Bytes → Bool) (filt : Bytes → Feature → Bool) (seq : Seq) (x : Bytes)
    (m : Mod) (hx : (64 : UInt8) ∉ x) (hne : x ≠ []) (hf : m.fits64) :
    (asLocator selOk (x ++ 64 :: m.printB)).apply filt seq =
      ((asLocator selOk x).apply filt seq).map fun r => resize r m := by
  rw [locator_at selOk x m hx hne hf]
  cases asLocator selOk x <;> rfl

/-- `@M` (empty specifier): every feature of the table, in table order, resized by `M` -/
theorem locator_at_all (selOk : Bytes → Bool) (filt : Bytes → Feature → Bool) (seq : Seq) (m : Mod)
    (hf : m.fits64) :
    asLocator selOk (64 :: m.printB) = .atAll m ∧
    (asLocator selOk (64 :: m.printB)).apply filt seq = seq.feats.map fun f => f.loc.region.resize m := by
  have h : asLocator selOk (64 :: m.printB) = .atAll m := by
    simp [asLocator, splitAt, asModifier_printB m hf]
  exact ⟨h, by rw [h]; rfl⟩

/-- non-vacuity of `locator_compose`: `5@^-2..^+1` (specifier `5` is a point, hence neither
error nor panic) -/
example : (asLocator (fun _ => true) (natDigits 5 ++ 64 :: (Mod.headHead (-2) 1).printB)).apply
    (fun _ _ => true) ⟨[], []⟩ = [seg 2 5] := by
  have hp : asLocator (fun _ => true) (natDigits 5) = .bareLocation (.point 4) := by
    have := (locator_location (fun _ => true) (fun _ _ => true) ⟨[], []⟩ (natDigits 5) (.point 4)
      (natDigits_noAt 5) (asModifier_err_of_first 53 [] (by decide) (by decide))
      (tryLocation_point 5 (by decide) (by decide))).1
    exact this
  rw [locator_compose _ _ _ _ _ (natDigits_noAt 5) (by decide) (by simp [Mod.fits64, fits64]), hp]
  simp [LocatorDesc.apply, Loc.region, Reg.resize, Mod.apply, Mod.applyFwd, Loc.gmax]

end Gts.C08
