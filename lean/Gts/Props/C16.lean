/-
  C16 — ORIGIN block layout is exact for every sequence length.
  Property theorems only (helper lemmas live in Gts/Lemmas/Origin.lean; the model in
  Gts/Model/Origin.lean).  All statements are for every length / every byte string — no bound
  other than the explicit guard `< 10^9` explained below.

  The guard `p.length < 10 ^ 9` (resp. `L < 10 ^ 9` for a declared length): the line index is
  printed with `%9d`, which is *wider* than 9 columns from index 1 000 000 000 on, while
  `toOriginLength` keeps counting 9 columns per line.  Beyond the guard `NewOrigin` writes past
  its buffer (the model's `newOrigin` is `panic` there), so the size/round-trip statements are
  genuinely false there; sequences of a gigabase and more are outside the property's domain.
  Statements that do not depend on the index width carry no guard.
-/
import Gts.Lemmas.Origin
namespace Gts.C16
open Gts.Origin
open Gts.Pars (Bytes)

/-! ### size arithmetic -/

/-- The residue count recovered from a block's byte length is the residue count the block was
made for: `fromOriginLength (toOriginLength n) = n` for every length `n ≥ 0`. -/
theorem length_roundtrip (n : Nat) : fromOriginLength (toOriginLength (n : Int)) = (n : Int) := by
  rw [toOriginLength_nat]; exact fromOriginLength_tl n

/-- `toOriginLength n` is the size of the stated layout: 76 bytes (9-column index, six times a
space and ten residues, newline) per full line, and for a last line of `r = n % 60 > 0` residues
the 9-column index, the `r` residues, one space per started group of ten, and the newline. -/
theorem toOriginLength_layout (n : Nat) :
    toOriginLength (n : Int) =
      ((76 * (n / 60) + (if n % 60 = 0 then 0 else 9 + n % 60 + (n % 60 + 9) / 10 + 1) : Nat) : Int) := by
  rw [toOriginLength_nat]; unfold tl
  congr 1
  split
  · rfl
  · split <;> omega

/-! ### formatter -/

/-- `NewOrigin` does not panic and writes exactly `toOriginLength (len p)` bytes, for every
residue string shorter than 10^9. -/
theorem block_length (p : Bytes) (h : p.length < 10 ^ 9) :
    ∃ b, newOrigin p = .ok b ∧ (b.length : Int) = toOriginLength (p.length : Int) :=
  ⟨originStream p, newOrigin_ok p h, by rw [originStream_length p h, toOriginLength_nat]⟩

/-- The two indexed loops of `NewOrigin` (re-slicing `p[i+j : min(i+j+10, length)]`) write the
same bytes as the purely structural description "while residues remain: index, then up to six
times a space and the next (at most) ten residues, newline" (`fmtLinesS`/`fmtGroupsS`). -/
theorem stream_structural (p : Bytes) : originStream p = fmtLinesS p.length 0 p := by
  rw [originStream_eq_S]; rfl

/-! ### decoder -/

/-- Converting residues to a block and back is the identity (any bytes, any length < 10^9). -/
theorem bytes_roundtrip (p : Bytes) (h : p.length < 10 ^ 9) :
    ∃ b, newOrigin p = .ok b ∧ originBytes b = .ok p :=
  ⟨originStream p, newOrigin_ok p h, originBytes_originStream p h⟩

/-- The length reported without decoding (`Origin.Len` on the unparsed buffer) equals the
decoded length. -/
theorem len_without_decoding (p : Bytes) (h : p.length < 10 ^ 9) :
    ∃ b, newOrigin p = .ok b ∧ originLen b = (p.length : Int) ∧
      originBytes b = .ok p := by
  refine ⟨originStream p, newOrigin_ok p h, ?_, originBytes_originStream p h⟩
  unfold originLen
  rw [originStream_length p h]
  split
  · rename_i h0
    have : p.length = 0 := by
      have := (tl_zero_iff p.length).mp (by omega); exact this
    omega
  · exact fromOriginLength_tl _

/-- Buffers shorter than the smallest non-empty block (12 bytes) decode to nothing (`nil`). -/
theorem bytes_short (b : Bytes) (h : b.length < 12) : originBytes b = .ok [] := by
  unfold originBytes; rw [if_pos h]

/-! ### the reader's fast path -/

/-- The fast validation path accepts every written block of printable residues (bytes 33..126)
with the right declared length — no guard on the length: the index is compared as printed. -/
theorem validate_accepts (p : Bytes) (hp : ∀ c ∈ p, isBase c = true) :
    validateOrigin (originStream p) (p.length : Int) = .ok () :=
  validateOrigin_originStream p hp

/-- … and the fast path only looks at the block: trailing input is irrelevant. -/
theorem validate_accepts_prefix (p tail : Bytes) (hp : ∀ c ∈ p, isBase c = true)
    (h : p.length < 10 ^ 9) :
    validateOrigin (originStream p ++ tail) (p.length : Int) = .ok () := by
  have h1 := validateOrigin_originStream p hp
  have h2 := fast_imp_slow _ _ h h1
  exact (slow_token_valid _ _ _ _ h h2).2 tail |> fun h3 => by
    have e : (originStream p).take (tl p.length) = originStream p :=
      List.take_of_length_le (by rw [originStream_length p h]; omega)
    rw [e] at h3; exact h3

/-! ### fast path versus slow path -/

/-- Whatever the fast path accepts, the slow line-by-line path accepts too, and it rebuilds
exactly the bytes the fast path hands over (`b[:toOriginLength L]`), leaving the same rest — so
both paths yield the same `Origin` and therefore the same residues.  (No hypothesis on `b`.) -/
theorem fast_imp_slow (b : Bytes) (L : Nat) (hL : L < 10 ^ 9)
    (h : validateOrigin b (L : Int) = .ok ()) :
    slowOrigin b (L : Int) =
      .ok (b.take (toOriginLength (L : Int)).toNat, b.drop (toOriginLength (L : Int)).toNat) := by
  rw [toNat_tl]; exact Gts.Origin.fast_imp_slow b L hL h

/-- Whatever the slow path accepts, the block it returns has the declared size and is accepted
by the fast path (followed by anything). -/
theorem slow_token_valid (st : Bytes) (L : Nat) (out rest : Bytes) (hL : L < 10 ^ 9)
    (h : slowOrigin st (L : Int) = .ok (out, rest)) :
    (out.length : Int) = toOriginLength (L : Int) ∧
      ∀ tail, validateOrigin (out ++ tail) (L : Int) = .ok () := by
  obtain ⟨h1, h2⟩ := Gts.Origin.slow_token_valid st L out rest hL h
  exact ⟨by rw [h1, toOriginLength_nat], h2⟩

/-- The slow path never panics, on any input, for every declared length < 10^9 (every index
into a line is bounds-checked; the token buffer is never overrun). -/
theorem slow_never_panics (st : Bytes) (L : Nat) (hL : L < 10 ^ 9) :
    slowOrigin st (L : Int) ≠ .error .panic :=
  slowOrigin_ne_panic st L hL

/-- "no trailing blanks": no blank stands directly before a line feed or at the very end of the
input.  Decidable; `written_block_shape` shows that every written block satisfies it. -/
abbrev noTrailingBlank (b : Bytes) : Prop := trailingBlank b = false

/-- Every written block of printable residues is CR-free and carries no trailing blanks. -/
theorem written_block_shape (p : Bytes) (hp : ∀ c ∈ p, isBase c = true) :
    noCR (originStream p) ∧ noTrailingBlank (originStream p) :=
  ⟨originStream_noCR p hp, originStream_no_trailingBlank p hp⟩

/-- What the slow path accepts beyond the fast path is exactly trailing blanks: on CR-free input
that is at least as long as the declared block (the reader's `state.Request` precondition for
either path), if the slow path accepts then the fast path accepts or some line carries trailing
blanks. -/
theorem slow_imp_fast_or_blanks (b : Bytes) (L : Nat) (hL : L < 10 ^ 9) (hcr : noCR b)
    (hlen : (toOriginLength (L : Int)).toNat ≤ b.length)
    (h : ∃ o, slowOrigin b (L : Int) = .ok o) :
    validateOrigin b (L : Int) = .ok () ∨ trailingBlank b = true := by
  cases hb : trailingBlank b with
  | true => exact Or.inr rfl
  | false =>
    obtain ⟨o, ho⟩ := h
    rw [toNat_tl] at hlen
    exact Or.inl (slow_imp_fast b L o hL hcr hb hlen ho)

/-- FULL STATEMENT (holds since the repair 2c8ca02; was refuted as K16a before): on CR-free input
without trailing blanks that is at least as long as the declared block, the fast and the slow
path accept the same input, and then hand over the same bytes (hence the same residues). -/
theorem fast_slow_equiv (b : Bytes) (L : Nat) (hL : L < 10 ^ 9) (hcr : noCR b)
    (hb : noTrailingBlank b) (hlen : (toOriginLength (L : Int)).toNat ≤ b.length) :
    (validateOrigin b (L : Int) = .ok () ↔ ∃ o, slowOrigin b (L : Int) = .ok o) ∧
    ∀ o, slowOrigin b (L : Int) = .ok o →
      o = (b.take (toOriginLength (L : Int)).toNat, b.drop (toOriginLength (L : Int)).toNat) := by
  have hlen' := hlen
  rw [toNat_tl] at hlen'
  refine ⟨⟨fun h => ⟨_, Gts.Origin.fast_imp_slow b L hL h⟩,
    fun ⟨o, ho⟩ => slow_imp_fast b L o hL hcr hb hlen' ho⟩, fun o ho => ?_⟩
  have hv := slow_imp_fast b L o hL hcr hb hlen' ho
  have := fast_imp_slow b L hL hv
  rw [ho] at this
  exact Except.ok.inj this

/-- The line splitter used by the slow-path model is the framework's model of `pars.Line`
(`Gts.Pars.line`, go-pars v1.1.6 `calculateLineLength`: LF, CRLF, lone CR, end of input). -/
theorem splitLine_is_pars_line (s : Gts.Pars.PS) :
    Gts.Pars.line.run' s = (.ok (splitLine s.rest).1, { s with rest := (splitLine s.rest).2 }) :=
  line_eq_splitLine s

/-- Blocks with CRLF line ends (which the fast path rejects) are read by the slow path exactly
like the same block with LF line ends: same token, corresponding rest — for every input without
stray CR and every declared length. -/
theorem slow_crlf (st : Bytes) (length : Int) (h : noCR st) :
    slowOrigin (crlf st) length =
      match slowOrigin st length with
      | .ok (o, r) => .ok (o, crlf r)
      | .error e => .error e :=
  slowOrigin_crlf st length h

/-- A written block of printable residues with CRLF line ends, followed by anything without CR,
is decoded by the slow path to the written block. -/
theorem slow_reads_crlf_block (p tail : Bytes) (hp : ∀ c ∈ p, isBase c = true)
    (h : p.length < 10 ^ 9) (ht : noCR tail) :
    slowOrigin (crlf (originStream p ++ tail)) (p.length : Int) = .ok (originStream p, crlf tail) := by
  have hcr : noCR (originStream p ++ tail) := by
    intro c hc; rcases List.mem_append.mp hc with h1 | h1
    · exact originStream_noCR p hp c h1
    · exact ht c h1
  rw [slowOrigin_crlf _ _ hcr]
  have h1 := validate_accepts_prefix p tail hp h
  rw [Gts.Origin.fast_imp_slow _ _ h h1]
  have hl := originStream_length p h
  simp only [List.take_left' hl, List.drop_left' hl]

/-! ### the exact bound

The guard `< 10^9` above is a round number.  The exact condition under which every line index
`%9d` prints has nine columns is "the index of the LAST line is below 10^9", i.e. at most
`1000000020` residues — the constant `maxOriginResidues` of the reader's length guard (/repo
be672b0; `Gts.Bridge.maxOriginResidues_index`).  The statements above hold up to that bound; they
are repeated here with the hypothesis `≤ 1000000020` (each implies its `< 10^9` version). -/

/-- `block_length` up to the exact bound: `NewOrigin` does not panic and writes exactly
`toOriginLength (len p)` bytes for every residue string of at most 1000000020 bytes. -/
theorem block_length_exact (p : Bytes) (h : p.length ≤ 1000000020) :
    ∃ b, newOrigin p = .ok b ∧ (b.length : Int) = toOriginLength (p.length : Int) :=
  ⟨originStream p, newOrigin_ok_le p h, by rw [originStream_length_le p h, toOriginLength_nat]⟩

/-- `bytes_roundtrip` up to the exact bound: residues → block → residues is the identity. -/
theorem bytes_roundtrip_exact (p : Bytes) (h : p.length ≤ 1000000020) :
    ∃ b, newOrigin p = .ok b ∧ originBytes b = .ok p :=
  ⟨originStream p, newOrigin_ok_le p h, originBytes_originStream_le p h⟩

/-- `len_without_decoding` up to the exact bound: `Origin.Len` on the unparsed block is the
number of residues, and decoding gives them back. -/
theorem len_without_decoding_exact (p : Bytes) (h : p.length ≤ 1000000020) :
    ∃ b, newOrigin p = .ok b ∧ originLen b = (p.length : Int) ∧ originBytes b = .ok p := by
  refine ⟨originStream p, newOrigin_ok_le p h, ?_, originBytes_originStream_le p h⟩
  unfold originLen
  rw [originStream_length_le p h]
  split
  · rename_i h0
    have : p.length = 0 := (tl_zero_iff p.length).mp (by omega)
    omega
  · exact fromOriginLength_tl _

/-- `fast_imp_slow` up to the exact bound: whatever the fast path accepts, the slow path accepts
too and hands over the same bytes, leaving the same rest — every declared length the reader's
guard lets through. -/
theorem fast_imp_slow_exact (b : Bytes) (L : Nat) (hL : L ≤ 1000000020)
    (h : validateOrigin b (L : Int) = .ok ()) :
    slowOrigin b (L : Int) =
      .ok (b.take (toOriginLength (L : Int)).toNat, b.drop (toOriginLength (L : Int)).toNat) := by
  rw [toNat_tl]; exact Gts.Origin.fast_imp_slow_le b L hL h

/-- `slow_token_valid` up to the exact bound: what the slow path returns has the declared size
and is accepted by the fast path (followed by anything). -/
theorem slow_token_valid_exact (st : Bytes) (L : Nat) (out rest : Bytes) (hL : L ≤ 1000000020)
    (h : slowOrigin st (L : Int) = .ok (out, rest)) :
    (out.length : Int) = toOriginLength (L : Int) ∧
      ∀ tail, validateOrigin (out ++ tail) (L : Int) = .ok () := by
  obtain ⟨h1, h2⟩ := Gts.Origin.slow_token_valid_le st L out rest hL h
  exact ⟨by rw [h1, toOriginLength_nat], h2⟩

/-- `validate_accepts_prefix` up to the exact bound: the fast path accepts a written block of
printable residues followed by anything. -/
theorem validate_accepts_prefix_exact (p tail : Bytes) (hp : ∀ c ∈ p, isBase c = true)
    (h : p.length ≤ 1000000020) :
    validateOrigin (originStream p ++ tail) (p.length : Int) = .ok () := by
  have h1 := validateOrigin_originStream p hp
  have h2 := Gts.Origin.fast_imp_slow_le _ _ h h1
  have h3 := (Gts.Origin.slow_token_valid_le _ _ _ _ h h2).2 tail
  have e : (originStream p).take (tl p.length) = originStream p :=
    List.take_of_length_le (by rw [originStream_length_le p h]; omega)
  rw [e] at h3; exact h3

/-- `slow_never_panics` up to the exact bound: the slow path never panics for any declared
length the reader's guard lets through (with `Gts.Bridge.originParser_gen`: for NO length does the
reader reach the slow path beyond it). -/
theorem slow_never_panics_exact (st : Bytes) (L : Nat) (hL : L ≤ 1000000020) :
    slowOrigin st (L : Int) ≠ .error .panic :=
  slowOrigin_ne_panic_le st L hL

/-- `slow_imp_fast_or_blanks` up to the exact bound. -/
theorem slow_imp_fast_or_blanks_exact (b : Bytes) (L : Nat) (hL : L ≤ 1000000020) (hcr : noCR b)
    (hlen : (toOriginLength (L : Int)).toNat ≤ b.length)
    (h : ∃ o, slowOrigin b (L : Int) = .ok o) :
    validateOrigin b (L : Int) = .ok () ∨ trailingBlank b = true := by
  cases hb : trailingBlank b with
  | true => exact Or.inr rfl
  | false =>
    obtain ⟨o, ho⟩ := h
    rw [toNat_tl] at hlen
    exact Or.inl (slow_imp_fast_le b L o hL hcr hb hlen ho)

/-- `fast_slow_equiv` up to the exact bound: on CR-free input without trailing blanks that is at
least as long as the declared block, the two paths accept the same input and hand over the same
bytes — every declared length the reader's guard lets through. -/
theorem fast_slow_equiv_exact (b : Bytes) (L : Nat) (hL : L ≤ 1000000020) (hcr : noCR b)
    (hb : noTrailingBlank b) (hlen : (toOriginLength (L : Int)).toNat ≤ b.length) :
    (validateOrigin b (L : Int) = .ok () ↔ ∃ o, slowOrigin b (L : Int) = .ok o) ∧
    ∀ o, slowOrigin b (L : Int) = .ok o →
      o = (b.take (toOriginLength (L : Int)).toNat, b.drop (toOriginLength (L : Int)).toNat) := by
  have hlen' := hlen
  rw [toNat_tl] at hlen'
  refine ⟨⟨fun h => ⟨_, Gts.Origin.fast_imp_slow_le b L hL h⟩,
    fun ⟨o, ho⟩ => slow_imp_fast_le b L o hL hcr hb hlen' ho⟩, fun o ho => ?_⟩
  have hv := slow_imp_fast_le b L o hL hcr hb hlen' ho
  have := fast_imp_slow_exact b L hL hv
  rw [ho] at this
  exact Except.ok.inj this

/-- `slow_reads_crlf_block` up to the exact bound. -/
theorem slow_reads_crlf_block_exact (p tail : Bytes) (hp : ∀ c ∈ p, isBase c = true)
    (h : p.length ≤ 1000000020) (ht : noCR tail) :
    slowOrigin (crlf (originStream p ++ tail)) (p.length : Int) = .ok (originStream p, crlf tail) := by
  have hcr : noCR (originStream p ++ tail) := by
    intro c hc; rcases List.mem_append.mp hc with h1 | h1
    · exact originStream_noCR p hp c h1
    · exact ht c h1
  rw [slowOrigin_crlf _ _ hcr]
  have h1 := validate_accepts_prefix_exact p tail hp h
  rw [Gts.Origin.fast_imp_slow_le _ _ h h1]
  have hl := originStream_length_le p h
  simp only [List.take_left' hl, List.drop_left' hl]

/-- non-vacuity of the `_exact` statements: the 13-residue sequence meets their hypotheses, and
they reach lengths the `< 10^9` versions do not (10^9 itself, and the bound). -/
example :
    ([97,99,103,116,97,99,103,116,97,99,103,116,110] : Bytes).length ≤ 1000000020
    ∧ (∀ c ∈ ([97,99,103,116,97,99,103,116,97,99,103,116,110] : Bytes), isBase c = true)
    ∧ (10 ^ 9 : Nat) ≤ 1000000020 ∧ ¬ ((10 ^ 9 : Nat) < 10 ^ 9) ∧ (1000000020 : Nat) ≤ 1000000020 := by
  decide

/-! ### non-vacuity -/

/-- a concrete 13-residue sequence: the block, its size, the round trip, both reader paths -/
example :
    newOrigin [97,99,103,116,97,99,103,116,97,99,103,116,110] =
      .ok [32,32,32,32,32,32,32,32,49,32,97,99,103,116,97,99,103,116,97,99,32,103,116,110,10]
    ∧ toOriginLength 13 = 25 ∧ fromOriginLength 25 = 13
    ∧ originBytes [32,32,32,32,32,32,32,32,49,32,97,99,103,116,97,99,103,116,97,99,32,103,116,110,10]
        = .ok [97,99,103,116,97,99,103,116,97,99,103,116,110]
    ∧ validateOrigin [32,32,32,32,32,32,32,32,49,32,97,99,103,116,97,99,103,116,97,99,32,103,116,110,10] 13 = .ok ()
    ∧ trailingBlank [32,32,32,32,32,32,32,32,49,32,97,99,103,116,97,99,103,116,97,99,32,103,116,110,10] = false := by
  decide

/-- regression of the repaired defect F10 (was K16a): the block `        1 ab` with declared
length 1 is rejected by both paths and by the whole reader; blanks behind the residues are still
accepted by the slow path; a block holding more lines than declared is rejected by the reader. -/
example :
    validateOrigin [32,32,32,32,32,32,32,32,49,32,97,98,10] 1 = .error .fail
    ∧ slowOrigin [32,32,32,32,32,32,32,32,49,32,97,98,10] 1 = .error .fail
    ∧ originParse [79,82,73,71,73,78,32,32,32,32,32,32,10, 32,32,32,32,32,32,32,32,49,32,97,98,10, 47,47,10] 1
        = .error .fail
    ∧ slowOrigin [32,32,32,32,32,32,32,32,49,32,97,32,32,10, 47,47,10] 1
        = .ok ([32,32,32,32,32,32,32,32,49,32,97,10], [47,47,10])
    ∧ trailingBlank [32,32,32,32,32,32,32,32,49,32,97,32,32,10, 47,47,10] = true
    ∧ originParse [79,82,73,71,73,78,32,32,32,32,32,32,10,
        32,32,32,32,32,32,32,32,49,32,97,10, 32,32,32,32,32,32,32,32,50,32,98,10, 47,47,10] 1
        = .error .fail := by
  decide

/-- why `fast_slow_equiv` asks for input at least as long as the block: the slow path accepts a
last line that ends with the input, where the unchecked fast path would index past the end (the
reader never gets there: `state.Request` fails first). -/
example :
    slowOrigin [32,32,32,32,32,32,32,32,49,32,97] 1 = .ok ([32,32,32,32,32,32,32,32,49,32,97,10], [])
    ∧ validateOrigin [32,32,32,32,32,32,32,32,49,32,97] 1 = .error .panic := by
  decide

end Gts.C16
