/-
  C12 — `Repair` re-assembles features fragmented by split/join, changes nothing else.
  Property theorems only (model: Gts/Model/Repair.lean; guards: Gts/Spec/RepairGuard.lean;
  helper lemmas: Gts/Lemmas/Repair*.lean).

  Repaired in /repo (known_findings.json F18, F19, F20; the model follows the repaired code):
  * F18/F19 (was K12A)  `indices[:len(locs)]` panicked, or re-sliced into spare capacity and
          duplicated features, when a flattened `Joined` member gave more locations than the
          class has members.  Now: `no_panic` for every table.
  * F20 (was K12C)  the grouping text `"%s:%v"` identified different qualifier lists.  Now
          `"%q:%q"`: `classKey_inj`.

  Still FALSE on the current tree; every such clause comes as the refuted full statement
  (`…_full_refuted`, a concrete witness that is replayed on the real code by the harness /
  `known_findings.json`) plus the strongest statement that was proved (`…_partial`, with a
  decidable guard naming the known finding it excludes):

  * K12G  a `Joined` member of a class that is reduced is flattened by `Push`: its parts are
          written back as separate features, unsorted, and `Repair` is not idempotent; a cut
          joined feature is not re-assembled.
  * K12B  two `Complemented` members of a class are always fused (abutting or not).
  * K12D  `Push`'s site rules (`Between`/`Point` absorbed or de-duplicated) are applied across
          different features.
  * K2    (`Ranged` then `Point` at its `End`) changes the covered residues.  Guard `Table.k2`.
  * K12E/K12F  restoration: only forward ranges are re-assembled; the table order is not restored.
  `Table.plain` (every feature a forward range, or alone in its class) excludes K12B, K12D,
  K12E, K12G at once.
-/
import Gts.Lemmas.RepairRoundTrip
import Gts.Lemmas.RepairKey
import Gts.Bridge.CmdRepair
namespace Gts.C12
open Gts Loc

/-- a feature without qualifiers -/
def gene (l : Loc) : Feature := ⟨"gene", l, []⟩

/-! ### the map iteration order -/

/-- Go iterates the map `index` in an unspecified order.  Whatever the order `cs` in which the
classes are visited, `Repair` computes the same result — including the panic and the
duplicated-index cases (each class reads and writes its own indices only, `keep` is sorted). -/
theorem repair_order_indep (t : Table) (cs : List (List Nat)) (h : cs.Perm (Table.groups t)) :
    repairOrd t cs = repair t :=
  (repairOrd_perm t _ _ h.symm (Table.groups_flatten_nodup t)).symm

example : repairOrd [gene (ranged 0 2 false true), ⟨"CDS", point 1, []⟩, gene (ranged 2 4 true false)]
    [[1], [0, 2]] = .ok [gene (ranged 0 4 false false), ⟨"CDS", point 1, []⟩] := by rfl

/-! ### (a) never panics -/

/-- **`Repair` never panics**, on any table: the only checked operations left are the index
expressions of the in-place compaction, and `keep` is a duplicate-free list of table indices.
The result is the explicit table `specRepair t` — except that a class of two or more members
all of which are empty `Joined{}` literals gets the `nil` Location of the empty list
(`.nilLoc`; such literals cannot be parsed or built with `Join`). -/
theorem no_panic (t : Table) : repair t ≠ .panic := by
  rw [repair_eq]
  split <;> simp

theorem repair_total (t : Table) :
    repair t = if (Table.groups t).any (classNil t) then .nilLoc else .ok (specRepair t) :=
  repair_eq t

/-- … and a table is returned whenever no `nil` Location is written (`Table.noNil`; true for
every table without empty `Joined{}` literals, in particular every plain table). -/
theorem no_panic_ok (t : Table) (h : Table.noNil t = true) : repair t = .ok (specRepair t) :=
  repair_eq_spec t ((noNil_iff t).mp h)

/-- the witness of the former finding K12A (fixed, F18) is now an unchanged table -/
example : repair [gene (joined [ranged 0 3 false false, ranged 5 8 false false])] =
    .ok [gene (joined [ranged 0 3 false false, ranged 5 8 false false])] := by rfl

/-- the witness of the former silent duplication (fixed, F19): the gene class (4 locations for
3 members) is kept as it is, the two CDS fragments are fused -/
example :
    repair [gene (joined [ranged 0 1 false false, ranged 2 3 false false]), gene (ranged 4 5 false false),
            gene (ranged 6 7 false false), ⟨"CDS", ranged 10 12 false true, []⟩, ⟨"CDS", ranged 12 14 true false, []⟩] =
      .ok [gene (joined [ranged 0 1 false false, ranged 2 3 false false]), gene (ranged 4 5 false false),
            gene (ranged 6 7 false false), ⟨"CDS", ranged 10 14 false false, []⟩] := by rfl

/-- non-vacuity of `noNil`: every location kind, several features per class -/
example : Table.noNil [gene (compl (ranged 0 3 false true)), gene (ordered [point 1, point 5]),
    gene (between 3), gene (ambiguous 2 6), gene (joined [ranged 3 6 true false, point 9])] = true := by decide

/-! ### (b) idempotent -/

/-- FULL STATEMENT (false today, K12G): `repair t = .ok t' → repair t' = .ok t'`.  The flattened
parts of a join are written back unsorted (`6..15`, then the site `6^7`); the second `Repair`
sorts the site in front of the range and lets `Push` absorb it. -/
theorem idempotent_full_refuted :
    ¬ (∀ t t' : Table, repair t = .ok t' → repair t' = .ok t') := by
  intro h
  have h1 := h [gene (ranged 0 2 false true), gene (ranged 2 4 true true), gene (ranged 4 5 true false),
      gene (joined [ranged 6 15 false false, between 6])]
    [gene (ranged 0 5 false false), gene (ranged 6 15 false false), gene (between 6)] (by rfl)
  have h2 := congrArg (fun (o : RepairOutcome) => match o with | RepairOutcome.ok t => t.length | _ => 0) h1
  revert h2
  decide

/-- … and (K12B) so do fused complemented members, without any top-level `Joined`: the two equal
members `complement(join(2..3,<4..6,<7..7))` are fused, the inner `Join` (always with `force`) turns
their parts into `2..7`, and `complement(join(2..7,2..7))` is written back in front of `2..>4` although
it now sorts behind it; the second `Repair` sorts it next to the third complemented member,
`complement(3.4)`, and fuses again (3 features, then 2). -/
theorem idempotent_compl_refuted :
    ¬ (∀ t t' : Table, repair t = .ok t' → repair t' = .ok t') := by
  intro h
  have h1 := h [gene (compl (joined [ranged 1 3 false false, ranged 3 6 true false, ranged 6 7 true false])),
      gene (ranged 1 4 false true),
      gene (compl (joined [ranged 1 3 false false, ranged 3 6 true false, ranged 6 7 true false])),
      gene (compl (ambiguous 2 3))]
    [gene (compl (joined [ranged 1 7 false false, ranged 1 7 false false])), gene (ranged 1 4 false true),
      gene (compl (ambiguous 2 3))] (by rfl)
  have h2 := congrArg (fun (o : RepairOutcome) => match o with | RepairOutcome.ok t => t.length | _ => 0) h1
  revert h2
  decide

/-- **Idempotent** on plain tables of well-formed locations. -/
theorem idempotent_partial (t t' : Table) (hp : Table.plain t = true) (hw : Table.wfT t = true)
    (h : repair t = .ok t') : repair t' = .ok t' := by
  obtain ⟨_, rfl⟩ := repair_ok t t' h
  exact repair_idem t hp hw

/-- non-vacuity: a plain table in which something is fused -/
example : Table.plain [gene (ranged 0 3 false true), ⟨"gene", compl (point 4), [["x"]]⟩, gene (ranged 3 6 true false)] = true ∧
    Table.wfT [gene (ranged 0 3 false true), ⟨"gene", compl (point 4), [["x"]]⟩, gene (ranged 3 6 true false)] = true := by
  decide

/-! ### (c) a table with no mergeable pair is unchanged -/

/-- FULL STATEMENT (false today, K12B): `noMergeablePair t → repair t = .ok t`.  Two
complement-strand features with equal key and qualifiers, five bases apart, come back as one
feature `complement(join(6..8,1..3))`. -/
theorem unchanged_full_refuted :
    ¬ (∀ t : Table, Table.noMergeablePair t = true → repair t = .ok t) := by
  intro h
  have h1 := h [gene (compl (ranged 0 3 false false)), gene (compl (ranged 5 8 false false))] (by decide)
  have h2 := congrArg (fun (o : RepairOutcome) => match o with | RepairOutcome.ok t => t.length | _ => 0) h1
  revert h2
  decide

/-- … and (K12D) a zero-length site next to a range of the same class is dropped. -/
theorem unchanged_site_refuted :
    ¬ (∀ t : Table, Table.noMergeablePair t = true → repair t = .ok t) := by
  intro h
  have h1 := h [gene (ranged 0 3 false false), gene (between 3)] (by decide)
  have h2 := congrArg (fun (o : RepairOutcome) => match o with | RepairOutcome.ok t => t.length | _ => 0) h1
  revert h2
  decide

/-- **Unchanged**: whenever no class is reduced by the push loop (`len(locs) ≥ len(indices)`),
`Repair` returns its argument (all location kinds, joins included). -/
theorem unchanged_of_no_reduction (t : Table)
    (h : ∀ idx ∈ Table.groups t, idx.length ≤ classN t idx) : repair t = .ok t :=
  repair_unchanged' t h

/-- **Unchanged**: a plain table in which no two features of a class abut with a 3'-partial end
meeting a 5'-partial start (any abutting ends in a `source` class) is returned as it is. -/
theorem unchanged_partial (t : Table) (hp : Table.plain t = true)
    (hm : Table.noMergeablePair t = true) : repair t = .ok t :=
  repair_unchanged' t (not_reduced_of_noMergeablePair t hp hm)

/-- non-vacuity: abutting but complete, partial but apart, nested, duplicates -/
example : Table.plain [gene (ranged 0 3 false false), gene (ranged 3 6 false false), gene (ranged 6 8 false true),
    gene (ranged 9 12 true false), gene (ranged 1 2 true true), gene (ranged 1 2 true true)] = true ∧
    Table.noMergeablePair [gene (ranged 0 3 false false), gene (ranged 3 6 false false), gene (ranged 6 8 false true),
    gene (ranged 9 12 true false), gene (ranged 1 2 true true), gene (ranged 1 2 true true)] = true := by
  decide

/-! ### (d)(e) what is merged -/

/-- FULL STATEMENT (false today, K12B): per class, the result is obtained by replacing chains of
ranges that abut 3'-partial to 5'-partial by their spans (`ChainsOf`).  The two complemented
members of `unchanged_full_refuted` are fused into a location that is no such chain. -/
theorem merge_chains_full_refuted :
    ¬ (∀ (t t' : Table) (k : String), repair t = .ok t' →
        ∃ gs, gs.flatten.Perm (Table.locsOf t k) ∧ ChainsOf (Table.forceOf t k) gs (Table.locsOf t' k)) := by
  intro h
  obtain ⟨gs, h1, h2⟩ := h [gene (compl (ranged 0 3 false false)), gene (compl (ranged 5 8 false false))]
    [gene (compl (joined [ranged 5 8 false false, ranged 0 3 false false]))] "\"gene\":[]" (by rfl)
  have e0 : Table.locsOf [gene (compl (ranged 0 3 false false)), gene (compl (ranged 5 8 false false))] "\"gene\":[]" =
      [compl (ranged 0 3 false false), compl (ranged 5 8 false false)] := by rfl
  have e1 : Table.locsOf [gene (compl (joined [ranged 5 8 false false, ranged 0 3 false false]))] "\"gene\":[]" =
      [compl (joined [ranged 5 8 false false, ranged 0 3 false false])] := by rfl
  rw [e0] at h1
  rw [e1] at h2
  match gs, h1, h2 with
  | [], _, h2 => simp [ChainsOf] at h2
  | [g], h1, ⟨hc, _⟩ =>
    have hl : g.length = 2 := by simpa using h1.length_eq
    cases hc with
    | single => simp at hl
  | _ :: _ :: _, _, h2 => simp [ChainsOf] at h2

/-- **Merges are chains**: on a plain table, the locations of every class after `Repair` are
obtained from a partition of the class's locations into chains — a chain is a single
location, or consecutive forward ranges each ending where the next starts with the meeting
ends marked partial (any abutting ranges when the class is a `source` class) — each chain
replaced by its span with the outer partial markers.  So merged features share their
grouping text (that is: key and qualifiers, `classKey_inj`) and abut 3'-to-5', and nothing else is
merged, dropped or altered. -/
theorem merge_chains_partial (t t' : Table) (hp : Table.plain t = true) (h : repair t = .ok t')
    (k : String) :
    ∃ gs, gs.flatten.Perm (Table.locsOf t k) ∧ ChainsOf (Table.forceOf t k) gs (Table.locsOf t' k) := by
  obtain ⟨hnil, rfl⟩ := repair_ok t t' h
  by_cases hk : k ∈ Table.classKeys t
  · have hidx : Table.memberIdx t k ∈ Table.groups t := List.mem_map.mpr ⟨k, hk, rfl⟩
    rw [locsOf_specRepair t hnil k hk, ← classForce_eq, ← classLocs_memberIdx]
    simp only [classNew]
    split
    · rename_i hlt
      rcases plain_class t hp _ hidx with h1 | hr
      · have := classN_pos t (Table.memberIdx t k); omega
      · exact pushedOf_chains _ _ hr
    · exact ⟨_, by rw [flatten_singletons], chainsOf_singletons _ _⟩
  · rw [locsOf_specRepair_of_not_mem t k hk, locsOf_of_not_mem t k hk]
    exact ⟨[], by simp, trivial⟩

/-- **The grouping text separates exactly the (key, qualifiers) pairs** (fix F20: `%q` quotes
every string, so neither a space inside a qualifier value nor a bracket or quote can imitate
a list boundary): features are grouped together iff key and qualifiers are equal.  Within the
modelled byte domain of `strconv.Quote`, see Gts/Model/Repair.lean. -/
theorem classKey_inj (f g : Feature) : classKey f = classKey g ↔ (f.key = g.key ∧ f.props = g.props) :=
  Gts.classKey_inj f g

/-- the witness of the former finding K12C (fixed, F20) is now an unchanged table -/
example : repair [⟨"gene", ranged 0 3 false true, [["note", "a b"]]⟩, ⟨"gene", ranged 3 6 true false, [["note", "a", "b"]]⟩] =
    .ok [⟨"gene", ranged 0 3 false true, [["note", "a b"]]⟩, ⟨"gene", ranged 3 6 true false, [["note", "a", "b"]]⟩] := by rfl

/-- **Key and qualifiers are never invented or mixed**: every feature of the result carries the
key and the qualifiers of the input feature at the same (kept) index; only locations change. -/
theorem result_keys (t t' : Table) (h : repair t = .ok t')
    (f' : Feature) (hf : f' ∈ t') : ∃ f ∈ t, f.key = f'.key ∧ f.props = f'.props := by
  obtain ⟨_, rfl⟩ := repair_ok t t' h
  obtain ⟨j, hj, hg⟩ := mem_specRepair t f' hf
  have hkey := writeLocs_key t ((Table.groups t).flatMap (classWrites t)) j
  simp only [specGG] at hg
  rw [hg] at hkey
  cases ht : t[j]? with
  | none => rw [ht] at hkey; cases hkey
  | some f =>
    rw [ht] at hkey
    simp only [Option.map_some, Option.some.injEq, Prod.mk.injEq] at hkey
    exact ⟨f, List.mem_of_getElem? ht, hkey.1.symm, hkey.2.symm⟩

/-! ### (f) the residues covered by a class -/

/-- FULL STATEMENT (false today, K2): per class the covered residues are unchanged.  A range
`1..3` and the single base `4` of the same class: the base is dropped (`Push`: `Ranged` then
`Point` at its `End`). -/
theorem cover_full_refuted :
    ¬ (∀ (t t' : Table) (k : String) (x : Pos), repair t = .ok t' →
        (x ∈ Table.classDen t' k ↔ x ∈ Table.classDen t k)) := by
  intro h
  have h1 := h [gene (ranged 0 3 false false), gene (point 3)] [gene (ranged 0 3 false false)] "\"gene\":[]" (3, false)
    (by rfl)
  revert h1
  decide

/-- **Cover preserved**: on well-formed tables, unless rule K2 fires in the push loop of some
class, the set of (stranded) residues covered by the features of each (key, qualifiers) class
is the same before and after — for every location kind, fused complements and joins included. -/
theorem cover_partial (t t' : Table) (hw : Table.wfT t = true)
    (hk2 : Table.k2 t = false) (h : repair t = .ok t') (k : String) (x : Pos) :
    x ∈ Table.classDen t' k ↔ x ∈ Table.classDen t k := by
  obtain ⟨hnil, rfl⟩ := repair_ok t t' h
  exact classDen_specRepair t hw hnil hk2 k x

/-- non-vacuity: complements, a join, sites and a fusable pair, no K2 -/
example : Table.wfT [gene (compl (ranged 0 3 false false)), gene (compl (ranged 5 8 false false)),
      gene (between 3), gene (joined [ranged 8 9 false true, ranged 9 12 true false]), gene (ranged 12 13 false false)] = true ∧
    Table.k2 [gene (compl (ranged 0 3 false false)), gene (compl (ranged 5 8 false false)),
      gene (between 3), gene (joined [ranged 8 9 false true, ranged 9 12 true false]), gene (ranged 12 13 false false)] = false := by
  decide

/-! ### (g) restoration -/

/-! `cutPieces s pts` are the slices of `s` between consecutive cut points, `roundTrip s cuts` is
`repair (concat (cutPieces s (0 :: cuts ++ [len]))).features` (Gts/Lemmas/RepairRoundTrip.lean). -/

/-- FULL STATEMENT (false today, K12B): cutting and repairing restores every feature with a
table-unique class.  A complement-strand range cut in two comes back as
`complement(join(4..6,1..3))`. -/
theorem restore_full_refuted :
    ¬ (∀ (s : Seq) (c : Int), 0 < c → c < s.len →
        (∀ f ∈ s.feats, Table.classSize s.feats f = 1 ∧ f.key ≠ "source") →
        roundTrip s [c] = .ok s.feats) := by
  intro h
  have h1 := h ⟨[gene (compl (ranged 0 6 false false))], [97, 99, 103, 116, 97, 99]⟩ 3 (by decide) (by decide)
    (by decide)
  have h2 := congrArg (fun (o : RepairOutcome) => match o with
    | RepairOutcome.ok t => t.map (fun (f : Feature) => match f.loc with | compl (ranged _ _ _ _) => true | _ => false)
    | _ => []) h1
  revert h2
  decide

/-- FULL STATEMENT (false today, K12F): … restores the table, *order included*.  A fragment
sorts by its own (cut) location, the repaired feature stays where its first fragment was: -/
theorem restore_order_full_refuted :
    ¬ (∀ (s : Seq) (cuts : List Int), Table.plain s.feats = true →
        (∀ f ∈ s.feats, Table.classSize s.feats f = 1 ∧ f.key ≠ "source") →
        roundTrip s cuts = .ok s.feats) := by
  intro h
  have h1 := h ⟨[⟨"CDS", ranged 1 2 true true, []⟩, gene (ranged 1 3 false false)], [97, 99, 103, 116]⟩ [1, 2]
    (by decide) (by decide)
  have h2 := congrArg (fun (o : RepairOutcome) => match o with | RepairOutcome.ok t => t.map Feature.key | _ => []) h1
  revert h2
  decide

/-- **Restoration** (any number of cuts): when every feature of the sequence is a forward range
inside the sequence, is alone in its class and is not a `source` feature, and the cut positions
are increasing and strictly inside the sequence (`Restorable`), then
`slice;…;slice;concat;repair` does not panic and returns a table that has, for every grouping
text, exactly the original feature (key, location with its own partial markers, qualifiers) —
i.e. the original table **up to the order of the features** (a table is a permutation of the
concatenation of its classes; the exact order is refuted by `restore_order_full_refuted`).
`source` features (whose partial markers slicing strips, and which are fused with `force`) are
covered at class level by `restore_class_partial` with `m = false`, `force = true`, and by the
oracle. -/
theorem restore_partial (s : Seq) (cuts : List Int) (h : Restorable s cuts) :
    ∃ t', roundTrip s cuts = .ok t' ∧ ∀ k, Table.featsOf t' k = Table.featsOf s.feats k :=
  roundTrip_restores s cuts h

/-- non-vacuity: nested and overlapping partial ranges, three cuts, two of them inside features -/
example : Restorable ⟨[⟨"gene", ranged 0 7 false true, [["id", "a"]]⟩, ⟨"CDS", ranged 2 5 true false, [["id", "b"]]⟩,
      ⟨"gene", ranged 4 8 false false, [["id", "c"]]⟩], [97, 99, 103, 116, 97, 99, 103, 116]⟩ [3, 4, 6] :=
  ⟨by decide, by decide, by decide, by decide⟩

/-- **Slice and concat cut a forward range into `frags`**: the location of `Ranged{s, e}` in the
piece `[a, b)` of a sequence of length `L`, moved back to offset `a` by `Concat`, is the
intersection with a partial marker on every cut end. -/
theorem slice_concat_ranged (s e : Int) (p5 p3 : Bool) (a b L : Int)
    (h0 : 0 ≤ s) (hse : s < e) (heL : e ≤ L) (ha : 0 ≤ a) (hab : a < b) (hbL : b ≤ L)
    (hov : s < b ∧ a < e) :
    (((ranged s e p5 p3).expand b (b - L)).expand 0 (-a)).expand 0 a =
      ranged (if s < a then a else s) (if b < e then b else e) (p5 || decide (s < a)) (p3 || decide (b < e)) :=
  Gts.slice_concat_ranged s e p5 p3 a b L h0 hse heL ha hab hbL hov

/-- **Restoration, one class**: the fragments of a forward range cut at any number of increasing
positions inside it, standing in the table in any order `q`, are sorted and fused back by the
`Repair` loop into the one original range with its own partial markers (`m = true`: the
markers slicing puts on cut ends; for a `source` class, whose markers slicing strips,
`m = false` and `force = true`). -/
theorem restore_class_partial (force m : Bool) (hm : (m || force) = true) (s e : Int) (p5 p3 : Bool)
    (cs : List Int) (hc : cutsOk s e cs) (q : List Loc) (hq : q.Perm (frags m s e p5 p3 cs)) :
    pushedOf force q = [ranged s e p5 p3] :=
  pushedOf_frags force m hm s e p5 p3 cs hc q hq

/-- non-vacuity: three cuts, fragments in scrambled order -/
example : cutsOk 2 20 [5, 9, 14] ∧
    [ranged 9 14 true true, ranged 2 5 false true, ranged 14 20 true true, ranged 5 9 true true].Perm
      (frags true 2 20 false true [5, 9, 14]) := by
  refine ⟨by simp [cutsOk], ?_⟩
  simp only [frags]
  exact (List.Perm.swap _ _ _).trans (List.Perm.cons _ ((List.Perm.cons _ (List.Perm.swap _ _ _)).trans (List.Perm.swap _ _ _)))

/-! ### the CLI glue: `gts repair`

`Gts.Gen.repairStep` is the scan-loop body of cmd/gts/repair.go, regenerated on every run (go2lean/cmdsteps.go):
`ff := seq.Features(); ff = gts.Repair(ff); seq = gts.WithFeatures(seq, ff)`; `Gts/Bridge/CmdRepair.lean` proves it equal to
`Cli.repairStep`. -/

/-- **`gts repair`, the command as written**: the record is written with `Repair` of its WHOLE table — the explicit
table `specRepair` — and its residues as they are, whenever no `nil` Location is written (`Table.noNil`: every table
without empty `Joined{}` literals) -/
theorem repair_cli_step (s : Seq) (h : Table.noNil s.feats = true) :
    Gen.repairStep s = some [⟨specRepair s.feats, s.bytes⟩] :=
  Bridge.repairStep_ok s _ (no_panic_ok s.feats h)

/-- the step fails to hand a record to the writer exactly when `Repair` wrote a `nil` Location (never by a panic of
`Repair` itself: `no_panic`) -/
theorem repair_cli_step_none_iff (s : Seq) : Gen.repairStep s = none ↔ repair s.feats = .nilLoc := by
  rw [Bridge.repairStep_eq]
  have := no_panic s.feats
  cases h : repair s.feats <;> simp_all [Cli.repairStep, Cli.repairTable]

/-- **`gts repair | gts repair`** on plain tables of well-formed locations: the second run writes what the first
wrote (`idempotent_partial` at the CLI step) -/
theorem repair_cli_step_idempotent_partial (s r : Seq) (hp : Table.plain s.feats = true) (hw : Table.wfT s.feats = true)
    (h : Gen.repairStep s = some [r]) : Gen.repairStep r = some [r] := by
  rw [Bridge.repairStep_eq] at h
  cases hr : repair s.feats with
  | ok t =>
    have hr' : r = ⟨t, s.bytes⟩ := by
      simp [Cli.repairStep, Cli.repairTable, hr, Cli.withFeats] at h
      exact h.symm
    subst hr'
    exact Bridge.repairStep_ok _ _ (idempotent_partial s.feats t hp hw hr)
  | panic => simp [Cli.repairStep, Cli.repairTable, hr] at h
  | nilLoc => simp [Cli.repairStep, Cli.repairTable, hr] at h

/-- **`gts repair` leaves a record alone** when its table is plain and has no mergeable pair (`unchanged_partial`) -/
theorem repair_cli_step_unchanged_partial (s : Seq) (hp : Table.plain s.feats = true)
    (hm : Table.noMergeablePair s.feats = true) : Gen.repairStep s = some [s] :=
  Bridge.repairStep_ok s _ (unchanged_partial s.feats hp hm)

/-- non-vacuity: two abutting partial fragments are fused by the command -/
example : Gen.repairStep ⟨[gene (ranged 0 3 false true), gene (ranged 3 6 true false)], [65, 67, 71, 84, 65, 67]⟩ =
    some [⟨[gene (ranged 0 6 false false)], [65, 67, 71, 84, 65, 67]⟩] :=
  Bridge.repairStep_ok _ _ (by rfl)

example : Table.noNil [gene (ranged 0 3 false true), gene (ranged 3 6 true false)] = true ∧
    Table.plain [gene (ranged 0 3 false true), gene (ranged 3 6 true false)] = true ∧
    Table.wfT [gene (ranged 0 3 false true), gene (ranged 3 6 true false)] = true := by decide

end Gts.C12
