/-
  Protocol op for `gts.Slice` on a whole GenBank record.  Not part of any theorem.  Core Lean only.

    gb.slice record start end → record' (F…) | PANIC
        `gts.Slice(record, start, end)`: the header and the residues of the result in the record
        encoding of OpsGenBank.lean (with an empty table), then its feature table in the encoding of
        Sexp.lean.  `PANIC` outside `sliceWindowOk` (where the real code panics; the harness sends
        no window on which it recurses twice).
-/
import Gts.Model.OpsGenBank
import Gts.Model.GbSliceRec
namespace Gts
open Gts.GenBank Gts.Pars

def evalGbSlice (op : String) (args : List Sexp) : Option String :=
  match op, args with
  | "gb.slice", [rec, a, b] => do
      let r ← decRecord? rec
      let feats ← match rec with
        | Sexp.list xs => match xs[13]? with
          | some (Sexp.list tab) => tab.mapM decFeature?
          | _ => none
        | _ => none
      let bytes ← match r.origin with | .residues p => some p | _ => none
      let s : Seq := ⟨feats, bytes⟩
      let a ← decInt? a
      let b ← decInt? b
      if !sliceWindowOk s.len a b then pure "PANIC" else
      let s' := s.slice a b
      let f' := sliceHeader r.fields s.len a b
      pure s!"{encRecord ⟨f', [], .residues s'.bytes⟩} {encList (s'.feats.map encFeature)}"
  | _, _ => none

end Gts
