/-
  Modifier text: the five `String()` methods and `AsModifier` of /repo/modifier.go, modelled on
  the `pars` state model of `Gts.Model.Pars` (`pars.Seq`, `pars.Any`, `Parser.Map`,
  `pars.Exact` with their Push / Pop / Drop discipline).  Core Lean only.
-/
import Gts.Model.Region
import Gts.Model.LocText
namespace Gts
open Pars

/-! ### printing -/

/-- fmt verb `%+d`: always a sign, then the decimal digits -/
def fmtPlus (n : Int) : Bytes := (if n < 0 then 45 else 43) :: natDigits n.natAbs

/-- ASCII bytes as a `String` -/
def asciiString (b : Bytes) : String := String.ofList (b.map fun c => Char.ofNat c.toNat)

namespace Mod

/-- `Head.String()`: `^` or `^%+d` -/
def headB (p : Int) : Bytes := if p = 0 then [94] else 94 :: fmtPlus p

/-- `Tail.String()`: `$` or `$%+d` -/
def tailB (q : Int) : Bytes := if q = 0 then [36] else 36 :: fmtPlus q

/-- `Modifier.String()` as bytes: `^`, `^+3`, `$-2`, `^..$`, `^+1..$-2`, `^..^+5`, `$-3..$` -/
def printB : Mod → Bytes
  | head p => headB p
  | tail q => tailB q
  | headTail p q => headB p ++ 46 :: 46 :: tailB q
  | headHead p q => headB p ++ 46 :: 46 :: headB q
  | tailTail p q => tailB p ++ 46 :: 46 :: tailB q

/-- `Modifier.String()` -/
def print (m : Mod) : String := asciiString (printB m)

end Mod

/-! ### the `pars` combinators used by modifier.go -/

namespace ModParse
open LocParse (anyOf)

/-- `pars.Byte(c)`: the next byte must be `c`; nothing is pushed, nothing moves on failure -/
def byte (c : UInt8) : P Unit := do
  let d ← next
  if d != c then fail
  advance1

/-- `Parser.Map` / `Parser.Child` with a mapping that cannot fail: Push, run, Pop on error,
Drop on success -/
def mapP {α β} (p : P α) (f : α → β) : P β := do
  push
  match ← attempt p with
  | none => do pop; fail
  | some v => do drop; pure (f v)

/-- `pars.Seq(p, q)`: Push; the first failing member Pops (whatever frame is then on top) -/
def seq2 {α β} (p : P α) (q : P β) : P (α × β) := do
  push
  let a ← (do match ← attempt p with | some v => pure v | none => do pop; fail)
  let b ← (do match ← attempt q with | some v => pure v | none => do pop; fail)
  drop
  pure (a, b)

/-- `pars.Seq(p, q, r)` -/
def seq3 {α β γ} (p : P α) (q : P β) (r : P γ) : P (α × β × γ) := do
  push
  let a ← (do match ← attempt p with | some v => pure v | none => do pop; fail)
  let b ← (do match ← attempt q with | some v => pure v | none => do pop; fail)
  let c ← (do match ← attempt r with | some v => pure v | none => do pop; fail)
  drop
  pure (a, b, c)

/-- `pars.End`: succeeds iff no byte is left -/
def atEnd : P Unit := do
  match (← getS).rest with
  | [] => pure ()
  | _ => fail

/-- `pars.Exact(p) = Seq(Head, p, End).Map(Child(1))` on a fresh state (`Head` holds) -/
def exact {α} (p : P α) : P α := mapP (seq2 p atEnd) (·.1)

/-- `Any(Seq(c, Int).Child(1), Byte(c).Bind(0)).Map(..)`: the marker byte `c` with an optional
signed offset (the common shape of `parseHead` and `parseTail`) -/
def parseMark (c : UInt8) : P Int :=
  mapP (anyOf [mapP (seq2 (byte c) int) (·.2), (do byte c; pure 0)]) id

/-- `parseHead = Any(Seq('^', Int).Child(1), Byte('^').Bind(0)).Map(Head)` (as the offset) -/
def parseHead : P Int := parseMark 94

/-- `parseTail = Any(Seq('$', Int).Child(1), Byte('$').Bind(0)).Map(Tail)` (as the offset) -/
def parseTail : P Int := parseMark 36

/-- `parseHeadTail = Seq(parseHead, "..", parseTail).Map(mapHeadTail)` -/
def parseHeadTail : P Mod :=
  mapP (seq3 parseHead (lit [46, 46]) parseTail) fun r => .headTail r.1 r.2.2

/-- `parseHeadHead = Seq(parseHead, "..", parseHead).Map(mapHeadHead)` -/
def parseHeadHead : P Mod :=
  mapP (seq3 parseHead (lit [46, 46]) parseHead) fun r => .headHead r.1 r.2.2

/-- `parseTailTail = Seq(parseTail, "..", parseTail).Map(mapTailTail)` -/
def parseTailTail : P Mod :=
  mapP (seq3 parseTail (lit [46, 46]) parseTail) fun r => .tailTail r.1 r.2.2

/-- `parseModifier = Any(parseHeadTail, parseHeadHead, parseTailTail, parseHead, parseTail)` -/
def parseModifier : P Mod :=
  anyOf [parseHeadTail, parseHeadHead, parseTailTail, Mod.head <$> parseHead, Mod.tail <$> parseTail]

end ModParse

/-- `AsModifier(s)`: `pars.Exact(parseModifier)` on a fresh state -/
def asModifier (input : Bytes) : Except Err Mod :=
  ((ModParse.exact ModParse.parseModifier).run' ⟨input, []⟩).1

end Gts
