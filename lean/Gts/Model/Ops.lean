/-
  Line protocol interpreter over the model (one operation per line, one answer per line).
  Not part of any theorem.  Core Lean only.
-/
import Gts.Model.Sexp
import Gts.Spec.Den
import Gts.Spec.Guard
import Gts.Spec.LocCanon
import Gts.Spec.Marks
import Gts.Spec.MarkGuard
import Gts.Spec.CanonGuard
import Gts.Spec.ParseK3
namespace Gts

def hasEmptyParts : Loc → Bool
  | .joined [] => true
  | .ordered [] => true
  | _ => false

def locOrPanic (l : Loc) : String := if hasEmptyParts l then "PANIC" else encLoc l

def boolStr (b : Bool) : String := if b then "1" else "0"

def encDen (d : List Pos) : String :=
  "[" ++ " ".intercalate (d.map fun p => (if p.2 then "~" else "") ++ toString p.1) ++ "]"

def evalCore (op : String) (args : List Sexp) : Option String :=
  match op, args with
  | "loc.shift", [l, i, n] => do
      pure (encLoc ((← decLoc? l).shift (← decInt? i) (← decInt? n)))
  | "loc.expand", [l, i, n] => do
      pure (encLoc ((← decLoc? l).expand (← decInt? i) (← decInt? n)))
  | "loc.reverse", [l, n] => do pure (encLoc ((← decLoc? l).reverse (← decInt? n)))
  | "loc.normalize", [l, n] => do pure (encLoc ((← decLoc? l).normalize (← decInt? n)))
  | "loc.join", ls => do pure (locOrPanic (Loc.join (← ls.mapM decLoc?)))
  | "loc.order", ls => do pure (locOrPanic (Loc.order (← ls.mapM decLoc?)))
  | "loc.pushall", f :: ls => do
      let r := Loc.pushAll [] (← ls.mapM decLoc?) (← decBool? f)
      pure (encList (r.reverse.map encLoc))
  | "loc.less", [a, b] => do pure (boolStr ((← decLoc? a).less (← decLoc? b)))
  | "loc.within", [l, lo, hi] => do
      pure (boolStr ((← decLoc? l).within (← decInt? lo) (← decInt? hi)))
  | "loc.overlap", [l, lo, hi] => do
      pure (boolStr ((← decLoc? l).overlap (← decInt? lo) (← decInt? hi)))
  | "loc.region", [l] => do pure (encReg (← decLoc? l).region)
  | "loc.len", [l] => do pure (toString (← decLoc? l).len)
  | "loc.strand", [l] => do pure (toString (← decLoc? l).strand)
  | "loc.complement", [l] => do pure (encLoc (← decLoc? l).complement)
  | "loc.ascomplete", [l] => do pure (encLoc (← decLoc? l).asComplete)
  | "loc.print", [l] => do pure (encBytes (← decLoc? l).printB)
  | "loc.canonp", [l] => do pure (boolStr (← decLoc? l).canonP)
  | "loc.parse", [s] => do
      match parseLocation (← decBytes? s) with
      | .ok (l, rest) => pure (encLoc l ++ " " ++ encBytes rest)
      | .error .fail => pure "ERR"
      | .error .panic => pure "PANIC"
  | "reg.resize", [r, m] => do
      let out := (← decReg? r).resize (← decMod? m)
      pure (encReg out)
  | "reg.complement", [r] => do pure (encReg (← decReg? r).complement)
  | "reg.len", [r] => do pure (toString (← decReg? r).len)
  | "reg.head", [r] => do pure (toString (← decReg? r).head)
  | "reg.tail", [r] => do pure (toString (← decReg? r).tail)
  | "reg.minimize", [r] => do pure (encSegs (← decReg? r).minimize)
  | "reg.invlin", [r, n] => do
      pure (encList (((← decReg? r).invertLinear (← decInt? n)).map encReg))
  | "reg.invcirc", [r, n] => do
      match (← decReg? r).invertCircular (← decInt? n) with
      | some rs => pure (encList (rs.map encReg))
      | none => pure "PANIC"
  | "mod.apply", [m, h, t] => do
      let r := (← decMod? m).apply (← decInt? h) (← decInt? t)
      pure s!"{r.1} {r.2}"
  | "tab.insertall", fs => do
      pure (encList ((Table.insertAll [] (← fs.mapM decFeature?)).map encFeature))
  | "seq.insert", [h, i, g] => do
      pure (encSeq ((← decSeq? h).insert (← decInt? i) (← decSeq? g)))
  | "seq.embed", [h, i, g] => do
      pure (encSeq ((← decSeq? h).embed (← decInt? i) (← decSeq? g)))
  | "seq.delete", [s, i, n] => do
      pure (encSeq ((← decSeq? s).delete (← decInt? i) (← decInt? n)))
  | "seq.erase", [s, i, n] => do
      pure (encSeq ((← decSeq? s).erase (← decInt? i) (← decInt? n)))
  | "seq.slice", [s, a, b] => do
      pure (encSeq ((← decSeq? s).slice (← decInt? a) (← decInt? b)))
  | "seq.rotate", [s, n] => do pure (encSeq ((← decSeq? s).rotate (← decInt? n)))
  | "seq.reverse", [s] => do pure (encSeq (← decSeq? s).reverse)
  | "seq.concat", ss => do pure (encSeq (Seq.concat (← ss.mapM decSeq?)))
  | "spec.den", [l] => do pure (encDen (← decLoc? l).den)
  | "spec.regden", [r] => do pure (encDen (← decReg? r).den)
  | "spec.marks", [l] => do
      let m := (← decLoc? l).outerMarks
      pure (boolStr m.1 ++ " " ++ boolStr m.2)
  | "spec.cw", [l, n] => do pure (boolStr ((← decLoc? l).coordsWithin (← decInt? n)))
  | "mk.shift", [l, i, n] => do
      pure (boolStr ((← decLoc? l).shiftMarkAbs (← decInt? i) (← decInt? n)))
  | "mk.expand", [l, i, n] => do
      pure (boolStr ((← decLoc? l).expandMarkAbs (← decInt? i) (← decInt? n)))
  | "mk.reverse", [l, n] => do pure (boolStr ((← decLoc? l).reverseMarkAbs (← decInt? n)))
  | "mk.normalize", [l, n] => do pure (boolStr ((← decLoc? l).normalizeMarkAbs (← decInt? n)))
  | "k2.shift", [l, i, n] => do
      pure (boolStr ((← decLoc? l).shiftAbs (← decInt? i) (← decInt? n)))
  | "k2.expand", [l, i, n] => do
      pure (boolStr ((← decLoc? l).expandAbs (← decInt? i) (← decInt? n)))
  | "k2.reverse", [l, n] => do pure (boolStr ((← decLoc? l).reverseAbs (← decInt? n)))
  | "k2.normalize", [l, n] => do pure (boolStr ((← decLoc? l).normalizeAbs (← decInt? n)))
  | "k2.join", ls => do pure (boolStr (Loc.joinAbs (← ls.mapM decLoc?)))
  | "k2.pushall", f :: ls => do
      pure (boolStr (Loc.pushAllAbs (← ls.mapM decLoc?) (← decBool? f)))
  | "k3.shift", [l, i, n] => do
      pure (boolStr ((← decLoc? l).shiftK3 (← decInt? i) (← decInt? n)))
  | "k3.expand", [l, i, n] => do
      pure (boolStr ((← decLoc? l).expandK3 (← decInt? i) (← decInt? n)))
  | "k3.reverse", [l, n] => do pure (boolStr ((← decLoc? l).reverseK3 (← decInt? n)))
  | "k3.normalize", [l, n] => do pure (boolStr ((← decLoc? l).normalizeK3 (← decInt? n)))
  | "k3.join", ls => do pure (boolStr (Loc.joinK3 (← ls.mapM decLoc?)))
  | "k3.parse", [t] => do
      match parseLocationK3 (← decBytes? t) with
      | .ok (l, b, rest) => pure (boolStr b ++ " " ++ encLoc l ++ " " ++ encBytes rest)
      | .error .fail => pure "ERR"
      | .error .panic => pure "PANIC"
  | "k3.adj", ls => do pure (boolStr (Loc.noAdjCompl (Loc.flatJList (← ls.mapM decLoc?))))
  | "k3.le", [l, m] => do pure (boolStr (Loc.coordsLe (← decInt? m) (← decLoc? l)))
  | "k3.revin", [l, n] => do pure (boolStr (Loc.revIn (← decInt? n) (← decLoc? l)))
  | _, _ => none

end Gts
