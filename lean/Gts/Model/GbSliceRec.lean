/-
  `gts.Slice` on a GenBank record, record level:
    seqio/genbank.go   GenBankFields.Slice (66-117), GenBank.WithTopology (189-193)
    molecule.go        Molecule.Counter (9-16)
    sequence.go        Slice (253-291): index normalisation, what `trySlice` is called with
  The clipping of one reference info is `sliceRefInfo` of Model/GbSlice.lean; here the WHOLE
  `seqio.Reference` is carried along (the loop copies `ref`, assigns `ref.Info`, appends it) and the
  kept references are renumbered `1..m`.  `gbf.Region` is SET to the window (not composed with a
  region the record already has); nothing else of the header changes.  `GenBankFields` implements
  neither `Shift` nor `Expand`, so the `Rotate` in front of a wrap-around window leaves the header
  alone and `GenBankFields.Slice` then sees the window `(0, L - start + end)` — the reference
  ranges, which are in the coordinates of the UN-rotated record, are clipped against that
  (bug for bug).
  Core Lean only.
-/
import Gts.Model.GbSlice
import Gts.Model.GenBank
import Gts.Model.Seq
namespace Gts.GenBank
open Gts.Pars

/-- `Molecule.Counter()` -/
def counterWord (mol : Bytes) : Bytes := if mol = bs "AA" then bs "residues" else bs "bases"

/-- `refs[i].Number = i + 1` on whole references -/
def renumberRefs (rs : List Reference) : List Reference :=
  rs.zipIdx.map fun (r, k) => { r with number := (k : Int) + 1 }

/-- the loop of `GenBankFields.Slice` over `gbf.References`: a reference whose info parses is kept
with the clipped info when a range overlaps the window and dropped otherwise; one whose info does
not parse is kept as it is; then the numbers -/
def sliceReferences (pref : Bytes) (a b : Int) (refs : List Reference) : List Reference :=
  renumberRefs (refs.filterMap fun r => (sliceRefInfo pref a b r.info).map fun i => { r with info := i })

/-- `GenBankFields.Slice(start, end)` -/
def Fields.slice (f : Fields) (a b : Int) : Fields :=
  { f with region := some (a, b), references := sliceReferences (counterWord f.molecule) a b f.references }

/-- `GenBank.WithTopology(t)` on the header -/
def Fields.withTopology (f : Fields) (t : Int) : Fields := { f with topology := t }

/-- the index normalisation of `gts.Slice`: a negative index counts from the end -/
def sliceIndex (L x : Int) : Int := if x < 0 then x + L else x

/-- the window `trySlice(info, ·, ·)` is called with by `gts.Slice(seq, start, end)` on `L` residues:
the normalised indices, or `(0, L - start + end)` behind the rotation of a wrap-around window -/
def sliceWindow (L start end_ : Int) : Int × Int :=
  let s := sliceIndex L start
  let e := sliceIndex L end_
  if e < s then (0, L - s + e) else (s, e)

/-- the windows on which `gts.Slice` returns (Bridge/SeqSlice.lean: `seqSlice_fwd`, `seqSlice_wrap`, and the
panics `seqSlice_fwd_panic`, `seqSlice_wrap_empty_panic`): a forward window inside the sequence, or a
wrap-around window on a non-empty sequence whose length `L - start + end` is not negative (beyond
that the real code recurses once more, `seqSlice_deep_differs`) -/
def sliceWindowOk (L start end_ : Int) : Bool :=
  let s := sliceIndex L start
  let e := sliceIndex L end_
  if e < s then decide (0 < L ∧ 0 ≤ L - s + e) else decide (0 ≤ s ∧ e ≤ L)

/-- the header `gts.Slice(seq, start, end)` gives a GenBank record of `L` residues:
`WithTopology(WithInfo(seq, trySlice(info, …)), Linear)` -/
def sliceHeader (f : Fields) (L start end_ : Int) : Fields :=
  let w := sliceWindow L start end_
  (f.slice w.1 w.2).withTopology 0

end Gts.GenBank
