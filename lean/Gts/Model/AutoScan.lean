/-
  `seqio.NewAutoScanner` (seqio/scanner.go:30-80) with the REAL GenBank reader: the first `Scan`
  walks `sequenceParsers = [GenBankParser, FastaParser]` — `Push`, parse, on success `Drop` and
  KEEP that parser for every later `Scan`, on failure note the position and `Pop` — and every
  later `Scan` calls the parser that was kept, on the same `pars.State` (position and saved
  positions persist from record to record).

  There is no peeking: the format is decided by which parser accepts the first record.
  `GenBankParser` calls `state.Clear()` behind the LOCUS line (seqio/genbank.go), so the position
  the scanner pushed is gone by then: the scanner's `Drop` / `Pop` find an empty stack and do
  nothing (`pars.State.Pop` / `Drop` test `!s.stk.Empty()`).  In particular a `GenBankParser` that
  fails BEHIND its LOCUS line leaves the state where it failed, and `FastaParser` is tried there
  (`Gts.C17.auto_skips_broken_locus_witness`).

  `Gts.Fasta.scanFirstAuto` (Model/Fasta.lean) is the same function with `GenBankParser` replaced
  by the stand-in "fails in place on input that does not begin with LOCUS, unmodelled otherwise";
  `Gts.C17.auto_real_eq_standin` proves that this is what the real reader does.
  Core Lean only.
-/
import Gts.Model.Fasta
import Gts.Model.GenBankParse
namespace Gts.Auto
open Gts.Pars
open Gts.GenBank (Record Registry genbankParser)
open Gts.Fasta (fastaParse)

/-- what `Scanner.Value()` returns: a `seqio.GenBank` or a `seqio.Fasta` -/
inductive Rec where
  | gb (r : Record)
  | fa (desc data : Bytes)
  deriving Repr, Inhabited

def Rec.isGb : Rec → Bool
  | .gb _ => true
  | .fa _ _ => false

def Rec.isFa : Rec → Bool
  | .gb _ => false
  | .fa _ _ => true

/-- `gts.Len(sc.Value())` -/
def Rec.len : Rec → Int
  | .gb r => r.origin.len
  | .fa _ d => d.length

/-- what a `for sc.Scan() { … sc.Value() … }; sc.Err()` loop observes: the records in order, the
qualifier registry afterwards (`GenBankParser` registers the qualifier names it meets), and whether
`Err()` is `nil` at the end; or a Go run-time panic -/
inductive Out where
  | done (recs : List Rec) (reg : Registry) (clean : Bool)
  | panic
  deriving Repr, Inhabited

/-- what the loop observes without the contents: per record (is it a GenBank record, `gts.Len`),
and whether `Err()` is `nil`; `none` = panic (the answer of the harness op `scan.auto`) -/
def Out.summary : Out → Option (List (Bool × Int) × Bool)
  | .done rs _ c => some (rs.map fun r => (r.isGb, r.len), c)
  | .panic => none

/-- put a record in front of what the later scans return -/
def Out.cons (r : Rec) : Out → Out
  | .done rs reg c => .done (r :: rs) reg c
  | .panic => .panic

/-- every later `Scan` when the first one kept `GenBankParser` (scanner.go:78-79
`s.res, s.err = s.p.Parse(s.s)`), on the state as the previous record left it.  `Request(1)` fails
→ regular end; a parser error → `Err()` is not `nil`.  A returned record has consumed its LOCUS
keyword, so `length + 1` rounds are enough (`Gts.C17.gbLoop_fuel_stable`). -/
def gbLoop : Nat → Registry → PS → Out
  | 0, reg, _ => .done [] reg false
  | fuel + 1, reg, s =>
    if s.rest.isEmpty then .done [] reg true else
    match (genbankParser reg).run' s with
    | (.ok (r, reg'), s') => (gbLoop fuel reg' s').cons (.gb r)
    | (.error .fail, _) => .done [] reg false
    | (.error .panic, _) => .panic

/-- every later `Scan` when the first one kept `FastaParser`; the same loop as
`Gts.Fasta.scanLoop` with the registry carried along unchanged (`FastaParser` never touches it) -/
def faLoop : Nat → Registry → PS → Out
  | 0, reg, _ => .done [] reg false
  | fuel + 1, reg, s =>
    if s.rest.isEmpty then .done [] reg true else
    match fastaParse.run' s with
    | (.ok r, s') => (faLoop fuel reg s').cons (.fa r.1 r.2)
    | (.error .fail, _) => .done [] reg false
    | (.error .panic, _) => .panic

/-- the first `Scan` of `NewAutoScanner` (scanner.go:42-76): nothing to read → regular end; else
for `GenBankParser`, then `FastaParser`: `Push`, parse; success → `Drop`, keep the parser;
failure → `Pop`.  Both failed: the reported error is one of the two parsers' errors, never
`io.EOF` itself, so `Err()` is not `nil`. -/
def scanFirst (reg : Registry) (s : PS) : Out :=
  if s.rest.isEmpty then .done [] reg true else
  match (do push; attempt (genbankParser reg) : P _).run' s with
  | (.error _, _) => .panic
  | (.ok (some (r, reg')), s1) =>
    let s2 := (drop.run' s1).2
    (gbLoop (s2.rest.length + 1) reg' s2).cons (.gb r)
  | (.ok none, s1) =>
    let s2 := (pop.run' s1).2
    match (do push; attempt fastaParse : P _).run' s2 with
    | (.error _, _) => .panic
    | (.ok (some r), s3) =>
      let s4 := (drop.run' s3).2
      (faLoop (s4.rest.length + 1) reg s4).cons (.fa r.1 r.2)
    | (.ok none, _) => .done [] reg false

/-- `seqio.NewAutoScanner(bytes.NewReader(text))` scanned to its end, with the qualifier registry
`reg` at the start -/
def scanAll (reg : Registry) (text : Bytes) : Out := scanFirst reg ⟨text, []⟩

/-- the records of a FASTA-only scan (`Gts.Fasta.ScanOut.done`) as scanner values -/
def faRecs (rs : List (Bytes × Bytes)) : List Rec := rs.map fun p => .fa p.1 p.2

/-- the input begins with the five bytes `LOCUS` -/
def startsLocus (text : Bytes) : Bool := text.take 5 == [76, 79, 67, 85, 83]

end Gts.Auto
