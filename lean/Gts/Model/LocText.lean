/-
  Location text: `String()` methods and `ParseLocation` (location.go:222-..., 1012-1270),
  modelled on top of `Gts.Pars`.  Core Lean only.
-/
import Gts.Model.Loc
import Gts.Model.Pars
import Gts.Model.Decimal
namespace Gts
open Pars

namespace Loc

mutual
/-- `Location.String()` as bytes (`strconv.Itoa` / `%d` = `dec`; 1-based inclusive coordinates,
`<` `>` partial markers, `join(` `order(` `complement(` wrappers, parts joined by `,`) -/
def printB : Loc → Bytes
  | between p => dec p ++ 94 :: dec (p + 1)
  | point p => dec (p + 1)
  | ranged s e p5 p3 =>
      (if p5 then [60] else []) ++ dec (s + 1) ++ 46 :: 46 :: ((if p3 then [62] else []) ++ dec e)
  | ambiguous s e => dec (s + 1) ++ 46 :: dec e
  | joined ls => str "join(" ++ (printListB ls ++ [41])
  | ordered ls => str "order(" ++ (printListB ls ++ [41])
  | compl l => str "complement(" ++ (printB l ++ [41])
/-- `strings.Join(parts, ",")` -/
def printListB : List Loc → Bytes
  | [] => []
  | l :: ls => printB l ++ printTailB ls
/-- every further part, each preceded by its `,` -/
def printTailB : List Loc → Bytes
  | [] => []
  | l :: ls => 44 :: (printB l ++ printTailB ls)
end

end Loc

namespace LocParse

/-- `parseBetween` -/
def between : P Loc := do
  push
  let start ← (do match ← attempt int with | some v => pure v | none => do pop; fail)
  let c ← (do match ← attempt next with | some c => pure c | none => do pop; fail)
  if c != 94 then do pop; fail
  advance1
  let end_ ← (do match ← attempt int with | some v => pure v | none => do pop; fail)
  if start + 1 ≠ end_ then fail        -- no Pop: position and frame are left as they are
  drop
  pure (.between start)

/-- `parsePoint = Parser(Int).Map(...)` -/
def point : P Loc := do
  push
  match ← attempt int with
  | none => do pop; fail
  | some v => do drop; pure (.point (v - 1))

/-- `parseRange` -/
def range : P Loc := do
  push
  let c ← (do match ← attempt next with | some c => pure c | none => do pop; fail)
  let p5 := c == 60
  if p5 then advance1
  let start ← (do match ← attempt int with | some v => pure (v - 1) | none => do pop; fail)
  match ← attempt (request 2) with
  | none => do pop; fail
  | some b => if b != [46, 46] then do pop; fail
  advanceN 2
  let c ← next                     -- failure: no Pop
  let p3 := c == 62
  if p3 then advance1
  let end_ ← (do match ← attempt int with | some v => pure v | none => do pop; fail)
  -- legacy trailing '>'
  let p3 ← (do match ← attempt next with
    | some 62 => do advance1; pure true
    | _ => pure p3)
  drop
  pure (.ranged start end_ p5 p3)

/-- `parseAmbiguous` -/
def ambiguous : P Loc := do
  push
  let start ← (do match ← attempt int with | some v => pure (v - 1) | none => do pop; fail)
  let c ← (do match ← attempt next with | some c => pure c | none => do pop; fail)
  if c != 46 then do pop; fail
  advance1
  let end_ ← (do match ← attempt int with | some v => pure v | none => do pop; fail)
  drop
  pure (.ambiguous start end_)

/-- `locationDelimiter` -/
def delimiter : P Bool := do
  push
  match ← attempt next with
  | none => do pop; pure false
  | some c =>
    if c != 44 then do pop; pure false
    else do
      advance1
      skipWhile isSpace
      drop
      pure true

/-- `pars.Any(ps...)`: alternatives are tried from wherever the previous one left the state. -/
def anyOf {α} (ps : List (P α)) : P α := do
  push
  let rec go : List (P α) → P α
    | [] => do pop; fail
    | p :: rest => do
      match ← attempt p with
      | some v => do drop; pure v
      | none => do
        if !(← pushed) then fail
        go rest
  go ps

mutual
/-- `ParseLocation` with recursion fuel (each recursive call has consumed at least one byte) -/
def loc : Nat → P Loc
  | 0 => fail
  | fuel + 1 =>
    anyOf [range, between, ambiguous, complementOf fuel, joinOf fuel, orderOf fuel, point]

/-- `multipleLocationParser` -/
def multiple : Nat → P (List Loc)
  | 0 => fail
  | fuel + 1 => do
    push
    let first ← (do match ← attempt (loc fuel) with | some v => pure v | none => do pop; fail)
    let rec more : Nat → List Loc → P (List Loc)
      | 0, acc => pure acc.reverse
      | k + 1, acc => do
        if ← delimiter then
          match ← attempt (loc fuel) with
          | some v => more k (v :: acc)
          | none => do pop; fail
        else pure acc.reverse
    let ls ← more fuel [first]
    drop
    pure ls

/-- `parseJoin` -/
def joinOf : Nat → P Loc
  | 0 => fail
  | fuel + 1 => do
    push
    match ← attempt (request 5) with
    | none => do pop; fail
    | some b => if b != str "join(" then do pop; fail
    advanceN 5
    let ls ← multiple fuel          -- failure: no Pop
    let c ← (do match ← attempt next with | some c => pure c | none => do pop; fail)
    if c != 41 then do pop; fail
    advance1
    drop
    pure (Loc.join ls)

/-- `parseOrder` -/
def orderOf : Nat → P Loc
  | 0 => fail
  | fuel + 1 => do
    push
    match ← attempt (request 6) with
    | none => do pop; fail
    | some b => if b != str "order(" then do pop; fail
    advanceN 6
    let ls ← multiple fuel          -- failure: no Pop
    let c ← (do match ← attempt next with | some c => pure c | none => do pop; fail)
    if c != 41 then do pop; fail
    advance1
    drop
    pure (Loc.order ls)

/-- `parseComplement(&ParseLocation)` -/
def complementOf : Nat → P Loc
  | 0 => fail
  | fuel + 1 => do
    push
    match ← attempt (request 11) with
    | none => do pop; fail
    | some b => if b != str "complement(" then do pop; fail
    advanceN 11
    let l ← (do match ← attempt (loc fuel) with | some v => pure v | none => do pop; fail)
    let c ← (do match ← attempt next with | some c => pure c | none => do pop; fail)
    if c != 41 then do pop; fail
    advance1
    drop
    pure l.complement
end

end LocParse

/-- `AsLocation(s)`: result and unconsumed rest -/
def parseLocation (input : Bytes) : Except Err (Loc × Bytes) :=
  match (LocParse.loc (input.length + 2)).run' ⟨input, []⟩ with
  | (.ok l, s) => .ok (l, s.rest)
  | (.error e, _) => .error e

end Gts
