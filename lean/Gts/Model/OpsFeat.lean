/-
  Protocol ops of one area (see /verif/FRAMEWORK.md).  Not part of any theorem.  Core Lean only.

  Feature selection / filters / sorted insertion (property C19).

  Regexp oracle used by these ops.  The harness only sends selectors whose regexps are
  *literals*: bytes from `[A-Za-z0-9 _=-]`, the escaped slash `\/`, or the single characters
  `(` / `[` (the two invalid regexps it uses).  For such a text Go's `regexp.MatchString` is a
  substring test of the unescaped literal, and `regexp.Compile` fails iff the text contains
  `(` or `[`.  `litMatch` / `litValid` below are exactly that.
-/
import Gts.Model.Sexp
import Gts.Model.Feature
namespace Gts

/-- drop the backslash of every escaped character -/
def unescapeLit : List Char → List Char
  | '\\' :: c :: cs => c :: unescapeLit cs
  | c :: cs => c :: unescapeLit cs
  | [] => []

def isInfixChars (p : List Char) : List Char → Bool
  | [] => p.isEmpty
  | c :: cs => p.isPrefixOf (c :: cs) || isInfixChars p cs

def litMatch (rx v : String) : Bool := isInfixChars (unescapeLit rx.toList) v.toList
def litValid (rx : String) : Bool := !(rx.toList.any fun c => c == '(' || c == '[')

/-- filter expressions: outer `none` = malformed op, inner `none` = the Go constructor
returned an error (`ERR`). -/
partial def decFilter? : Sexp → Option (Option Filter)
  | .list [.atom "true"] => some (some trueFilter)
  | .list [.atom "false"] => some (some falseFilter)
  | .list (.atom "and" :: es) => do
      let fs ← es.mapM decFilter?
      pure ((fs.mapM id).map andF)
  | .list (.atom "or" :: es) => do
      let fs ← es.mapM decFilter?
      pure ((fs.mapM id).map orF)
  | .list [.atom "not", e] => do pure ((← decFilter? e).map notF)
  | .list [.atom "key", k] => do pure (some (keyF (← decStr? k)))
  | .list [.atom "within", lo, hi] => do pure (some (withinF (← decInt? lo) (← decInt? hi)))
  | .list [.atom "overlap", lo, hi] => do pure (some (overlapF (← decInt? lo) (← decInt? hi)))
  | .list [.atom "fwd"] => some (some forwardStrand)
  | .list [.atom "rev"] => some (some reverseStrand)
  | .list [.atom "sel", s] => do pure (selector litValid litMatch (← decStr? s))
  | .list [.atom "qual", n, q] => do
      pure (qualifierFilter litValid litMatch (← decStr? n) (← decStr? q))
  | _ => none

def encStrs (xs : List String) : String := encList (xs.map encStr)

def evalFeat (op : String) (args : List Sexp) : Option String :=
  match op, args with
  | "sel.shift", [s] => do
      let r := shiftSelector (← decStr? s)
      pure (encStr r.1 ++ " " ++ encStr r.2)
  | "sel.eval", [s, f] => do
      let f ← decFeature? f
      match selector litValid litMatch (← decStr? s) with
      | some p => pure (encBool (p f))
      | none => pure "ERR"
  | "feat.eval", [e, f] => do
      let f ← decFeature? f
      match ← decFilter? e with
      | some p => pure (encBool (p f))
      | none => pure "ERR"
  | "feat.filter", e :: fs => do
      let t ← fs.mapM decFeature?
      match ← decFilter? e with
      | some p => pure (encList ((Table.filterTable p t).map encFeature))
      | none => pure "ERR"
  | "feat.less", [f, g] => do pure (encBool (Table.lessF (← decFeature? f) (← decFeature? g)))
  | "tab.insert", [.list fs, f] => do
      pure (encList ((Table.insert (← fs.mapM decFeature?) (← decFeature? f)).map encFeature))
  | "props.q", [ps, n] => do
      let ps ← decProps? ps
      let n ← decStr? n
      let g := match Props.get ps n with
        | some vs => encStrs vs
        | none => "NIL"
      pure s!"{Props.index ps n} {encBool (Props.has ps n)} {g} {encStrs (Props.keys ps)}"
  | "rng.compare", [a, b, c, d] => do
      pure (toString (Loc.rangeCompare (← decInt? a) (← decInt? b) (← decInt? c) (← decInt? d)))
  | "rng.within", [a, b, c, d] => do
      pure (encBool (Loc.rangeWithin (← decInt? a) (← decInt? b) (← decInt? c) (← decInt? d)))
  | "rng.overlap", [a, b, c, d] => do
      pure (encBool (Loc.rangeOverlap (← decInt? a) (← decInt? b) (← decInt? c) (← decInt? d)))
  | _, _ => none

end Gts
