/-
  Line protocol support: s-expressions, encoders/decoders for model values.
  Not part of any theorem; shared by the driver only.  Core Lean only.
-/
import Gts.Model.Seq
import Gts.Model.LocText
namespace Gts

inductive Sexp where
  | atom (s : String)
  | list (xs : List Sexp)
  deriving Repr, Inhabited

namespace Sexp

def tokenize (s : String) : List String := Id.run do
  let mut out : Array String := #[]
  let mut cur := ""
  for c in s.toList do
    if c == '(' || c == ')' then
      if cur != "" then out := out.push cur; cur := ""
      out := out.push (String.singleton c)
    else if c == ' ' || c == '\n' || c == '\r' || c == '\t' then
      if cur != "" then out := out.push cur; cur := ""
    else cur := cur.push c
  if cur != "" then out := out.push cur
  return out.toList

/-- parse a sequence of s-expressions up to a closing paren or end of tokens -/
partial def parseMany (toks : List String) (acc : Array Sexp) : List Sexp × List String :=
  match toks with
  | [] => (acc.toList, [])
  | ")" :: rest => (acc.toList, rest)
  | "(" :: rest =>
    let (xs, rest') := parseMany rest #[]
    parseMany rest' (acc.push (.list xs))
  | t :: rest => parseMany rest (acc.push (.atom t))

def parseLine (s : String) : List Sexp := (parseMany (tokenize s) #[]).1

end Sexp

/-! ### decoding -/

def decInt? : Sexp → Option Int
  | .atom s => s.toInt?
  | _ => none

/-- a non-negative integer -/
def decNat? (x : Sexp) : Option Nat := do
  let i ← decInt? x
  if i < 0 then none else pure i.toNat

def decBool? : Sexp → Option Bool
  | .atom "1" => some true
  | .atom "0" => some false
  | _ => none

def hexVal (c : Char) : Option Nat :=
  if '0' ≤ c ∧ c ≤ '9' then some (c.toNat - '0'.toNat)
  else if 'a' ≤ c ∧ c ≤ 'f' then some (c.toNat - 'a'.toNat + 10)
  else none

/-- `x<hex>` → bytes -/
def decBytes? : Sexp → Option (List UInt8)
  | .atom s =>
    match s.toList with
    | 'x' :: cs =>
      let rec go : List Char → Array UInt8 → Option (List UInt8)
        | [], acc => some acc.toList
        | a :: b :: r, acc => do
          let x ← hexVal a; let y ← hexVal b
          go r (acc.push (UInt8.ofNat (x * 16 + y)))
        | _, _ => none
      go cs #[]
    | _ => none
  | _ => none

def bytesToString (b : List UInt8) : String :=
  match String.fromUTF8? (ByteArray.mk b.toArray) with
  | some s => s
  | none => String.mk (b.map fun c => Char.ofNat c.toNat)

def decStr? (s : Sexp) : Option String := (decBytes? s).map bytesToString

mutual
partial def decLoc? : Sexp → Option Loc
  | .list [.atom "B", p] => do pure (.between (← decInt? p))
  | .list [.atom "P", p] => do pure (.point (← decInt? p))
  | .list [.atom "R", s, e, p5, p3] => do
      pure (.ranged (← decInt? s) (← decInt? e) (← decBool? p5) (← decBool? p3))
  | .list [.atom "A", s, e] => do pure (.ambiguous (← decInt? s) (← decInt? e))
  | .list (.atom "J" :: ls) => do pure (.joined (← ls.mapM decLoc?))
  | .list (.atom "O" :: ls) => do pure (.ordered (← ls.mapM decLoc?))
  | .list [.atom "C", l] => do pure (.compl (← decLoc? l))
  | _ => none
end

partial def decReg? : Sexp → Option Reg
  | .list [.atom "S", h, t] => do pure (.seg (← decInt? h) (← decInt? t))
  | .list (.atom "M" :: rs) => do pure (.many (← rs.mapM decReg?))
  | _ => none

def decMod? : Sexp → Option Mod
  | .list [.atom "H", p] => do pure (.head (← decInt? p))
  | .list [.atom "T", q] => do pure (.tail (← decInt? q))
  | .list [.atom "HT", p, q] => do pure (.headTail (← decInt? p) (← decInt? q))
  | .list [.atom "HH", p, q] => do pure (.headHead (← decInt? p) (← decInt? q))
  | .list [.atom "TT", p, q] => do pure (.tailTail (← decInt? p) (← decInt? q))
  | _ => none

def decProps? : Sexp → Option (List (List String))
  | .list ps => ps.mapM fun
      | .list xs => xs.mapM decStr?
      | _ => none
  | _ => none

def decFeature? : Sexp → Option Feature
  | .list [.atom "F", k, l, ps] => do
      pure ⟨← decStr? k, ← decLoc? l, ← decProps? ps⟩
  | _ => none

def decSeq? : Sexp → Option Seq
  | .list (.atom "Q" :: b :: fs) => do pure ⟨← fs.mapM decFeature?, ← decBytes? b⟩
  | _ => none

/-! ### encoding -/

def encBool (b : Bool) : String := if b then "1" else "0"

def hexDigit (n : Nat) : Char :=
  if n < 10 then Char.ofNat (n + 48) else Char.ofNat (n - 10 + 97)

def encBytes (b : List UInt8) : String :=
  String.mk ('x' :: b.flatMap fun c => [hexDigit (c.toNat / 16), hexDigit (c.toNat % 16)])

def encStr (s : String) : String := encBytes s.toUTF8.toList

mutual
partial def encLoc : Loc → String
  | .between p => s!"(B {p})"
  | .point p => s!"(P {p})"
  | .ranged s e p5 p3 => s!"(R {s} {e} {encBool p5} {encBool p3})"
  | .ambiguous s e => s!"(A {s} {e})"
  | .joined ls => "(J" ++ String.join (ls.map fun l => " " ++ encLoc l) ++ ")"
  | .ordered ls => "(O" ++ String.join (ls.map fun l => " " ++ encLoc l) ++ ")"
  | .compl l => "(C " ++ encLoc l ++ ")"
end

partial def encReg : Reg → String
  | .seg h t => s!"(S {h} {t})"
  | .many rs => "(M" ++ String.join (rs.map fun r => " " ++ encReg r) ++ ")"

def encMod : Mod → String
  | .head p => s!"(H {p})"
  | .tail q => s!"(T {q})"
  | .headTail p q => s!"(HT {p} {q})"
  | .headHead p q => s!"(HH {p} {q})"
  | .tailTail p q => s!"(TT {p} {q})"

def encList (xs : List String) : String := "(" ++ " ".intercalate xs ++ ")"

def encProps (ps : List (List String)) : String :=
  encList (ps.map fun p => encList (p.map encStr))

def encFeature (f : Feature) : String :=
  s!"(F {encStr f.key} {encLoc f.loc} {encProps f.props})"

def encSeq (s : Seq) : String :=
  "(Q " ++ encBytes s.bytes ++ String.join (s.feats.map fun f => " " ++ encFeature f) ++ ")"

def encSegs (ss : List Seg) : String := encList (ss.map fun s => s!"(S {s.1} {s.2})")

end Gts
