/-
  The GLUE of the single-step commands: what `/repo/cmd/gts/{select,clear,reverse,complement,repair,define,
  annotate,search,sort}.go` do with the library functions the model has — the filter `gts select` builds from its
  options, the per-record step of each command (the body of its `for scanner.Scan()` loop behind
  `seq := scanner.Value()`), the order `gts sort` sorts by.  Core Lean only.

  Each definition names the Go statements it mirrors; `Gts/Gen/CmdSelect|CmdReverse|CmdRepair|CmdSearch|CmdSort.lean`
  (go2lean/cmdsteps.go) regenerate those statements on every run and `Gts/Bridge/Cmd*.lean` prove them equal to
  these definitions.  The metadata of a record (`Info()`) is not part of the model's `Seq`: `gts.WithFeatures`
  keeps it, and so do `Reverse` / `Complement` (C05 `gen_reverse_spec`, `gen_complement_spec`).
-/
import Gts.Model.Cli
import Gts.Model.Feature
import Gts.Model.Repair
namespace Gts
namespace Cli

/-- `gts.WithFeatures(seq, ff)`: the record with another table, residues (and metadata) kept -/
def withFeats (s : Seq) (ff : Table) : Seq := ⟨ff, s.bytes⟩

/-! ### `gts select` (select.go) -/

/-- select.go, between the selector loop and `newIODelegate`:
```
filter := gts.Or(filters...)
if *invert { filter = gts.Not(filter) }
filter = gts.Or(gts.Key("source"), filter)
switch *strand { case "forward": filter = gts.And(filter, gts.ForwardStrand)
                 case "reverse": filter = gts.And(filter, gts.ReverseStrand) }
```
`sels` are the filters of the selectors (`gts.Selector` of each, C19 `Gts.selector`). -/
def selectFilter (sels : List Filter) (invert : Bool) (strand : String) : Filter :=
  let filter := orF sels
  let filter := if invert then notF filter else filter
  let filter := orF [keyF "source", filter]
  if strand = "forward" then andF [filter, forwardStrand]
  else if strand = "reverse" then andF [filter, reverseStrand]
  else filter

/-- select.go scan loop: `ff := seq.Features().Filter(filter); seq = gts.WithFeatures(seq, ff)` -/
def selectStep (filter : Filter) (s : Seq) : Seq := withFeats s (s.feats.filter filter)

/-- clear.go scan loop: `ff := seq.Features().Filter(gts.Key("source"))` -/
def clearStep (s : Seq) : Seq := withFeats s (s.feats.filter (keyF "source"))

/-! ### `gts reverse`, `gts complement` (reverse.go, complement.go) -/

/-- reverse.go scan loop: `seq = gts.Reverse(seq)` -/
def reverseStep (s : Seq) : Seq := s.reverse

/-- complement.go scan loop: `seq = gts.Complement(seq)` -/
def complementStep (s : Seq) : Seq := s.complement

/-! ### `gts repair` (repair.go) -/

/-- `gts.Repair(ff)` as a partial function: `none` when the model's `Repair` panics (never: C12 `no_panic`) or hands
back a table with the nil location of an emptied class (which no writer can write) -/
def repairTable (ff : Table) : Option Table :=
  match repair ff with
  | .ok t => some t
  | _ => none

/-- repair.go scan loop: `ff := seq.Features(); ff = gts.Repair(ff); seq = gts.WithFeatures(seq, ff)` -/
def repairStep (s : Seq) : Option Seq := (repairTable s.feats).map (withFeats s)

/-! ### `gts define`, `gts annotate` (define.go, annotate.go) -/

/-- define.go scan loop: `ff := seq.Features(); ff = ff.Insert(f); seq = gts.WithFeatures(seq, ff)` -/
def defineStep (f : Feature) (s : Seq) : Seq := withFeats s (s.feats.insert f)

/-- annotate.go scan loop: `for _, f := range featin { ff = ff.Insert(f) }` -/
def annotateStep (featin : List Feature) (s : Seq) : Seq := withFeats s (Table.insertAll s.feats featin)

/-! ### `gts search` (search.go) -/

/-- `gts.Match(seq, query)` on records: the residues only -/
def seqMatch (s q : Seq) : List Seg := Nuc.matchSegs s.bytes q.bytes

/-- `gts.Search(seq, query)` on records -/
def seqSearch (s q : Seq) : List Seg := Nuc.search s.bytes q.bytes

/-- `match := gts.Match; if *exact { match = gts.Search }` -/
def matcher (exact : Bool) (s q : Seq) : List Seg := if exact then seqSearch s q else seqMatch s q

/-- `gts.Range(head, tail)` with its panic for `tail ≤ head` -/
def rangeOf (head tail : Int) : Option Loc := if tail ≤ head then none else some (.ranged head tail false false)

/-- the type assertion `x.(gts.Ranged)` (no comma-ok form): a panic unless the location is a `Ranged` -/
def asRanged : Loc → Option Loc
  | .ranged s e p5 p3 => some (.ranged s e p5 p3)
  | _ => none

/-- `cmp := gts.Reverse(gts.Complement(gts.New(nil, nil, seq.Bytes())))`: the other strand, without features -/
def revcompOf (s : Seq) : Seq := (Seq.complement ⟨[], s.bytes⟩).reverse

/-- the feature of a forward hit: `gts.NewFeature(*featureKey, gts.Range(head, tail), props)` -/
def fwdFeature (key : String) (props : Props) (sg : Seg) : Feature := ⟨key, .ranged sg.1 sg.2 false false, props⟩

/-- the feature of a hit on the reverse complement of a record of `L` residues:
`loc := gts.Range(head, tail); loc = loc.Reverse(gts.Len(seq)).(gts.Ranged); gts.NewFeature(*featureKey, loc.Complement(), props)` -/
def bwdFeature (key : String) (props : Props) (L : Int) (sg : Seg) : Feature :=
  ⟨key, ((Loc.ranged sg.1 sg.2 false false).reverse L).complement, props⟩

/-- the body of `for _, query := range queries`: the forward hits, then — unless `--no-complement` — the hits on the
reverse complement, each `Insert`ed in the order the matcher reports them -/
def searchQuery (exact nocomplement : Bool) (key : String) (props : Props) (s : Seq) (ff : Table) (q : Seq) : Table :=
  let ff := (matcher exact s q).foldl (fun ff sg => ff.insert (fwdFeature key props sg)) ff
  if nocomplement then ff
  else (matcher exact (revcompOf s) q).foldl (fun ff sg => ff.insert (bwdFeature key props s.len sg)) ff

/-- search.go scan loop -/
def searchStep (exact nocomplement : Bool) (key : String) (props : Props) (queries : List Seq) (s : Seq) : Seq :=
  withFeats s (queries.foldl (searchQuery exact nocomplement key props s) s.feats)

/-- every segment a matcher reports is a proper range (`head < tail`): `gts.Range` does not panic on it -/
def segsProper (ss : List Seg) : Bool := ss.all fun sg => decide (sg.1 < sg.2)

/-! ### `gts sort` (sort.go) -/

/-- `byLength.Less(i, j)` on the two records: `gts.Len(ss[j]) < gts.Len(ss[i])` — longer first; behind
`sort.Reverse` (`-r`) the arguments are swapped -/
def lenLess (reverse : Bool) (a b : Seq) : Bool :=
  if reverse then decide (a.len < b.len) else decide (b.len < a.len)

/-- what `sort.Sort` guarantees about its result for the order `less` (and nothing more: it is not stable): a
permutation of the input in which no later element is `less` than an earlier one -/
def SortedBy {α : Type} (less : α → α → Bool) (inp out : List α) : Prop :=
  out.Perm inp ∧ out.Pairwise fun a b => less b a = false

end Cli
end Gts
