/-
  The scan-loop bodies of the multi-site edit commands (`/repo/cmd/gts/{delete,insert,infix,split,
  rotate,extract}.go`) as pure functions over `Gts/Model/Seq.lean`, `Region.lean`.  Core Lean only.

  The locator (`gts.AsLocator(str)`, a function `Sequence → []Region`) is a PARAMETER `loc`
  of every function; the protocol handlers instantiate it with `Gts/Model/Locator.lean` (C08).
  The record's topology — `seqio.GenBank.Fields.Topology`, the only part of the metadata the
  loops look at — is a `Bool` parameter (`circular`).
-/
import Gts.Model.Seq
import Gts.Model.Nuc
namespace Gts

namespace Seq

/-- `gts.Complement(seq)`: residues through the `Complement` alphabet, every location
`Complement()`ed, table order kept -/
def complement (s : Seq) : Seq :=
  ⟨s.feats.map fun f => { f with loc := f.loc.complement }, s.bytes.map Nuc.complementByte⟩

end Seq

namespace Reg

mutual
/-- `Segment.Locate` / `Regions.Locate` (region.go) -/
def locate : Reg → Seq → Seq
  | seg h t, s => if t < h then (Seq.complement (s.slice t h)).reverse else s.slice h t
  | many rs, s => Seq.concat (locateList rs s)
def locateList : List Reg → Seq → List Seq
  | [], _ => []
  | r :: rs, s => locate r s :: locateList rs s
end

end Reg

namespace Cli

/-- `flip.Flip(gts.BySegment(ss))` followed by `for _, s := range ss { seq = delete(seq, s.Head(), s.Len()) }` -/
def deleteSegs (erase : Bool) (ss : List Seg) (s : Seq) : Seq :=
  ss.reverse.foldl (fun acc sg =>
    let i := sg.1
    let n := Reg.gabs (sg.2 - sg.1)
    if erase then acc.erase i n else acc.delete i n) s

/-- delete.go scan loop: `ss := gts.Minimize(locate(seq)); flip; delete each` -/
def delete (loc : Seq → List Reg) (erase : Bool) (s : Seq) : Seq :=
  deleteSegs erase (Reg.many (loc s)).minimize s

/-- `sort.Sort(sort.Reverse(sort.IntSlice(indices)))` (insertion sort, descending; ties are
equal values, so every correct sort gives this list) -/
def insertDesc (x : Int) : List Int → List Int
  | [] => [x]
  | y :: ys => if x < y then y :: insertDesc x ys else x :: y :: ys

def sortDesc : List Int → List Int
  | [] => []
  | x :: xs => insertDesc x (sortDesc xs)

/-- `for _, index := range indices { out = insert(out, index, guest) }` -/
def insertAt (embed : Bool) (indices : List Int) (host guest : Seq) : Seq :=
  indices.foldl (fun out i => if embed then out.embed i guest else out.insert i guest) host

/-- insert.go / infix.go scan loop for one (host, guest) pair: the heads of the located regions,
sorted descending, one insertion at each -/
def insert (loc : Seq → List Reg) (embed : Bool) (host guest : Seq) : Seq :=
  insertAt embed (sortDesc ((loc host).map Reg.head)) host guest

/-- `sort.Ints` of the keys of the `unique` map: ascending, without duplicates -/
def insertAscU (x : Int) : List Int → List Int
  | [] => [x]
  | y :: ys => if x < y then x :: y :: ys else if x = y then y :: ys else y :: insertAscU x ys

def sortAscU : List Int → List Int
  | [] => []
  | x :: xs => insertAscU x (sortAscU xs)

/-- `head, tail := r.Head(), r.Tail(); if tail < head { head = tail }` -/
def cutOf (r : Reg) : Int := if r.tail < r.head then r.tail else r.head

/-- `for i, tail := range splits[1:] { head := splits[i]; sub := gts.Slice(seq, head, tail) … }` -/
def pieces (s : Seq) : List Int → List Seq
  | [] => []
  | [_] => []
  | a :: b :: rest => s.slice a b :: pieces s (b :: rest)

/-- split.go scan loop -/
def split (loc : Seq → List Reg) (circular : Bool) (s : Seq) : List Seq :=
  let rr := loc s
  match rr with
  | [] => [s]
  | r0 :: _ =>
    if rr.length = 1 ∧ circular then [s.rotate (-(r0.head))]
    else
      let heads := sortAscU (rr.map cutOf)
      if circular ∧ heads.length = 1 then
        -- several regions sharing one cut position: the circle is opened there (repair 78dc8d4:
        -- `if top == gts.Circular && len(heads) == 1 { seq = gts.Rotate(seq, -heads[0]) … }`)
        [s.rotate (-(heads.headD 0))]
      else
        let splits := if circular then heads.getLast?.toList ++ heads else (0 : Int) :: heads ++ [s.len]
        pieces s splits

/-- rotate.go scan loop: `if len(rr) > 0 { seq = gts.Rotate(seq, -rr[0].Head()) }` -/
def rotate (loc : Seq → List Reg) (s : Seq) : Seq :=
  match loc s with
  | [] => s
  | r :: _ => s.rotate (-(r.head))

/-- `containsRegion` + append: first occurrences, in order (`reflect.DeepEqual` on regions is
structural equality) -/
def dedupRegs : List Reg → List Reg → List Reg
  | acc, [] => acc
  | acc, r :: rs => if acc.any (· == r) then dedupRegs acc rs else dedupRegs (acc ++ [r]) rs

/-- the regions extract.go emits: de-duplicated, optionally inverted, and — unless there is
exactly one — only those whose length differs from the record's -/
def extractRegs (locs : List (Seq → List Reg)) (invert : Bool) (s : Seq) : List Reg :=
  let rr := dedupRegs [] (locs.flatMap fun l => l s)
  let rr := if invert then (Reg.many rr).invertLinear s.len else rr
  rr.filter fun r => rr.length == 1 || r.len != s.len

/-- extract.go scan loop -/
def extract (locs : List (Seq → List Reg)) (invert : Bool) (s : Seq) : List Seq :=
  (extractRegs locs invert s).map fun r => r.locate s

end Cli
end Gts
