/-
  Model of the GenBank ORIGIN block code (bug for bug):
    /repo/seqio/origin.go               toOriginLength, fromOriginLength, NewOrigin, Origin.Bytes,
                                        Origin.String, Origin.Len
    /repo/seqio/genbank_subparsers.go   validateOrigin, slowGenBankOriginParser,
                                        makeGenbankOriginParser (+ genbankFieldNameParser)
  Conventions: Go `int` = `Int` for the declared sequence length (it comes from the LOCUS line and
  may be anything), loop counters that only count upwards from 0 are `Nat`; byte slices are
  `List UInt8`; a Go run-time panic is `.error .panic`, a returned `error` is `.error .fail`.
  Counting loops are structural recursions on a fuel argument that is never smaller than the trip
  count, so running out of fuel coincides with the loop condition becoming false.
  A buffer position `p[offset:]` is represented by the remaining suffix of the buffer where the
  code only ever moves forward byte by byte (validators); `Origin.Bytes`, which computes absolute
  slice bounds (`gts.Min(start+10, len(p)-1)`), keeps the absolute index.
  The two index-based transliterations (`NewOrigin`'s and `Bytes`' loops) re-slice the buffer from
  its start and are quadratic as list programs; each is followed by a linear suffix-carrying form
  (`…S`) with a proof that the two are equal, registered `@[csimp]` so that the compiled driver
  runs the linear form (the equalities are audited obligations of C16).
  Core Lean only.
-/
import Gts.Model.Pars
namespace Gts.Origin
open Gts.Pars (Bytes Err P)

/-- outcome of a modelled Go call: value, returned error (`.fail`) or run-time panic (`.panic`) -/
abbrev Out (α : Type) := Except Err α

deriving instance DecidableEq for Except

/-! ### closed-form size arithmetic (origin.go:9-42) -/

/-- `toOriginLength` (origin.go:9).  Go `/` and `%` truncate: `Int.tdiv`, `Int.tmod`. -/
def toOriginLength (length : Int) : Int :=
  let lines := length.tdiv 60
  let ret := lines * 76
  let lastLine := length.tmod 60
  if lastLine = 0 then ret else
  let blocks := lastLine.tdiv 10
  let ret := ret + (10 + blocks * 11)
  let lastBlock := lastLine.tmod 10
  if lastBlock = 0 then ret else
  ret + lastBlock + 1

/-- `fromOriginLength` (origin.go:30). -/
def fromOriginLength (length : Int) : Int :=
  let lines := length.tdiv 76
  let ret := lines * 60
  let lastLine := length.tmod 76
  if lastLine = 0 then ret else
  let lastLine := lastLine - 11
  let blocks := lastLine.tdiv 11
  ret + (blocks * 10) + lastLine.tmod 11

/-! ### `fmt.Sprintf("%9d", n)` for `n ≥ 0` -/

/-- decimal digits, most significant first (fuel = number of digits at most) -/
def digitsAux : Nat → Nat → Bytes
  | 0, _ => []
  | f + 1, n =>
    if n < 10 then [UInt8.ofNat (48 + n)]
    else digitsAux f (n / 10) ++ [UInt8.ofNat (48 + n % 10)]

def decimal (n : Nat) : Bytes := digitsAux (n + 1) n

/-- `%9d`: right-aligned in 9 columns, *wider* when the number has more than 9 digits -/
def index9 (n : Nat) : Bytes :=
  let d := decimal n
  List.replicate (9 - d.length) 32 ++ d

/-! ### `NewOrigin` (origin.go:51-69) -/

/-- inner loop `for j := 0; j < 60 && i+j < length; j += 10`: a space, then
`p[i+j : gts.Min(i+j+10, length)]` (the slice bounds are always in range here). -/
def fmtGroups (p : Bytes) (i : Nat) : Nat → Nat → Bytes
  | 0, _ => []
  | f + 1, j =>
    if j < 60 ∧ i + j < p.length then
      let start := i + j
      let stop := min (i + j + 10) p.length
      32 :: ((p.drop start).take (stop - start) ++ fmtGroups p i f (j + 10))
    else []

/-- outer loop `for i := 0; i < length; i += 60`: the `%9d` index, the groups, a newline -/
def fmtLines (p : Bytes) : Nat → Nat → Bytes
  | 0, _ => []
  | f + 1, i =>
    if i < p.length then
      index9 (i + 1) ++ (fmtGroups p i 6 0 ++ 10 :: fmtLines p f (i + 60))
    else []

/-- the byte stream `NewOrigin` writes, in order, at `q[offset]`, `offset = 0, 1, 2, …` -/
def originStream (p : Bytes) : Bytes := fmtLines p p.length 0

/-! #### linear-time form of the two loops: the suffix `p[i+j:]` is carried along instead of being
re-sliced from `p`.  Proved equal below; the compiled driver uses it (`@[csimp]`), and the
property proofs go through it. -/

def fmtGroupsS : Nat → Nat → Bytes → Bytes
  | 0, _, _ => []
  | f + 1, j, q =>
    if j < 60 ∧ q ≠ [] then 32 :: (q.take 10 ++ fmtGroupsS f (j + 10) (q.drop 10)) else []

def fmtLinesS : Nat → Nat → Bytes → Bytes
  | 0, _, _ => []
  | f + 1, i, q =>
    if q ≠ [] then index9 (i + 1) ++ (fmtGroupsS 6 0 q ++ 10 :: fmtLinesS f (i + 60) (q.drop 60))
    else []

theorem fmtGroups_eq (p : Bytes) (i f j : Nat) : fmtGroups p i f j = fmtGroupsS f j (p.drop (i + j)) := by
  induction f generalizing j with
  | zero => rfl
  | succ f ih =>
    simp only [fmtGroups, fmtGroupsS]
    by_cases h : j < 60 ∧ i + j < p.length
    · have h' : j < 60 ∧ p.drop (i + j) ≠ [] := ⟨h.1, by rw [Ne, List.drop_eq_nil_iff]; omega⟩
      rw [if_pos h, if_pos h', ih, List.drop_drop]
      have e1 : (p.drop (i + j)).take (min (i + j + 10) p.length - (i + j)) = (p.drop (i + j)).take 10 := by
        apply List.take_eq_take_iff.mpr; simp only [List.length_drop]; omega
      have e2 : i + (j + 10) = i + j + 10 := by omega
      rw [e1, e2]
    · have h' : ¬ (j < 60 ∧ p.drop (i + j) ≠ []) := by rw [Ne, List.drop_eq_nil_iff]; omega
      rw [if_neg h, if_neg h']

theorem fmtLines_eq (p : Bytes) (f i : Nat) : fmtLines p f i = fmtLinesS f i (p.drop i) := by
  induction f generalizing i with
  | zero => rfl
  | succ f ih =>
    simp only [fmtLines, fmtLinesS]
    by_cases h : i < p.length
    · rw [if_pos h, if_pos (by rw [Ne, List.drop_eq_nil_iff]; omega), ih, fmtGroups_eq, List.drop_drop]; rfl
    · rw [if_neg h, if_neg (by rw [Ne, List.drop_eq_nil_iff]; omega)]

/-- `originStream` in suffix form -/
def originStreamS (p : Bytes) : Bytes := fmtLinesS p.length 0 p

@[csimp] theorem originStream_eq_S : @originStream = @originStreamS := by
  funext p; exact fmtLines_eq p p.length 0

/-- `NewOrigin(p).Buffer`.  The destination is `make([]byte, toOriginLength(len(p)))`; `copy`
truncates silently and the single-byte stores `q[offset] = …` panic beyond the end.  The stream is
never shorter than the buffer and its last write is a single-byte store, so the call panics
exactly when the stream is longer than the buffer (an index wider than 9 columns), and otherwise
returns the stream. -/
def newOrigin (p : Bytes) : Out Bytes :=
  let s := originStream p
  if (s.length : Int) = toOriginLength p.length then .ok s else .error .panic

/-! ### `Origin.Bytes`, `Origin.Len` on an unparsed buffer (origin.go:72-117) -/

/-- inner loop of `Bytes`: `start++; end := gts.Min(start+10, len(p)-1); copy(q[offset:], p[start:end]); start = end`.
`p[start:end]` panics when `end < start` (`end ≤ len(p)` always holds).  Returns the new `start`
and everything copied so far. -/
def bytesGroups (p : Bytes) (length : Int) (i : Nat) : Nat → Nat → Nat → Bytes → Out (Nat × Bytes)
  | 0, _, start, acc => .ok (start, acc)
  | f + 1, j, start, acc =>
    if j < 60 ∧ ((i + j : Nat) : Int) < length then
      let start := start + 1
      let stop := min (start + 10) (p.length - 1)
      if stop < start then .error .panic
      else bytesGroups p length i f (j + 10) stop (acc ++ (p.drop start).take (stop - start))
    else .ok (start, acc)

/-- outer loop of `Bytes`: `start += 9`, the groups, `start++` -/
def bytesLines (p : Bytes) (length : Int) : Nat → Nat → Nat → Bytes → Out Bytes
  | 0, _, _, acc => .ok acc
  | f + 1, i, start, acc =>
    if (i : Int) < length then
      match bytesGroups p length i 6 0 (start + 9) acc with
      | .error e => .error e
      | .ok (start, acc) => bytesLines p length f (i + 60) (start + 1) acc
    else .ok acc

/-- the two loops of `Bytes` for a buffer `p` and `length = fromOriginLength(len(p))`: all bytes
copied, in order -/
def bytesDecode (p : Bytes) (length : Int) : Out Bytes := bytesLines p length length.toNat 0 0 []

/-! #### linear-time form: the suffix `p[start:]` is carried along next to `start`, and the copied
pieces are returned front to back instead of being appended to an accumulator. -/

def bytesGroupsS (plen : Nat) (length : Int) (i : Nat) :
    Nat → Nat → Nat → Bytes → Out (Nat × Bytes × Bytes)
  | 0, _, start, q => .ok (start, q, [])
  | f + 1, j, start, q =>
    if j < 60 ∧ ((i + j : Nat) : Int) < length then
      let start := start + 1
      let q := q.drop 1
      let stop := min (start + 10) (plen - 1)
      if stop < start then .error .panic
      else
        match bytesGroupsS plen length i f (j + 10) stop (q.drop (stop - start)) with
        | .error e => .error e
        | .ok (s, q', out) => .ok (s, q', q.take (stop - start) ++ out)
    else .ok (start, q, [])

def bytesLinesS (plen : Nat) (length : Int) : Nat → Nat → Nat → Bytes → Out Bytes
  | 0, _, _, _ => .ok []
  | f + 1, i, start, q =>
    if (i : Int) < length then
      match bytesGroupsS plen length i 6 0 (start + 9) (q.drop 9) with
      | .error e => .error e
      | .ok (s, q', out) =>
        match bytesLinesS plen length f (i + 60) (s + 1) (q'.drop 1) with
        | .error e => .error e
        | .ok rest => .ok (out ++ rest)
    else .ok []

theorem drop_step (p : Bytes) (start stop : Nat) (h : start + 1 ≤ stop) :
    ((p.drop start).drop 1).drop (stop - (start + 1)) = p.drop stop := by
  rw [List.drop_drop, List.drop_drop]; congr 1; omega

/-- relation between the indexed loop and its suffix form -/
theorem bytesGroups_eq (p : Bytes) (length : Int) (i f j start : Nat) (acc : Bytes) :
    ∃ r, bytesGroupsS p.length length i f j start (p.drop start) = r ∧
      match r with
      | .error e => bytesGroups p length i f j start acc = .error e
      | .ok (s, q', out) => bytesGroups p length i f j start acc = .ok (s, acc ++ out) ∧ q' = p.drop s := by
  induction f generalizing j start acc with
  | zero => exact ⟨_, rfl, by simp [bytesGroups, bytesGroupsS]⟩
  | succ f ih =>
    simp only [bytesGroups, bytesGroupsS]
    by_cases hc : j < 60 ∧ ((i + j : Nat) : Int) < length
    · rw [if_pos hc, if_pos hc]
      by_cases hs : min (start + 1 + 10) (p.length - 1) < start + 1
      · rw [if_pos hs, if_pos hs]; exact ⟨_, rfl, rfl⟩
      · rw [if_neg hs, if_neg hs, drop_step p start _ (by omega)]
        obtain ⟨r, hr, hm⟩ := ih (j + 10) (min (start + 1 + 10) (p.length - 1))
          (acc ++ ((p.drop (start + 1)).take (min (start + 1 + 10) (p.length - 1) - (start + 1))))
        rw [hr]
        match r, hm with
        | .error e, hm => exact ⟨_, rfl, hm⟩
        | .ok (s, q', out), hm =>
          refine ⟨_, rfl, ?_, hm.2⟩
          rw [hm.1, List.drop_drop]
          simp [List.append_assoc]
    · rw [if_neg hc, if_neg hc]; exact ⟨_, rfl, by simp⟩

theorem bytesLines_eq (p : Bytes) (length : Int) (f i start : Nat) (acc : Bytes) :
    bytesLines p length f i start acc =
      match bytesLinesS p.length length f i start (p.drop start) with
      | .error e => .error e
      | .ok out => .ok (acc ++ out) := by
  induction f generalizing i start acc with
  | zero => simp [bytesLines, bytesLinesS]
  | succ f ih =>
    simp only [bytesLines, bytesLinesS]
    by_cases hc : (i : Int) < length
    · rw [if_pos hc, if_pos hc, List.drop_drop]
      obtain ⟨r, hr, hm⟩ := bytesGroups_eq p length i 6 0 (start + 9) acc
      rw [hr]
      match r, hm with
      | .error e, hm => simp only [hm]
      | .ok (s, q', out), hm =>
        simp only [hm.1]
        rw [hm.2, List.drop_drop, ih]
        cases bytesLinesS p.length length f (i + 60) (s + 1) (p.drop (s + 1)) <;> simp
    · rw [if_neg hc, if_neg hc]; simp

/-- `bytesDecode` in suffix form -/
def bytesDecodeS (p : Bytes) (length : Int) : Out Bytes := bytesLinesS p.length length length.toNat 0 0 p

@[csimp] theorem bytesDecode_eq_S : @bytesDecode = @bytesDecodeS := by
  funext p length
  simp only [bytesDecode, bytesDecodeS, bytesLines_eq, List.drop_zero, List.nil_append]
  cases bytesLinesS p.length length length.toNat 0 0 p <;> rfl

/-- `(&Origin{p, false}).Bytes()`; `nil` is `[]`.  `q = make([]byte, length)`; the copies go to
consecutive offsets and are truncated at `len(q)`; what was never written stays zero. -/
def originBytes (p : Bytes) : Out Bytes :=
  if p.length < 12 then .ok [] else
  let length := fromOriginLength p.length
  if length < 0 then .error .panic else
  match bytesDecode p length with
  | .error e => .error e
  | .ok s => .ok (s.take length.toNat ++ List.replicate (length.toNat - s.length) 0)

/-- `Origin{p, false}.Len()` -/
def originLen (p : Bytes) : Int :=
  if p.length = 0 then 0 else fromOriginLength p.length

/-- `Origin{p, parsed}.String()` as bytes -/
def originString (p : Bytes) (parsed : Bool) : Out Bytes :=
  if !parsed then .ok p else newOrigin p

/-! ### the line walk of `validateOrigin` and `slowGenBankOriginParser`

The two functions walk a line with the same three nested loops.  They differ in what an index
beyond the end of the slice does: `validateOrigin` indexes unchecked (`p[offset]`, a run-time
panic), `slowGenBankOriginParser` tests `extent >= len(q)` first and returns an error.  The
parameter `oob` is that outcome. -/

/-- `isBaseCharacter = ascii.Range(33, 126)` -/
def isBase (c : UInt8) : Bool := 33 ≤ c && c ≤ 126

/-- `for k := 0; k < 10 && i+j+k < length; k++ { if !isBaseCharacter(p[offset]) …; offset++ }`
on the suffix `p[offset:]`; returns the suffix after the loop. -/
def walkChars (oob : Err) (length : Int) (ij : Nat) : Nat → Nat → Bytes → Out Bytes
  | 0, _, rest => .ok rest
  | f + 1, k, rest =>
    if k < 10 ∧ ((ij + k : Nat) : Int) < length then
      match rest with
      | [] => .error oob
      | c :: r => if isBase c then walkChars oob length ij f (k + 1) r else .error .fail
    else .ok rest

/-- `for j := 0; j < 60 && i+j < length; j += 10 { if p[offset] != ' ' …; offset++; <chars> }` -/
def walkGroups (oob : Err) (length : Int) (i : Nat) : Nat → Nat → Bytes → Out Bytes
  | 0, _, rest => .ok rest
  | f + 1, j, rest =>
    if j < 60 ∧ ((i + j : Nat) : Int) < length then
      match rest with
      | [] => .error oob
      | c :: r =>
        if c != 32 then .error .fail else
        match walkChars oob length (i + j) 10 0 r with
        | .error e => .error e
        | .ok r' => walkGroups oob length i f (j + 10) r'
    else .ok rest

/-- `bytes.HasPrefix(p[offset:], Sprintf("%9d", i+1))`, then the groups -/
def walkLine (oob : Err) (length : Int) (i : Nat) (rest : Bytes) : Out Bytes :=
  let pre := index9 (i + 1)
  if pre.isPrefixOf rest then walkGroups oob length i 6 0 (rest.drop pre.length) else .error .fail

/-! ### `validateOrigin` — the fast path (genbank_subparsers.go:370) -/

def validateLines (length : Int) : Nat → Nat → Bytes → Out Unit
  | 0, _, _ => .ok ()
  | f + 1, i, rest =>
    if (i : Int) < length then
      match walkLine .panic length i rest with
      | .error e => .error e
      | .ok r =>
        match r with
        | [] => .error .panic
        | c :: r' => if c != 10 then .error .fail else validateLines length f (i + 60) r'
    else .ok ()

def validateOrigin (p : Bytes) (length : Int) : Out Unit :=
  validateLines length length.toNat 0 p

/-! ### `slowGenBankOriginParser` — the slow, line-by-line path (genbank_subparsers.go:408) -/

/-- `pars.Line` as a function of the remaining input: (token, remaining input) -/
def splitLine (st : Bytes) : Bytes × Bytes :=
  let (i, n) := Pars.calcLine st 0 0 false
  let r := st.drop i
  (st.take i, if r.length < n then r else r.drop n)

/-- `len(bytes.TrimRight(r, " ")) == 0` -/
def allBlank (r : Bytes) : Bool := r.all (· == 32)

/-- one pass of the loop: read a line `q`, walk it (every index bounds-checked: a short line is an
error), accept nothing but blanks behind the declared residues (`bytes.TrimRight(q[extent:], " ")`),
`offset += copy(p[offset:], q[:extent])` (truncated at the capacity `cap = len(p)`),
`p[offset] = '\n'` (panics at `offset = cap`). -/
def slowLines (length : Int) (cap : Nat) : Nat → Nat → Bytes → Bytes → Out (Bytes × Bytes)
  | 0, _, st, acc => .ok (acc, st)
  | f + 1, i, st, acc =>
    if (i : Int) < length then
      let (q, st') := splitLine st
      match walkLine .fail length i q with
      | .error e => .error e
      | .ok r =>
        if !allBlank r then .error .fail else
        let extent := q.length - r.length
        let acc := (acc ++ q.take extent).take cap
        if acc.length < cap then slowLines length cap f (i + 60) st' (acc ++ [10])
        else .error .panic
    else .ok (acc, st)

/-- `slowGenBankOriginParser(length)` run on a state holding `st`: the token and the remaining
input.  `make([]byte, toOriginLength(length))` panics for a negative size; unwritten bytes are 0. -/
def slowOrigin (st : Bytes) (length : Int) : Out (Bytes × Bytes) :=
  let cap := toOriginLength length
  if cap < 0 then .error .panic else
  match slowLines length cap.toNat length.toNat 0 st [] with
  | .error e => .error e
  | .ok (acc, st') => .ok (acc ++ List.replicate (cap.toNat - acc.length) 0, st')

/-! ### `makeGenbankOriginParser` (genbank_subparsers.go:449) -/

/-- `genbankFieldNameParser(name, depth)` for a string name: the literal, then
`pars.Any(pars.String(strings.Repeat(" ", depth-len(name))), pars.Dry(pars.EOL))`. -/
def fieldName (name : Bytes) (depth : Int) : P Unit := do
  Pars.lit name
  let indent := depth - name.length
  if indent < 0 then Pars.panic          -- strings.Repeat: negative Repeat count
  Pars.push
  match ← Pars.attempt (Pars.lit (List.replicate indent.toNat 32)) with
  | some _ => Pars.drop
  | none =>
    Pars.push
    let r ← Pars.attempt Pars.eol
    Pars.pop
    match r with
    | some _ => Pars.drop
    | none => do Pars.pop; Pars.clear; Pars.fail

/-- the combined reader: field name, rest of the `ORIGIN` line, `state.Clear()`, then the fast
path on exactly `toOriginLength(length)` requested bytes and, if that reports an error, the slow
path on the state; finally a further line starting with a blank is an error ("sequence is longer
than the declared length").  Result: the buffer of the resulting (unparsed) `Origin`. -/
def originParser (length : Int) (depth : Int) : P Bytes := do
  fieldName [79, 82, 73, 71, 73, 78] depth            -- "ORIGIN"
  let _ ← Pars.line
  Pars.clear
  -- be672b0: `if length > maxOriginResidues { return error }` (the nine column index)
  if length > 1000000020 then Pars.fail
  let n := toOriginLength length
  -- `state.Request(n)` with n < 0 "succeeds" and `state.Buffer()` slices with end < start
  if n < 0 then Pars.panic
  let p ← (do
    let s ← Pars.getS
    if s.rest.length < n.toNat then Pars.fail else pure (s.rest.take n.toNat) : P Bytes)
  let buf ← (match validateOrigin p length with
    | .ok () => do Pars.advanceN n.toNat; pure p
    | .error .panic => Pars.panic
    | .error .fail => do
      let s ← Pars.getS
      match slowOrigin s.rest length with
      | .error .panic => Pars.panic
      | .error .fail => Pars.fail
      | .ok (tok, st') => do Pars.setS { s with rest := st' }; pure tok : P Bytes)
  -- `if c, err := pars.Next(state); err == nil && c == ' '`
  match (← Pars.getS).rest with
  | 32 :: _ => Pars.fail
  | _ => pure buf

/-- run `originParser` on a fresh state: (Origin buffer, remaining input) -/
def originParse (input : Bytes) (length : Int) (depth : Int := 12) : Out (Bytes × Bytes) :=
  match (originParser length depth).run' { rest := input, stk := [] } with
  | (.ok b, s) => .ok (b, s.rest)
  | (.error e, _) => .error e

end Gts.Origin
