/-
  Executable, bug-for-bug model of /repo/props.go and of the selection part of
  /repo/feature.go (filters, qualifier filters, selectors, `FeatureSlice.Filter/Less`).
  Core Lean only.  The sorted insertion (`FeatureSlice.Insert`, `sort.Search`) lives in
  `Gts/Model/Seq.lean`.

  Strings: Go indexes bytes, the model works on `Char`s.  The only bytes the code inspects
  are the ASCII bytes `\`, `/` and `=`, which never occur inside a multi-byte UTF-8 sequence,
  so on valid UTF-8 both readings split at the same places.

  `regexp` is external: `valid q` says whether `regexp.Compile(q)` succeeds, the match oracle `mtch q v`
  is `re.MatchString(v)` for the compiled `q` (DESIGN.md section 3, "external calls are
  parameters").
-/
import Gts.Model.Seq
namespace Gts

/-- props.go `type Props [][]string`: a row is `name :: values`. -/
abbrev Props := List (List String)

namespace Props

/-- `Props.Index(key)`, `-1` when absent.  PRECONDITION `rowsOk`: Go evaluates `props[i][0]`
and panics on an empty row that is reached before a row named `key`; the model skips such a
row.  (`Props.Add/Set` never build an empty row.) -/
def indexFrom (key : String) : Props → Nat → Int
  | [], _ => -1
  | row :: rest, i => if row.head? = some key then (i : Int) else indexFrom key rest (i + 1)

def index (ps : Props) (key : String) : Int := indexFrom key ps 0

/-- every row has its name (`props[i][0]` does not panic) -/
def rowsOk (ps : Props) : Bool := ps.all fun row => !row.isEmpty

/-- `Props.Has(name)` -/
def has (ps : Props) (name : String) : Bool := decide (index ps name ≥ 0)

/-- `Props.Get(key)`: `none` is Go's `nil` (absent), `some vs` is `props[i][1:]`. -/
def get (ps : Props) (key : String) : Option (List String) :=
  let i := index ps key
  if i = -1 then none else (ps[i.toNat]?).map List.tail

/-- `Props.Keys()` (same precondition as `index`; the model yields `""` for an empty row) -/
def keys (ps : Props) : List String := ps.map fun row => row.headD ""

end Props

/-! #### the remaining methods of props.go (tie: Gts/Bridge/Props.lean — the regenerated code)

The pointer-receiver methods yield the NEW value of `*props`; which other slices see the write
(aliasing, capacity) is C11's subject (Gts/Model/Mem.lean).  Same precondition `rowsOk` as `index`. -/
namespace Props

/-- `(*Props).Set(key, values...)`: the FIRST row named `key` becomes `key :: values`, else a new last row -/
def set : Props → String → List String → Props
  | [], k, vs => [k :: vs]
  | row :: rest, k, vs => if row.head? = some k then (k :: vs) :: rest else row :: set rest k vs

/-- `(*Props).Add(key, values...)`: the values are appended to the FIRST row named `key`, else a new last row -/
def add : Props → String → List String → Props
  | [], k, vs => [k :: vs]
  | row :: rest, k, vs => if row.head? = some k then (row ++ vs) :: rest else row :: add rest k vs

/-- `(*Props).Del(key)`: the FIRST row named `key` is removed (a later row of that name stays) -/
def del : Props → String → Props
  | [], _ => []
  | row :: rest, k => if row.head? = some k then rest else row :: del rest k

/-- `Props.Items()`: the (name, value) pairs row by row, in order (a row without values yields none) -/
def items : Props → List (String × String)
  | [] => []
  | [] :: rest => items rest
  | (k :: vs) :: rest => vs.map (fun v => (k, v)) ++ items rest

/-- `Props.Clone()`: the same table in fresh memory (a value here; freshness is C11's) -/
def clone (ps : Props) : Props := ps

end Props

/-! ### filters (feature.go:75-148, 236-245) -/

/-- `type Filter func(f Feature) bool` -/
abbrev Filter := Feature → Bool

def trueFilter : Filter := fun _ => true
def falseFilter : Filter := fun _ => false

/-- `And(filters...)`: `TrueFilter` for no filters, else the short-circuit conjunction. -/
def andF (fs : List Filter) : Filter :=
  if fs.isEmpty then trueFilter else fun f => fs.all fun p => p f

/-- `Or(filters...)`: **`TrueFilter` for no filters** (as written in feature.go:96-98), else the
short-circuit disjunction. -/
def orF (fs : List Filter) : Filter :=
  if fs.isEmpty then trueFilter else fun f => fs.any fun p => p f

/-- `Not(filter)` -/
def notF (p : Filter) : Filter := fun f => !p f

/-- `Within(lower, upper)` -/
def withinF (lo hi : Int) : Filter := fun f => f.loc.within lo hi

/-- `Overlap(lower, upper)` -/
def overlapF (lo hi : Int) : Filter := fun f => f.loc.overlap lo hi

/-- `Key(key)`: the empty key accepts everything. -/
def keyF (key : String) : Filter :=
  if key = "" then trueFilter else fun f => decide (f.key = key)

/-- `ForwardStrand` (`CheckStrand(f.Loc) == StrandForward`) -/
def forwardStrand : Filter := fun f => f.loc.strand == 1

/-- `ReverseStrand` -/
def reverseStrand : Filter := fun f => f.loc.strand == 2

/-- the closure `Qualifier(name, query)` returns once `query` compiled:
* empty name: `for _, vv := range f.Props { for i, v := range vv { if i > 0 && … } }` — the
  values of every row, the name (`vv[0]`) is skipped;
* empty query: `f.Props.Has(name)`;
* otherwise some value of `f.Props.Get(name)` (the first row of that name) is matched. -/
def qualEval (mtch : String → String → Bool) (name query : String) : Filter :=
  if name = "" then
    fun f => f.props.any fun vv => vv.tail.any fun v => mtch query v
  else if query = "" then
    fun f => Props.has f.props name
  else
    fun f =>
      match Props.get f.props name with
      | some vv => vv.any fun v => mtch query v
      | none => false

/-- `Qualifier(name, query)`; `none` = the error of `regexp.Compile` (checked first). -/
def qualifierFilter (valid : String → Bool) (mtch : String → String → Bool)
    (name query : String) : Option Filter :=
  if !valid query then none else some (qualEval mtch name query)

/-! ### selectors (feature.go:188-233) -/

/-- the loop of `shiftSelector` from byte `i` on; `pre` is `s[:i]` reversed.  After a
backslash `esc` stays set until a byte that is neither `\` nor `/`. -/
def shiftLoop : Bool → List Char → List Char → List Char × List Char
  | _, pre, [] => (pre.reverse, [])
  | esc, pre, c :: cs =>
    if c = '\\' then shiftLoop true (c :: pre) cs
    else if c = '/' then
      if !esc then (pre.reverse, cs) else shiftLoop esc (c :: pre) cs
    else shiftLoop false (c :: pre) cs

/-- `shiftSelector(s)` on characters -/
def shiftChars (s : List Char) : List Char × List Char := shiftLoop false [] s

/-- `shiftSelector(s)` -/
def shiftSelector (s : String) : String × String :=
  let r := shiftChars s.toList
  (String.ofList r.1, String.ofList r.2)

/-- the argument split of `toQualifier`: at the first `=` (`strings.IndexByte`), the whole
string and `""` when there is none. -/
def splitEq (s : List Char) : List Char × List Char :=
  match s.findIdx? (· == '=') with
  | none => (s, [])
  | some i => (s.take i, s.drop (i + 1))

/-- `toQualifier(s)` -/
def toQualifier (valid : String → Bool) (mtch : String → String → Bool) (s : String) :
    Option Filter :=
  let p := splitEq s.toList
  qualifierFilter valid mtch (String.ofList p.1) (String.ofList p.2)

/-- A parsed selector: the key and the `(name, regexp text)` clauses in order. -/
structure Selector where
  key : String
  clauses : List (String × String)
  deriving Repr, Inhabited, DecidableEq

/-- the `for tail != ""` loop of `Selector`, collecting the clause heads; `fuel` bounds the
iterations (`tail` gets strictly shorter, `tail.length` suffices). -/
def clauseLoop : Nat → List Char → List (List Char)
  | 0, _ => []
  | _ + 1, [] => []
  | fuel + 1, c :: cs =>
    let r := shiftChars (c :: cs)
    r.1 :: clauseLoop fuel r.2

/-- the syntactic half of `Selector(sel)` -/
def parseSelectorChars (s : List Char) : List Char × List (List Char × List Char) :=
  let r := shiftChars s
  (r.1, (clauseLoop r.2.length r.2).map splitEq)

def parseSelector (s : String) : Selector :=
  let r := parseSelectorChars s.toList
  ⟨String.ofList r.1, r.2.map fun c => (String.ofList c.1, String.ofList c.2)⟩

/-- the semantic half of `Selector(sel)`: `filter := Key(head)`, then for every clause
`filter = And(filter, Qualifier(name, regexp))`; the first invalid regexp aborts with the
error (`none`). -/
def Selector.compile (valid : String → Bool) (mtch : String → String → Bool)
    (sel : Selector) : Option Filter :=
  sel.clauses.foldlM (fun flt c =>
    (qualifierFilter valid mtch c.1 c.2).map fun q => andF [flt, q]) (keyF sel.key)

/-- `Selector(sel)` -/
def selector (valid : String → Bool) (mtch : String → String → Bool) (s : String) :
    Option Filter :=
  (parseSelector s).compile valid mtch

namespace Table

/-- the first loop of `FeatureSlice.Filter`: indices of the accepted features from `k` on -/
def filterIndices (p : Filter) : Table → Nat → List Nat
  | [], _ => []
  | f :: fs, k =>
    if p ⟨f.key, f.loc, f.props⟩ then k :: filterIndices p fs (k + 1) else filterIndices p fs (k + 1)

/-- `FeatureSlice.Filter(filter)`: `gg[i] = ff[indices[i]]` -/
def filterTable (p : Filter) (ff : Table) : Table :=
  (filterIndices p ff 0).filterMap fun i => ff[i]?

/-- `FeatureSlice.Less(i, j)` on the two features -/
def lessF (f g : Feature) : Bool :=
  if f.key = "source" ∧ g.key ≠ "source" then true
  else if f.key ≠ "source" ∧ g.key = "source" then false
  else Loc.less f.loc g.loc

end Table
end Gts
