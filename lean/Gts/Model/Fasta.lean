/-
  FASTA output and input (seqio/fasta.go), the record loop of `seqio.Scanner` (seqio/scanner.go)
  as far as FASTA input needs it, `GenBankFields.String` (seqio/genbank.go:130-137) and the
  metadata cases of `FastaWriter.WriteSeq` / `detectWriter` (seqio/fasta.go:50-73, seqio/writer.go).
  `wrap.Force` is modelled from github.com/go-wrap/wrap v1.0.3 (wrap.go), the parser primitives
  from github.com/go-pars/pars v1.1.6 (see `Gts.Pars`).  Core Lean only.
-/
import Gts.Model.LocText
namespace Gts.Fasta
open Gts.Pars
open Gts.LocParse (anyOf)

/-! ### writing -/

/-- the loop of `wrap.Force(s, n)`:
`for i+n < len(s) { b.WriteString(s[i:i+n]); b.WriteByte('\n'); i += n }; b.WriteString(s[i:])`,
on the not yet written suffix `s[i:]` (so the test `i+n < len(s)` reads `n < len(s[i:])`).
The first argument bounds the number of iterations (`len(s)` is always enough for `n ≥ 1`; for
`n = 0` and non-empty `s` the Go loop does not terminate — gts only ever passes 70). -/
def wrapGo : Nat → Bytes → Nat → Bytes
  | 0, s, _ => s
  | fuel + 1, s, n => if n < s.length then s.take n ++ 10 :: wrapGo fuel (s.drop n) n else s

/-- `wrap.Force(s, n)`.  Works on the bytes of the string; it does *not* look at newlines in
`s`.  `wrapForce [] n = []`; an input of exactly `k·n` bytes gives `k` full lines and **no**
trailing newline (the loop test is strict). -/
def wrapForce (s : Bytes) (n : Nat) : Bytes := wrapGo s.length s n

/-- `strings.ReplaceAll(desc, "\n", " ")` -/
def nl2sp (d : Bytes) : Bytes := d.map fun c => if c == 10 then 32 else c

/-- the line width of `Fasta.WriteTo` -/
def width : Nat := 70

/-- `Fasta.WriteTo` (fasta.go:36-43): `fmt.Sprintf(">%s\n%s\n", desc', wrap.Force(data, 70))` -/
def fastaWrite (desc data : Bytes) : Bytes :=
  62 :: nl2sp desc ++ 10 :: wrapForce data width ++ [10]

/-! ### reading -/

/-- `pars.Rune('>')` (what `'>'` becomes under `pars.AsParser`): match the one byte `0x3E`;
on a mismatch or at the end of input the position is unchanged. -/
def gt : P Unit := do
  match (← getS).rest with
  | [] => fail
  | c :: _ => if c == 62 then advance1 else fail

/-- `pars.End`: succeeds iff no further byte can be requested -/
def endP : P Unit := do
  match (← getS).rest with
  | [] => pure ()
  | _ :: _ => fail

/-- the scanning loop of the generic `pars.Until(q)`:
`for p(state, result) != nil { state.Drop(); if Skip(state, 1) != nil { state.Pop(); return err }; state.Push() }`.
Every iteration consumes one byte, the fuel is the number of remaining bytes + 1. -/
def untilLoop (p : P Unit) : Nat → P Unit
  | 0 => fail
  | fuel + 1 => do
    match ← attempt p with
    | some _ => pure ()
    | none => do
      drop
      match (← getS).rest with
      | [] => do pop; fail
      | _ :: _ => do advance1; push; untilLoop p fuel

/-- `pars.Until(q)` for a parser argument (bytes.go, `default:` case): push a backtrack point,
push, scan, pop back to where `q` matched, return the trail. -/
def untilP (p : P Unit) : P Bytes := do
  push
  push
  untilLoop p ((← getS).rest.length + 1)
  pop
  if !(← pushed) then fail
  trail

/-- `bytes.Split(body, []byte{'\n'})`: never empty; `n` newlines give `n + 1` pieces -/
def splitLines : Bytes → List Bytes
  | [] => [[]]
  | c :: r =>
    if c == 10 then [] :: splitLines r
    else match splitLines r with
      | [] => [[c]]
      | l :: ls => (c :: l) :: ls

/-- `bytes.TrimSuffix(line, []byte{'\r'})`: removes one trailing carriage return -/
def stripCR : Bytes → Bytes
  | [] => []
  | [c] => if c == 13 then [] else [c]
  | c :: r => c :: stripCR r

/-- the body mapping of `FastaParser` (fasta.go:80-85, with repair 646f789): split at `\n`,
strip one trailing `\r` from every piece, join. -/
def fastaBody (body : Bytes) : Bytes := ((splitLines body).map stripCR).flatten

/-- the body mapping before repair 646f789 (`bytes.Join(bytes.Split(body, "\n"), nil)`);
kept only to state what the repair changed. -/
def fastaBodyUnrepaired (body : Bytes) : Bytes := (splitLines body).flatten

/-- `pars.Seq('>', pars.Line, pars.Until(pars.Any('>', pars.End)))`: description token and
body token.  `pars.Line` never fails. -/
def fastaSeq : P (Bytes × Bytes) := do
  push
  match ← attempt gt with
  | none => do pop; fail
  | some _ =>
    let desc ← line
    match ← attempt (untilP (anyOf [gt, endP])) with
    | none => do pop; fail
    | some body => do drop; pure (desc, body)

/-- `FastaParser` = `fastaSeq.Map(...)`: one record `(Desc, Data)` -/
def fastaParse : P (Bytes × Bytes) := do
  push
  match ← attempt fastaSeq with
  | none => do pop; fail
  | some (desc, body) => do drop; pure (desc, fastaBody body)

/-! ### the scanner -/

/-- what a `for sc.Scan() { … sc.Value() … }; sc.Err()` loop observes -/
inductive ScanOut where
  /-- the records in order and whether `Err()` is `nil` at the end (the final error digs down
  to `io.EOF`) -/
  | done (recs : List (Bytes × Bytes)) (clean : Bool)
  /-- a Go run-time panic -/
  | panic
  /-- outside the modelled fragment: auto-detection on input that starts with `LOCUS` -/
  | unmodelled
  deriving Repr, DecidableEq, Inhabited

/-- `Scanner.Scan` with `s.p = FastaParser`, repeated until it returns false.  A successful
parse consumes at least the `>`, so `length + 1` rounds are enough.  Since b5ab011 `Scan` first
requests one byte: when there is none the scan ends regularly (`Err()` is `nil`); an error of the
parser — also one whose cause is `io.EOF` — is reported. -/
def scanLoop : Nat → PS → ScanOut
  | 0, _ => .done [] false
  | fuel + 1, s =>
    if s.rest.isEmpty then .done [] true else
    match fastaParse.run' s with
    | (.ok r, s') =>
      match scanLoop fuel s' with
      | .done rs c => .done (r :: rs) c
      | o => o
    | (.error .fail, _) => .done [] false
    | (.error .panic, _) => .panic

/-- the first `Scan` of `NewAutoScanner` (scanner.go:42-76) over
`sequenceParsers = [GenBankParser, FastaParser]`: nothing to read → regular end; else `Push`,
parse, `Drop` and keep the parser on success, else note the position and `Pop`.

**Modelled fragment.**  `GenBankParser` starts with `genbankLocusParser = Seq("LOCUS", …).Children(…)`;
on input that does not begin with the five bytes `LOCUS` the literal fails, `Seq` and `Map` pop
their frames, so this alternative *fails without consuming anything and leaves the stack as it
found it*.  Input that does begin with `LOCUS` is outside this model (`unmodelled`).

When both fail the reported error is one of the two parsers' errors, never `io.EOF` itself, so
`Err()` is not `nil` (b5ab011; before, an error digging down to `io.EOF` — fewer than five bytes
of anything — was the regular end). -/
def scanFirstAuto (s : PS) : ScanOut :=
  if s.rest.isEmpty then .done [] true
  else if s.rest.take 5 == [76, 79, 67, 85, 83] /- "LOCUS" -/ then .unmodelled
  else
    -- alternative 0 (GenBankParser): Push; fails in place; Pop
    -- alternative 1 (FastaParser): Push; parse
    match (do push; let r ← attempt fastaParse; pure r : P _).run' s with
    | (.ok (some r), s1) =>
      let s2 := (drop.run' s1).2
      match scanLoop (s2.rest.length + 1) s2 with
      | .done rs c => .done (r :: rs) c
      | o => o
    | (.ok none, _) => .done [] false
    | (.error _, _) => .panic

/-- a whole scan of `text`: `auto = true` is `seqio.NewAutoScanner(r)`, `auto = false` is
`seqio.NewScanner(seqio.FastaParser, r)` -/
def scanAll (auto : Bool) (text : Bytes) : ScanOut :=
  let s : PS := { rest := text, stk := [] }
  if auto then scanFirstAuto s else scanLoop (text.length + 1) s

/-! ### descriptions and writer selection -/

/-- `strconv.Itoa` as bytes (`%d` of `fmt.Sprintf`) -/
def itoaBytes (n : Int) : Bytes := str (itoa n)

/-- `GenBankFields.String()` (genbank.go:130-137).  `region` is `some (head, tail)` when
`gbf.Region` is a `gts.Segment` (set by `GenBankFields.Slice`), `none` for `nil` or any other
`gts.Region`. -/
def fastaDescOfGenBank (version definition : Bytes) (region : Option (Int × Int)) : Bytes :=
  match region with
  | some (head, tail) =>
    version ++ 58 :: itoaBytes (head + 1) ++ 45 :: itoaBytes tail ++ 32 :: definition
  | none => version ++ 32 :: definition

/-- `GenBankFields.ID()` (genbank.go): the version, else the accession, else the locus name — the first
one that is not empty (what `gts query` prints as the sequence ID) -/
def genbankID (version accession locusName : Bytes) : Bytes :=
  if !version.isEmpty then version else if !accession.isEmpty then accession else locusName

/-- what `seq.Info()` can be, as far as the writers distinguish it -/
inductive Info where
  /-- a Go `string` -/
  | str (s : Bytes)
  /-- `seqio.GenBankFields` (a `fmt.Stringer`): version, definition, region -/
  | genbank (version definition : Bytes) (region : Option (Int × Int))
  /-- any other `fmt.Stringer`, given by the result of `String()` -/
  | stringer (s : Bytes)
  /-- anything else (`nil`, numbers, structs without `String`) -/
  | other
  deriving Repr, DecidableEq, Inhabited

/-- the dynamic type of the `gts.Sequence` handed to a writer -/
inductive SeqVal where
  /-- `seqio.Fasta{Desc, Data}` -/
  | fasta (desc data : Bytes)
  /-- a non-nil `*seqio.Fasta` -/
  | fastaPtr (desc data : Bytes)
  /-- any other sequence: its `Info()` and `Bytes()` (a `seqio.GenBank` is
  `generic (.genbank …) origin`) -/
  | generic (info : Info) (bytes : Bytes)
  deriving Repr, DecidableEq, Inhabited

/-- `FastaWriter.WriteSeq` (fasta.go:50-73): the text written, `none` for the
"does not know how to format" error.  The `string` case is tested before `fmt.Stringer`. -/
def fastaWriteSeq : SeqVal → Option Bytes
  | .fasta d b => some (fastaWrite d b)
  | .fastaPtr d b => some (fastaWrite d b)
  | .generic (.str s) b => some (fastaWrite s b)
  | .generic (.genbank v d r) b => some (fastaWrite (fastaDescOfGenBank v d r) b)
  | .generic (.stringer s) b => some (fastaWrite s b)
  | .generic .other _ => none

/-- the writer `detectWriter` picks for `NewWriter(w, DefaultFile)` (writer.go:32-49) -/
inductive WriterKind where
  | genbank | fasta | error
  deriving Repr, DecidableEq, Inhabited

/-- `detectWriter`: `GenBankFields` metadata is tested before `string, fmt.Stringer` -/
def detectWriter : SeqVal → WriterKind
  | .fasta _ _ => .fasta
  | .fastaPtr _ _ => .fasta
  | .generic (.genbank _ _ _) _ => .genbank
  | .generic (.str _) _ => .fasta
  | .generic (.stringer _) _ => .fasta
  | .generic .other _ => .error

/-- `"\n"` → `"\r\n"` on a whole text (what a CRLF-translating transport does to a file) -/
def crlf (t : Bytes) : Bytes := t.flatMap fun c => if c == 10 then [13, 10] else [c]

/-! ### domains of the round-trip property (decidable; used by `Gts.Props.C17`) -/

/-- a description without carriage return (`pars.Line` also ends a line at `\r`) -/
def noCR (d : Bytes) : Bool := d.all fun c => c != 13

/-- a description on one line: neither `\n` (rewritten to a blank by the writer) nor `\r` -/
def descOk (d : Bytes) : Bool := d.all fun c => c != 10 && c != 13

/-- residues: any bytes except `>` (starts the next record), `\n` and `\r` (line ends) -/
def resOk (r : Bytes) : Bool := r.all fun c => c != 62 && c != 10 && c != 13

/-- what may follow a record: nothing, or the `>` of the next record -/
def recEnd (rest : Bytes) : Bool :=
  match rest with
  | [] => true
  | c :: _ => c == 62

end Gts.Fasta
