/-
  /repo/locator.go: `tryLocation`, `AsLocator` (precedence modifier → point/range location →
  selector; the first `@` splits specifier from modifier) and the five locator constructors'
  action on a sequence.  `regexp.Compile` of the selector's qualifier queries and the filter
  semantics are parameters.  Core Lean only.
-/
import Gts.Model.Modifier
import Gts.Model.Seq
namespace Gts
open Pars

namespace LocParse

/-- `parseComplement(q)` for an arbitrary inner parser `q` (location.go:1211) -/
def complementWith (inner : P Loc) : P Loc := do
  push
  match ← attempt (request 11) with
  | none => do pop; fail
  | some b => if b != str "complement(" then do pop; fail
  advanceN 11
  let l ← (do match ← attempt inner with | some v => pure v | none => do pop; fail)
  let c ← (do match ← attempt next with | some c => pure c | none => do pop; fail)
  if c != 41 then do pop; fail
  advance1
  drop
  pure l.complement

/-- the recursive parser of `tryLocation`:
`parser = pars.Any(parseComplement(&parser), parseRange, parsePoint)`; the fuel bounds the
nesting of `complement(` (each level consumes 11 bytes). -/
def tryLoc : Nat → P Loc
  | 0 => fail
  | fuel + 1 => anyOf [complementWith (tryLoc fuel), range, point]

end LocParse

/-- `tryLocation(s)`: `pars.Exact(parser)` on a fresh state (`Seq(Head, parser, End).Map(Child(1))`;
`Head` holds at the start, `End` = no byte left), so only a string that is *entirely* a point /
range / complement location is accepted (repair 03b944a of finding F9). -/
def tryLocation (input : Bytes) : Except Err Loc :=
  ((ModParse.exact (LocParse.tryLoc (input.length + 2))).run' ⟨input, []⟩).1

/-- what `AsLocator` builds -/
inductive LocatorDesc where
  /-- `relativeLocator(mod)` -/
  | bareModifier (m : Mod)
  /-- `locationLocator(loc)` -/
  | bareLocation (l : Loc)
  /-- `filterLocator(Selector(s))` -/
  | selector (s : Bytes)
  /-- `resizeLocator(allLocator, mod)` -/
  | atAll (m : Mod)
  /-- `resizeLocator(inner, mod)` -/
  | at (inner : LocatorDesc) (m : Mod)
  /-- an `error` return -/
  | error
  /-- a run-time panic inside one of the parsers (none is reachable; kept for totality) -/
  | panic
  deriving Repr, Inhabited

/-- `strings.IndexByte(s, '@')` as a split: the bytes before the first `@` and, if there is
one, the bytes after it -/
def splitAt : Bytes → Bytes × Option Bytes
  | [] => ([], none)
  | c :: r => if c = 64 then ([], some r) else
    let (a, b) := splitAt r
    (c :: a, b)

/-- `AsLocator(s)` when `s` contains no `@` (`case -1`): modifier, then point / range /
complement location, then selector.  `selOk s` says whether `Selector(s)` returns no error
(all `regexp.Compile` calls on the qualifier queries succeed). -/
def asLocatorBare (selOk : Bytes → Bool) (s : Bytes) : LocatorDesc :=
  match asModifier s with
  | .ok m => .bareModifier m
  | .error .panic => .panic
  | .error .fail =>
    match tryLocation s with
    | .ok l => .bareLocation l
    | .error .panic => .panic
    | .error .fail => if selOk s then .selector s else .error

/-- `AsLocator(s)` -/
def asLocator (selOk : Bytes → Bool) (s : Bytes) : LocatorDesc :=
  match splitAt s with
  | (_, none) => asLocatorBare selOk s
  | ([], some tl) =>
    match asModifier tl with
    | .ok m => .atAll m
    | .error .panic => .panic
    | .error .fail => .error
  | (hd, some tl) =>
    match asLocatorBare selOk hd with
    | .error => .error
    | .panic => .panic
    | d =>
      match asModifier tl with
      | .ok m => .at d m
      | .error .panic => .panic
      | .error .fail => .error

namespace LocatorDesc

/-- the locator applied to a sequence: `filt s f` is the verdict of the filter `Selector(s)`
on the feature `f`.  (`error` / `panic` describe no locator; they yield no region.) -/
def apply (filt : Bytes → Feature → Bool) (seq : Seq) : LocatorDesc → List Reg
  | bareModifier m => [(Reg.seg 0 seq.len).resize m]
  | bareLocation l => [l.region]
  | selector s => (seq.feats.filter (filt s)).map fun f => f.loc.region
  | atAll m => seq.feats.map fun f => f.loc.region.resize m
  | .at inner m => (inner.apply filt seq).map fun r => r.resize m
  | error => []
  | panic => []

end LocatorDesc

/-! ### `Selector(s)` for regexp-free selectors (feature.go:188-232)

Only used to answer protocol lines; the theorems take the filter as a parameter. -/

/-- `shiftSelectorB(s)` with its escape flag (set by a backslash, reset by any byte other than
`/` and backslash) -/
def shiftSelectorGo : Bytes → Bool → Bytes × Bytes
  | [], _ => ([], [])
  | c :: r, esc =>
    if c = 92 then let (a, b) := shiftSelectorGo r true; (c :: a, b)
    else if c = 47 then
      if !esc then ([], r) else let (a, b) := shiftSelectorGo r esc; (c :: a, b)
    else let (a, b) := shiftSelectorGo r false; (c :: a, b)

def shiftSelectorB (s : Bytes) : Bytes × Bytes := shiftSelectorGo s false

/-- the qualifier parts `name[=query]` of a selector, after its key part -/
def selectorParts : Nat → Bytes → List Bytes
  | 0, _ => []
  | fuel + 1, tl => if tl.isEmpty then [] else
    let (h, t) := shiftSelectorB tl
    h :: selectorParts fuel t

/-- `toQualifier`: split at the first `=` -/
def splitEqB : Bytes → Bytes × Bytes
  | [] => ([], [])
  | c :: r => if c = 61 then ([], r) else let (a, b) := splitEqB r; (c :: a, b)

/-- is `q` a contiguous sub-list of `v` (what a metacharacter-free regexp matches) -/
def containsBytes (v q : Bytes) : Bool :=
  match v with
  | [] => q.isEmpty
  | _ :: r => (v.take q.length == q) || containsBytes r q

/-- `Qualifier(name, query)` for a query without regexp metacharacters -/
def qualifierMatch (name query : Bytes) (f : Feature) : Bool :=
  let props := f.props.map fun row => row.map fun s => s.toUTF8.toList
  if name.isEmpty then props.any fun row => (row.drop 1).any fun v => containsBytes v query
  else if query.isEmpty then props.any fun row => row.head? == some name
  else match props.find? fun row => row.head? == some name with
    | some row => (row.drop 1).any fun v => containsBytes v query
    | none => false

/-- `Selector(s)` applied to a feature, for regexp-free qualifier queries -/
def selectorMatch (s : Bytes) (f : Feature) : Bool :=
  let (key, tl) := shiftSelectorB s
  (key.isEmpty || f.key.toUTF8.toList == key) &&
    (selectorParts (tl.length + 1) tl).all fun part =>
      let (name, query) := splitEqB part
      qualifierMatch name query f

end Gts
