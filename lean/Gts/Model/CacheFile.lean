/-
  Model of the cache file format and of its create / write / close / open protocol
  (`/repo/cmd/cache/file.go`, `/repo/cmd/cache/header.go`, used by `/repo/cmd/gts/io.go`).

  Bytes are `List UInt8`.  External code is a PARAMETER of every definition:
    * `H : Bytes → Bytes`   the digest (`hash.Hash`: Reset, Write x, Sum nil), of size `d`
                            (`h.Size()`); the theorems assume `∀ x, (H x).length = d`, `0 < d`;
    * `deflate / inflate`   `compress/flate` writer (whole stream, closed) and reader; the
                            theorems that need it assume `inflate (deflate w) = some w`.
  Nothing about `H` (injectivity, collision resistance) is ever assumed globally: where a theorem
  needs two bodies to hash differently, that is a hypothesis of that theorem.

  File system assumptions (trusted base, DESIGN.md section 5): a `Read` of a regular file returns
  `min (len p) (remaining)` bytes; I/O on the open descriptor does not fail; an interrupted
  writer leaves a prefix of its write sequence.  Core Lean only.
-/
namespace Gts.Cache

abbrev Bytes := List UInt8

/-- `make([]byte, n)` -/
def zeros (n : Nat) : Bytes := List.replicate n 0

/-- the distinct ways in which `Open` (and the subsequent read) fails; the protocol collapses all
of them to `ERR` -/
inductive Err where
  /-- `os.Open`: no file of that name -/
  | notFound
  /-- `ReadHeader`: `r.Read(p)` returned `0, io.EOF` -/
  | eof
  /-- `ReadHeader`: "could not read sufficient bytes in header" -/
  | short
  /-- `Validate`: "root hash sum mismatch" -/
  | root
  /-- `Validate`: "data hash sum mismatch" -/
  | data
  /-- `Validate`: "body hash sum mismatch" -/
  | body
  /-- `flate` reader: corrupt or truncated stream (only after a successful `Open`) -/
  | inflate
  deriving DecidableEq, Repr, Inhabited

deriving instance DecidableEq for Except

/-- header.go `Header` -/
structure Header where
  root : Bytes
  data : Bytes
  body : Bytes
  deriving DecidableEq, Repr

/-- header.go `ReadHeader(r, size)`: ONE `Read` into a buffer of `3*size` bytes.  On an `*os.File`
the read returns `n = min (3*size) (bytes left)`; `n = 0` with a non-empty buffer is `io.EOF`
(an error), any other `n ≠ 3*size` is the "sufficient bytes" error. -/
def readHeader (d : Nat) (f : Bytes) : Except Err Header :=
  let p := f.take (3 * d)
  let n := p.length
  if n = 0 ∧ 0 < 3 * d then .error .eof
  else if n ≠ 3 * d then .error .short
  else .ok ⟨p.take d, (p.drop d).take d, p.drop (2 * d)⟩

/-- header.go `Header.Validate(rsum, dsum, bsum)`: root, then data, then body -/
def Header.validate (h : Header) (r q b : Bytes) : Except Err Unit :=
  if r ≠ h.root then .error .root
  else if q ≠ h.data then .error .data
  else if b ≠ h.body then .error .body
  else .ok ()

/-- file.go `Open` on the contents `f` of the file found under the entry's name, for the caller's
root sum `r` and data sum `q`: read the header, hash EVERYTHING after it (`io.Copy(h, f)` from
offset `3*size`), validate, seek back to `3*size`.  The result is what the returned `*File` will
feed to its flate reader: the bytes after the header. -/
def openf (H : Bytes → Bytes) (d : Nat) (f r q : Bytes) : Except Err Bytes :=
  match readHeader d f with
  | .error e => .error e
  | .ok hd =>
    let rest := f.drop (3 * d)
    match hd.validate r q (H rest) with
    | .error e => .error e
    | .ok () => .ok rest

/-- `File.Read` until EOF (`io.ReadAll`, `io.Copy`): the flate reader over the body -/
def readAll (inflate : Bytes → Option Bytes) (body : Bytes) : Except Err Bytes :=
  match inflate body with
  | some w => .ok w
  | none => .error .inflate

/-- `Open` followed by reading everything -/
def openRead (H : Bytes → Bytes) (d : Nat) (inflate : Bytes → Option Bytes) (f r q : Bytes) :
    Except Err Bytes :=
  match openf H d f r q with
  | .error e => .error e
  | .ok body => readAll inflate body

/-! ### file names and the directory -/

def hexDigit (n : Nat) : Char :=
  if n < 10 then Char.ofNat (n + 48) else Char.ofNat (n - 10 + 97)

/-- `hex.EncodeToString` -/
def hex (b : Bytes) : String :=
  String.ofList (b.flatMap fun c => [hexDigit (c.toNat / 16), hexDigit (c.toNat % 16)])

/-- file.go `Open`/`CreateLevel`: `hex(h.Sum(rsum ‖ dsum))` -/
def name (H : Bytes → Bytes) (r q : Bytes) : String := hex (H (r ++ q))

/-- a cache directory: file name ↦ contents -/
abbrev Store := String → Option Bytes

/-- file.go `Open(path, h, rsum, dsum)` against a directory -/
def openAt (H : Bytes → Bytes) (d : Nat) (s : Store) (r q : Bytes) : Except Err Bytes :=
  match s (name H r q) with
  | none => .error .notFound
  | some f => openf H d f r q

/-! ### the writer -/

/-- `pwrite` of `p` at offset 0 (after `Seek(0, SeekStart)`) -/
def overwrite (disk p : Bytes) : Bytes := p ++ disk.drop p.length

/-- a `*File` being written: what is on disk, the header fields remembered by `CreateLevel`
(`Header{rsum, dsum, nil}`), and the plain bytes handed to the flate writer so far.  How much of
the compressed stream flate has already flushed is not part of the state; every possibility is
covered by `crashStates`. -/
structure Writer where
  disk : Bytes
  r : Bytes
  q : Bytes
  plain : Bytes

/-- file.go `CreateLevel`: truncate/create, write the placeholder `make([]byte, 3*size)` -/
def create (d : Nat) (r q : Bytes) : Writer := ⟨zeros (3 * d), r, q, []⟩

/-- file.go `File.Write` -/
def write (w : Writer) (p : Bytes) : Writer := { w with plain := w.plain ++ p }

/-- file.go `File.Close` (writer): close the flate stream (now the whole compressed stream is
behind the placeholder), seek to `3*size`, hash to EOF, seek to 0, `Header.WriteTo` =
`rsum ‖ dsum ‖ bsum` in one `Write`. -/
def close (H : Bytes → Bytes) (d : Nat) (deflate : Bytes → Bytes) (w : Writer) : Bytes :=
  let disk := w.disk ++ deflate w.plain
  let body := disk.drop (3 * d)
  overwrite disk (w.r ++ w.q ++ H body)

/-- `Create; Write w; Close` -/
def finish (H : Bytes → Bytes) (d : Nat) (deflate : Bytes → Bytes) (r q w : Bytes) : Bytes :=
  close H d deflate (write (create d r q) w)

/-- the finished file for a compressed body: `r ‖ q ‖ H body ‖ body` -/
def finished (H : Bytes → Bytes) (r q body : Bytes) : Bytes := r ++ q ++ H body ++ body

/-- Every state an interrupted writer can leave behind, for compressed body `body`
(= `deflate` of everything written) — every prefix of the write sequence
`placeholder ; body ; header`:
  0. the placeholder itself partly written (`k < 3d` zero bytes, `k = 0` is the fresh file);
  1. the placeholder and the first `k` bytes of the body (`0 ≤ k ≤ |body|`);
  2. the whole body and the first `k` bytes of the final header `r ‖ q ‖ H body`
     written over the placeholder, the rest of it still zero (`0 ≤ k ≤ |header|`;
     the last one is the finished file). -/
def crashStates (H : Bytes → Bytes) (d : Nat) (r q body : Bytes) : List Bytes :=
  let hdr := r ++ q ++ H body
  let full := zeros (3 * d) ++ body
  (List.range (3 * d)).map zeros
    ++ (List.range (body.length + 1)).map (fun k => zeros (3 * d) ++ body.take k)
    ++ (List.range (hdr.length + 1)).map (fun k => overwrite full (hdr.take k))

/-- crash states of `Create; Write w; Close` -/
def crashStatesOf (H : Bytes → Bytes) (d : Nat) (deflate : Bytes → Bytes) (r q w : Bytes) :
    List Bytes :=
  crashStates H d r q (deflate w)

end Gts.Cache
