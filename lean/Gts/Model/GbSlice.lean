/-
  `GenBankFields.Slice` (seqio/genbank.go:66-117) and `parseReferenceInfo`
  (seqio/reference.go): clipping of the `(bases a to b; c to d)` ranges of REFERENCE lines.
  Core Lean only.
-/
import Gts.Model.Pars
import Gts.Model.Loc
namespace Gts
open Pars

/-- one parsed `a to b` range `[a-1, b)`; an inverted or empty one (`b ≤ a-1`, on which
`gts.Range` would panic) is a parse error (seqio/reference.go) -/
def refRange : P (Int × Int) := do
  let a ← int
  lit (str " to ")
  let b ← int
  if b ≤ a - 1 then fail else pure (a - 1, b)

/-- `pars.Many(pars.Seq("; ", range).Child(1))`; fuel bounds the repetitions by the input length -/
def refMore : Nat → List (Int × Int) → P (List (Int × Int))
  | 0, acc => pure acc.reverse
  | k + 1, acc => do
    let s ← getS
    match ← attempt (do lit (str "; "); refRange) with
    | some r => refMore k (r :: acc)
    | none => do setS s; pure acc.reverse

/-- `parseReferenceInfo(prefix)`: `some ranges`, `none` on a parse error -/
def parseRefInfo (pref info : Bytes) : Option (List (Int × Int)) :=
  let p : P (List (Int × Int)) := do
    lit ([40] ++ pref ++ [32])
    let first ← refRange
    let rest ← refMore info.length []
    lit [41]
    pure (first :: rest)
  match p.run' ⟨info, []⟩ with
  | (.ok rs, _) => some rs
  | _ => none

structure Ref where
  number : Int
  info : Bytes
  deriving Repr, Inhabited

/-- re-based intersection of `[s,e)` with the window `[a,b)` -/
def clipRange (a b : Int) (r : Int × Int) : Int × Int :=
  (Loc.gmax 0 (r.1 - a), Loc.gmin (b - a) (r.2 - a))

def intBytes (n : Int) : Bytes := (toString n).toUTF8.toList

def fmtRanges (pref : Bytes) (rs : List (Int × Int)) : Bytes :=
  let parts := rs.map fun r => intBytes (r.1 + 1) ++ str " to " ++ intBytes r.2
  [40] ++ pref ++ [32] ++ (parts.intersperse (str "; ")).flatten ++ [41]

/-- what `Slice` does with one reference: `none` = dropped -/
def sliceRefInfo (pref : Bytes) (a b : Int) (info : Bytes) : Option Bytes :=
  match parseRefInfo pref info with
  | none => some info                            -- unparsable: kept verbatim
  | some locs =>
    let olap := locs.filter fun r => Loc.rangeOverlap r.1 r.2 a b
    if olap.isEmpty then none
    else some (fmtRanges pref (olap.map (clipRange a b)))

/-- `refs[i].Number = i + 1` -/
def renumber (infos : List Bytes) : List Ref := infos.zipIdx.map fun (i, k) => ⟨(k : Int) + 1, i⟩

/-- the references after `Slice(a, b)`: clipped, dropped when disjoint, renumbered `1..m` -/
def sliceRefs (pref : Bytes) (a b : Int) (refs : List Ref) : List Ref :=
  renumber (refs.filterMap fun r => sliceRefInfo pref a b r.info)

end Gts
