/-
  C11 — the location methods of /repo/location.go written as the HEAP PROGRAMS the Go code is
  (core Lean only; continues Gts/Model/Mem.lean, section `asComplete`).

  A `Joined` / `Ordered` is a slice header into the heap of location cells (`MLoc`).  The methods
  `Expand`, `Shift`, `Normalize`, `Reverse` of a `Joined` / `Ordered` all have the shape

      locs := make([]Location, len(v)); for j, l := range v { locs[j] = l.M(…) }; return Join(locs...)

  and `Join` / `Order` are `LocationList.Push` + `LocationList.Slice()` / `flattenLocations`.
  Every `make`, every `append`, every composite literal is written out, so WHICH array a result
  slice lives in is computed, not postulated (`allocLoc` of Mem.lean was the stand-in).

  * The `LocationList` nodes are private to one `Join` call and never escape; the list is kept as
    a Lean list (reversed, `racc.head` = last node), exactly as in `Gts/Model/Loc.lean`.
  * The rules of `Push` for two CONTIGUOUS values (Between / Point / Ranged: location.go:639-691)
    compute with scalars only; they are `Loc.pushOne` itself, applied to the two values.
  * Go recurses on the value (a `Joined` inside a `Joined` …).  The heap programs take `fuel`
    and answer `none` when it runs out (Go: no answer either — a cyclic value overflows the
    stack); `none` is also the answer where Go panics with an index out of range.  `Join()` /
    `Order()` of NO location panic in Go; here they return a new empty `Joined` / `Ordered`, the
    convention of `Loc.ofParts` / `Loc.order`.
  * `d` in `pushDMem` is the level counter of `Loc.pushD` (merging `complement(…)` with
    `complement(…)` re-enters `Push` one level down; level 0 appends) — kept so that the heap
    program and `Loc.push` agree at EVERY level, not only below `Loc.pushFuel`.
-/
import Gts.Model.Mem
namespace Gts.Mem
open Heap

/-- the heap of location cells -/
abbrev LHeap := Heap MLoc

/-- the type of `(*LocationList).Push(loc, force)`: the list (reversed) before, the location,
`force`; the list after and the heap after -/
abbrev PushFn := LHeap → List MLoc → MLoc → Bool → Option (List MLoc × LHeap)

/-- a composite literal `[]Location{a, b, …}` (also the implicit slice of a variadic call
`Join(left, right)`): one new array holding exactly the elements -/
def litSlice (h : LHeap) (xs : List MLoc) : Slice × LHeap :=
  let s := mk h xs.length xs.length
  (s.1, write s.2 s.1.arr s.1.off xs)

/-- `(*LocationList).Slice()` (location.go:608-614); the list in order:
```go
list := []Location{ll.Data}
for node := ll.Next; node != nil; node = node.Next { list = append(list, node.Data) }
```
(an empty list has `Data == nil`: the result is the one-element slice `[nil]`) -/
def listSlice (g : Grow) (h : LHeap) : List MLoc → Slice × LHeap
  | [] => mk h 1 1
  | a :: rest =>
    rest.foldl (fun (st : Slice × LHeap) x => append g st.2 st.1 [x]) (litSlice h [a])

/-- the `switch list.Len()` of `Join` (location.go:727-734); the list in order.  `case 0` panics in
Go; the model returns a new empty `Joined` (cf. `Loc.ofParts`) -/
def joinTail (g : Grow) (h : LHeap) : List MLoc → MLoc × LHeap
  | [] => let s := mk h 0 0; (.joined s.1, s.2)
  | [a] => (a, h)
  | l => let s := listSlice g h l; (.joined s.1, s.2)

/-- `for i := range v { ll.Push(v[i], force) }` (location.go:628, and the loop of `Join`,
location.go:720): element `i` is loaded from the CURRENT heap; `n` iterations remain -/
def pushLoop (push : PushFn) (s : Slice) (force : Bool) :
    Nat → Nat → List MLoc → LHeap → Option (List MLoc × LHeap)
  | 0, _, racc, h => some (racc, h)
  | n + 1, i, racc, h =>
    match load h s i with
    | some u => (push h racc u force).bind fun r => pushLoop push s force n (i + 1) r.1 r.2
    | none => none

/-- `Join(locs...)` (location.go:715-735) over the `Push` function `push` -/
def joinMem (push : PushFn) (g : Grow) (h : LHeap) (locs : Slice) : Option (MLoc × LHeap) :=
  (pushLoop push locs true locs.len 0 [] h).bind fun r => some (joinTail g r.2 r.1.reverse)

/-- the cases of `Push` for a location that is not a `Joined` (location.go:634-702); `low` is
`Push` one level down (see `pushDMem`):
* empty list: `ll.Data = loc`;
* two contiguous values: the scalar rules, `Loc.pushOne`;
* `Complemented` onto `Complemented`:
  `tmp := LocationList{u.Location, nil}; tmp.Push(v.Location, force);
   ll.Data = Complemented{Join(tmp.Slice()...)}`;
* anything else: `ll.Next = &LocationList{loc, nil}` -/
def pushOneMem (low : PushFn) (g : Grow) (h : LHeap) (racc : List MLoc) (x : MLoc) (force : Bool) :
    Option (List MLoc × LHeap) :=
  match racc, x with
  | [], x => some ([x], h)
  | .leaf v :: rest, .leaf u =>
    some ((Loc.pushOne (fun r _ _ => r) [v] u force).map MLoc.leaf ++ rest, h)
  | .compl vm :: rest, .compl um =>
    (low h [um] vm force).bind fun t =>
      let sl := listSlice g t.2 t.1.reverse
      (joinMem low g sl.2 sl.1).bind fun j => some (.compl j.1 :: rest, j.2)
  | racc, x => some (x :: racc, h)

/-- `(*LocationList).Push` (location.go:621-703) with the lower level explicit; `fuel` bounds the
nesting of `Joined` inside `Joined` -/
def pushWMem (low : PushFn) (g : Grow) : Nat → PushFn
  | 0, _, _, _, _ => none
  | k + 1, h, racc, .joined s, force => pushLoop (pushWMem low g k) s force s.len 0 racc h
  | _ + 1, h, racc, x, force => pushOneMem low g h racc x force

/-- `Push` with `d` levels of `Complemented`/`Complemented` merging (`Loc.pushD`) -/
def pushDMem (g : Grow) (k : Nat) : Nat → PushFn
  | 0 => fun h racc x _ => some (x :: racc, h)
  | d + 1 => pushWMem (pushDMem g k d) g k

/-- `Join(locs...)` -/
def joinLocs (g : Grow) (k : Nat) (h : LHeap) (locs : Slice) : Option (MLoc × LHeap) :=
  joinMem (pushDMem g k Loc.pushFuel) g h locs

/-- the loop of `flattenLocations` (location.go:835-842):
```go
for i := range locs {
    switch loc := locs[i].(type) {
    case Ordered: list = append(list, flattenLocations([]Location(loc))...)
    default:      list = append(list, loc)
    }
}
``` -/
def flattenLoop (rec : LHeap → Slice → Option (Slice × LHeap)) (g : Grow) (locs : Slice) :
    Nat → Nat → Slice → LHeap → Option (Slice × LHeap)
  | 0, _, list, h => some (list, h)
  | n + 1, i, list, h =>
    match load h locs i with
    | some (.ordered s) =>
      (rec h s).bind fun r =>
        let a := append g r.2 list (read r.2 r.1)
        flattenLoop rec g locs n (i + 1) a.1 a.2
    | some x =>
      let a := append g h list [x]
      flattenLoop rec g locs n (i + 1) a.1 a.2
    | none => none

/-- `flattenLocations(locs)` (location.go:833-844); `list := []Location{}` owns no cell -/
def flattenMem (g : Grow) : Nat → LHeap → Slice → Option (Slice × LHeap)
  | 0, _, _ => none
  | k + 1, h, locs => flattenLoop (flattenMem g k) g locs locs.len 0 Slice.nil h

/-- `Order(locs...)` (location.go:852-862).  `case 0` panics in Go; the model returns a new empty
`Ordered` (cf. `Loc.order`) -/
def orderLocs (g : Grow) (k : Nat) (h : LHeap) (locs : Slice) : Option (MLoc × LHeap) :=
  (flattenMem g k h locs).bind fun r =>
    match r.1.len with
    | 0 => let s := mk r.2 0 0; some (.ordered s.1, s.2)
    | 1 => (load r.2 r.1 0).map fun a => (a, r.2)
    | _ => some (.ordered r.1, r.2)

/-- `for j, loc := range src { dst[j] = loc.M(…) }` — load from the current heap, call, store -/
def mapLoop2 (rec : LHeap → MLoc → Option (MLoc × LHeap)) (src dst : Slice) :
    Nat → Nat → LHeap → Option LHeap
  | 0, _, h => some h
  | n + 1, j, h =>
    match load h src j with
    | some u => (rec h u).bind fun r => mapLoop2 rec src dst n (j + 1) (store r.2 dst j r.1)
    | none => none

/-- `locs := make([]Location, len(src)); for j, loc := range src { locs[j] = loc.M(…) }` -/
def mapLocs (rec : LHeap → MLoc → Option (MLoc × LHeap)) (h : LHeap) (src : Slice) :
    Option (Slice × LHeap) :=
  let locs := mk h src.len src.len
  (mapLoop2 rec src locs.1 src.len 0 locs.2).map fun h' => (locs.1, h')

/-- the common shape of `Expand`, `Shift`, `Normalize` (location.go:792-807, 783-789 `Joined`;
915-930, 906-912 `Ordered`; 963-975 `Complemented`): `leafM` is the method of the contiguous
kinds (plain values in, a value — or a `Join` / `Order` of two new values — out) -/
def methMem (leafM : Nat → LHeap → Loc → Option (MLoc × LHeap)) (g : Grow) :
    Nat → LHeap → MLoc → Option (MLoc × LHeap)
  | 0, _, _ => none
  | k + 1, h, .leaf l => leafM k h l
  | k + 1, h, .joined s =>
    (mapLocs (methMem leafM g k) h s).bind fun r => joinLocs g (k + 1) r.2 r.1
  | k + 1, h, .ordered s =>
    (mapLocs (methMem leafM g k) h s).bind fun r => orderLocs g (k + 1) r.2 r.1
  | k + 1, h, .compl m => (methMem leafM g k h m).map fun r => (.compl r.1, r.2)

/-- `Location.Expand(i, n)`; the contiguous kinds (location.go:259, 312, 484, 573) return a value -/
def expandMem (g : Grow) (i n : Int) : Nat → LHeap → MLoc → Option (MLoc × LHeap) :=
  methMem (fun _ h l => some (.leaf (l.expand i n), h)) g

/-- `Shift(i, n)` of a contiguous kind (location.go:254, 307, 456-481, 551-570): a value, except
for a `Ranged` / `Ambiguous` that is split by an insertion strictly inside it —
`return Join(left, right)` / `return Order(left, right)` over the two new values (the variadic call
builds the slice `[]Location{left, right}`) -/
def shiftLeaf (g : Grow) (i n : Int) (k : Nat) (h : LHeap) (l : Loc) : Option (MLoc × LHeap) :=
  match l with
  | .ranged s e p5 p3 =>
    if 0 < n ∧ s < i ∧ i < e then
      let a := litSlice h [.leaf (.ranged s i p5 false), .leaf (.ranged (i + n) (e + n) false p3)]
      joinLocs g k a.2 a.1
    else some (.leaf (l.shift i n), h)
  | .ambiguous s e =>
    if 0 < n ∧ s < i ∧ i < e then
      let a := litSlice h [.leaf (.ambiguous s i), .leaf (.ambiguous (i + n) (e + n))]
      orderLocs g k a.2 a.1
    else some (.leaf (l.shift i n), h)
  | l => some (.leaf (l.shift i n), h)

/-- `Location.Shift(i, n)` -/
def shiftMem (g : Grow) (i n : Int) : Nat → LHeap → MLoc → Option (MLoc × LHeap) :=
  methMem (shiftLeaf g i n) g

/-- `Normalize(length)` of a contiguous kind (location.go:249, 302, 437-453, 546): a value, except
for a `Ranged` that wraps around the origin — `return Join(left, right)` -/
def normalizeLeaf (g : Grow) (len : Int) (k : Nat) (h : LHeap) (l : Loc) : Option (MLoc × LHeap) :=
  match l with
  | .ranged s e p5 p3 =>
    if e - s ≠ len ∧ ¬ (Int.tmod s len < Int.tmod (e - 1) len + 1) then
      let a := litSlice h [.leaf (.ranged (Int.tmod s len) len p5 false),
        .leaf (.ranged 0 (Int.tmod (e - 1) len + 1) false p3)]
      joinLocs g k a.2 a.1
    else some (.leaf (l.normalize len), h)
  | l => some (.leaf (l.normalize len), h)

/-- `Location.Normalize(length)` -/
def normalizeMem (g : Grow) (len : Int) : Nat → LHeap → MLoc → Option (MLoc × LHeap) :=
  methMem (normalizeLeaf g len) g

/-- the loop of `Joined.Reverse` / `Ordered.Reverse` (location.go:776-778, 899-901):
```go
for l, r := 0, len(ll)-1; l <= r; l, r = l+1, r-1 {
    ll[l], ll[r] = v[r].Reverse(length), v[l].Reverse(length)
}
```
`l <= r` holds for exactly `⌈len/2⌉` iterations (`cnt`); the two calls are made in this order,
then the two stores (for the middle element of an odd length both calls are made and the second
store wins) -/
def revLoop (rec : LHeap → MLoc → Option (MLoc × LHeap)) (src dst : Slice) :
    Nat → Nat → Nat → LHeap → Option LHeap
  | 0, _, _, h => some h
  | cnt + 1, l, r, h =>
    match load h src r with
    | some ur =>
      (rec h ur).bind fun a =>
        match load a.2 src l with
        | some ul =>
          (rec a.2 ul).bind fun b =>
            revLoop rec src dst cnt (l + 1) (r - 1) (store (store b.2 dst l a.1) dst r b.1)
        | none => none
    | none => none

/-- `Location.Reverse(length)` (location.go:244, 297, 425, 541 values; 774-780; 897-903; 958) -/
def reverseMem (g : Grow) (len : Int) : Nat → LHeap → MLoc → Option (MLoc × LHeap)
  | 0, _, _ => none
  | _ + 1, h, .leaf l => some (.leaf (l.reverse len), h)
  | k + 1, h, .joined s =>
    let ll := mk h s.len s.len
    (revLoop (reverseMem g len k) s ll.1 ((s.len + 1) / 2) 0 (s.len - 1) ll.2).bind fun h' =>
      joinLocs g (k + 1) h' ll.1
  | k + 1, h, .ordered s =>
    let ll := mk h s.len s.len
    (revLoop (reverseMem g len k) s ll.1 ((s.len + 1) / 2) 0 (s.len - 1) ll.2).bind fun h' =>
      orderLocs g (k + 1) h' ll.1
  | k + 1, h, .compl m => (reverseMem g len k h m).map fun r => (.compl r.1, r.2)

/-- `Location.Complement()` (location.go:239, 292, 420, 536, 769, 892, 953): wraps the receiver —
`Complemented{joined}` holds the receiver's own slice — or unwraps it; nothing is allocated -/
def complementMem : MLoc → MLoc
  | .compl m => m
  | m => .compl m

/-- the location part of the loop body of `gts.Slice` (sequence.go:276-279):
```go
loc := f.Loc.Expand(end, end-seqlen).Expand(0, -start)
if f.Key == "source" { loc = asComplete(loc) }
```
— the only call site of `asComplete` -/
def sliceLocMem (g : Grow) (k : Nat) (L start end_ : Int) (source : Bool) (h : LHeap) (m : MLoc) :
    Option (MLoc × LHeap) :=
  (expandMem g end_ (end_ - L) k h m).bind fun r1 =>
    (expandMem g 0 (-start) k r1.2 r1.1).bind fun r2 =>
      some (if source then asCompleteMem k r2.2 r2.1 else r2)

/-! ### what a location in memory denotes -/

/-- the contiguous kinds (plain values in Go) -/
def isContig : Loc → Bool
  | .between _ | .point _ | .ranged .. | .ambiguous .. => true
  | _ => false

mutual
/-- `Reads h l m`: the memory value `m` denotes the location `l` in heap `h` — every slice header
on the way is well formed, every cell is itself readable (so the value is finite: no cycle) -/
def Reads (h : LHeap) : Loc → MLoc → Prop
  | .joined ls, .joined s => WF h s ∧ ReadsList h ls (read h s)
  | .ordered ls, .ordered s => WF h s ∧ ReadsList h ls (read h s)
  | .compl l, .compl m => Reads h l m
  | .joined _, _ => False
  | .ordered _, _ => False
  | .compl _, _ => False
  | l, .leaf l' => l' = l
  | _, _ => False
def ReadsList (h : LHeap) : List Loc → List MLoc → Prop
  | [], [] => True
  | l :: ls, m :: ms => Reads h l m ∧ ReadsList h ls ms
  | _, _ => False
end

mutual
/-- nesting depth of a location value (`asCompleteMem` needs that much fuel) -/
def mdepth : Loc → Nat
  | .joined ls => mdepthList ls + 1
  | .ordered ls => mdepthList ls + 1
  | .compl l => mdepth l + 1
  | _ => 1
def mdepthList : List Loc → Nat
  | [] => 0
  | l :: ls => max (mdepth l) (mdepthList ls)
end

/-- the slice arrays reachable from `m` in `h`, in preorder, empty slices left out (what the
harness collects by pointer); `fuel` bounds the depth -/
def sliceArrs (h : LHeap) : Nat → MLoc → List Nat
  | 0, _ => []
  | _ + 1, .leaf _ => []
  | k + 1, .joined s => (if s.len = 0 then [] else [s.arr]) ++ (read h s).flatMap (sliceArrs h k)
  | k + 1, .ordered s => (if s.len = 0 then [] else [s.arr]) ++ (read h s).flatMap (sliceArrs h k)
  | k + 1, .compl m => sliceArrs h k m

end Gts.Mem
