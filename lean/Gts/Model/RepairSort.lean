/-
  `Repair` (/repo/feature.go:20-71) with the sorting algorithm as a parameter.  Core Lean only.

  `sort.Sort(Locations(locs))` is Go's pdqsort: it is NOT stable, and it is the insertion sort
  that `Gts.sortLocs` copies only below 13 elements.  `LocationLess` is a strict weak order
  (Gts.C19 `less_*`), not a total one, so one class can have several sorted permutations; which
  of them `sort.Sort` returns is a property of the Go toolchain, not of /repo.  The definitions
  below are the definitions of Gts/Model/Repair.lean, word for word, with `sortLocs` replaced
  by an arbitrary function `sort`; `Gts.repairWith_sortLocs` (`rfl`) says that the model's
  `repair` is the instance `sort := sortLocs`.  What `sort.Sort` promises — a permutation of its
  argument in which no later element is `Less` than an earlier one — is `Gts.SortedPerm`
  (Gts/Spec/RepairSortGuard.lean); the theorems of Gts/Props/C12Sort.lean quantify over every
  `sort` that keeps this promise.
-/
import Gts.Model.Repair
namespace Gts

/-- the `Push` loop after `sort.Sort(Locations(locs))`, the sort being `sort` -/
def pushedOfWith (sort : List Loc → List Loc) (force : Bool) (locs : List Loc) : List Loc :=
  (Loc.pushAll [] (sort locs) force).reverse

/-- one iteration of `for _, indices := range index` (`classStep` with `sort`) -/
def classStepWith (sort : List Loc → List Loc) (ff : Table) (st : RepairSt) (idx : List Nat) : RepairSt :=
  let p := pushedOfWith sort (classForce ff idx) (classLocs st.gg idx)
  let n := sliceLen p
  if n < idx.length then
    { gg := writeLocs st.gg (idx.zip p)
      keep := st.keep ++ idx.take n
      nil := st.nil || p.isEmpty }
  else
    { st with keep := st.keep ++ idx }

/-- `Repair(ff)` when the map `index` is iterated in the order `cs` and `sort.Sort` is `sort` -/
def repairOrdWith (sort : List Loc → List Loc) (ff : Table) (cs : List (List Nat)) : RepairOutcome :=
  let st := cs.foldl (classStepWith sort ff) ⟨ff, [], false⟩
  match compact st.gg (sortNat st.keep) with
  | none => .panic
  | some gg => if st.nil then .nilLoc else .ok gg

/-- `Repair(ff)` (feature.go:22-71) when `sort.Sort` is `sort` -/
def repairWith (sort : List Loc → List Loc) (ff : Table) : RepairOutcome :=
  repairOrdWith sort ff (Table.groups ff)

/-- the model's `Repair` is the instance "`sort.Sort` is Go's insertion sort" -/
theorem repairOrdWith_sortLocs (ff : Table) (cs : List (List Nat)) :
    repairOrdWith sortLocs ff cs = repairOrd ff cs := rfl

theorem repairWith_sortLocs (ff : Table) : repairWith sortLocs ff = repair ff := rfl

end Gts
