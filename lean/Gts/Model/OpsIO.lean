/-
  Protocol ops of one area (see /verif/FRAMEWORK.md).  Not part of any theorem.  Core Lean only.
  C17: FASTA write / scan / writer metadata cases / GenBank → FASTA description.
-/
import Gts.Model.Sexp
import Gts.Model.Fasta
namespace Gts
open Gts.Fasta

def encScanOut : ScanOut → String
  | .done rs clean =>
    encList (rs.map fun r => encList [encBytes r.1, encBytes r.2]) ++ (if clean then " OK" else " ERR")
  | .panic => "PANIC"
  | .unmodelled => "UNMODELLED"

/-- `fasta.wseq` kinds: 0 `Fasta`, 1 `*Fasta`, 2 `gts.New(string, …)`, 3 `gts.New(fmt.Stringer, …)`,
4 `gts.New(int, …)` -/
def decSeqVal? (kind : Int) (d b : List UInt8) : Option SeqVal :=
  match kind with
  | 0 => some (.fasta d b)
  | 1 => some (.fastaPtr d b)
  | 2 => some (.generic (.str d) b)
  | 3 => some (.generic (.stringer d) b)
  | 4 => some (.generic .other b)
  | _ => none

/-- `seqio.NewWriter(w, ft).WriteSeq(v)`: `ft = 1` is `FastaFile`, `ft = 0` is `DefaultFile`
(auto-detection); a GenBank text is answered by the token `GENBANK` only. -/
def encWriteSeq (ft : Int) (v : SeqVal) : String :=
  let viaFasta := match fastaWriteSeq v with
    | some t => encBytes t
    | none => "ERR"
  if ft == 1 then viaFasta
  else match detectWriter v with
    | .fasta => viaFasta
    | .genbank => "GENBANK"
    | .error => "ERR"

def evalIO (op : String) (args : List Sexp) : Option String :=
  match op, args with
  | "fasta.write", [d, b] => do pure (encBytes (fastaWrite (← decBytes? d) (← decBytes? b)))
  | "fasta.wrap", [b, n] => do
      let n ← decInt? n
      if n < 1 then pure "UNMODELLED" else pure (encBytes (wrapForce (← decBytes? b) n.toNat))
  | "fasta.scan", [t] => do pure (encScanOut (scanAll true (← decBytes? t)))
  | "fasta.scanp", [t] => do pure (encScanOut (scanAll false (← decBytes? t)))
  | "fasta.wseq", [ft, k, d, b] => do
      pure (encWriteSeq (← decInt? ft) (← decSeqVal? (← decInt? k) (← decBytes? d) (← decBytes? b)))
  | "fasta.desc", [ft, v, d, b] => do
      pure (encWriteSeq (← decInt? ft) (.generic (.genbank (← decBytes? v) (← decBytes? d) none) (← decBytes? b)))
  | "fasta.desc", [ft, v, d, b, s, e] => do
      let b ← decBytes? b
      let s ← decInt? s
      let e ← decInt? e
      -- gts.Slice(gb, s, e) inside the record: Region = Segment{s, e}, residues b[s:e]
      if 0 ≤ s ∧ s ≤ e ∧ e ≤ b.length then
        pure (encWriteSeq (← decInt? ft)
          (.generic (.genbank (← decBytes? v) (← decBytes? d) (some (s, e))) ((b.drop s.toNat).take (e - s).toNat)))
      else pure "UNMODELLED"
  | _, _ => none

end Gts
