/-
  Protocol ops of the GenBank area (C01; see /verif/FRAMEWORK.md).  Not part of any theorem.
  Core Lean only.

  Registry argument REG = `(R (x<name>…) (x<name>…) (x<name>…))`: the quoted / literal / toggle
  names registered ON TOP of the initial lists of insdc.go (sorted, duplicate free in answers).

  Record = `(G (x<locus> x<molecule> topology x<division> year month day)
               x<definition> x<accession> x<version> ((x<db> x<id>)…) (x<keyword>…)
               (x<species> x<organism> (x<taxon>…))
               ((number x<info> x<authors> x<group> x<title> x<journal> PUBMED x<remark>)…)
               (x<comment>…) ((x<name> x<value>)…) (x<contig accession> head tail) REGION
               (F…) x<residues>)`   PUBMED = `N | (x<id>)`, REGION = `N | (head tail)`,
  features in the encoding of Sexp.lean; residues `PANIC` when `Origin.Bytes()` panics.

    gb.defaults                      → REG-shaped triple of the INITIAL lists
    gb.write REG record              → x<text> | PANIC                GenBank.String()
    gb.writeall REG record…          → x<text> | PANIC                WriteSeq for every record
    gb.read REG x<text>              → (record…) REG' OK|ERR | PANIC   GenBankParser until the input is used up
    gb.wrw REG x<text>               → x<text'> REG' | ERR | PANIC     write (under REG') of everything read
    gb.rt REG record                 → (record…) | ERR | PANIC         read of the written record
    gb.qualifier REG x<prefix> x<in> → (x<name> x<value>) REG' x<rest> | ERR | PANIC   QualifierParser(prefix)
    gb.table REG x<in>               → (F…) REG' x<rest> | ERR | PANIC  INSDCTableParser("")
    gb.tabletext REG F…              → x<text> | PANIC                 INSDCFormatter{table, "     ", 21}
    gb.date y m d                    → x<text>                         upper-cased Format("02-Jan-2006"), valid dates
    gb.asdate x<text>                → y m d | ERR                     AsDate
    gb.locus x<line>                 → depth x<name> length x<mol> x<top> x<div> y m d x<rest> | ERR | PANIC
-/
import Gts.Model.Sexp
import Gts.Model.GenBankParse
namespace Gts
open Gts.GenBank Gts.Pars

/-! ### decoding -/

def decBytesList? : Sexp → Option (List Bytes)
  | .list xs => xs.mapM decBytes?
  | _ => none

def decPair? : Sexp → Option (Bytes × Bytes)
  | .list [a, b] => do pure (← decBytes? a, ← decBytes? b)
  | _ => none

def decPairs? : Sexp → Option (List (Bytes × Bytes))
  | .list xs => xs.mapM decPair?
  | _ => none

def decRegistry? : Sexp → Option Registry
  | .list [.atom "R", q, l, t] => do
    let d := Registry.default
    pure ⟨(← decBytesList? q) ++ d.quoted, (← decBytesList? l) ++ d.literal, (← decBytesList? t) ++ d.toggle⟩
  | _ => none

def decQFeature? : Sexp → Option QFeature
  | .list [.atom "F", k, l, .list ps] => do
    let props ← ps.mapM decBytesList?
    pure ⟨← decBytes? k, ← decLoc? l, props⟩
  | _ => none

def decReference? : Sexp → Option Reference
  | .list [n, info, au, gr, ti, jo, pm, cm] => do
    let pubmed ← match pm with
      | .atom "N" => some none
      | .list [v] => do pure (some (← decBytes? v))
      | _ => none
    pure ⟨← decInt? n, ← decBytes? info, ← decBytes? au, ← decBytes? gr, ← decBytes? ti, ← decBytes? jo,
      pubmed, ← decBytes? cm⟩
  | _ => none

def decRecord? : Sexp → Option Record
  | .list [.atom "G", .list [ln, mol, top, dv, y, m, d], df, acc, ver, dbl, kw,
      .list [spc, org, tax], .list refs, cms, ext, .list [ca, ch, ct], rg, .list tab, res] => do
    let region ← match rg with
      | .atom "N" => some none
      | .list [h, t] => do pure (some (← decInt? h, ← decInt? t))
      | _ => none
    let f : Fields := {
      locusName := ← decBytes? ln, molecule := ← decBytes? mol, topology := ← decInt? top,
      division := ← decBytes? dv, date := ⟨← decInt? y, ← decInt? m, ← decInt? d⟩,
      definition := ← decBytes? df, accession := ← decBytes? acc, version := ← decBytes? ver,
      dblink := ← decPairs? dbl, keywords := ← decBytesList? kw,
      species := ← decBytes? spc, organism := ← decBytes? org, taxon := ← decBytesList? tax,
      references := ← refs.mapM decReference?, comments := ← decBytesList? cms,
      extra := ← decPairs? ext, contigAcc := ← decBytes? ca, contigHead := ← decInt? ch,
      contigTail := ← decInt? ct, region := region }
    pure ⟨f, ← tab.mapM decQFeature?, .residues (← decBytes? res)⟩
  | _ => none

/-! ### encoding -/

def bytesLt : Bytes → Bytes → Bool
  | [], [] => false
  | [], _ :: _ => true
  | _ :: _, [] => false
  | a :: x, b :: y => a < b || (a == b && bytesLt x y)

def insertSorted (x : Bytes) : List Bytes → List Bytes
  | [] => [x]
  | y :: ys => if x = y then y :: ys else if bytesLt x y then x :: y :: ys else y :: insertSorted x ys

def sortNames (xs : List Bytes) : List Bytes := xs.foldl (fun acc x => insertSorted x acc) []

def encNames (xs : List Bytes) : String := encList (xs.map encBytes)

/-- the names registered on top of the initial lists -/
def encRegistry (r : Registry) : String :=
  let d := Registry.default
  let extra (xs ds : List Bytes) := sortNames (xs.filter fun x => !ds.contains x)
  s!"(R {encNames (extra r.quoted d.quoted)} {encNames (extra r.literal d.literal)} {encNames (extra r.toggle d.toggle)})"

def encQFeature (f : QFeature) : String :=
  s!"(F {encBytes f.key} {encLoc f.loc} {encList (f.props.map fun row => encNames row)})"

def encPairs (ps : List (Bytes × Bytes)) : String :=
  encList (ps.map fun p => s!"({encBytes p.1} {encBytes p.2})")

def encReference (r : Reference) : String :=
  let pm := match r.pubmed with | none => "N" | some v => s!"({encBytes v})"
  s!"({r.number} {encBytes r.info} {encBytes r.authors} {encBytes r.group} {encBytes r.title} {encBytes r.journal} {pm} {encBytes r.comment})"

def encRecord (r : Record) : String :=
  let f := r.fields
  let rg := match f.region with | none => "N" | some (h, t) => s!"({h} {t})"
  let res := match r.origin.bytes with | .ok b => encBytes b | .error _ => "PANIC"
  s!"(G ({encBytes f.locusName} {encBytes f.molecule} {f.topology} {encBytes f.division} {f.date.year} {f.date.month} {f.date.day}) " ++
  s!"{encBytes f.definition} {encBytes f.accession} {encBytes f.version} {encPairs f.dblink} {encNames f.keywords} " ++
  s!"({encBytes f.species} {encBytes f.organism} {encNames f.taxon}) {encList (f.references.map encReference)} " ++
  s!"{encNames f.comments} {encPairs f.extra} ({encBytes f.contigAcc} {f.contigHead} {f.contigTail}) {rg} " ++
  s!"{encList (r.table.map encQFeature)} {res})"

def encOutText : GenBank.Out Bytes → String
  | .ok b => encBytes b
  | .error .fail => "ERR"
  | .error .panic => "PANIC"

/-- run a parser on a fresh state: value and remaining input -/
def runFresh {α} (p : P α) (input : Bytes) : Except Err (α × Bytes) :=
  match p.run' ⟨input, []⟩ with
  | (.ok a, s) => .ok (a, s.rest)
  | (.error e, _) => .error e

def evalGenBank (op : String) (args : List Sexp) : Option String :=
  match op, args with
  | "gb.defaults", [] =>
      let d := Registry.default
      pure s!"(R {encNames (sortNames d.quoted)} {encNames (sortNames d.literal)} {encNames (sortNames d.toggle)})"
  | "gb.write", [reg, r] => do pure (encOutText (write (← decRegistry? reg) (← decRecord? r)))
  | "gb.writeall", reg :: rs => do
      pure (encOutText (writeAll (← decRegistry? reg) (← rs.mapM decRecord?)))
  | "gb.read", [reg, t] => do
      match readAll (← decRegistry? reg) (← decBytes? t) with
      | none => pure "PANIC"
      | some (rs, reg', ok) =>
        pure s!"{encList (rs.map encRecord)} {encRegistry reg'} {if ok then "OK" else "ERR"}"
  | "gb.state", [reg, t] => do
      -- one call of `GenBankParser` on a fresh state: verdict, the bytes not yet consumed, and
      -- whether a saved position is left
      match (genbankParser (← decRegistry? reg)).run' ⟨← decBytes? t, []⟩ with
      | (.ok _, s) => pure s!"OK {encBytes s.rest} {if s.stk.isEmpty then 0 else 1}"
      | (.error .fail, s) => pure s!"ERR {encBytes s.rest} {if s.stk.isEmpty then 0 else 1}"
      | (.error .panic, _) => pure "PANIC"
  | "gb.wrw", [reg, t] => do
      match readAll (← decRegistry? reg) (← decBytes? t) with
      | none => pure "PANIC"
      | some (_, _, false) => pure "ERR"
      | some (rs, reg', true) =>
        match writeAll reg' rs with
        | .ok b => pure s!"{encBytes b} {encRegistry reg'}"
        | .error _ => pure "PANIC"
  | "gb.rt", [reg, r] => do
      let reg ← decRegistry? reg
      match write reg (← decRecord? r) with
      | .error _ => pure "PANIC"
      | .ok t =>
        match readAll reg t with
        | none => pure "PANIC"
        | some (_, _, false) => pure "ERR"
        | some (rs, _, true) => pure (encList (rs.map encRecord))
  | "gb.qualifier", [reg, pre, t] => do
      match runFresh (qualifier (← decBytes? pre) (← decRegistry? reg)) (← decBytes? t) with
      | .ok (((n, v), reg'), rest) => pure s!"({encBytes n} {encBytes v}) {encRegistry reg'} {encBytes rest}"
      | .error .fail => pure "ERR"
      | .error .panic => pure "PANIC"
  | "gb.table", [reg, t] => do
      match runFresh (table (← decRegistry? reg)) (← decBytes? t) with
      | .ok ((fs, reg'), rest) => pure s!"{encList (fs.map encQFeature)} {encRegistry reg'} {encBytes rest}"
      | .error .fail => pure "ERR"
      | .error .panic => pure "PANIC"
  | "gb.tabletext", reg :: fs => do
      pure (encOutText (tableText (← decRegistry? reg) (← fs.mapM decQFeature?)))
  | "gb.date", [y, m, d] => do pure (encBytes (Date.text ⟨← decInt? y, ← decInt? m, ← decInt? d⟩))
  | "gb.asdate", [t] => do
      match asDate (← decBytes? t) with
      | some d => pure s!"{d.year} {d.month} {d.day}"
      | none => pure "ERR"
  | "gb.locus", [t] => do
      match runFresh locusParser (← decBytes? t) with
      | .ok (l, rest) =>
        pure s!"{l.depth} {encBytes l.name} {l.length} {encBytes l.molecule} {encBytes l.topology} {encBytes l.division} {l.date.year} {l.date.month} {l.date.day} {encBytes rest}"
      | .error .fail => pure "ERR"
      | .error .panic => pure "PANIC"
  | _, _ => none

end Gts
