/-
  Executable, bug-for-bug model of `Repair` (/repo/feature.go:20-71).  Core Lean only.

  What is modelled, statement by statement:

  * `key := fmt.Sprintf("%q:%q", f.Key, f.Props)` — `classKey`.  `%q` renders a string with
    `strconv.Quote` and a `[][]string` as `[["a" "b"] ["c"]]`.  `quoteChars` models `Quote`
    **for printable ASCII** (every byte `0x20..0x7e`; `"` and `\` are escaped with a backslash)
    and leaves every other character as it is, which is also what Go does for printable
    non-ASCII runes; control characters, `0x7f`, non-printable runes and invalid UTF-8 (Go:
    `\t`, `\x7f`, `\u…` escapes) are outside the modelled domain and never generated.
    The rendering is injective (`Gts.C12.classKey_inj`).
  * `index[key] = append(index[key], i)` — `memberIdx t k`: the indices of the class in
    increasing order.
  * `for _, indices := range index` — Go iterates the map in an unspecified order.  The model
    function `repairOrd` takes the order as an argument (`repair` uses first occurrence);
    `Gts.C12.repair_order_indep` proves that the result is the same for every order.
  * `sort.Sort(Locations(locs))` — for at most 12 elements Go's pdqsort *is* the insertion sort
    of `sort/zsortinterface.go` (`insertionSort`, `maxInsertion = 12`): `sortLocs` is that
    loop.  Classes with more than 12 members are outside the modelled domain.
  * `list.Push(loc, force)` for every sorted location, `force := ff[indices[0]].Key == "source"`
    — `Loc.pushAll` (model of `LocationList.Push`, Gts/Model/Loc.lean).
  * `locs = list.Slice()` — the pushed list, **or `[nil]` for an empty list** (`sliceLen`,
    and the `nil` flag when that `nil` is written into a feature).
  * `if len(locs) < len(indices) { gg[indices[i]].Loc = loc …; indices = indices[:len(locs)] }`
    and `keep = append(keep, indices...)` (fix df20fbf: a class whose pushed list is not
    shorter than the class is kept as it is; before, `indices[:len(locs)]` panicked or
    re-sliced into spare capacity).
  * `sort.Sort(sort.IntSlice(keep))`, then the in-place compaction `gg[i] = gg[j]` (modelled
    with its index checks; `Gts.C12.no_panic` proves they never fail) and `gg = gg[:len(keep)]`.
-/
import Gts.Model.Seq
namespace Gts

/-- result of `Repair`: a table, a Go panic, or a table one of whose features got the `nil`
Location of an empty `LocationList` (only when every member of a class of two or more is an
empty `Joined{}`; the model does not represent `nil` locations, the protocol answer is
`NILLOC`). -/
inductive RepairOutcome where
  | ok (t : Table)
  | panic
  | nilLoc
  deriving Repr, Inhabited

/-- `strconv.Quote` without the surrounding quotes, on characters (printable ASCII exactly) -/
def escChars : List Char → List Char
  | [] => []
  | c :: cs => (if c = '"' ∨ c = '\\' then ['\\', c] else [c]) ++ escChars cs

/-- `%q` on a string -/
def quoteChars (s : List Char) : List Char := '"' :: escChars s ++ ['"']

/-- the elements of a slice under a `fmt` verb: separated by one space -/
def sepChars {α} (enc : α → List Char) : List α → List Char
  | [] => []
  | [x] => enc x
  | x :: y :: r => enc x ++ ' ' :: sepChars enc (y :: r)

/-- a slice under a `fmt` verb: `[e1 e2 …]` -/
def bracketChars {α} (enc : α → List Char) (l : List α) : List Char := '[' :: sepChars enc l ++ [']']

/-- `%q` on a `[]string` -/
def fmtRowChars (r : List String) : List Char := bracketChars (fun v : String => quoteChars v.toList) r

/-- `fmt.Sprintf("%q:%q", f.Key, f.Props)` as characters -/
def classKeyChars (f : Feature) : List Char :=
  quoteChars f.key.toList ++ ':' :: bracketChars fmtRowChars f.props

/-- `fmt.Sprintf("%q:%q", f.Key, f.Props)` -/
def classKey (f : Feature) : String := String.ofList (classKeyChars f)

/-- the distinct strings of a list, in first-occurrence order -/
def dedup : List String → List String
  | [] => []
  | a :: as => a :: (dedup as).filter (· != a)

namespace Table

/-- the keys of the map `index` (first-occurrence order) -/
def classKeys (t : Table) : List String := dedup (t.map classKey)

/-- `index[k]`: the indices of the features whose text key is `k`, increasing -/
def memberIdx (t : Table) (k : String) : List Nat :=
  (List.range t.length).filter fun i =>
    match t[i]? with
    | some f => classKey f == k
    | none => false

/-- the values of the map `index` -/
def groups (t : Table) : List (List Nat) := (classKeys t).map (memberIdx t)

end Table

/-- inner loop of Go's `insertionSort`: the new element moves left while it is `Less` than its
predecessor.  `rpre` is the already sorted prefix, *reversed* (head = last element). -/
def insR (x : Loc) : List Loc → List Loc
  | [] => [x]
  | y :: r => if Loc.less x y then y :: insR x r else x :: y :: r

/-- `sort.Sort(Locations(locs))` for `len(locs) ≤ 12` (Go's insertion sort, exactly) -/
def sortLocs (l : List Loc) : List Loc := (l.foldl (fun rpre x => insR x rpre) []).reverse

/-- the `Push` loop: the list after sorting and pushing every location -/
def pushedOf (force : Bool) (locs : List Loc) : List Loc :=
  (Loc.pushAll [] (sortLocs locs) force).reverse

/-- `len(list.Slice())`: an empty list yields `[nil]` -/
def sliceLen (p : List Loc) : Nat := if p.isEmpty then 1 else p.length

/-- `gg[i].Loc = loc` for every pair -/
def writeLocs (gg : Table) : List (Nat × Loc) → Table
  | [] => gg
  | (i, l) :: ws => writeLocs (gg.modify i fun f => { f with loc := l }) ws

/-- insertion sort on indices (`sort.Sort(sort.IntSlice(keep))`: only the values matter) -/
def insNat (x : Nat) : List Nat → List Nat
  | [] => [x]
  | y :: r => if x ≤ y then x :: y :: r else y :: insNat x r

def sortNat (l : List Nat) : List Nat := l.foldr insNat []

/-- the state of the loop over the classes -/
structure RepairSt where
  gg : Table
  keep : List Nat
  /-- a `nil` Location has been written -/
  nil : Bool

/-- `locs[j] = gg[i].Loc` -/
def classLocs (gg : Table) (idx : List Nat) : List Loc := idx.filterMap fun i => gg[i]?.map (·.loc)

/-- `force := ff[indices[0]].Key == "source"` -/
def classForce (ff : Table) (idx : List Nat) : Bool :=
  match idx with
  | i :: _ =>
    match ff[i]? with
    | some f => f.key == "source"
    | none => false
  | [] => false

/-- one iteration of `for _, indices := range index` -/
def classStep (ff : Table) (st : RepairSt) (idx : List Nat) : RepairSt :=
  let p := pushedOf (classForce ff idx) (classLocs st.gg idx)
  let n := sliceLen p
  if n < idx.length then
    { gg := writeLocs st.gg (idx.zip p)
      keep := st.keep ++ idx.take n
      nil := st.nil || p.isEmpty }
  else
    { st with keep := st.keep ++ idx }

/-- the compaction loop `for _, j := range keep { gg[i] = gg[j]; i++ }` on the shared array;
`none` = index out of range -/
def compactLoop : Table → Nat → List Nat → Option Table
  | gg, _, [] => some gg
  | gg, i, j :: js =>
    match gg[j]? with
    | none => none
    | some f => if i < gg.length then compactLoop (gg.set i f) (i + 1) js else none

/-- compaction and `gg = gg[:len(keep)]` -/
def compact (gg : Table) (keep : List Nat) : Option Table :=
  (compactLoop gg 0 keep).map (·.take keep.length)

/-- `Repair(ff)` when the map `index` is iterated in the order `cs` -/
def repairOrd (ff : Table) (cs : List (List Nat)) : RepairOutcome :=
  let st := cs.foldl (classStep ff) ⟨ff, [], false⟩
  match compact st.gg (sortNat st.keep) with
  | none => .panic
  | some gg => if st.nil then .nilLoc else .ok gg

/-- `Repair(ff)` (feature.go:22-71) -/
def repair (ff : Table) : RepairOutcome := repairOrd ff (Table.groups ff)

end Gts
