/-
  Executable, bug-for-bug model of `Repair` (/repo/feature.go:20-71).  Core Lean only.

  What is modelled, statement by statement:

  * `key := fmt.Sprintf("%s:%v", f.Key, f.Props)` — `classKey`.  `%v` of a `[][]string` prints
    `[[a b] [c d]]` (no quoting), so two different qualifier lists can give the same text
    (`["a b"]` and `["a", "b"]`); the model keeps exactly that text.
  * `index[key] = append(index[key], i)` — `memberIdx t k`: the indices of the class in
    increasing order.  The *capacity* of that slice matters later (see `goCap`).
  * `for _, indices := range index` — Go iterates the map in an unspecified order.  The model
    function `repairOrd` takes the order as an argument (`repair` uses first occurrence);
    `Gts.C12.repair_order_indep` proves that the result is the same for every order.
  * `sort.Sort(Locations(locs))` — for at most 12 elements Go's pdqsort *is* the insertion sort
    of `sort/zsortinterface.go` (`insertionSort`, `maxInsertion = 12`): `sortLocs` is that
    loop.  Classes with more than 12 members are outside the modelled domain.
  * `list.Push(loc, force)` for every sorted location, `force := ff[indices[0]].Key == "source"`
    — `Loc.pushAll` (model of `LocationList.Push`, Gts/Model/Loc.lean).
  * `locs = list.Slice()` — the pushed list, **or `[nil]` for an empty list** (`sliceLen`,
    and the `nil` flag when that `nil` is written into a feature).
  * `if len(locs) < len(indices) { gg[indices[i]].Loc = loc }`.
  * `keep = append(keep, indices[:len(locs)]...)` — a *checked* slice expression: it panics when
    `len(locs) > cap(indices)` and silently re-slices into the spare capacity when
    `len(indices) < len(locs) ≤ cap(indices)`.  The spare capacity of a slice grown by `append`
    is zeroed by the runtime (`growslice` clears the tail beyond the new length), so the extra
    indices are `0`.
  * `sort.Sort(sort.IntSlice(keep))`, then the in-place compaction `gg[i] = gg[j]` (which reads
    *already overwritten* entries when `keep` contains duplicates; it panics when `keep` is
    longer than the table) and `gg = gg[:len(keep)]`.
-/
import Gts.Model.Seq
namespace Gts

/-- result of `Repair`: a table, a Go panic, or a table one of whose features got the `nil`
Location of an empty `LocationList` (only when every member of a class of two or more is an
empty `Joined{}`; the model does not represent `nil` locations, the protocol answer is
`NILLOC`). -/
inductive RepairOutcome where
  | ok (t : Table)
  | panic
  | nilLoc
  deriving Repr, Inhabited

/-- `fmt` verb `%v` on a `[]string` -/
def fmtRow (r : List String) : String := "[" ++ " ".intercalate r ++ "]"

/-- `fmt` verb `%v` on `Props` (`[][]string`) -/
def fmtProps (ps : List (List String)) : String := "[" ++ " ".intercalate (ps.map fmtRow) ++ "]"

/-- `fmt.Sprintf("%s:%v", f.Key, f.Props)` -/
def classKey (f : Feature) : String := f.key ++ ":" ++ fmtProps f.props

/-- the distinct strings of a list, in first-occurrence order -/
def dedup : List String → List String
  | [] => []
  | a :: as => a :: (dedup as).filter (· != a)

namespace Table

/-- the keys of the map `index` (first-occurrence order) -/
def classKeys (t : Table) : List String := dedup (t.map classKey)

/-- `index[k]`: the indices of the features whose text key is `k`, increasing -/
def memberIdx (t : Table) (k : String) : List Nat :=
  (List.range t.length).filter fun i =>
    match t[i]? with
    | some f => classKey f == k
    | none => false

/-- the values of the map `index` -/
def groups (t : Table) : List (List Nat) := (classKeys t).map (memberIdx t)

end Table

/-- `cap(s)` of a slice built by `n` single-element `append`s starting from `nil`, for 8-byte
elements: Go's `growslice` doubles below 256 elements (1, 2, 4, 8, …) and the malloc size
classes contain every power of two up to 2048 bytes, so the rule is exact for `n ≤ 512`
(checked against go1.23). -/
def goCap : Nat → Nat
  | 0 => 0
  | n + 1 =>
    let c := goCap n
    if n < c then c else if c = 0 then 1 else 2 * c

/-- inner loop of Go's `insertionSort`: the new element moves left while it is `Less` than its
predecessor.  `rpre` is the already sorted prefix, *reversed* (head = last element). -/
def insR (x : Loc) : List Loc → List Loc
  | [] => [x]
  | y :: r => if Loc.less x y then y :: insR x r else x :: y :: r

/-- `sort.Sort(Locations(locs))` for `len(locs) ≤ 12` (Go's insertion sort, exactly) -/
def sortLocs (l : List Loc) : List Loc := (l.foldl (fun rpre x => insR x rpre) []).reverse

/-- the `Push` loop: the list after sorting and pushing every location -/
def pushedOf (force : Bool) (locs : List Loc) : List Loc :=
  (Loc.pushAll [] (sortLocs locs) force).reverse

/-- `len(list.Slice())`: an empty list yields `[nil]` -/
def sliceLen (p : List Loc) : Nat := if p.isEmpty then 1 else p.length

/-- `gg[i].Loc = loc` for every pair -/
def writeLocs (gg : Table) : List (Nat × Loc) → Table
  | [] => gg
  | (i, l) :: ws => writeLocs (gg.modify i fun f => { f with loc := l }) ws

/-- insertion sort on indices (`sort.Sort(sort.IntSlice(keep))`: only the values matter) -/
def insNat (x : Nat) : List Nat → List Nat
  | [] => [x]
  | y :: r => if x ≤ y then x :: y :: r else y :: insNat x r

def sortNat (l : List Nat) : List Nat := l.foldr insNat []

/-- the state of the loop over the classes -/
structure RepairSt where
  gg : Table
  keep : List Nat
  /-- a `nil` Location has been written -/
  nil : Bool

/-- `locs[j] = gg[i].Loc` -/
def classLocs (gg : Table) (idx : List Nat) : List Loc := idx.filterMap fun i => gg[i]?.map (·.loc)

/-- `force := ff[indices[0]].Key == "source"` -/
def classForce (ff : Table) (idx : List Nat) : Bool :=
  match idx with
  | i :: _ =>
    match ff[i]? with
    | some f => f.key == "source"
    | none => false
  | [] => false

/-- `keep = append(keep, indices[:n]...)`: `none` = the slice expression panics -/
def sliceIndices (idx : List Nat) (n : Nat) : Option (List Nat) :=
  if goCap idx.length < n then none
  else if n ≤ idx.length then some (idx.take n)
  else some (idx ++ List.replicate (n - idx.length) 0)

/-- one iteration of `for _, indices := range index`; `none` = panic -/
def classStep (ff : Table) (st : RepairSt) (idx : List Nat) : Option RepairSt :=
  let p := pushedOf (classForce ff idx) (classLocs st.gg idx)
  let n := sliceLen p
  match sliceIndices idx n with
  | none => none
  | some kept =>
    some { gg := if n < idx.length then writeLocs st.gg (idx.zip p) else st.gg
           keep := st.keep ++ kept
           nil := st.nil || (decide (n < idx.length) && p.isEmpty) }

/-- the compaction loop `for _, j := range keep { gg[i] = gg[j]; i++ }` on the shared array;
`none` = index out of range -/
def compactLoop : Table → Nat → List Nat → Option Table
  | gg, _, [] => some gg
  | gg, i, j :: js =>
    match gg[j]? with
    | none => none
    | some f => if i < gg.length then compactLoop (gg.set i f) (i + 1) js else none

/-- compaction and `gg = gg[:len(keep)]` -/
def compact (gg : Table) (keep : List Nat) : Option Table :=
  (compactLoop gg 0 keep).map (·.take keep.length)

/-- `Repair(ff)` when the map `index` is iterated in the order `cs` -/
def repairOrd (ff : Table) (cs : List (List Nat)) : RepairOutcome :=
  match cs.foldlM (classStep ff) ⟨ff, [], false⟩ with
  | none => .panic
  | some st =>
    match compact st.gg (sortNat st.keep) with
    | none => .panic
    | some gg => if st.nil then .nilLoc else .ok gg

/-- `Repair(ff)` (feature.go:22-71) -/
def repair (ff : Table) : RepairOutcome := repairOrd ff (Table.groups ff)

end Gts
