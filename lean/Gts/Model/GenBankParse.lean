/-
  The GenBank READER on the `Gts.Pars` state model:
    seqio/genbank.go            genbankLocusParser, tryAllParsers, GenBankParser (338-443)
    seqio/genbank_subparsers.go every field sub-parser
    seqio/date.go AsDate, seqio/strings.go FlatFileSplit, seqio/dictionary.go Dictionary.Set,
    molecule.go AsMolecule, topology.go AsTopology, seqio/scanner.go (the scan loop)
  Statement by statement: which parser pushes, pops, drops or clears, and what a failing parser
  leaves behind, decides whether `tryAllParsers` retries (soft failure) or gives up (hard
  failure, `!state.Pushed()`), so none of that is abstracted away.  Side effects on the record
  that happen BEFORE a failure (DBLINK pairs, SOURCE species) persist, as in Go.
  The ORIGIN field uses the validators of `Gts.Origin`; its frame (`Clear`, the slow path with
  the length checks of 2c8ca02, "no further sequence line") is written out here.
  `genbankFieldBodyParser` joins the lines IN PLACE inside the state's buffer
  (`bytes.NewBuffer(result.Token)`); the only retry over such a rewritten region is a multi-line
  DEFINITION without the final period (`patchFrames`; exact for `pars.FromBytes` states, where
  the buffer is never re-allocated).
  Core Lean only.
-/
import Gts.Model.InsdcParse
namespace Gts.GenBank
open Gts.Pars

/-! ### small pieces -/

/-- `strings.Split(s, sep)` for a non-empty separator -/
def splitOn (sep : Bytes) : Nat → Bytes → Bytes → List Bytes
  | 0, cur, _ => [cur.reverse]
  | _ + 1, cur, [] => [cur.reverse]
  | f + 1, cur, c :: s =>
    if sep.isPrefixOf (c :: s) then cur.reverse :: splitOn sep f [] ((c :: s).drop sep.length)
    else splitOn sep f (c :: cur) s

def split (sep s : Bytes) : List Bytes := splitOn sep (s.length + 1) [] s

/-- `strings.TrimSuffix(s, ".")` -/
def trimDot (s : Bytes) : Bytes := if s.getLast? = some 46 then s.dropLast else s

/-- `FlatFileSplit` (`nil` for the empty list) -/
def flatFileSplit (s : Bytes) : List Bytes :=
  let s := trimDot s
  if s.isEmpty then [] else split (bs "; ") s

/-- `monthMap` -/
def monthOf (s : Bytes) : Option Int :=
  let names : List (List String) := [
    ["JAN", "Jan", "01"], ["FEB", "Feb", "02"], ["MAR", "Mar", "03"], ["APR", "Apr", "04"],
    ["MAY", "May", "05"], ["JUN", "Jun", "06"], ["JUL", "Jul", "07"], ["AUG", "Aug", "08"],
    ["SEP", "Sep", "09"], ["OCT", "Oct", "10"], ["NOV", "Nov", "11"], ["DEC", "Dec", "12"]]
  match names.findIdx? fun ns => ns.any fun n => bs n = s with
  | some i => some ((i : Int) + 1)
  | none => none

/-- `AsDate` followed by `checkDate` -/
def asDate (s : Bytes) : Option Date :=
  match split [45] s with
  | [d, m, y] =>
    match atoi d, monthOf m, atoi y with
    | some day, some month, some year =>
      if day < 1 ∨ day > daysIn year month then none else some ⟨year, month, day⟩
    | _, _, _ => none
  | _ => none

/-- `AsMolecule` -/
def isMolecule (s : Bytes) : Bool :=
  s = bs "DNA" || s = bs "RNA" || s = bs "AA" || s = bs "ss-DNA" || s = bs "ds-DNA"

def lowerByte (c : UInt8) : UInt8 := if isUpper c then c + 32 else c

/-- `AsTopology` (`strings.ToLower` on ASCII) -/
def asTopology (s : Bytes) : Option Int :=
  let l := s.map lowerByte
  if l = bs "linear" then some 0 else if l = bs "circular" then some 1 else none

/-- `Dictionary.Set` -/
def dictSet : List (Bytes × Bytes) → Bytes → Bytes → List (Bytes × Bytes)
  | [], k, v => [(k, v)]
  | (k', v') :: rest, k, v => if k' = k then (k', v) :: rest else (k', v') :: dictSet rest k v

/-! ### LOCUS line -/

def notSpace (c : UInt8) : Bool := !isSpace c

structure Locus where
  depth : Nat
  name : Bytes
  length : Int
  molecule : Bytes
  topology : Bytes
  division : Bytes
  date : Date

/-- a failing element of the LOCUS `Seq`: `Seq` pops, `.Children` (a `Map`) pops — whatever
frames the failing element leaked are popped in their place -/
def locusBack {α} : P α := do pop; pop; fail

/-- one element of the `Seq` -/
def locusTry {α} (p : P α) : P α := do
  match ← attempt p with
  | some a => pure a
  | none => locusBack

/-- `pars.Any(" bp", " aa")` -/
def bpOrAa : P Unit := do
  match ← attempt (lit (bs " bp")) with
  | some _ => pure ()
  | none => lit (bs " aa")

/-- `pars.Maybe(pars.Count(pars.Filter(ascii.IsUpper), 3).Map(pars.Cat))`: three upper-case
bytes, or nothing -/
def divisionParser : P Bytes := do
  let s ← getS
  match s.rest with
  | a :: b :: c :: _ =>
    if isUpper a && isUpper b && isUpper c then do advanceN 3; pure [a, b, c] else pure []
  | _ => pure []

/-- `genbankLocusParser`: the `Seq` of fourteen parsers under `.Children`: two frames, both
popped on a failure -/
def locusParser : P Locus := do
  push; push
  locusTry (lit (bs "LOCUS"))
  let sp1 ← spaces
  let name ← locusTry (word notSpace)
  let _ ← spaces
  let length ← locusTry int
  locusTry bpOrAa
  let _ ← spaces
  let mol ← locusTry (word notSpace)
  let _ ← spaces
  let top ← locusTry (word notSpace)
  let _ ← spaces
  let division ← divisionParser
  let _ ← spaces
  let dl ← line
  match asDate dl with
  | none => locusBack
  | some date =>
    drop; drop
    pure ⟨sp1.length + 5, name, length, mol, top, division, date⟩

/-! ### field names and bodies -/

/-- `genbankFieldNameParser(name, depth)` behind the name: the padding
`Any(String(blanks), Dry(EOL))`, `Clear` + failure when it does not match or the name is wider
than the indent.  Returns the length of the token left in `pars.Void` (0 after the blanks, the
line end's length after `Dry(EOL)`). -/
def fieldPadding (nameLen depth : Nat) : P Nat := do
  if nameLen > depth then do clear; fail
  let s ← getS
  let pad := sp (depth - nameLen)
  if pad.isPrefixOf s.rest then do advanceN pad.length; pure 0
  else
    match s.rest with
    | [] => pure 0
    | 10 :: _ => pure 1
    | 13 :: 10 :: _ => pure 2
    | 13 :: _ => pure 1
    | _ => do clear; fail

/-- `genbankFieldNameParser("NAME", depth)` -/
def fieldName (name : Bytes) (depth : Nat) : P Nat := do
  lit name
  fieldPadding name.length depth

/-- `genbankFieldLineParser(depth)` -/
def fieldLine (depth : Nat) : P Bytes := do
  lit (sp depth)
  line

/-- continuation lines of `genbankFieldBodyParser` -/
def bodyMore (depth : Nat) (sep : UInt8) : Nat → Bytes → Nat → P (Bytes × Nat)
  | 0, acc, k => pure (acc, k)
  | f + 1, acc, k => do
    match ← attempt (fieldLine depth) with
    | some l => bodyMore depth sep f (acc ++ sep :: l) (k + 1)
    | none => pure (acc, k)

/-- `genbankFieldBodyParser(depth, sep)`: (joined body, number of continuation lines) -/
def fieldBody (depth : Nat) (sep : UInt8) : P (Bytes × Nat) := do
  let l ← line
  let n := (← getS).rest.length
  bodyMore depth sep (n + 1) l 0

/-- `genbankGenericFieldParser(name, depth)`: (body, continuation lines, `pars.Void` token length) -/
def genericField (name : Bytes) (depth : Nat) : P (Bytes × Nat × Nat) := do
  let v ← fieldName name depth
  let (b, k) ← fieldBody depth 10
  pure (b, k, if k > 0 then 0 else v)

/-- `p.Map(f)` around a parser that restores nothing itself -/
def mapped {α} (p : P α) : P α := do
  push
  match ← attempt p with
  | some a => do drop; pure a
  | none => do pop; fail

/-- `genbankSubfieldNameParser(name, depth)`; `stale` is the length of the token that the result
object still holds from an earlier parser (it is read when the blank-word parser fails),
`void` says that the result object is `pars.Void` itself (ORGANISM), which the name parser
resets. -/
def subfieldName (name : Bytes) (depth stale : Nat) (void : Bool) : P Unit := do
  let a ← attempt (word (· == 32))
  let prefixLen := match a with | some t => t.length | none => stale
  if prefixLen = 0 then fail
  lit name
  let tok := if void then 0 else prefixLen
  let b ← attempt (word (· == 32))
  let suffixLen := match b with | some t => t.length | none => tok
  if prefixLen + name.length + suffixLen ≠ depth then fail

/-! ### the field parsers.  Each takes the record read so far and answers `(record, ok)`;
`ok = false` is a failure AFTER the record was changed; a plain failure changed nothing. -/

abbrev Sub := Fields × List QFeature × OriginV × Registry

/-- `genbankFieldBodyParser` joins the lines with `bytes.NewBuffer(result.Token)`, i.e. IN PLACE
inside the state's buffer: behind the first line's start `rb` the buffer then reads
`joined ++ rb.drop joined.length`.  Only saved positions in front of the body can see it. -/
def patchFrames (rb joined : Bytes) : P Unit := do
  let s ← getS
  let fix (fr : Bytes) : Bytes :=
    if fr.length ≥ rb.length then fr.take (fr.length - rb.length) ++ joined ++ rb.drop joined.length
    else fr
  setS { s with stk := s.stk.map fix }

def definitionField (depth : Nat) (f : Fields) : P (Fields × Bool) := do
  push
  let body : P (Bytes × Nat × Bytes) := do
    let _ ← fieldName (bs "DEFINITION") depth
    let rb := (← getS).rest
    let (b, k) ← fieldBody depth 10
    pure (b, k, rb)
  match ← attempt body with
  | none => do pop; fail
  | some (p, k, rb) =>
    drop
    if !p.isEmpty && p.getLast? ≠ some 46 then do
      -- "expected period": a soft failure AFTER the body was joined in place; the retry (as an
      -- unknown field) reads the rewritten bytes
      if k > 0 then patchFrames rb p
      fail
    pure ({ f with definition := trimDot p }, true)

def accessionField (depth : Nat) (f : Fields) : P (Fields × Bool) := do
  let r ← mapped (genericField (bs "ACCESSION") depth)
  pure ({ f with accession := r.1 }, true)

def versionField (depth : Nat) (f : Fields) : P (Fields × Bool) := do
  let r ← mapped (genericField (bs "VERSION") depth)
  pure ({ f with version := r.1 }, true)

/-- `genbankDBLinkPairParser`: `none` = error -/
def dblinkPair (l : Bytes) : Option (Bytes × Bytes) :=
  match indexOf 58 l with
  | none => none
  | some i =>
    if l.length ≤ i + 2 ∨ l.getD (i + 1) 0 ≠ 32 then none
    else some (l.take i, l.drop (i + 2))

def dblinkMore (depth : Nat) : Nat → Fields → P (Fields × Bool)
  | 0, f => pure (f, true)
  | k + 1, f => do
    match ← attempt (lit (sp depth)) with
    | none => pure (f, true)
    | some _ =>
      let l ← line
      match dblinkPair l with
      | none => pure (f, false)
      | some (db, id) => dblinkMore depth k { f with dblink := dictSet f.dblink db id }

def dblinkField (depth : Nat) (f : Fields) : P (Fields × Bool) := do
  let _ ← fieldName (bs "DBLINK") depth
  let l ← line
  match dblinkPair l with
  | none => fail
  | some (db, id) =>
    let n := (← getS).rest.length
    dblinkMore depth (n + 1) { f with dblink := dictSet f.dblink db id }

def keywordsField (depth : Nat) (f : Fields) : P (Fields × Bool) := do
  let _ ← fieldName (bs "KEYWORDS") depth
  let (b, _) ← fieldBody depth 32
  pure ({ f with keywords := flatFileSplit b }, true)

/-- the taxonomy lines: joined with one blank, no blank in front of the first non-empty one -/
def taxonMore (depth : Nat) : Nat → Bytes → P Bytes
  | 0, acc => pure acc
  | k + 1, acc => do
    match ← attempt (fieldLine depth) with
    | some l => taxonMore depth k (if acc.isEmpty then l else acc ++ 32 :: l)
    | none => pure acc

def sourceField (depth : Nat) (f : Fields) : P (Fields × Bool) := do
  let r ← mapped (genericField (bs "SOURCE") depth)
  let f := { f with species := r.1 }
  match ← attempt (subfieldName (bs "ORGANISM") depth r.2.2 true) with
  -- 66de3a0: `state.Clear()` (was `state.Pop()`): `tryAllParsers` then finds nothing pushed and
  -- gives the record up on the spot, whatever an earlier parser had left on the stack
  | none => do clear; pure (f, false)
  | some _ =>
    let name ← line
    let n := (← getS).rest.length
    let tax ← taxonMore depth (n + 1) []
    pure ({ f with organism := name, taxon := flatFileSplit tax }, true)

/-- one `genbankGenericSubfieldParser(name, depth).Map(…)` -/
def refSub (name : String) (depth stale : Nat) : P Bytes :=
  mapped (do
    subfieldName (bs name) depth stale false
    let (b, _) ← fieldBody depth 10
    pure b)

/-- the six alternatives of `genbankReferenceSubfieldParser` in the order of its `pars.Any` -/
def refAltList : List (String × (Reference → Bytes → Reference)) := [
  ("AUTHORS", fun r b => { r with authors := b }),
  ("CONSRTM", fun r b => { r with group := b }),
  ("TITLE", fun r b => { r with title := b }),
  ("JOURNAL", fun r b => { r with journal := b }),
  ("PUBMED", fun r b => { r with pubmed := some b }),
  ("REMARK", fun r b => { r with comment := b })]

/-- the loop of `pars.Any` (its frame is on the stack): every alternative restores the position
itself (`Map`); all failed → `Pop`, failure -/
def refAlts (depth stale : Nat) (r : Reference) :
    List (String × (Reference → Bytes → Reference)) → P (Reference × Nat)
  | [] => do pop; fail
  | (n, set) :: rest => do
    match ← attempt (refSub n depth stale) with
    | some b => do drop; pure (set r b, b.length)
    | none => do
      if !(← pushed) then fail
      refAlts depth stale r rest

/-- `genbankReferenceSubfieldParser`: one sub-field; also the length of its body (the token the
result object holds afterwards) -/
def refSubfield (depth stale : Nat) (r : Reference) : P (Reference × Nat) := do
  push
  refAlts depth stale r refAltList

def refSubfields (depth : Nat) : Nat → Nat → Reference → P Reference
  | 0, _, r => pure r
  | k + 1, stale, r => do
    match ← attempt (refSubfield depth stale r) with
    | some (r', stale') => refSubfields depth k stale' r'
    | none => pure r

def referenceField (depth : Nat) (f : Fields) : P (Fields × Bool) := do
  let _ ← fieldName (bs "REFERENCE") depth
  let number ← int
  let w := (itoaB number).length
  -- `strings.Repeat(" ", max(0, 3-len(strconv.Itoa(number))))` (761240c)
  let _ ← attempt (lit (sp (3 - w)))
  let info ← line
  let n := (← getS).rest.length
  let r ← refSubfields depth (n + 1) info.length
    { number := number, info := info, authors := [], group := [], title := [], journal := [],
      pubmed := none, comment := [] }
  pure ({ f with references := f.references ++ [r] }, true)

def commentField (depth : Nat) (f : Fields) : P (Fields × Bool) := do
  let r ← mapped (genericField (bs "COMMENT") depth)
  pure ({ f with comments := f.comments ++ [r.1] }, true)

def featuresField (reg : Registry) : P (List QFeature × Registry) := do
  lit (bs "FEATURES")
  let _ ← line
  clear
  table reg

/-- `pars.Until(byte(':'))` (go-pars `untilByte`): to the first colon, wherever it is, or to the END
OF THE INPUT.  `genbankContigParser` used it until a4b3f5d (finding K7D, now F38); kept as the reading
of the primitive (`Gts.C07.steps_until_colon_partial`). -/
def untilColon : P Bytes := do
  let s ← getS
  match indexOf 58 s.rest with
  | none => fail
  | some i => do advanceN i; pure (s.rest.take i)

/-- the filter `genbankContigParser` hands to `pars.Until`: `b == ':' || b == '\n' || b == '\r'`
(a4b3f5d: the accession ends at the colon or at the end of the line) -/
def contigStop (b : UInt8) : Bool := b == 58 || b == 10 || b == 13

def contigField (depth : Nat) (f : Fields) : P (Fields × Bool) := do
  let _ ← fieldName (bs "CONTIG") depth
  lit (bs "join(")
  let acc ← untilFilter contigStop
  -- `pars.Byte(':')` (a4b3f5d; it was `pars.Skip(state, 1)`)
  lit [58]
  let head ← int
  lit (bs "..")
  let tail ← int
  lit [41]
  pure ({ f with contigAcc := acc, contigHead := head - 1, contigTail := tail }, true)

/-! ### ORIGIN (makeGenbankOriginParser, genbank_subparsers.go:460-498) -/

/-- one pass of `slowGenBankOriginParser`: a line is accepted when the walk stays inside it and
only blanks follow the declared residues -/
def slowLines (length : Int) (cap : Nat) : Nat → Nat → Bytes → Bytes → Origin.Out (Bytes × Bytes)
  | 0, _, st, acc => .ok (acc, st)
  | f + 1, i, st, acc =>
    if (i : Int) < length then
      let (q, st') := Origin.splitLine st
      match Origin.walkLine .fail length i q with
      | .error _ => .error .fail
      | .ok r =>
        if !r.all (· == 32) then .error .fail else
        let extent := q.length - r.length
        let acc := (acc ++ q.take extent).take cap
        if acc.length < cap then slowLines length cap f (i + 60) st' (acc ++ [10])
        else .error .panic
    else .ok (acc, st)

def originField (length : Int) (depth : Nat) : P Bytes := do
  let _ ← fieldName (bs "ORIGIN") depth
  let _ ← line
  clear
  -- the nine column index of the layout numbers at most 1000000020 residues (repair after the
  -- finding `validateOrigin_wide_index_panics`)
  if length > 1000000020 then fail
  let n := Origin.toOriginLength length
  -- `state.Request(n)` with n < 0 "succeeds" and `state.Buffer()` slices with end < start
  if n < 0 then panic
  let s ← getS
  if s.rest.length < n.toNat then fail
  let p := s.rest.take n.toNat
  let buf ←
    match Origin.validateOrigin p length with
    | .ok () => do advanceN n.toNat; pure p
    | .error .panic => panic
    | .error .fail =>
      match slowLines length n.toNat length.toNat 0 s.rest [] with
      | .error .panic => panic
      | .error .fail => fail
      | .ok (acc, st') => do
        setS { s with rest := st' }
        pure (acc ++ List.replicate (n.toNat - acc.length) 0)
  match ← attempt next with
  | some 32 => fail
  | _ => pure buf

/-- `genbankExtraFieldParser`: every failure is `errGenBankExtra` -/
def extraField (depth : Nat) (f : Fields) : P (Fields × Bool) := do
  let name ← word isUpper
  let _ ← fieldPadding name.length depth
  let (b, _) ← fieldBody depth 10
  pure ({ f with extra := f.extra ++ [(name, b)] }, true)

/-! ### `tryAllParsers` and the record loop -/

def liftF (p : Fields → P (Fields × Bool)) : Sub → P (Sub × Bool) := fun (f, t, o, r) => do
  let (f', ok) ← p f
  pure ((f', t, o, r), ok)

def featuresSub : Sub → P (Sub × Bool) := fun (f, _, o, r) => do
  let (t, r') ← featuresField r
  pure ((f, t, o, r'), true)

def originSub (length : Int) (depth : Nat) : Sub → P (Sub × Bool) := fun (f, t, _, r) => do
  let b ← originField length depth
  pure ((f, t, .buffer b, r), true)

/-- the first eleven sub-parsers in `tryAllParsers` order -/
def fieldParsers (length : Int) (depth : Nat) : List (Sub → P (Sub × Bool)) :=
  [liftF (definitionField depth), liftF (accessionField depth), liftF (versionField depth),
   liftF (dblinkField depth), liftF (keywordsField depth), liftF (sourceField depth),
   liftF (referenceField depth), liftF (commentField depth), featuresSub,
   liftF (contigField depth), originSub length depth]

inductive Step where
  | parsed (s : Sub)
  | skip (s : Sub)            -- `errGenBankExtra`: skip the line

/-- `tryAllParsers` over the first eleven: `Push`; the parser; success → `Drop`; failure → give up
when nothing is pushed any more (hard), else `Pop` and try the next; `none` = all failed softly -/
def tryList : List (Sub → P (Sub × Bool)) → Sub → P (Sub × Bool)
  | [], s => pure (s, false)
  | p :: rest, s => do
    push
    match ← attempt (p s) with
    | some (s', true) => do drop; pure (s', true)
    | some (s', false) => do
      if !(← pushed) then fail
      pop
      tryList rest s'
    | none => do
      if !(← pushed) then fail
      pop
      tryList rest s

/-- `tryAllParsers`; the last parser's failure of every kind is `errGenBankExtra` -/
def tryAll (length : Int) (depth : Nat) (s : Sub) : P Step := do
  match ← tryList (fieldParsers length depth) s with
  | (s', true) => pure (.parsed s')
  | (s', false) =>
    let (f, t, o, r) := s'
    push
    match ← attempt (extraField depth f) with
    | some (f', _) => do drop; pure (.parsed (f', t, o, r))
    | none => do pop; pure (.skip s')

/-- `pars.Seq("//", pars.EOL)` -/
def endMark : P Unit := do
  push
  match ← attempt (lit (bs "//")) with
  | none => do pop; fail
  | some _ =>
    match ← attempt eol with
    | none => do pop; fail
    | some _ => drop

/-- the loop of `GenBankParser` -/
def recordLoop (length : Int) (depth : Nat) : Nat → Sub → P Sub
  | 0, _ => fail
  | k + 1, s => do
    match ← attempt endMark with
    | some _ => pure s
    | none =>
      match ← tryAll length depth s with
      | .parsed s' => recordLoop length depth k s'
      | .skip s' => do
        let _ ← line
        if (← getS).rest.isEmpty then fail          -- `errGenBankField`
        recordLoop length depth k s'

/-- `GenBankParser` -/
def genbankParser (reg : Registry) : P (Record × Registry) := do
  let l ← locusParser
  clear
  -- 9d67d52 / 184fdd0: "sequence length out of range": negative, or `toOriginLength(length)`
  -- overflows Go's int (its true value is below 2^64, so the wrapped value is negative)
  if l.length < 0 ∨ Origin.toOriginLength l.length > 9223372036854775807 then fail
  if !isMolecule l.molecule then fail
  match asTopology l.topology with
  | none => fail
  | some top =>
    let f : Fields := { Fields.empty with
      locusName := l.name, molecule := l.molecule, topology := top, division := l.division,
      date := l.date }
    let n := (← getS).rest.length
    let (f, tab, org, reg') ← recordLoop l.length l.depth (2 * n + 2) (f, [], .buffer [], reg)
    -- 6813da5: a record that declares residues carries an ORIGIN block of that length, or a
    -- CONTIG line instead of the sequence
    let m := org.len
    if m ≠ l.length ∧ (m ≠ 0 ∨ f.contigAcc.isEmpty) then fail
    pure (⟨f, tab, org⟩, reg')

/-- the scan loop on a byte string: records until the input is used up; `ok = false` when a
record fails on a non-empty rest.  `none` = Go panic. -/
def parseAll (reg : Registry) : Nat → Bytes → List Record → Option (List Record × Registry × Bool)
  | 0, _, acc => some (acc.reverse, reg, false)
  | k + 1, input, acc =>
    if input.isEmpty then some (acc.reverse, reg, true)
    else
      match (genbankParser reg).run' ⟨input, []⟩ with
      | (.ok (r, reg'), s) => parseAll reg' k s.rest (r :: acc)
      | (.error .fail, _) => some (acc.reverse, reg, false)
      | (.error .panic, _) => none

/-- read a whole stream -/
def readAll (reg : Registry) (input : Bytes) : Option (List Record × Registry × Bool) :=
  parseAll reg (input.length + 1) input []

end Gts.GenBank
