/-
  Protocol ops of one area (see /verif/FRAMEWORK.md).  Not part of any theorem.  Core Lean only.
  C08: modifier text, tryLocation, AsLocator (kind and action), regexp-free selector matching.
-/
import Gts.Model.Sexp
import Gts.Model.Locator
import Gts.Spec.Den
namespace Gts

def encDesc : LocatorDesc → String
  | .bareModifier m => "(BM " ++ encMod m ++ ")"
  | .bareLocation l => "(BL " ++ encLoc l ++ ")"
  | .selector s => "(SEL " ++ encBytes s ++ ")"
  | .atAll m => "(ALL " ++ encMod m ++ ")"
  | .at d m => "(AT " ++ encDesc d ++ " " ++ encMod m ++ ")"
  | .error => "ERR"
  | .panic => "PANIC"

def encRegsOrErr (d : LocatorDesc) (rs : List Reg) : String :=
  match d with
  | .error => "ERR"
  | .panic => "PANIC"
  | _ => encList (rs.map encReg)

def evalLocator (op : String) (args : List Sexp) : Option String :=
  match op, args with
  | "mod.print", [m] => do pure (encBytes (← decMod? m).printB)
  | "mod.parse", [s] => do
      match asModifier (← decBytes? s) with
      | .ok m => pure (encMod m)
      | .error .fail => pure "ERR"
      | .error .panic => pure "PANIC"
  | "loc.try", [s] => do
      match tryLocation (← decBytes? s) with
      | .ok l => pure (encLoc l)
      | .error .fail => pure "ERR"
      | .error .panic => pure "PANIC"
  | "locator.kind", [s, ok] => do
      let ok ← decBool? ok
      pure (encDesc (asLocator (fun _ => ok) (← decBytes? s)))
  | "locator.apply", [s, q] => do
      let d := asLocator (fun _ => true) (← decBytes? s)
      pure (encRegsOrErr d (d.apply selectorMatch (← decSeq? q)))
  | "locator.applyo", [s, ok, .list bits, q] => do
      let ok ← decBool? ok
      let bits ← bits.mapM decBool?
      let seq ← decSeq? q
      let table := (seq.feats.map encFeature).zip bits
      let d := asLocator (fun _ => ok) (← decBytes? s)
      pure (encRegsOrErr d (d.apply (fun _ f => (table.lookup (encFeature f)).getD false) seq))
  | "reg.den", [r] => do
      let d := (← decReg? r).den
      pure ("[" ++ " ".intercalate (d.map fun p => (if p.2 then "~" else "") ++ toString p.1) ++ "]")
  | "selector.match", [s, f] => do
      pure (boolStr' (selectorMatch (← decBytes? s) (← decFeature? f)))
  | _, _ => none
where boolStr' (b : Bool) : String := if b then "1" else "0"

end Gts
