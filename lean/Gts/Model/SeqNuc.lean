/-
  `gts.Complement` / `gts.Reverse(gts.Complement(·))` at the SEQUENCE level (nucleotide.go):
  residues through the complement table, every feature location through `Location.Complement`,
  table order kept (`WithFeatures` does not re-sort).  Core Lean only.
-/
import Gts.Model.Seq
import Gts.Model.Nuc
namespace Gts

/-- `gts.Complement(seq)`; `none` = the (unreachable) panic of `replaceBytes` -/
def Seq.complementRec (s : Seq) : Option Seq := do
  let p ← Nuc.complementBytes s.bytes
  pure ⟨s.feats.map fun f => { f with loc := f.loc.complement }, p⟩

/-- `gts.Reverse(gts.Complement(seq))` -/
def Seq.revcompRec (s : Seq) : Option Seq := (·.reverse) <$> s.complementRec

end Gts
