/-
  Models of `gts.AsMolecule` (/repo/molecule.go:27-41) and `gts.AsTopology`
  (/repo/topology.go:21-30).  Both are a `switch` over string constants; the case lists are also
  extracted from the AST (`Gts/Gen/MolTop.lean`).  Core Lean only.
-/
import Gts.Model.Pars
namespace Gts.MolTop
open Pars

/-- the `case` strings of `AsMolecule`, in source order; the result is the same string -/
def moleculeCases : List Bytes := [
  [68, 78, 65],                    -- DNA
  [82, 78, 65],                    -- RNA
  [65, 65],                        -- AA
  [115, 115, 45, 68, 78, 65],      -- ss-DNA
  [100, 115, 45, 68, 78, 65]]      -- ds-DNA

/-- `AsMolecule(s)`: the molecule (as its string) or an error -/
def asMolecule (s : Bytes) : Except Err Bytes :=
  if moleculeCases.contains s then .ok s else .error .fail

/-- ASCII lower-casing of one byte -/
def lowerByte (c : UInt8) : UInt8 := if 65 ≤ c && c ≤ 90 then c + 32 else c

/-- `strings.ToLower(s)` as far as the comparison with an ASCII word can tell: ASCII letters are
lower-cased; the UTF-8 sequence `C4 B0` (U+0130, capital I with dot above) becomes `i`, the only
non-ASCII character whose lower case is one of the letters of `linear` / `circular`; every other
byte `≥ 0x80` belongs to a character whose lower case is not ASCII, or is invalid UTF-8 (which
`strings.Map` replaces by U+FFFD): it is mapped to `0xFF`, which no case string contains.
(`C4` is never a continuation byte, so the decoder always meets it at a character boundary.) -/
def lowerFold : Bytes → Bytes
  | 0xC4 :: 0xB0 :: r => 105 :: lowerFold r
  | c :: r => (if c ≥ 128 then 255 else lowerByte c) :: lowerFold r
  | [] => []

/-- the `case` strings of `AsTopology` (compared with `strings.ToLower(s)`) and their values:
`Linear = 0`, `Circular = 1` -/
def topologyCases : List (Bytes × Nat) := [
  ([108, 105, 110, 101, 97, 114], 0),             -- linear
  ([99, 105, 114, 99, 117, 108, 97, 114], 1)]     -- circular

/-- `AsTopology(s)` -/
def asTopology (s : Bytes) : Except Err Nat :=
  match topologyCases.lookup (lowerFold s) with
  | some t => .ok t
  | none => .error .fail

end Gts.MolTop
