/-
  Executable, bug-for-bug model of /repo/location.go (core Lean only).

  Go `int` is modelled by `Int` (no overflow; see DESIGN.md trusted base).
  Every definition names the Go function it mirrors.
-/
namespace Gts

/-- location.go: Between | Point | Ranged | Ambiguous | Joined | Ordered | Complemented. -/
inductive Loc where
  | between (p : Int)
  | point (p : Int)
  | ranged (s e : Int) (p5 p3 : Bool)
  | ambiguous (s e : Int)
  | joined (ls : List Loc)
  | ordered (ls : List Loc)
  | compl (l : Loc)
  deriving Repr, Inhabited

namespace Loc

mutual
/-- structural equality test (Lean cannot derive `DecidableEq` for the nested type). -/
def beq : Loc → Loc → Bool
  | between a, between b => a == b
  | point a, point b => a == b
  | ranged s e p q, ranged s' e' p' q' => s == s' && e == e' && p == p' && q == q'
  | ambiguous s e, ambiguous s' e' => s == s' && e == e'
  | joined a, joined b => beqList a b
  | ordered a, ordered b => beqList a b
  | compl a, compl b => beq a b
  | _, _ => false
def beqList : List Loc → List Loc → Bool
  | [], [] => true
  | a :: as, b :: bs => beq a b && beqList as bs
  | _, _ => false
end

instance : BEq Loc := ⟨beq⟩

/-- utils.go Max -/
@[inline] def gmax (i j : Int) : Int := if j < i then i else j
/-- utils.go Min -/
@[inline] def gmin (i j : Int) : Int := if i < j then i else j

/-! ### LocationList.Push / Join / Order  (location.go:587-726, 824-853)

The accumulator is kept *reversed* (`racc.head` is the last list element).
`low` is the same function one level of `Complemented`-nesting further down
(fuel; see `pushD`). -/

/-- the tail of `Join`: no part → Go panics (model: `joined []`), one part → that part,
otherwise a `Joined`. -/
def ofParts (j : List Loc) : Loc :=
  match j with
  | [] => joined []
  | [a] => a
  | _ => joined j

/-- the non-`Joined` cases of `LocationList.Push` against the last element. -/
def pushOne (low : List Loc → Loc → Bool → List Loc) (racc : List Loc) (x : Loc) (force : Bool) :
    List Loc :=
  match racc with
  | [] => [x]
  | v :: rest =>
    match v, x with
    | between v', between u => if v' = u then racc else x :: racc
    | between v', point u => if v' = u then x :: rest else x :: racc
    | between v', ranged us _ _ _ => if v' = us then x :: rest else x :: racc
    | point v', between u => if v' + 1 = u then racc else x :: racc
    | point v', point u => if v' = u then racc else x :: racc
    | point v', ranged us _ _ _ => if v' = us then x :: rest else x :: racc
    | ranged _ ve _ _, between u => if ve = u then racc else x :: racc
    | ranged _ ve _ _, point u => if ve = u then racc else x :: racc
    | ranged vs ve v5 v3, ranged us ue u5 u3 =>
        if ((v3 && u5) || force) && ve == us then ranged vs ue v5 u3 :: rest else x :: racc
    | compl vl, compl ul =>
        -- tmp := LocationList{u.Location}; tmp.Push(v.Location, force); Join(tmp.Slice()...)
        let tmp := (low [ul] vl force).reverse
        let j := (tmp.foldl (fun acc y => low acc y true) []).reverse
        compl (ofParts j) :: rest
    | _, _ => x :: racc

mutual
/-- `LocationList.Push` with explicit lower level. -/
def pushW (low : List Loc → Loc → Bool → List Loc) (racc : List Loc) : Loc → Bool → List Loc
  | joined parts, force => pushListW low racc parts force
  | x, force => pushOne low racc x force
def pushListW (low : List Loc → Loc → Bool → List Loc) (racc : List Loc) : List Loc → Bool → List Loc
  | [], _ => racc
  | p :: ps, force => pushListW low (pushW low racc p force) ps force
end

/-- `Push` with `d` levels of `Complemented`/`Complemented` merging available. -/
def pushD : Nat → List Loc → Loc → Bool → List Loc
  | 0 => fun racc x _ => x :: racc
  | d + 1 => pushW (pushD d)

/-- nesting fuel used by the executable model (Go recursion is unbounded; inputs with more than
`pushFuel` nested `complement(` around a join are outside the modelled domain). -/
def pushFuel : Nat := 48

def push (racc : List Loc) (x : Loc) (force : Bool) : List Loc := pushD pushFuel racc x force

def pushAllD (d : Nat) (racc : List Loc) (xs : List Loc) (force : Bool) : List Loc :=
  xs.foldl (fun acc y => pushD d acc y force) racc

def pushAll (racc : List Loc) (xs : List Loc) (force : Bool) : List Loc :=
  pushAllD pushFuel racc xs force

/-- `Join(locs...)`; Go panics on an empty result, the model returns `joined []`. -/
def joinD (d : Nat) (xs : List Loc) : Loc := ofParts (pushAllD d [] xs true).reverse

def join (xs : List Loc) : Loc := joinD pushFuel xs

mutual
/-- `flattenLocations` -/
def flattenOrd : Loc → List Loc
  | ordered ls => flattenOrdList ls
  | x => [x]
def flattenOrdList : List Loc → List Loc
  | [] => []
  | l :: ls => flattenOrd l ++ flattenOrdList ls
end

/-- `Order(locs...)`; Go panics on an empty result, the model returns `ordered []`. -/
def order (xs : List Loc) : Loc :=
  match flattenOrdList xs with
  | [] => ordered []
  | [a] => a
  | l => ordered l

/-! ### contiguous kinds: Expand / Shift / Reverse / Normalize -/

def betweenExpand (p i n : Int) : Loc :=
  between (if i < p then gmax i (p + n) else p)

def pointExpand (p i n : Int) : Loc :=
  if n < 0 ∧ i ≤ p ∧ p < i - n then between i   -- fix: C03 (was: i == p)
  else point (if (0 ≤ n ∧ i ≤ p) ∨ (n < 0 ∧ i < p) then gmax i (p + n) else p)

def rangedExpand (s e : Int) (p5 p3 : Bool) (i n : Int) : Loc :=
  if n = 0 then ranged s e p5 p3 else
  let j := i - n
  let p5' := if n < 0 ∧ i ≤ s ∧ s < j then true else p5
  let p3' := if n < 0 ∧ i < e ∧ e ≤ j then true else p3
  let s' := if (0 ≤ n ∧ i ≤ s) ∨ (n < 0 ∧ i < s) then gmax i (s + n) else s
  let e' := if (0 ≤ n ∧ i < e) ∨ (n < 0 ∧ i ≤ e) then gmax i (e + n) else e
  if s' = e' then between s' else ranged s' e' p5' p3'

def ambiguousExpand (s e i n : Int) : Loc :=
  if n = 0 then ambiguous s e else
  let s' := if (0 ≤ n ∧ i ≤ s) ∨ (n < 0 ∧ i < s) then gmax i (s + n) else s
  let e' := if (0 ≤ n ∧ i < e) ∨ (n < 0 ∧ i ≤ e) then gmax i (e + n) else e
  if s' = e' then between s' else ambiguous s' e'

def rangedShift (s e : Int) (p5 p3 : Bool) (i n : Int) : Loc :=
  if n = 0 then ranged s e p5 p3 else
  if n < 0 then rangedExpand s e p5 p3 i n else
  if s < i ∧ i < e then
    join [ranged s i p5 false, ranged (i + n) (e + n) false p3]
  else
    ranged (if i ≤ s then s + n else s) (if i < e then e + n else e) p5 p3

def ambiguousShift (s e i n : Int) : Loc :=
  if n = 0 then ambiguous s e else
  if n < 0 then ambiguousExpand s e i n else
  if s < i ∧ i < e then
    order [ambiguous s i, ambiguous (i + n) (e + n)]
  else
    ambiguous (if i ≤ s then s + n else s) (if i < e then e + n else e)

/-- `Ranged.Reverse`: partial flags swap unless both/none. -/
def rangedReverse (s e : Int) (p5 p3 : Bool) (len : Int) : Loc :=
  ranged (len - e) (len - s) p3 p5

def rangedNormalize (s e : Int) (p5 p3 : Bool) (len : Int) : Loc :=
  if e - s = len then rangedExpand s e p5 p3 0 (-s) else
  let start := Int.tmod s len
  let end_ := Int.tmod (e - 1) len + 1
  if start < end_ then ranged start end_ p5 p3
  else join [ranged start len p5 false, ranged 0 end_ false p3]

mutual
/-- `Location.Expand(i, n)` -/
def expand : Loc → Int → Int → Loc
  | between p, i, n => betweenExpand p i n
  | point p, i, n => pointExpand p i n
  | ranged s e p5 p3, i, n => rangedExpand s e p5 p3 i n
  | ambiguous s e, i, n => ambiguousExpand s e i n
  | joined ls, i, n => join (expandList ls i n)
  | ordered ls, i, n => order (expandList ls i n)
  | compl l, i, n => compl (expand l i n)
def expandList : List Loc → Int → Int → List Loc
  | [], _, _ => []
  | l :: ls, i, n => expand l i n :: expandList ls i n
end

mutual
/-- `Location.Shift(i, n)` -/
def shift : Loc → Int → Int → Loc
  | between p, i, n => betweenExpand p i n
  | point p, i, n => pointExpand p i n
  | ranged s e p5 p3, i, n => rangedShift s e p5 p3 i n
  | ambiguous s e, i, n => ambiguousShift s e i n
  | joined ls, i, n => join (shiftList ls i n)
  | ordered ls, i, n => order (shiftList ls i n)
  | compl l, i, n => compl (shift l i n)
def shiftList : List Loc → Int → Int → List Loc
  | [], _, _ => []
  | l :: ls, i, n => shift l i n :: shiftList ls i n
end

mutual
/-- `Location.Reverse(length)` (with the odd-arity fix: every part is reversed, order mirrored). -/
def reverse : Loc → Int → Loc
  | between p, len => between (len - 1 - p)
  | point p, len => point (len - 1 - p)
  | ranged s e p5 p3, len => rangedReverse s e p5 p3 len
  | ambiguous s e, len => ambiguous (len - e) (len - s)
  | joined ls, len => join (reverseList ls len).reverse
  | ordered ls, len => order (reverseList ls len).reverse
  | compl l, len => compl (reverse l len)
def reverseList : List Loc → Int → List Loc
  | [], _ => []
  | l :: ls, len => reverse l len :: reverseList ls len
end

mutual
/-- `Location.Normalize(length)` -/
def normalize : Loc → Int → Loc
  | between p, len => between (Int.tmod p len)
  | point p, len => point (Int.tmod p len)
  | ranged s e p5 p3, len => rangedNormalize s e p5 p3 len
  | ambiguous s e, len => ambiguous (Int.tmod s len) (Int.tmod (e - 1) len + 1)
  | joined ls, len => join (normalizeList ls len)
  | ordered ls, len => order (normalizeList ls len)
  | compl l, len => compl (normalize l len)
def normalizeList : List Loc → Int → List Loc
  | [], _ => []
  | l :: ls, len => normalize l len :: normalizeList ls len
end

/-- `Location.Complement()` -/
def complement : Loc → Loc
  | compl l => l
  | l => compl l

mutual
/-- `Location.Len()` -/
def len : Loc → Int
  | between _ => 0
  | point _ => 1
  | ranged s e _ _ => e - s
  | ambiguous _ _ => 1
  | joined ls => lenList ls
  | ordered ls => lenList ls
  | compl l => len l
def lenList : List Loc → Int
  | [] => 0
  | l :: ls => len l + lenList ls
end

mutual
/-- `asComplete` (location.go:346-367): strips partial flags at every depth — inside join / order
and, since repair e43d5f2 (finding F37), under a complement as well. -/
def asComplete : Loc → Loc
  | ranged s e _ _ => ranged s e false false
  | joined ls => joined (asCompleteList ls)
  | ordered ls => ordered (asCompleteList ls)
  | compl l => compl (asComplete l)
  | l => l
def asCompleteList : List Loc → List Loc
  | [] => []
  | l :: ls => asComplete l :: asCompleteList ls
end

/-! ### ordering and interval predicates (location.go:13-182) -/

def rangeCompare (s1 e1 s2 e2 : Int) : Int :=
  let (s1, e1) := if e1 < s1 then (e1, s1) else (s1, e1)
  let (s2, e2) := if e2 < s2 then (e2, s2) else (s2, e2)
  if s1 < s2 then -1 else if s2 < s1 then 1 else if e1 < e2 then -1 else if e2 < e1 then 1 else 0

def rangeWithin (s e l u : Int) : Bool :=
  let (s, e) := if e < s then (e, s) else (s, e)
  let (l, u) := if u < l then (u, l) else (l, u)
  decide (l ≤ s) && decide (e ≤ u)

def rangeOverlap (s e l u : Int) : Bool :=
  let (s, e) := if e < s then (e, s) else (s, e)
  let (l, u) := if u < l then (u, l) else (l, u)
  decide (s < u) && decide (l < e)

/-- `contiguousLocation.span()` -/
def span? : Loc → Option (Int × Int)
  | between p => some (p, p)
  | point p => some (p, p + 1)
  | ranged s e _ _ => some (s, e)
  | ambiguous s e => some (s, e)
  | _ => none

def partialCount : Loc → Nat
  | ranged _ _ p5 p3 => (if p5 then 1 else 0) + (if p3 then 1 else 0)
  | _ => 0

/-- the contiguous/contiguous case of `LocationLess` -/
def contigLess (a b : Loc) : Bool :=
  match span? a, span? b with
  | some (s1, e1), some (s2, e2) =>
      let c := rangeCompare s1 e1 s2 e2
      if c ≠ 0 then decide (c < 0) else decide (partialCount a < partialCount b)
  | _, _ => false

mutual
/-- `LocationLess(a, b)` once `a` is a contiguous leaf: recursion over `b`
(strip complements, *all* over the parts of a join/order). -/
def lessB (a : Loc) : Loc → Bool
  | compl b => lessB a b
  | joined ls => allLessB a ls
  | ordered ls => allLessB a ls
  | b => contigLess a b
def allLessB (a : Loc) : List Loc → Bool
  | [] => true
  | l :: ls => lessB a l && allLessB a ls
end

mutual
/-- `LocationLess(a, b)` (location.go:55-123): recursion over `a` first
(strip complements, *any* over the parts of a join/order), then over `b`. -/
def less : Loc → Loc → Bool
  | compl a, b => less a b
  | joined ls, b => anyLess ls b
  | ordered ls, b => anyLess ls b
  | a, b => lessB a b
def anyLess : List Loc → Loc → Bool
  | [], _ => false
  | l :: ls, b => less l b || anyLess ls b
end

mutual
/-- `LocationWithin` -/
def within : Loc → Int → Int → Bool
  | compl l, lo, hi => within l lo hi
  | joined ls, lo, hi => withinAll ls lo hi
  | ordered ls, lo, hi => withinAll ls lo hi
  | between p, lo, hi => rangeWithin p p lo hi
  | point p, lo, hi => rangeWithin p (p + 1) lo hi
  | ranged s e _ _, lo, hi => rangeWithin s e lo hi
  | ambiguous s e, lo, hi => rangeWithin s e lo hi
def withinAll : List Loc → Int → Int → Bool
  | [], _, _ => true
  | l :: ls, lo, hi => within l lo hi && withinAll ls lo hi
end

mutual
/-- `LocationOverlap` -/
def overlap : Loc → Int → Int → Bool
  | compl l, lo, hi => overlap l lo hi
  | joined ls, lo, hi => overlapAny ls lo hi
  | ordered ls, lo, hi => overlapAny ls lo hi
  | between p, lo, hi => rangeOverlap p p lo hi
  | point p, lo, hi => rangeOverlap p (p + 1) lo hi
  | ranged s e _ _, lo, hi => rangeOverlap s e lo hi
  | ambiguous s e, lo, hi => rangeOverlap s e lo hi
def overlapAny : List Loc → Int → Int → Bool
  | [], _, _ => false
  | l :: ls, lo, hi => overlap l lo hi || overlapAny ls lo hi
end

/-- `CheckStrand`: 1 = forward, 2 = reverse, 0 = both. -/
def strandList (ss : List Nat) : Nat :=
  let f := (ss.filter (· != 2)).length
  let r := (ss.filter (· != 1)).length
  if r = 0 then 1 else if f = 0 then 2 else 0

mutual
def strand : Loc → Nat
  | joined ls => strandList (strands ls)
  | ordered ls => strandList (strands ls)
  | compl _ => 2
  | _ => 1
def strands : List Loc → List Nat
  | [] => []
  | l :: ls => strand l :: strands ls
end

end Loc
end Gts
