/-
  C11 — a small model of Go slice semantics, and the sequence operations of /repo written as
  the HEAP PROGRAMS the Go code is (core Lean only).

  * A heap is a list of arrays; an array id is its index.  Allocation appends an array, so
    "every array that existed before the call is unchanged" is `h <+: h'` (list prefix).
  * `Slice = ⟨arr, off, len, cap⟩` is a Go slice header.  `s[lo:hi]`, `append`, `copy`, `make`,
    indexed load/store follow the Go specification.  `append` writes IN PLACE iff
    `len + k ≤ cap`, otherwise it allocates; the capacity of the fresh array is not specified
    by Go, so it is a parameter `g : Grow` (extra capacity) and no theorem depends on it.
  * Feature tables are slices over an element type `φ` (instantiated with `Gts.Feature`);
    locations and qualifiers inside a feature are immutable values here.  The only code that
    writes through a location slice is `asComplete`; it has its own heap model below
    (`MLoc`, `asCompleteMem`).  `Props` mutators have theirs (`PropsMem`).
  * Every definition names the Go statements it mirrors.  The `…Old` definitions are the
    statements as they were BEFORE the repairs 4effce8, 787a48e, d065452, e795ac6; they are kept
    to show that the model can express the defect (Props/C11.lean refutes FRAME for each).
-/
import Gts.Model.Seq
import Gts.Model.Nuc
namespace Gts.Mem

/-- a heap of arrays; the array id is the index -/
abbrev Heap (α : Type) := List (List α)

/-- a Go slice header: backing array, offset of element 0, length, capacity -/
structure Slice where
  arr : Nat
  off : Nat
  len : Nat
  cap : Nat
  deriving Repr, DecidableEq, Inhabited

/-- capacity policy of `append` when it has to allocate: `g oldCap needed` = extra capacity -/
abbrev Grow := Nat → Nat → Nat

namespace Slice

/-- the `nil` slice -/
def nil : Slice := ⟨0, 0, 0, 0⟩

/-- `s[lo:hi]` (Go: `0 ≤ lo ≤ hi ≤ cap(s)`, the capacity shrinks by `lo`) -/
def slice (s : Slice) (lo hi : Nat) : Slice := ⟨s.arr, s.off + lo, hi - lo, s.cap - lo⟩

/-- `s[:hi]` -/
def upto (s : Slice) (hi : Nat) : Slice := s.slice 0 hi

/-- `s[lo:]` -/
def since (s : Slice) (lo : Nat) : Slice := s.slice lo s.len

end Slice

namespace Heap
variable {α : Type}

/-- contents of array `a` (`[]` for an id that was never allocated) -/
def get (h : Heap α) (a : Nat) : List α := h.getD a []

/-- the visible elements of `s` -/
def read (h : Heap α) (s : Slice) : List α := ((h.get s.arr).drop s.off).take s.len

/-- `arr[pos .. pos+|xs|) := xs` -/
def overwrite (arr : List α) (pos : Nat) (xs : List α) : List α :=
  arr.take pos ++ xs ++ arr.drop (pos + xs.length)

/-- store `xs` into array `a` starting at absolute position `pos` -/
def write (h : Heap α) (a pos : Nat) (xs : List α) : Heap α :=
  h.set a (overwrite (h.get a) pos xs)

/-- `s[i] = x` -/
def store (h : Heap α) (s : Slice) (i : Nat) (x : α) : Heap α := write h s.arr (s.off + i) [x]

/-- `s[i]` (`none` = index out of the array; Go panics already at `i ≥ len`) -/
def load (h : Heap α) (s : Slice) (i : Nat) : Option α := (h.get s.arr)[s.off + i]?

/-- `make([]T, len, cap)` -/
def mk [Inhabited α] (h : Heap α) (len cap : Nat) : Slice × Heap α :=
  (⟨h.length, 0, len, cap⟩, h ++ [List.replicate cap default])

/-- `copy(dst, src)` where `xs` are the elements of `src` (read before any write, which is
Go's memmove semantics): copies `min(len(dst), len(src))` elements -/
def copy (h : Heap α) (dst : Slice) (xs : List α) : Heap α :=
  write h dst.arr dst.off (xs.take dst.len)

/-- `append(s, xs...)`: in place iff `len + k ≤ cap`, else a fresh array holding the old visible
elements, `xs`, and `g cap (len+k)` spare cells -/
def append [Inhabited α] (g : Grow) (h : Heap α) (s : Slice) (xs : List α) : Slice × Heap α :=
  if s.len + xs.length ≤ s.cap then
    (⟨s.arr, s.off, s.len + xs.length, s.cap⟩, write h s.arr (s.off + s.len) xs)
  else
    let extra := g s.cap (s.len + xs.length)
    (⟨h.length, 0, s.len + xs.length, s.len + xs.length + extra⟩,
     h ++ [read h s ++ xs ++ List.replicate extra default])

end Heap

open Heap

/-- the slice header describes a window of an existing array: `len ≤ cap` and the `cap` cells
from `off` on lie inside the array.  Every slice value a Go program can hold satisfies this.  (A
dangling header is allowed when its capacity is 0 — the `nil` slice.) -/
def WF {α : Type} (h : Heap α) (s : Slice) : Prop :=
  s.len ≤ s.cap ∧ s.off + s.cap ≤ (h.get s.arr).length

instance {α : Type} (h : Heap α) (s : Slice) : Decidable (WF h s) := by unfold WF; infer_instance

/-- `s` is not part of a heap with `n` arrays: its array was allocated later, or it owns no
cell at all -/
def Fresh (n : Nat) (s : Slice) : Prop := n ≤ s.arr ∨ s.cap = 0

/-! ### byte-level helpers of sequence.go / nucleotide.go -/

section bytes
variable {α : Type} [Inhabited α]

/-- `insert(p, pos, q)` (sequence.go:156, after 4effce8):
```go
r := make([]byte, 0, len(p)+len(q))
r = append(r, p[:pos]...)
r = append(r, q...)
return append(r, p[pos:]...)
``` -/
def spliceMem (g : Grow) (h : Heap α) (p : Slice) (pos : Nat) (q : Slice) : Slice × Heap α :=
  let r0 := mk h 0 (p.len + q.len)
  let r1 := append g r0.2 r0.1 (read r0.2 (p.upto pos))
  let r2 := append g r1.2 r1.1 (read r1.2 q)
  append g r2.2 r2.1 (read r2.2 (p.since pos))

/-- PRE-REPAIR `insert`: `return append(p[:pos], append(q, p[pos:]...)...)` -/
def spliceOld (g : Grow) (h : Heap α) (p : Slice) (pos : Nat) (q : Slice) : Slice × Heap α :=
  let t := append g h q (read h (p.since pos))
  append g t.2 (p.upto pos) (read t.2 t.1)

/-- the residues of `Delete` (sequence.go:229-232):
```go
q := seq.Bytes(); p := make([]byte, len(q)-length)
copy(p[:offset], q[:offset]); copy(p[offset:], q[offset+length:])
``` -/
def cutMem (h : Heap α) (q : Slice) (offset length : Nat) : Slice × Heap α :=
  let p := mk h (q.len - length) (q.len - length)
  let h1 := copy p.2 (p.1.upto offset) (read p.2 (q.upto offset))
  (p.1, copy h1 (p.1.since offset) (read h1 (q.since (offset + length))))

/-- the residues of `Rotate` (sequence.go:353-357, after e795ac6):
```go
q := seq.Bytes(); p := make([]byte, 0, len(q))
p = append(p, q[m:]...); p = append(p, q[:m]...)
``` -/
def rotMem (g : Grow) (h : Heap α) (q : Slice) (m : Nat) : Slice × Heap α :=
  let p0 := mk h 0 q.len
  let p1 := append g p0.2 p0.1 (read p0.2 (q.since m))
  append g p1.2 p1.1 (read p1.2 (q.upto m))

/-- PRE-REPAIR `Rotate`: `p := seq.Bytes(); p = append(p[m:], p[:m]...)` -/
def rotOld (g : Grow) (h : Heap α) (p : Slice) (m : Nat) : Slice × Heap α :=
  append g h (p.since m) (read h (p.upto m))

/-- the residues of `Slice` (sequence.go:283-284): `p := make([]byte, end-start);
copy(p, seq.Bytes()[start:end])` -/
def subMem (h : Heap α) (q : Slice) (start end_ : Nat) : Slice × Heap α :=
  let p := mk h (end_ - start) (end_ - start)
  (p.1, copy p.2 p.1 (read p.2 (q.slice start end_)))

/-- the residues of `Reverse` (sequence.go:325-327): `p := make([]byte, Len(seq));
copy(p, seq.Bytes()); flip.Bytes(p)` — `flip.Bytes` swaps `p[l], p[r]` from both ends, i.e. it
rewrites the visible part of `p` with its reversal -/
def revMem (h : Heap α) (q : Slice) : Slice × Heap α :=
  let p := mk h q.len q.len
  let h1 := copy p.2 p.1 (read p.2 q)
  (p.1, write h1 p.1.arr p.1.off (read h1 p.1).reverse)

/-- MUTANT used for validation only (`flip.Bytes(seq.Bytes())` without the copy) -/
def revOld (h : Heap α) (q : Slice) : Slice × Heap α :=
  (q, write h q.arr q.off (read h q).reverse)

/-- `replaceBytes(p, old, new)` (nucleotide.go:10): `q := make([]byte, len(p)); q[i] = f(p[i])`,
`f` being the byte substitution -/
def replMem (f : α → α) (h : Heap α) (p : Slice) : Slice × Heap α :=
  let q := mk h p.len p.len
  (q.1, write q.2 q.1.arr q.1.off ((read q.2 p).map f))

/-- the residues of `Concat` (sequence.go:304-312, after e795ac6):
`p := append([]byte(nil), head.Bytes()...)` then `p = append(p, seq.Bytes()...)` for each of the
tail -/
def catMem (g : Grow) (h : Heap α) (head : Slice) (tail : List Slice) : Slice × Heap α :=
  tail.foldl (fun (st : Slice × Heap α) q => append g st.2 st.1 (read st.2 q))
    (append g h Slice.nil (read h head))

/-- PRE-REPAIR `Concat`: `p := head.Bytes()` then the same appends -/
def catOld (g : Grow) (h : Heap α) (head : Slice) (tail : List Slice) : Slice × Heap α :=
  tail.foldl (fun (st : Slice × Heap α) q => append g st.2 st.1 (read st.2 q)) (head, h)

end bytes

/-! ### feature tables (feature.go, sequence.go) -/

section tables
variable {φ : Type} [Inhabited φ]

/-- `FeatureSlice.Insert(f)` (feature.go:290, after d065452); `pos` is the index computed by
the `source` scan and `sort.Search` (a function of the visible elements only):
```go
gg := make(FeatureSlice, len(ff)+1)
copy(gg, ff[:i]); gg[i] = f; copy(gg[i+1:], ff[i:])
``` -/
def tabInsert (pos : List φ → φ → Nat) (h : Heap φ) (ff : Slice) (f : φ) : Slice × Heap φ :=
  let i := pos (read h ff) f
  let gg := mk h (ff.len + 1) (ff.len + 1)
  let h1 := copy gg.2 gg.1 (read gg.2 (ff.upto i))
  let h2 := store h1 gg.1 i f
  (gg.1, copy h2 (gg.1.since (i + 1)) (read h2 (ff.since i)))

/-- PRE-REPAIR `FeatureSlice.Insert`:
`ff = append(ff, Feature{}); copy(ff[i+1:], ff[i:]); ff[i] = f` -/
def tabInsertOld (g : Grow) (pos : List φ → φ → Nat) (h : Heap φ) (ff : Slice) (f : φ) :
    Slice × Heap φ :=
  let i := pos (read h ff) f
  let a := append g h ff [default]
  let h1 := copy a.2 (a.1.since (i + 1)) (read a.2 (a.1.since i))
  (a.1, store h1 a.1 i f)

/-- `for _, f := range src { f.Loc = T(f.Loc); ff = ff.Insert(f) }` — `src` is evaluated once,
element `i` is loaded from the CURRENT heap at iteration `i`; `n` iterations remain -/
def insertLoop (ins : Heap φ → Slice → φ → Slice × Heap φ) (T : φ → φ) (src : Slice) :
    Nat → Nat → Slice → Heap φ → Slice × Heap φ
  | 0, _, ff, h => (ff, h)
  | n + 1, i, ff, h =>
    match load h src i with
    | some f => let r := ins h ff (T f); insertLoop ins T src n (i + 1) r.1 r.2
    | none => (ff, h)

/-- `for i, f := range ff { ff[i].Loc = T(f.Loc) }` — load and store at iteration `i` -/
def mapLoop (T : φ → φ) (ff : Slice) : Nat → Nat → Heap φ → Heap φ
  | 0, _, h => h
  | n + 1, i, h =>
    match load h ff i with
    | some f => mapLoop T ff n (i + 1) (store h ff i (T f))
    | none => h

/-- `ff := make(FeatureSlice, len(src)); copy(ff, src)` (Delete, after 787a48e; also `Repair`) -/
def tabCopy (h : Heap φ) (src : Slice) : Slice × Heap φ :=
  let ff := mk h src.len src.len
  (ff.1, copy ff.2 ff.1 (read ff.2 src))

/-- `FeatureSlice.Filter(p)` (feature.go:251): collects the matching indices, then
`gg := make(FeatureSlice, len(indices)); gg[i] = ff[indices[i]]` -/
def tabFilter (p : φ → Bool) (h : Heap φ) (ff : Slice) : Slice × Heap φ :=
  let keep := (read h ff).filter p
  let gg := mk h keep.length keep.length
  (gg.1, write gg.2 gg.1.arr gg.1.off keep)

/-- `ff := make([]Feature, len(src)); for i, f := range src { ff[i] = T(f) }` (Complement) -/
def tabMapFresh (T : φ → φ) (h : Heap φ) (src : Slice) : Slice × Heap φ :=
  let ff := mk h src.len src.len
  (ff.1, write ff.2 ff.1.arr ff.1.off ((read ff.2 src).map T))

end tables

/-! ### sequences in memory -/

/-- the two heaps the operations touch -/
structure World (φ : Type) where
  B : Heap UInt8
  T : Heap φ

/-- `gts.BasicSequence` without its metadata: the two slice headers -/
structure MSeq where
  tab : Slice
  dat : Slice
  deriving Repr, DecidableEq, Inhabited

namespace World
variable {φ : Type}

/-- the value a sequence denotes in a world -/
def readTab (w : World φ) (s : MSeq) : List φ := read w.T s.tab
def readDat (w : World φ) (s : MSeq) : List UInt8 := read w.B s.dat

end World

/-- FRAME: every array (residues and feature tables) that existed in `w` exists unchanged in
`w'` — whole backing arrays, so spare capacity and enclosing buffers are covered -/
def Frame {φ : Type} (w w' : World φ) : Prop := w.B <+: w'.B ∧ w.T <+: w'.T

/-- both slice headers of a sequence are well formed -/
def WFSeq {φ : Type} (w : World φ) (s : MSeq) : Prop := WF w.T s.tab ∧ WF w.B s.dat

instance {φ : Type} (w : World φ) (s : MSeq) : Decidable (WFSeq w s) := by unfold WFSeq; infer_instance

/-- the index `FeatureSlice.Insert` computes (`Table.insert` of Seq.lean splits at this index) -/
def insertPos (ff : Table) (f : Feature) : Nat :=
  let i := Table.sourceCount ff
  if f.key ≠ "source" then
    i + sortSearch (ff.length - i) (fun j =>
      match ff[i + j]? with
      | some g => Loc.less f.loc g.loc
      | none => true)
  else i

/-- read a sequence value out of a world -/
def readSeq (w : World Feature) (s : MSeq) : Seq := ⟨w.readTab s, w.readDat s⟩

section ops
variable (g : Grow)

/-- `Len(seq)` = `len(seq.Bytes())` -/
def MSeq.len (s : MSeq) : Int := s.dat.len

def withLoc (T : Loc → Loc) (f : Feature) : Feature := { f with loc := T f.loc }

/-- the current `ff.Insert` -/
abbrev ins := tabInsert (φ := Feature) insertPos
/-- the pre-repair `ff.Insert` -/
abbrev insOld := tabInsertOld (φ := Feature) g insertPos

/-- `gts.Insert(host, index, guest)` / `gts.Embed` (sequence.go:163-211): two insertion loops
into `var ff FeatureSlice` (nil), then `insert(host.Bytes(), index, guest.Bytes())`.
`Th`, `Tg` are the location transformations of the host's and the guest's features. -/
def spliceSeq (Th Tg : Loc → Loc) (w : World Feature) (host : MSeq) (index : Int) (guest : MSeq) :
    MSeq × World Feature :=
  let t1 := insertLoop ins (withLoc Th) host.tab host.tab.len 0 Slice.nil w.T
  let t2 := insertLoop ins (withLoc Tg) guest.tab guest.tab.len 0 t1.1 t1.2
  let b := spliceMem g w.B host.dat index.toNat guest.dat
  (⟨t2.1, b.1⟩, ⟨b.2, t2.2⟩)

def insertSeq (w : World Feature) (host : MSeq) (index : Int) (guest : MSeq) :=
  spliceSeq g (fun l => l.shift index guest.len) (fun l => l.expand 0 index) w host index guest

def embedSeq (w : World Feature) (host : MSeq) (index : Int) (guest : MSeq) :=
  spliceSeq g (fun l => l.expand index guest.len) (fun l => l.expand 0 index) w host index guest

/-- PRE-REPAIR `Insert`/`Embed`: same, with the old `insert` helper and the old `ff.Insert` -/
def spliceSeqOld (Th Tg : Loc → Loc) (w : World Feature) (host : MSeq) (index : Int)
    (guest : MSeq) : MSeq × World Feature :=
  let t1 := insertLoop (insOld g) (withLoc Th) host.tab host.tab.len 0 Slice.nil w.T
  let t2 := insertLoop (insOld g) (withLoc Tg) guest.tab guest.tab.len 0 t1.1 t1.2
  let b := spliceOld g w.B host.dat index.toNat guest.dat
  (⟨t2.1, b.1⟩, ⟨b.2, t2.2⟩)

/-- `gts.Delete(seq, offset, length)` (sequence.go:218-236, after 787a48e) -/
def deleteSeq (w : World Feature) (s : MSeq) (offset length : Int) : MSeq × World Feature :=
  let ff := tabCopy w.T s.tab
  let t := mapLoop (withLoc fun l => l.expand offset (-length)) ff.1 ff.1.len 0 ff.2
  let b := cutMem w.B s.dat offset.toNat length.toNat
  (⟨ff.1, b.1⟩, ⟨b.2, t⟩)

/-- PRE-REPAIR `Delete`: `ff := seq.Features()` and the stores go into the argument's table -/
def deleteSeqOld (w : World Feature) (s : MSeq) (offset length : Int) : MSeq × World Feature :=
  let t := mapLoop (withLoc fun l => l.expand offset (-length)) s.tab s.tab.len 0 w.T
  let b := cutMem w.B s.dat offset.toNat length.toNat
  (⟨s.tab, b.1⟩, ⟨b.2, t⟩)

/-- `gts.Erase` (sequence.go:243): `Filter`, `WithFeatures`, `Delete` -/
def eraseSeq (w : World Feature) (s : MSeq) (offset length : Int) : MSeq × World Feature :=
  let ff := tabFilter (fun f => f.key = "source" || !(f.loc.within offset (offset + length)))
    w.T s.tab
  deleteSeq ⟨w.B, ff.2⟩ ⟨ff.1, s.dat⟩ offset length

/-- the rotation amount: `for Len(seq) > 0 && n < 0 { n += Len(seq) }; n %= Len(seq)` -/
def rotAmount (L n : Int) : Int := Int.tmod (if n < 0 then n + ((-n + L - 1) / L) * L else n) L

/-- `gts.Rotate(seq, n)` (sequence.go:337-363, after e795ac6) -/
def rotateSeq (w : World Feature) (s : MSeq) (n : Int) : MSeq × World Feature :=
  let L := s.len
  let n := rotAmount L n
  let t := insertLoop ins (withLoc fun l => (l.expand 0 n).normalize L) s.tab s.tab.len 0
    Slice.nil w.T
  let b := rotMem g w.B s.dat (L - n).toNat
  (⟨t.1, b.1⟩, ⟨b.2, t.2⟩)

/-- PRE-REPAIR `Rotate` -/
def rotateSeqOld (w : World Feature) (s : MSeq) (n : Int) : MSeq × World Feature :=
  let L := s.len
  let n := rotAmount L n
  let t := insertLoop (insOld g) (withLoc fun l => (l.expand 0 n).normalize L) s.tab s.tab.len 0
    Slice.nil w.T
  let b := rotOld g w.B s.dat (L - n).toNat
  (⟨t.1, b.1⟩, ⟨b.2, t.2⟩)

/-- what `Slice` does to the location of a kept feature -/
def sliceLoc (L start end_ : Int) (f : Feature) : Feature :=
  let loc := (f.loc.expand end_ (end_ - L)).expand 0 (-start)
  { f with loc := if f.key = "source" then loc.asComplete else loc }

/-- the forward case of `gts.Slice` (sequence.go:267-291): `Filter` (fresh table), the stores
`ff[i].Loc = loc` into it, `make` + `copy` for the residues -/
def sliceFwdSeq (w : World Feature) (s : MSeq) (start end_ : Int) : MSeq × World Feature :=
  let L := s.len
  let ff := tabFilter (fun f => f.loc.overlap start end_) w.T s.tab
  let t := mapLoop (sliceLoc L start end_) ff.1 ff.1.len 0 ff.2
  let b := subMem w.B s.dat start.toNat end_.toNat
  (⟨ff.1, b.1⟩, ⟨b.2, t⟩)

/-- MUTANT used for validation only: `ff := seq.Features()` instead of the filtered copy -/
def sliceFwdSeqOld (w : World Feature) (s : MSeq) (start end_ : Int) : MSeq × World Feature :=
  let L := s.len
  let t := mapLoop (sliceLoc L start end_) s.tab s.tab.len 0 w.T
  let b := subMem w.B s.dat start.toNat end_.toNat
  (⟨s.tab, b.1⟩, ⟨b.2, t⟩)

/-- `gts.Slice(seq, start, end)` (sequence.go:252-291) -/
def sliceSeq (w : World Feature) (s : MSeq) (start end_ : Int) : MSeq × World Feature :=
  let L := s.len
  let start := if start < 0 then start + L else start
  let end_ := if end_ < 0 then end_ + L else end_
  if end_ < start then
    let r := rotateSeq g w s (-start)
    sliceFwdSeq r.2 r.1 0 (L - start + end_)
  else sliceFwdSeq w s start end_

/-- one step of the `Concat` loop over the tail (sequence.go:306-312):
`for _, f := range seq.Features() { f.Loc = f.Loc.Expand(0, len(p)); ff = ff.Insert(f) }`
then `p = append(p, seq.Bytes()...)` -/
def concatStep (insF : Heap Feature → Slice → Feature → Slice × Heap Feature)
    (st : MSeq × World Feature) (q : MSeq) : MSeq × World Feature :=
  let ff := st.1.tab
  let p := st.1.dat
  let w := st.2
  let t := insertLoop insF (withLoc fun l => l.expand 0 p.len) q.tab q.tab.len 0 ff w.T
  let b := append g w.B p (read w.B q.dat)
  (⟨t.1, b.1⟩, ⟨b.2, t.2⟩)

/-- `gts.Concat(ss...)` (sequence.go:295-319, after e795ac6) -/
def concatSeq (w : World Feature) : List MSeq → MSeq × World Feature
  | [] => (⟨Slice.nil, Slice.nil⟩, w)
  | [s] => (s, w)
  | head :: tail =>
    let p := append g w.B Slice.nil (read w.B head.dat)
    tail.foldl (concatStep g ins) (⟨head.tab, p.1⟩, ⟨p.2, w.T⟩)

/-- PRE-REPAIR `Concat`: `ff, p := head.Features(), head.Bytes()` and the old `ff.Insert` -/
def concatSeqOld (w : World Feature) : List MSeq → MSeq × World Feature
  | [] => (⟨Slice.nil, Slice.nil⟩, w)
  | [s] => (s, w)
  | head :: tail => tail.foldl (concatStep g (insOld g)) (head, w)

/-- `gts.Reverse(seq)` (sequence.go:321-333); `Props.Clone()` copies values, which are immutable
here -/
def reverseSeq (w : World Feature) (s : MSeq) : MSeq × World Feature :=
  let t := insertLoop ins (withLoc fun l => l.reverse s.len) s.tab s.tab.len 0 Slice.nil w.T
  let b := revMem w.B s.dat
  (⟨t.1, b.1⟩, ⟨b.2, t.2⟩)

/-- MUTANT used for validation only: `Reverse` flipping the argument's bytes in place -/
def reverseSeqOld (w : World Feature) (s : MSeq) : MSeq × World Feature :=
  let t := insertLoop ins (withLoc fun l => l.reverse s.len) s.tab s.tab.len 0 Slice.nil w.T
  let b := revOld w.B s.dat
  (⟨t.1, b.1⟩, ⟨b.2, t.2⟩)

/-- `gts.Complement(seq)` (nucleotide.go:26): `replaceBytes` into a fresh array, a fresh table
with complemented locations -/
def complementSeq (w : World Feature) (s : MSeq) : MSeq × World Feature :=
  let b := replMem Nuc.complementByte w.B s.dat
  let t := tabMapFresh (withLoc Loc.complement) w.T s.tab
  (⟨t.1, b.1⟩, ⟨b.2, t.2⟩)

/-- `gts.Transcribe(seq)` (nucleotide.go:43): only the residues are replaced; the result SHARES
the feature table with its argument -/
def transcribeSeq (w : World Feature) (s : MSeq) : MSeq × World Feature :=
  let b := replMem Nuc.transcribeByte w.B s.dat
  (⟨s.tab, b.1⟩, ⟨b.2, w.T⟩)

/-- `ff.Insert(f)` as an operation on a sequence (`WithFeatures(seq, seq.Features().Insert(f))`) -/
def tabInsertSeq (w : World Feature) (s : MSeq) (f : Feature) : MSeq × World Feature :=
  let t := ins w.T s.tab f
  (⟨t.1, s.dat⟩, ⟨w.B, t.2⟩)

/-- `ff.Filter(p)` as an operation on a sequence -/
def filterSeq (p : Feature → Bool) (w : World Feature) (s : MSeq) : MSeq × World Feature :=
  let t := tabFilter p w.T s.tab
  (⟨t.1, s.dat⟩, ⟨w.B, t.2⟩)

/-- `WithFeatures(seq, ff)`, `WithBytes(seq, p)`, `WithInfo(seq, info)`, `Copy(seq)`
(sequence.go:104-154) on a `BasicSequence`: a new header over the given slices; nothing is
allocated, nothing is written -/
def withFeaturesSeq (w : World Feature) (s : MSeq) (tab : Slice) : MSeq × World Feature := (⟨tab, s.dat⟩, w)
def withBytesSeq (w : World Feature) (s : MSeq) (dat : Slice) : MSeq × World Feature := (⟨s.tab, dat⟩, w)
def copySeq (w : World Feature) (s : MSeq) : MSeq × World Feature := (s, w)

/-- the memory behaviour of `gts.Repair(ff)` (feature.go:22-69): `gg := make([]Feature, len(ff));
copy(gg, ff)`, then only stores into `gg` (`gg[indices[i]].Loc = loc`, the compaction
`gg[i] = gg[j]`), then `gg = gg[:len(keep)]`.  WHICH cells get WHICH values is the business of
C12; here the stores are an arbitrary list of (index, value) pairs. -/
def repairMem {φ : Type} [Inhabited φ] (h : Heap φ) (ff : Slice) (stores : List (Nat × φ)) (keep : Nat) :
    Slice × Heap φ :=
  let gg := tabCopy h ff
  (gg.1.upto keep, stores.foldl (fun h (st : Nat × φ) => store h gg.1 st.1 st.2) gg.2)

/-! ### programs: operations applied to the same original value -/

/-- an operation together with its other arguments -/
inductive Op where
  | insert (index : Int) (guest : MSeq)
  | embed (index : Int) (guest : MSeq)
  | delete (offset length : Int)
  | erase (offset length : Int)
  | slice (start end_ : Int)
  | rotate (n : Int)
  | reverse
  | complement
  | transcribe
  | concat (before after : List MSeq)
  | tabInsert (f : Feature)
  | filterOverlap (lo hi : Int)
  deriving Repr, Inhabited

/-- run one operation on `s` -/
def runOp (w : World Feature) (s : MSeq) : Op → MSeq × World Feature
  | .insert i guest => insertSeq g w s i guest
  | .embed i guest => embedSeq g w s i guest
  | .delete i n => deleteSeq w s i n
  | .erase i n => eraseSeq w s i n
  | .slice a b => sliceSeq g w s a b
  | .rotate n => rotateSeq g w s n
  | .reverse => reverseSeq w s
  | .complement => complementSeq w s
  | .transcribe => transcribeSeq w s
  | .concat before after => concatSeq g w (before ++ s :: after)
  | .tabInsert f => tabInsertSeq w s f
  | .filterOverlap lo hi => filterSeq (fun f => f.loc.overlap lo hi) w s

/-- the same on values (Gts/Model/Seq.lean) -/
def pureOp (w : World Feature) (v : Seq) : Op → Seq
  | .insert i guest => v.insert i (readSeq w guest)
  | .embed i guest => v.embed i (readSeq w guest)
  | .delete i n => v.delete i n
  | .erase i n => v.erase i n
  | .slice a b => v.slice a b
  | .rotate n => v.rotate n
  | .reverse => v.reverse
  | .complement => ⟨v.feats.map (withLoc Loc.complement), v.bytes.map Nuc.complementByte⟩
  | .transcribe => ⟨v.feats, v.bytes.map Nuc.transcribeByte⟩
  | .concat before after => Seq.concat (before.map (readSeq w) ++ v :: after.map (readSeq w))
  | .tabInsert f => ⟨Table.insert v.feats f, v.bytes⟩
  | .filterOverlap lo hi => ⟨v.feats.filter fun f => f.loc.overlap lo hi, v.bytes⟩

/-- the arguments of `op` are acceptable for `s` in `w`: the other sequences are well formed and
the indices are in the range in which the Go code does not panic -/
def OpOK (w : World Feature) (s : MSeq) : Op → Prop
  | .insert i guest => WFSeq w guest ∧ 0 ≤ i ∧ i ≤ s.len
  | .embed i guest => WFSeq w guest ∧ 0 ≤ i ∧ i ≤ s.len
  | .delete i n => 0 ≤ i ∧ 0 ≤ n ∧ i + n ≤ s.len
  | .erase i n => 0 ≤ i ∧ 0 ≤ n ∧ i + n ≤ s.len
  | .slice a b =>
      (0 ≤ (if a < 0 then a + s.len else a) ∧ (if a < 0 then a + s.len else a) ≤ s.len) ∧
      (0 ≤ (if b < 0 then b + s.len else b) ∧ (if b < 0 then b + s.len else b) ≤ s.len) ∧ 0 < s.len
  | .rotate _ => 0 < s.len
  | .reverse => True
  | .complement => True
  | .transcribe => True
  | .concat before after => (∀ q ∈ before, WFSeq w q) ∧ (∀ q ∈ after, WFSeq w q)
  | .tabInsert _ => True
  | .filterOverlap _ _ => True

instance (w : World Feature) (s : MSeq) (op : Op) : Decidable (OpOK w s op) := by
  cases op <;> unfold OpOK <;> infer_instance

/-- run a program: every operation is applied to the SAME `s`, in the world the previous
operations left behind; returns the results in order and the final world -/
def runProg (w : World Feature) (s : MSeq) : List Op → List MSeq × World Feature
  | [] => ([], w)
  | op :: ops =>
    let r := runOp g w s op
    let rest := runProg r.2 s ops
    (r.1 :: rest.1, rest.2)

end ops


/-! ### `asComplete` (location.go:346-367) — the one function that writes through a location

`Joined`/`Ordered` are slices of `Location` interface values.  `asComplete` stores into the slice
it is given (`v[i] = asComplete(u)`) and returns that same slice: it IS impure.  It has exactly
one call site, `gts.Slice` (sequence.go:278), where its argument is
`f.Loc.Expand(end, end-seqlen).Expand(0, -start)`.  `Expand` of a `Joined`/`Ordered` builds
`locs := make([]Location, n)` and returns `Join(locs...)`/`Order(locs...)`, which is either a new
slice (`list.Slice()`, `flattenLocations`) or a single element that is itself the result of an
`Expand`; so every slice reachable from the argument was allocated by that `Expand`
(`allocLoc` below is the stand-in for that; Gts/Model/MemLoc.lean writes `Expand`, `Join`, `Order`
as heap programs and Gts/Props/C11Fresh.lean PROVES it: `expand_fresh`, `sliceLoc_frame`; the
harness oracle `expand-fresh` and the op `mem.loc` check the real code). -/

/-- a location as it lies in memory -/
inductive MLoc where
  | leaf (l : Loc)        -- Between / Point / Ranged / Ambiguous: plain values
  | joined (s : Slice)    -- `Joined`: a slice header into the heap of location cells
  | ordered (s : Slice)   -- `Ordered`
  | compl (m : MLoc)      -- `Complemented{Location}`
  deriving Repr, Inhabited

/-- `for i, u := range v { v[i] = rec(u) }` -/
def acLoop (rec : Heap MLoc → MLoc → MLoc × Heap MLoc) (s : Slice) : Nat → Nat → Heap MLoc → Heap MLoc
  | 0, _, h => h
  | n + 1, i, h =>
    match load h s i with
    | some u => let r := rec h u; acLoop rec s n (i + 1) (store r.2 s i r.1)
    | none => h

/-- `asComplete(loc)`; `fuel` bounds the nesting depth (Go recurses on the value) -/
def asCompleteMem : Nat → Heap MLoc → MLoc → MLoc × Heap MLoc
  | 0, h, m => (m, h)
  | fuel + 1, h, m =>
    match m with
    | .leaf l => (.leaf l.asComplete, h)
    | .joined s => (.joined s, acLoop (asCompleteMem fuel) s s.len 0 h)
    | .ordered s => (.ordered s, acLoop (asCompleteMem fuel) s s.len 0 h)
    | .compl m => let r := asCompleteMem fuel h m; (.compl r.1, r.2)  -- since repair e43d5f2 (F37)

/-- read a location value out of memory -/
def readLoc : Nat → Heap MLoc → MLoc → Loc
  | 0, _, _ => default
  | _ + 1, _, .leaf l => l
  | fuel + 1, h, .joined s => .joined ((read h s).map (readLoc fuel h))
  | fuel + 1, h, .ordered s => .ordered ((read h s).map (readLoc fuel h))
  | fuel + 1, h, .compl m => .compl (readLoc fuel h m)

mutual
/-- build the location value `l` in newly allocated arrays (what `Expand`/`Join`/`Order` return) -/
def allocLoc : Loc → Heap MLoc → MLoc × Heap MLoc
  | .joined ls, h =>
    let r := allocList ls h
    (.joined ⟨r.2.length, 0, r.1.length, r.1.length⟩, r.2 ++ [r.1])
  | .ordered ls, h =>
    let r := allocList ls h
    (.ordered ⟨r.2.length, 0, r.1.length, r.1.length⟩, r.2 ++ [r.1])
  | .compl l, h => let r := allocLoc l h; (.compl r.1, r.2)
  | l, h => (.leaf l, h)
def allocList : List Loc → Heap MLoc → List MLoc × Heap MLoc
  | [], h => ([], h)
  | l :: ls, h =>
    let r := allocLoc l h
    let rs := allocList ls r.2
    (r.1 :: rs.1, rs.2)
end

/-- every slice header inside `m` points at an array with id `≥ n` -/
def RefsAbove (n : Nat) : MLoc → Prop
  | .leaf _ => True
  | .joined s => n ≤ s.arr
  | .ordered s => n ≤ s.arr
  | .compl m => RefsAbove n m

/-- the arrays with id `≥ n` only refer to arrays with id `≥ n` -/
def Closed (n : Nat) (h : Heap MLoc) : Prop := ∀ a, n ≤ a → ∀ c ∈ h.get a, RefsAbove n c

/-! ### `Origin.Bytes` (seqio/origin.go:72) — replace-and-flag on the `*Origin` -/

/-- `seqio.Origin` -/
structure OriginCell where
  buffer : Slice
  parsed : Bool
  deriving Repr, DecidableEq, Inhabited

/-- the byte heap and the `*Origin` cells (a pointer is an index) -/
structure OWorld where
  B : Heap UInt8
  O : List OriginCell

/-- `fromOriginLength` (seqio/origin.go:30) -/
def fromOriginLength (length : Nat) : Nat :=
  let lines := length / 76
  let ret := lines * 60
  let lastLine := length % 76
  if lastLine = 0 then ret
  else
    let lastLine := lastLine - 11
    ret + (lastLine / 11) * 10 + lastLine % 11

/-- the inner loop of `Origin.Bytes`: `for j := 0; j < 60 && i+j < length; j += 10` -/
def originBlocks (p : List UInt8) (length i : Nat) : Nat → Nat → Nat → List UInt8 → Nat × List UInt8
  | 0, _, start, acc => (start, acc)
  | fuel + 1, j, start, acc =>
    if j < 60 ∧ i + j < length then
      let start := start + 1
      let end_ := min (start + 10) (p.length - 1)
      originBlocks p length i fuel (j + 10) end_ (acc ++ (p.take end_).drop start)
    else (start, acc)

/-- the outer loop: `for i := 0; i < length; i += 60` -/
def originLines (p : List UInt8) (length : Nat) : Nat → Nat → Nat → List UInt8 → List UInt8
  | 0, _, _, acc => acc
  | fuel + 1, i, start, acc =>
    if i < length then
      let r := originBlocks p length i 7 0 (start + 9) acc
      originLines p length fuel (i + 60) (r.1 + 1) r.2
    else acc

/-- the residues `Origin.Bytes` extracts from the formatted text `p` (`len(p) ≥ 12`); the copies
go into `q := make([]byte, length)`, so the result is cut/padded to `length` -/
def originDecode (p : List UInt8) : List UInt8 :=
  let length := fromOriginLength p.length
  let q := originLines p length (length / 60 + 1) 0 0 []
  (q ++ List.replicate (length - q.length) 0).take length

/-- `(*Origin).Bytes()`; `de` is the text → residues function (`originDecode`) -/
def originBytes (de : List UInt8 → List UInt8) (w : OWorld) (o : Nat) : Slice × OWorld :=
  match w.O[o]? with
  | none => (Slice.nil, w)
  | some c =>
    if c.parsed then (c.buffer, w)
    else if c.buffer.len < 12 then (Slice.nil, w)
    else
      let v := de (read w.B c.buffer)
      let q := mk w.B v.length v.length
      (q.1, ⟨write q.2 q.1.arr q.1.off v, w.O.set o ⟨q.1, true⟩⟩)

/-- what `o.Bytes()` would return in world `w`, as a value -/
def obsBytes (de : List UInt8 → List UInt8) (w : OWorld) (o : Nat) : List UInt8 :=
  match w.O[o]? with
  | none => []
  | some c => if c.parsed then read w.B c.buffer else if c.buffer.len < 12 then [] else de (read w.B c.buffer)

/-- what `o.Len()` returns in world `w` -/
def obsLen (w : OWorld) (o : Nat) : Nat :=
  match w.O[o]? with
  | none => 0
  | some c => if c.buffer.len = 0 then 0 else if c.parsed then c.buffer.len else fromOriginLength c.buffer.len

/-- what `o.String()` returns in world `w`; `en` is `NewOrigin` (residues → text) -/
def obsString (en : List UInt8 → List UInt8) (w : OWorld) (o : Nat) : List UInt8 :=
  match w.O[o]? with
  | none => []
  | some c => if c.parsed then en (read w.B c.buffer) else read w.B c.buffer

/-! ### `Props` (props.go) — the mutators write through the receiver

`Props = [][]string`: an outer slice of row headers, every row a slice of strings.  `Set`, `Add`,
`Del` are mutators by design (pointer receiver); the sequence operations never call them.  What
matters for C11 is which arrays they can reach: `Feature{f.Key, loc, f.Props}` (Insert, Embed,
Delete, Slice, Rotate, Concat, Filter) SHARES the outer array and the rows between argument and
result, `f.Props.Clone()` (Reverse, Complement) does not. -/

/-- the heap of strings (rows) and the heap of row headers (outer arrays) -/
structure PWorld where
  R : Heap String
  P : Heap Slice

/-- `props.Index(key)`: first row whose element 0 is `key` -/
def propsIndex (w : PWorld) (p : Slice) (key : String) : Option Nat :=
  (read w.P p).findIdx? fun row => (read w.R row).head? == some key

/-- `props.Set(key, values...)` (props.go:50) -/
def propsSet (g : Grow) (w : PWorld) (p : Slice) (key : String) (values : List String) : Slice × PWorld :=
  let prop := mk w.R (values.length + 1) (values.length + 1)
  let R1 := write prop.2 prop.1.arr prop.1.off (key :: values)
  match propsIndex w p key with
  | none => let a := append g w.P p [prop.1]; (a.1, ⟨R1, a.2⟩)
  | some i => (p, ⟨R1, store w.P p i prop.1⟩)

/-- `props.Add(key, values...)` (props.go:62): `(*props)[i] = append((*props)[i], values...)` -/
def propsAdd (g : Grow) (w : PWorld) (p : Slice) (key : String) (values : List String) : Slice × PWorld :=
  match propsIndex w p key with
  | none => propsSet g w p key values
  | some i =>
    match load w.P p i with
    | some row => let a := append g w.R row values; (p, ⟨a.2, store w.P p i a.1⟩)
    | none => (p, w)

/-- `props.Del(key)` (props.go:71): `*props = append((*props)[:i], (*props)[i+1:]...)` -/
def propsDel (g : Grow) (w : PWorld) (p : Slice) (key : String) : Slice × PWorld :=
  match propsIndex w p key with
  | none => (p, w)
  | some i => let a := append g w.P (p.upto i) (read w.P (p.since (i + 1))); (a.1, ⟨w.R, a.2⟩)

/-- the loop of `Clone`: `ret[i] = make([]string, len(prop)); copy(ret[i], prop)` -/
def cloneRows (w : PWorld) (ret : Slice) : List Slice → Nat → PWorld
  | [], _ => w
  | row :: rows, i =>
    let r := mk w.R row.len row.len
    let R1 := copy r.2 r.1 (read r.2 row)
    cloneRows ⟨R1, store w.P ret i r.1⟩ ret rows (i + 1)

/-- `props.Clone()` (props.go:77) -/
def propsClone (w : PWorld) (p : Slice) : Slice × PWorld :=
  let ret := mk w.P p.len p.len
  (ret.1, cloneRows ⟨w.R, ret.2⟩ ret.1 (read w.P p) 0)

/-- the value of a `Props` -/
def readProps (w : PWorld) (p : Slice) : List (List String) := (read w.P p).map (read w.R)

end Gts.Mem
