/-
  The cache PROTOCOL of a cached `gts` subcommand (`/repo/cmd/gts/io.go`) when the cache-file
  WRITER fails: `Gts/Model/CacheProto.lean` (a writer that never fails, `closeOk` a flag) joined
  with the fault model of the cache file (`Gts/Model/CacheFault.lean`: `createF / writeF / closeF`,
  `runSession`).  Core Lean only.  Nothing of `CacheProto.lean` is changed; `stepF` without faults
  IS `step` (`Gts.C14.stepF_nofault`).

  What io.go does with each error (bug for bug):

      func (d *ioDelegate) Write(p []byte) (int, error) {
          if d.cache != nil {
              n, err := d.cache.Write(p)
              if err != nil { return n, err }        -- (1) the tee FAILS the command's own write:
          }                                          --     `p` never reaches the output
          n, err := d.outfile.Write(p)
          return n, err
      }

      // TryCache, after cache.Open failed
      f, err := cache.CreateLevel(dir, h, rsum, dsum, flate.BestSpeed)
      if err != nil && f != nil { os.Remove(f.Name()) }   -- (2) placeholder write failed: the NAME is
      d.cache = f                                         --     removed, but the tee is armed all the
      return false, nil                                   --     same (on the unlinked file);
                                                          --     `os.Create` failed: f == nil, no tee
      // Close
      if d.cache != nil {
          if err := d.cache.Close(); err != nil || !d.done {
              os.Remove(d.cache.Name())                   -- (3) every error of cache.Close() is swallowed:
          }                                               --     the entry is removed, `Close` returns nil
      }

  (1): the flate writer's first write error is sticky (`CacheFault.lean`), so after the first failed
  `d.cache.Write` EVERY later `d.Write` fails before it reaches the output: what the user sees is the
  concatenation of the chunks written before the failing call.  What the command body does with the
  error (all nineteen return it: exit status 1, no `Commit`) is a parameter (`onWriteError`).
  (3): the result of `os.Remove` is ignored in all three places; `os.Remove` may fail too (a cache
  directory that is not writable while the entry file is: `os.Create` of an EXISTING name needs no
  directory permission) — then whatever `cache.Close()` left stays under the entry's name.
-/
import Gts.Model.CacheProto
import Gts.Model.CacheFault
namespace Gts.CacheProto
open Gts.Cache

/-- what the command body does after one of its `Write` calls returned an error -/
structure Reaction where
  /-- exit status of the process -/
  status : Nat
  /-- `d.Commit()` was reached all the same (a body that ignores write errors) -/
  committed : Bool
  deriving DecidableEq, Repr

/-- a `World` plus what the protocol has to know about the body once writes can fail -/
structure FWorld (Cmd Input : Type) extends World Cmd Input where
  /-- the arguments of the successive `ioDelegate.Write` calls of the body (the `bufio` blocks);
  together they are `exec.out` (`FHyp.hchunks`) -/
  chunks : Cmd → Input → List Bytes
  /-- the body's reaction when its `k`-th `Write` call (counted from 0) is the first to fail -/
  onWriteError : Cmd → Input → Nat → Reaction

/-- `cache.CreateLevel` under faults -/
inductive CreateFault where
  /-- `os.Create` and the placeholder write work -/
  | works
  /-- `os.Create(name)` fails: `CreateLevel` returns `nil, err`; `d.cache = nil` -/
  | osCreate
  /-- the placeholder write fails after `k` zero bytes: `CreateLevel` returns the `*File` AND the error -/
  | placeholder (k : Nat)
  deriving DecidableEq, Repr

/-- **The fault schedule of one run**: which operation on the cache entry fails, if any. -/
structure Faults where
  create : CreateFault := .works
  /-- the `n`-th `d.cache.Write` of the tee: `some k` — a file write inside it failed, `k` bytes of the
  compressed stream are on disk (`writeF`); `none` or beyond the end of the list — it works -/
  writes : List (Option Nat) := []
  /-- the five fallible steps of `cache.File.Close` (`closeF`) -/
  close : CloseFaults := {}
  /-- `os.Remove(f.Name())` in `TryCache` (after a failed `CreateLevel`) fails -/
  rmCreate : Bool := false
  /-- `os.Remove(d.cache.Name())` in `Close` fails -/
  rmClose : Bool := false
  /-- `os.Remove(f.Name())` after a hit with `-o file` fails -/
  rmHit : Bool := false
  deriving DecidableEq, Repr

/-- the guard of the `…_partial` theorems: no `os.Remove` of the entry being written fails -/
def Faults.removeWorks (f : Faults) : Bool := !f.rmCreate && !f.rmClose

/-- no fault at all -/
def Faults.none : Faults := {}

/-- one invocation with its fault schedule (`Run` with `closeOk` replaced by the schedule) -/
structure FRun (Cmd Input : Type) where
  cmd : Cmd
  input : Input
  toFile : Bool
  nocache : Bool
  usable : Bool
  faults : Faults := {}

variable {Cmd Input : Type}

/-- the same invocation for the fault-free protocol -/
def FRun.toRun (r : FRun Cmd Input) (closeOk : Bool) : Run Cmd Input :=
  ⟨r.cmd, r.input, r.toFile, r.nocache, r.usable, closeOk⟩

/-- the `Write` calls of the body with the fault entry of each (a schedule that is too short is
padded with `none`) -/
def zipFaults : List Bytes → List (Option Nat) → List (Bytes × Option Nat)
  | [], _ => []
  | p :: ps, [] => (p, none) :: zipFaults ps []
  | p :: ps, f :: fs => (p, f) :: zipFaults ps fs

/-- the index of the first `Write` that returned an error -/
def firstErr : List (Option FErr) → Option Nat
  | [] => none
  | none :: t => (firstErr t).map (· + 1)
  | some _ :: _ => some 0

/-- the index of the first fault entry among the first `n` `Write` calls -/
def firstFault : Nat → List (Option Nat) → Option Nat
  | 0, _ => none
  | _ + 1, [] => none
  | n + 1, none :: t => (firstFault n t).map (· + 1)
  | _ + 1, some _ :: _ => some 0

/-- **the write fault that surfaces** in a run that tees: the first `Write` call of the body whose
fault entry is set -/
def surfaced (W : FWorld Cmd Input) (r : FRun Cmd Input) : Option Nat :=
  firstFault (W.chunks r.cmd r.input).length r.faults.writes

/-- what the user sees when the `k`-th `Write` is the first to fail: the chunks before it, and the
status the body exits with -/
def faultObserved (W : FWorld Cmd Input) (r : FRun Cmd Input) (k : Nat) : Observed :=
  ⟨((W.chunks r.cmd r.input).take k).flatten, (W.onWriteError r.cmd r.input k).status⟩

/-- the `CreateLevel; Write…; Close` session of a run whose `os.Create` worked; `cf` = the fault of
the placeholder write.  (Every chunk is listed: a `Write` after the first failed one returns the
sticky flate error without touching the file — `writeF` on a broken writer — so whether the body
goes on writing after an error does not matter.) -/
def sessionOf (W : FWorld Cmd Input) (r : FRun Cmd Input) (cf : Option Nat) : Session :=
  ⟨cf, zipFaults (W.chunks r.cmd r.input) r.faults.writes, r.faults.close⟩

/-- **A miss whose `os.Create` worked** (the tee is armed): what is under the entry's name
afterwards and what is observed. -/
def missF (W : FWorld Cmd Input) (r : FRun Cmd Input) (cf : Option Nat) : Option Bytes × Observed :=
  let o := W.exec r.cmd r.input
  let res := runSession W.H W.d W.deflate (W.rsum r.input) (W.dsum r.cmd) (sessionOf W r cf)
  -- `ioDelegate.Write`: the first failed `d.cache.Write` fails this and every later write of the body
  let werr := firstErr res.writeErrs
  let obs : Observed := match werr with
    | none => o.observed
    | some k => faultObserved W r k
  let committed : Bool := match werr with
    | none => o.committed
    | some k => (W.onWriteError r.cmd r.input k).committed
  -- `TryCache`: `if err != nil && f != nil { os.Remove(f.Name()) }`
  let linked := res.createErr.isNone || r.faults.rmCreate
  -- `Close`: `if err := d.cache.Close(); err != nil || !d.done { os.Remove(d.cache.Name()) }`
  let discard := res.closeErr.isSome || !committed
  let removed := discard && !r.faults.rmClose
  (if linked && !removed then some res.disk else none, obs)

/-- **One run under a fault schedule** against the cache directory `σ`. -/
def stepF (W : FWorld Cmd Input) (σ : Store) (r : FRun Cmd Input) : Store × Observed :=
  let o := W.exec r.cmd r.input
  if r.nocache || !r.usable || o.early then (σ, o.observed)
  else
    let rs := W.rsum r.input
    let qs := W.dsum r.cmd
    let n := name W.H rs qs
    match openAt W.H W.d σ rs qs with
    | .ok body =>
      match W.inflate body with
      | some w =>
        -- hit: `if d.outfile != os.Stdout { os.Remove(f.Name()) }`, result ignored
        (if r.toFile && !r.faults.rmHit then Store.set σ n none else σ, ⟨w, 0⟩)
      | none => (σ, ⟨W.inflatePrefix body ++ o.out, o.status⟩)
    | .error _ =>
      match r.faults.create with
      | .osCreate =>
        -- `CreateLevel` returned `nil, err`: `d.cache = nil`, the body runs uncached, the
        -- directory is as it was
        (σ, o.observed)
      | .works =>
        let m := missF W r none
        (Store.set σ n m.1, m.2)
      | .placeholder k =>
        let m := missF W r (some k)
        (Store.set σ n m.1, m.2)

/-- does the run tee into a cache file?  (not a bypass, `cache.Open` failed, `os.Create` worked) -/
def armed (W : FWorld Cmd Input) (σ : Store) (r : FRun Cmd Input) : Bool :=
  !(r.nocache || !r.usable || (W.exec r.cmd r.input).early) &&
    (match openAt W.H W.d σ (W.rsum r.input) (W.dsum r.cmd) with
      | .ok _ => false
      | .error _ => true) &&
    (match r.faults.create with
      | .osCreate => false
      | _ => true)

/-- a history of runs with their fault schedules over one shared directory -/
def historyF (W : FWorld Cmd Input) : Store → List (FRun Cmd Input) → Store × List Observed
  | σ, [] => (σ, [])
  | σ, r :: rs =>
    let s := stepF W σ r
    let h := historyF W s.1 rs
    (h.1, s.2 :: h.2)

/-- the directories a history passes through: before run 0, before run 1, … -/
def storesF (W : FWorld Cmd Input) : Store → List (FRun Cmd Input) → List Store
  | _, [] => []
  | σ, r :: rs => σ :: storesF W (stepF W σ r).1 rs

end Gts.CacheProto
