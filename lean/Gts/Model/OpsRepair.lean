/-
  Protocol ops of one area (see /verif/FRAMEWORK.md).  Not part of any theorem.  Core Lean only.

  `Repair` (property C12).
-/
import Gts.Model.Sexp
import Gts.Model.Repair
import Gts.Spec.RepairGuard
import Gts.Spec.RepairSortGuard
namespace Gts

def encRepairOutcome : RepairOutcome → String
  | .ok t => encList (t.map encFeature)
  | .panic => "PANIC"
  | .nilLoc => "NILLOC"

def decLocs? : Sexp → Option (List Loc)
  | .list ls => ls.mapM decLoc?
  | _ => none

/-- `Repair` with the recorded answers of `sort.Sort`: every class must come with a sorted
permutation of its members (`BADSORT` otherwise — the real `sort.Sort` broke its promise, or the
harness recorded something else); then `repairWith (assocSort …)`, a correct sort
(`Gts.C12.recorded_sort_correct`). -/
def repairSorted (t : Table) (sorted : List (List Loc)) (rev : Bool) : String :=
  let tbl := Table.sortTable t sorted
  if sorted.length == (Table.groups t).length && tbl.all (fun p => sortedPermB p.1 p.2) then
    let cs := if rev then (Table.groups t).reverse else Table.groups t
    encRepairOutcome (repairOrdWith (assocSort tbl) t cs)
  else "BADSORT"

def evalRepair (op : String) (args : List Sexp) : Option String :=
  match op, args with
  | "feat.repair", fs => do pure (encRepairOutcome (repair (← fs.mapM decFeature?)))
  | "feat.repair.rev", fs => do
      -- the same with the map iterated in the opposite order
      let t ← fs.mapM decFeature?
      pure (encRepairOutcome (repairOrd t (Table.groups t).reverse))
  | "c12.shape", fs => do
      let t ← fs.mapM decFeature?
      pure (encBool (Table.plain t) ++ encBool (Table.noNil t))
  | "c12.k2", fs => do pure (encBool (Table.k2 (← fs.mapM decFeature?)))
  | "feat.classkey", [f] => do pure (encStr (classKey (← decFeature? f)))
  | "feat.repair.sorted", [.list fs, .list ss] => do
      -- `Repair` when `sort.Sort` answers, class by class (first-occurrence order), the recorded lists
      let t ← fs.mapM decFeature?
      let sorted ← ss.mapM decLocs?
      pure (repairSorted t sorted false)
  | "feat.repair.sorted.rev", [.list fs, .list ss] => do
      let t ← fs.mapM decFeature?
      let sorted ← ss.mapM decLocs?
      pure (repairSorted t sorted true)
  | "c12.k2.sorted", [.list fs, .list ss] => do
      let t ← fs.mapM decFeature?
      let sorted ← ss.mapM decLocs?
      pure (encBool (Table.k2With (assocSort (Table.sortTable t sorted)) t))
  | "c12.sortshape", fs => do
      let t ← fs.mapM decFeature?
      pure (encBool (Table.sortIndep t) ++ encBool (Table.tieFreeT t) ++ encBool (Table.bigClass t))
  | _, _ => none

end Gts
