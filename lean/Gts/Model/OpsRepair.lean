/-
  Protocol ops of one area (see /verif/FRAMEWORK.md).  Not part of any theorem.  Core Lean only.

  `Repair` (property C12).
-/
import Gts.Model.Sexp
import Gts.Model.Repair
import Gts.Spec.RepairGuard
namespace Gts

def encRepairOutcome : RepairOutcome → String
  | .ok t => encList (t.map encFeature)
  | .panic => "PANIC"
  | .nilLoc => "NILLOC"

def evalRepair (op : String) (args : List Sexp) : Option String :=
  match op, args with
  | "feat.repair", fs => do pure (encRepairOutcome (repair (← fs.mapM decFeature?)))
  | "feat.repair.rev", fs => do
      -- the same with the map iterated in the opposite order
      let t ← fs.mapM decFeature?
      pure (encRepairOutcome (repairOrd t (Table.groups t).reverse))
  | "c12.shape", fs => do
      let t ← fs.mapM decFeature?
      pure (encBool (Table.plain t) ++ encBool (Table.noNil t))
  | "c12.k2", fs => do pure (encBool (Table.k2 (← fs.mapM decFeature?)))
  | "feat.classkey", [f] => do pure (encStr (classKey (← decFeature? f)))
  | _, _ => none

end Gts
