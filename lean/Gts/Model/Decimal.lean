/-
  Decimal printing of Go `int`s as bytes (`strconv.Itoa`, fmt verb `%d`), shared by the location
  and the modifier printers.  Core Lean only.
-/
import Gts.Model.Pars
namespace Gts
open Pars

/-- the ASCII digit of `d < 10` -/
def digitByte (d : Nat) : UInt8 := UInt8.ofNat (48 + d)

/-- decimal digits of `n`, most significant first (`fuel > n` suffices) -/
def natDigitsF : Nat → Nat → Bytes
  | 0, _ => []
  | f + 1, n => if n < 10 then [digitByte n] else natDigitsF f (n / 10) ++ [digitByte (n % 10)]

/-- `strconv.Itoa` of a natural number, as bytes -/
def natDigits (n : Nat) : Bytes := natDigitsF (n + 1) n

/-- `strconv.Itoa` / fmt verb `%d`: the decimal digits, with a leading `-` for negatives -/
def dec (n : Int) : Bytes := if n < 0 then 45 :: natDigits n.natAbs else natDigits n.toNat

/-- `strconv.Itoa` as a String (kept for the FASTA description model) -/
def itoa (n : Int) : String := toString n

end Gts
