/-
  Protocol op of C14 under writer faults (see /verif/FRAMEWORK.md).  Not part of any theorem.
  Core Lean only.

    cli.faulthist <run> x<pre> <L> <wstatus> <step>…

  One invocation of the binary, repeated over one fresh cache directory in changing environments.
    <run>     = the `(R …)` step of `cli.hist` (how to run it, payload variables, the observed
                `--no-cache` outcome, digest of the input)
    x<pre> <L> <wstatus>
              = what was observed of the run whose tee failed, if the history has one: a digest of
                the first `L` output bytes, `L`, the exit status (`L = -1`: no such run)
    <step>    = (N)                          a run in the normal environment
              | (T <k> <kind>)               tamper with the entry that first appeared after step k
              | (E <limit> <ro> <create> <write> <close>)
                  a run under a file-size limit of <limit> bytes (0 = none) in a cache directory that
                  is read-only (<ro> = 1: entries cannot be created or removed, an existing entry can
                  be truncated and rewritten); the SCHEDULE inferred from the observation:
                  <create> = k ≥ 0: the placeholder write failed after k bytes (-1: it worked),
                  <write> = 1: a `Write` of the tee failed (the output stopped after `L` bytes),
                  <close> = 1: the final flush inside `cache.Close()` failed.
  Answer per step `status:token:ids`, token = `full` (the `--no-cache` bytes) | `pre` (their first
  `L` bytes) | `pfx+full` (a non-empty proper prefix of them, then all of them) | `other`.

  The model `Gts.CacheProto.stepF` is instantiated with the observed body (`chunks = [pre, rest]`,
  `out = pre ++ rest`), the stand-in digest of `cli.hist`, and a codec whose truncated streams do not
  inflate.  A read-only directory is `create := .osCreate` when the entry does not exist and
  `rmCreate = rmClose = rmHit = true` when it does.
-/
import Gts.Model.OpsCli
import Gts.Model.CacheProtoFault
namespace Gts
open Gts.Cache Gts.CacheProto

/-- stand-in `deflate`: a frame around the bytes; a truncated frame does not inflate -/
def frameDeflate (w : List UInt8) : List UInt8 := 1 :: w ++ [2]

def frameInflate (s : List UInt8) : Option (List UInt8) :=
  if 2 ≤ s.length ∧ s.head? = some 1 ∧ s.getLast? = some 2 then some (s.drop 1).dropLast else none

/-- what the stand-in flate reader delivers before it fails -/
def pfxTag : List UInt8 := "PFX".toUTF8.toList

structure FaultCmd where
  payload : List UInt8
  outcome : Outcome
  chunks : List (List UInt8)
  wstatus : Nat

def faultHistWorld : FWorld FaultCmd (List UInt8) where
  H := standInDigest
  d := 8
  deflate := frameDeflate
  inflate := frameInflate
  inflatePrefix := fun _ => pfxTag
  exec := fun c _ => c.outcome
  payload := fun c => c.payload
  content := id
  chunks := fun c _ => c.chunks
  onWriteError := fun c _ _ => ⟨c.wstatus, false⟩

def faultToken (pre rest out : List UInt8) : String :=
  if out == pre ++ rest then "full"
  else if out == pre then "pre"
  else if out == pfxTag ++ (pre ++ rest) then "pfx+full"
  else "other"

def faultHistStep (c : FaultCmd) (root pre rest : List UInt8) (s : HistState) (k : Nat) :
    Sexp → Option HistState
  | .list [.atom "T", j, .atom kind] => do
    let j := (← decInt? j).toNat
    let σ' : Store := match s.first.find? (·.2 == j) with
      | some (n, _) => match s.σ n with
        | some f => Store.set s.σ n (some (tamper kind f))
        | none => s.σ
      | none => s.σ
    let s' := { s with σ := σ' }
    pure { s' with answers := s'.answers ++ ["T:" ++ s'.ids] }
  | step => do
    let faults : Faults ← match step with
      | .list [.atom "N"] => pure ({} : Faults)
      | .list [.atom "E", _, ro, create, write, close] => do
        let ro ← decBool? ro
        let create ← decInt? create
        let write ← decBool? write
        let close ← decBool? close
        let n := name standInDigest (standInDigest root) (standInDigest c.payload)
        let present := (s.σ n).isSome
        let cf : CreateFault :=
          if ro && !present then .osCreate
          else if create < 0 then .works else .placeholder create.toNat
        pure { create := cf, writes := if write then [none, some 1] else [],
               close := if close then { flush := some 1 } else {},
               rmCreate := ro, rmClose := ro, rmHit := ro }
      | _ => none
    let run : FRun FaultCmd (List UInt8) := ⟨c, root, false, false, true, faults⟩
    let n := name standInDigest (standInDigest root) (standInDigest c.payload)
    let (σ', obs) := stepF faultHistWorld s.σ run
    let s' : HistState := { s with σ := σ', names := if s.names.contains n then s.names else s.names ++ [n] }
    let s' := s'.note k
    pure { s' with answers := s'.answers ++ [s!"{obs.status}:{faultToken pre rest obs.out}:{s'.ids}"] }

def evalFaultHist : List Sexp → Option String
  | .list [.atom "R", .atom cmd, _, _, _, _, env, early, status, out, root] :: pre :: _ :: wstatus :: steps => do
    let env ← decEnv? env
    let status := (← decInt? status).toNat
    let early ← decBool? early
    let rest ← decBytes? out
    let root ← decBytes? root
    let pre ← decBytes? pre
    let wstatus := (← decInt? wstatus).toNat
    match Gen.Cli.commands.find? (·.name == cmd) with
    | none => pure ("NOCMD:" ++ cmd)
    | some c =>
      match payloadOf c env with
      | .error e => pure e
      | .ok p =>
        let o : Outcome := ⟨pre ++ rest, status, status == 0 && !early, early⟩
        let fc : FaultCmd := ⟨p, o, [pre, rest], wstatus⟩
        let mut s : HistState := ⟨emptyStore, [], [], []⟩
        let mut k := 0
        for st in steps do
          s ← faultHistStep fc root pre rest s k st
          k := k + 1
        pure (" ".intercalate s.answers)
  | _ => none

def evalCliFault (op : String) (args : List Sexp) : Option String :=
  match op with
  | "cli.faulthist" => evalFaultHist args
  | _ => none

end Gts
