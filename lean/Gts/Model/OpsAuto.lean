/-
  Protocol ops of one area (see /verif/FRAMEWORK.md).  Not part of any theorem.  Core Lean only.
  C17: `seqio.NewAutoScanner` with the real GenBank reader (`Gts.Model.AutoScan`).
    auto.scan (R …) x<text>   every record with its contents — `(fa x<desc> x<data>)` or `(gb <record>)` in
                              the record encoding of `gb.read` —, the names registered, OK|ERR; PANIC
    scan.auto x<text>         the C07 harness op: verdict and `kind:length` per record, default registry
-/
import Gts.Model.OpsGenBank
import Gts.Model.AutoScan
namespace Gts
open Gts.Auto

def encAutoRec : Rec → String
  | .fa d b => s!"(fa {encBytes d} {encBytes b})"
  | .gb r => s!"(gb {encRecord r})"

def evalAuto (op : String) (args : List Sexp) : Option String :=
  match op, args with
  | "auto.scan", [reg, t] => do
      match scanAll (← decRegistry? reg) (← decBytes? t) with
      | .panic => pure "PANIC"
      | .done rs reg' c =>
        pure s!"{encList (rs.map encAutoRec)} {encRegistry reg'} {if c then "OK" else "ERR"}"
  | "scan.auto", [t] => do
      match (scanAll GenBank.Registry.default (← decBytes? t)).summary with
      | none => pure "PANIC"
      | some (rs, c) =>
        let xs := rs.map fun p => (if p.1 then "gb:" else "fa:") ++ toString p.2
        pure s!"{if c then "OK" else "ERR"} [{" ".intercalate xs}]"
  | _, _ => none

end Gts
