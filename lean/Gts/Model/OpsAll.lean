/-
  Protocol dispatcher: the first area that knows the op answers.  Core Lean only.
-/
import Gts.Model.Ops
import Gts.Model.OpsOrigin
import Gts.Model.OpsNuc
import Gts.Model.OpsCache
import Gts.Model.OpsFeat
import Gts.Model.OpsIO
import Gts.Model.OpsMem
import Gts.Model.OpsCli
import Gts.Model.OpsCliFault
import Gts.Model.OpsReg
import Gts.Model.OpsGb
import Gts.Model.OpsLocator
import Gts.Model.OpsRepair
import Gts.Model.OpsParse
import Gts.Model.OpsGenBank
import Gts.Model.OpsKeyEnc
import Gts.Model.OpsGbSlice
import Gts.Model.OpsAuto
namespace Gts

def evalOp (op : String) (args : List Sexp) : Option String :=
  [evalCore, evalOrigin, evalNuc, evalCache, evalFeat, evalIO, evalMem, evalCli, evalCliFault, evalReg, evalGb, evalLocator, evalRepair, evalParse, evalGenBank, evalKeyEnc, evalGbSlice, evalAuto].firstM fun h => h op args

def evalLine (line : String) : String :=
  match Sexp.parseLine line with
  | .atom op :: args =>
    match evalOp op args with
    | some r => r
    | none => "BAD-OP"
  | _ => "BAD-OP"

end Gts
