/-
  Model of the part of github.com/go-pars/pars v1.1.6 that gts uses: a parser state with an
  explicit backtracking stack (Push / Pop / Drop / Clear), because several gts parsers return
  errors without restoring the position or leave frames on the stack, and `pars.Any` does not
  reset the position between alternatives.  Core Lean only.
-/
namespace Gts.Pars

abbrev Bytes := List UInt8

/-- parser state: remaining input, saved positions (as remaining inputs) -/
structure PS where
  rest : Bytes
  stk : List Bytes
  deriving Repr, Inhabited

inductive Err where
  | fail            -- an `error` value
  | panic           -- a Go run-time panic (index / slice out of range ...)
  deriving Repr, DecidableEq, Inhabited

abbrev P := ExceptT Err (StateM PS)

@[inline] def P.run' {α} (p : P α) (s : PS) : Except Err α × PS := (ExceptT.run p).run s

def getS : P PS := fun s => (.ok s, s)
def setS (s : PS) : P Unit := fun _ => (.ok (), s)
def fail {α} : P α := fun s => (.error .fail, s)
def panic {α} : P α := fun s => (.error .panic, s)

/-- run `p`; report failure as `none` keeping whatever state `p` left behind -/
def attempt {α} (p : P α) : P (Option α) := fun s =>
  match p s with
  | (.ok a, s') => (.ok (some a), s')
  | (.error .fail, s') => (.ok none, s')
  | (.error .panic, s') => (.error .panic, s')

/-- `pars.Next`: the next byte, or failure at the end of input (state unchanged) -/
def next : P UInt8 := do
  match (← getS).rest with
  | [] => fail
  | c :: _ => pure c

/-- `state.Request(1); state.Advance()` after a successful `Next` -/
def advance1 : P Unit := do
  let s ← getS
  setS { s with rest := s.rest.drop 1 }

def push : P Unit := do
  let s ← getS
  setS { s with stk := s.rest :: s.stk }

def pop : P Unit := do
  let s ← getS
  match s.stk with
  | [] => pure ()
  | r :: st => setS { rest := r, stk := st }

def drop : P Unit := do
  let s ← getS
  setS { s with stk := s.stk.drop 1 }

def pushed : P Bool := do return !(← getS).stk.isEmpty

def clear : P Unit := do
  let s ← getS
  setS { s with stk := [] }

/-- `state.Request(n)` succeeds iff `n` more bytes exist; returns them (`state.Buffer()`) -/
def request (n : Nat) : P Bytes := do
  let s ← getS
  if s.rest.length < n then fail else pure (s.rest.take n)

/-- `state.Advance()` after `Request(n)` -/
def advanceN (n : Nat) : P Unit := do
  let s ← getS
  setS { s with rest := s.rest.drop n }

/-- `pars.Trail`: bytes from the most recently pushed position up to here; pops that frame.
With an empty stack it returns nothing.  If the saved position lies *after* the current one
Go's slice expression panics. -/
def trail : P Bytes := do
  let s ← getS
  match s.stk with
  | [] => pure []
  | saved :: st =>
    if saved.length < s.rest.length then panic
    else
      let n := saved.length - s.rest.length
      setS { rest := saved.drop n, stk := st }
      pure (saved.take n)

def isDigit (c : UInt8) : Bool := 48 ≤ c && c ≤ 57
def isSpace (c : UInt8) : Bool := c == 32 || c == 9 || c == 10 || c == 11 || c == 12 || c == 13
def isUpper (c : UInt8) : Bool := 65 ≤ c && c ≤ 90
def isLower (c : UInt8) : Bool := 97 ≤ c && c ≤ 122
def isSnake (c : UInt8) : Bool := isUpper c || isLower c || isDigit c || c == 95

def digitsVal (ds : Bytes) : Nat := ds.foldl (fun acc d => acc * 10 + (d.toNat - 48)) 0

/-- `strconv.Atoi` on `[sign] digits` (the only shape `pars.Int` hands over); fails outside
the 64-bit range. -/
def atoi (p : Bytes) : Option Int :=
  let (neg, ds) := match p with
    | 45 :: r => (true, r)
    | 43 :: r => (false, r)
    | r => (false, r)
  if ds.isEmpty || !ds.all isDigit then none else
  let v : Int := digitsVal ds
  let v := if neg then -v else v
  if v < -9223372036854775808 ∨ 9223372036854775807 < v then none else some v

/-- advance while the next byte satisfies `f` -/
def skipWhile (f : UInt8 → Bool) : P Unit := do
  let s ← getS
  setS { s with rest := s.rest.dropWhile f }

/-- `pars.Int` -/
def int : P Int := do
  push
  let c ← next              -- failure leaks the frame, as in Go
  let c ← if c == 45 || c == 43 then do advance1; next else pure c
  if !isDigit c then do pop; fail
  else if c == 48 then do advance1; drop; pure 0
  else do
    skipWhile isDigit
    let p ← trail
    match atoi p with
    | some n => pure n
    | none => fail

/-- `pars.Spaces` -/
def spaces : P Bytes := do
  push
  skipWhile isSpace
  trail

/-- `pars.Word(filter)` -/
def word (f : UInt8 → Bool) : P Bytes := do
  push
  skipWhile f
  let p ← trail
  if p.isEmpty then fail else pure p

/-- `pars.EOL` -/
def eol : P Bytes := do
  match (← getS).rest with
  | [] => pure []
  | 10 :: _ => do advance1; pure [10]
  | 13 :: 10 :: _ => do advanceN 2; pure [13, 10]
  | 13 :: _ => do advance1; pure [13]
  | _ => fail

/-- `calculateLineLength`: (length of the line, number of terminator bytes to skip) -/
def calcLine : Bytes → Nat → Nat → Bool → Nat × Nat
  | [], i, n, _ => (i, n)
  | c :: r, i, n, cr =>
    if c == 10 && cr then (i - 1, n + 1)
    else if c == 10 then (i, n + 1)
    else if c == 13 then calcLine r (i + 1) (n + 1) true
    else if cr then (i - 1, n)
    else calcLine r (i + 1) n cr

/-- `pars.Line`: the token is the first `i` bytes; then `Skip(n)`, which does nothing at all
when fewer than `n` bytes remain. -/
def line : P Bytes := do
  let s ← getS
  let (i, n) := calcLine s.rest 0 0 false
  let r := s.rest.drop i
  setS { s with rest := if r.length < n then r else r.drop n }
  pure (s.rest.take i)

/-- `pars.String(s)` / `pars.Bytes(p)`: match a literal, restoring on mismatch -/
def lit (p : Bytes) : P Unit := do
  let s ← getS
  if s.rest.take p.length == p && p.length ≤ s.rest.length then advanceN p.length else fail

def str (s : String) : Bytes := s.toUTF8.toList

/-- index of the first byte that satisfies `f` -/
def indexWhere (f : UInt8 → Bool) : Bytes → Option Nat
  | [] => none
  | x :: xs => if f x then some 0 else (indexWhere f xs).map (· + 1)

/-- `pars.Until(filter)` (go-pars `untilFilter`): `Push`; `Next` / `Advance` byte by byte up to the
first byte the filter accepts, which is NOT consumed; the token is the `Trail` (it pops the frame).
At the end of the input `Pop` and an error: position and saved positions are as on entry. -/
def untilFilter (f : UInt8 → Bool) : P Bytes := do
  let s ← getS
  match indexWhere f s.rest with
  | none => fail
  | some i => do advanceN i; pure (s.rest.take i)

end Gts.Pars
