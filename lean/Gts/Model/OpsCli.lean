/-
  Protocol ops of the CLI area (see /verif/FRAMEWORK.md).  Not part of any theorem.  Core Lean only.

  C14:  cli.hist <step>…            a history of runs over one fresh cache directory
          step = (R <cmd> <args> <primary> <secs> <ofile> (<env>…) <early> <status> x<out> x<root>)
               | (T <k> <kind>)      tamper with the entry that first appeared after step k
        `<args> <primary> <secs>` tell the Go side how to run the real binary (ignored here);
        `<env>` = `(var x<value>)…`: the values of the variables the payload tuples of the
        GENERATED table `Gts.Gen.Cli` read directly (derived ones such as `filetype`, `guestSum`
        are computed by the Go side with the repository's own functions and passed as data);
        `<early> <status> x<out>`: the OBSERVED behaviour of the same invocation with `--no-cache`
        (`x<out>` a digest standing for the output bytes); `x<root>` a digest of the primary input.
        The protocol model `Gts.CacheProto.step` is instantiated with that observed `exec`, a
        stand-in digest (FNV-1a 64) and the identity codec, and must predict, for every step,
        `status:outdigest:ids` — ids = the entries present afterwards, each named by the index of
        the step after which it first appeared.  Hit / miss / removal are thereby compared too.

  C15:  cli.delete / cli.insert / cli.infix / cli.split / cli.rotate / cli.extract — see below.
-/
import Gts.Model.Sexp
import Gts.Model.CacheProto
import Gts.Model.Cli
import Gts.Model.Locator
import Gts.Gen.Cli
namespace Gts
open Gts.Cache Gts.CacheProto

/-! ### C14 -/

/-- FNV-1a, 64 bit, big-endian: the model's stand-in for SHA-1 (size 8) -/
def standInDigest (b : List UInt8) : List UInt8 :=
  let h : UInt64 := b.foldl (fun h c => (h ^^^ c.toUInt64) * 1099511628211) 14695981039346656037
  (List.range 8).map fun i => (h >>> (UInt64.ofNat (8 * (7 - i)))).toUInt8

structure HistRun where
  cmd : String
  env : List (String × List UInt8)
  toFile : Bool
  outcome : Outcome
  root : List UInt8

/-- the model's rendering of `encodePayload([]tuple{…})`: for every tuple of the generated table,
its key and the values of the variables it reads directly (an injective encoding) -/
def payloadOf (c : Gen.Cli.Command) (env : List (String × List UInt8)) : Except String (List UInt8) := do
  let mut out : List UInt8 := []
  for t in c.payload do
    out := out ++ t.key.toUTF8.toList ++ [0]
    for v in t.direct do
      match env.lookup v with
      | some x => out := out ++ v.toUTF8.toList ++ [0] ++ (toString x.length).toUTF8.toList ++ [0] ++ x
      | none => throw ("NOENV:" ++ c.name ++ ":" ++ v)
    out := out ++ [1]
  pure out

def histWorld : World (List UInt8 × Outcome) (List UInt8) where
  H := standInDigest
  d := 8
  deflate := id
  inflate := some
  inflatePrefix := fun _ => []
  exec := fun c _ => c.2
  payload := fun c => c.1
  content := id

def tamper (kind : String) (f : List UInt8) : List UInt8 :=
  match kind with
  | "flip" => match f.reverse with
    | [] => []
    | c :: r => ((c ^^^ 1) :: r).reverse
  | "hdr" => match f with
    | [] => []
    | c :: r => (c ^^^ 1) :: r
  | "trunc" => f.take 10
  | _ => []

def decEnv? : Sexp → Option (List (String × List UInt8))
  | .list xs => xs.mapM fun
      | .list [.atom v, x] => do pure (v, ← decBytes? x)
      | _ => none
  | _ => none

structure HistState where
  σ : Store
  names : List String            -- every entry name that may exist
  first : List (String × Nat)    -- name ↦ index of the step after which it first appeared
  answers : List String

def HistState.note (s : HistState) (k : Nat) : HistState :=
  { s with first := s.names.foldl (fun acc n =>
      if (s.σ n).isSome && (acc.lookup n).isNone then acc ++ [(n, k)] else acc) s.first }

def insertNat (x : Nat) : List Nat → List Nat
  | [] => [x]
  | y :: ys => if x ≤ y then x :: y :: ys else y :: insertNat x ys

def HistState.ids (s : HistState) : String :=
  let present := s.first.filter fun p => (s.σ p.1).isSome
  ",".intercalate ((present.foldl (fun acc p => insertNat p.2 acc) []).map toString)

def histStep (s : HistState) (k : Nat) : Sexp → Option HistState
  | .list [.atom "R", .atom cmd, _, _, _, ofile, env, early, status, out, root] => do
    let env ← decEnv? env
    let status := (← decInt? status).toNat
    let early ← decBool? early
    let out ← decBytes? out
    let root ← decBytes? root
    let toFile ← decBool? ofile
    match Gen.Cli.commands.find? (·.name == cmd) with
    | none => pure { s with answers := s.answers ++ ["NOCMD:" ++ cmd] }
    | some c =>
      match payloadOf c env with
      | .error e => pure { s with answers := s.answers ++ [e] }
      | .ok p =>
        -- `Commit()` is reached exactly by the runs that exit 0 (C14 `commit_last`)
        let o : Outcome := ⟨out, status, status == 0 && !early, early⟩
        let run : Run (List UInt8 × Outcome) (List UInt8) := ⟨(p, o), root, toFile, false, true, true⟩
        let n := histWorld.entry run.cmd run.input
        let (σ', obs) := step histWorld s.σ run
        let s' : HistState := { s with σ := σ', names := if s.names.contains n then s.names else s.names ++ [n] }
        let s' := s'.note k
        pure { s' with answers := s'.answers ++ [s!"{obs.status}:{(encBytes obs.out).drop 1}:{s'.ids}"] }
  | .list [.atom "T", j, .atom kind] => do
    let j := (← decInt? j).toNat
    let σ' : Store := match s.first.find? (·.2 == j) with
      | some (n, _) => match s.σ n with
        | some f => Store.set s.σ n (some (tamper kind f))
        | none => s.σ
      | none => s.σ
    let s' := { s with σ := σ' }
    pure { s' with answers := s'.answers ++ ["T:" ++ s'.ids] }
  | _ => none

def evalHist (steps : List Sexp) : Option String := do
  let mut s : HistState := ⟨emptyStore, [], [], []⟩
  let mut k := 0
  for st in steps do
    s ← histStep s k st
    k := k + 1
  pure (" ".intercalate s.answers)

/-! ### C15

  The binary's output is observed through the text format: the Go side parses it back with
  `seqio`.  The model's records go through the same observation: every feature location is printed
  and parsed again (`Gts/Model/LocText.lean`, tied by C06), FASTA output carries no features.

    cli.delete  <Q> x<locator> <erase> <circ> <fasta>            → (<Q'>) <tops>
    cli.insert  <Qhost> x<locator> <embed> <circ> <fasta> <Qguest> → (<Q'>) <tops>      (also cli.infix)
    cli.split   <Q> x<locator> <circ> <fasta>                    → (<Q'>…) <tops>
    cli.rotate  <Q> x<locator> <circ> <fasta>                    → (<Q'>) <tops>
    cli.extract <Q> (x<locator>…) <invert> <circ> <fasta>        → (<Q'>…) <tops>

  `<tops>`: one letter per output record, `L`inear / `C`ircular (`-` for FASTA).
-/

def rtLoc (l : Loc) : Loc :=
  match parseLocation l.printB with
  | .ok (l', []) => l'
  | _ => l

def observeSeq (fasta : Bool) (s : Seq) : Seq :=
  if fasta then ⟨[], s.bytes⟩ else ⟨s.feats.map fun f => { f with loc := rtLoc f.loc }, s.bytes⟩

def encObserved (fasta : Bool) (tops : List Bool) (ss : List Seq) : String :=
  encList (ss.map fun s => encSeq (observeSeq fasta s)) ++ " " ++
    (if fasta then "-" else String.ofList (tops.map fun c => if c then 'C' else 'L'))

def locatorOf (s : Sexp) : Option (Seq → List Reg) := do
  let d := asLocator (fun _ => true) (← decBytes? s)
  pure (d.apply selectorMatch)

def evalCli (op : String) (args : List Sexp) : Option String :=
  match op, args with
  | "cli.hist", steps => evalHist steps
  | "cli.delete", [q, loc, erase, circ, fasta] => do
      let out := Cli.delete (← locatorOf loc) (← decBool? erase) (← decSeq? q)
      pure (encObserved (← decBool? fasta) [← decBool? circ] [out])
  | "cli.insert", [q, loc, embed, circ, fasta, g] => do
      let out := Cli.insert (← locatorOf loc) (← decBool? embed) (← decSeq? q) (← decSeq? g)
      pure (encObserved (← decBool? fasta) [← decBool? circ] [out])
  | "cli.infix", [q, loc, embed, circ, fasta, g] => do
      let out := Cli.insert (← locatorOf loc) (← decBool? embed) (← decSeq? q) (← decSeq? g)
      pure (encObserved (← decBool? fasta) [← decBool? circ] [out])
  | "cli.split", [q, loc, circ, fasta] => do
      let l ← locatorOf loc
      let s ← decSeq? q
      let circ ← decBool? circ
      let fasta ← decBool? fasta
      -- no located region: the record is written as it is (topology kept); else every piece is linear
      if (l s).isEmpty then pure (encObserved fasta [circ] [s])
      else
        let outs := Cli.split l circ s
        pure (encObserved fasta (outs.map fun _ => false) outs)
  | "cli.rotate", [q, loc, _, fasta] => do
      let out := Cli.rotate (← locatorOf loc) (← decSeq? q)
      pure (encObserved (← decBool? fasta) [true] [out])
  | "cli.extract", [q, .list locs, inv, _, fasta] => do
      let ls ← locs.mapM locatorOf
      let inv ← decBool? inv
      let s ← decSeq? q
      let outs := Cli.extract ls inv s
      let fasta ← decBool? fasta
      pure (encObserved fasta (outs.map fun _ => false) outs)
  | _, _ => none

end Gts
