/-
  Executable model of /repo/nucleotide.go (replaceBytes, Complement, Transcribe, Match) and of
  /repo/sequence.go bytesIndexAll / Search.  Core Lean only.

  The finite tables (the alphabets handed to replaceBytes, the `switch c` of Match) are NOT
  written here: they come from `Gts.Gen` (regenerated from the Go AST by go2lean on every
  check), so that a changed letter changes the model.

  Scope: `Match` and `Search` are modelled for ASCII input (every byte < 0x80).  On such input
  `bytes.ToLower` is the byte-wise ASCII map, a regexp "character" is one byte, and
  `string(c)` is the one-byte string.  `Complement` / `Transcribe` are byte-wise on all 256
  byte values.
-/
import Gts.Gen.Nucleotide
import Gts.Model.Region
namespace Gts.Nuc
open Gts Gts.Reg

/-! ### replaceBytes, Complement, Transcribe (nucleotide.go 10-51) -/

/-- `bytes.IndexByte(old, c)`; `none` is Go's `-1` -/
def indexByte : List UInt8 → UInt8 → Option Nat
  | [], _ => none
  | x :: xs, c => if x == c then some 0 else (indexByte xs c).map (· + 1)

/-- body of the loop of `replaceBytes`: `q[i] = c` when `c` is not in `old`, else `new[j]`;
`none` = index out of range (Go panics) -/
def replaceByte (old new : List UInt8) (c : UInt8) : Option UInt8 :=
  match indexByte old c with
  | none => some c
  | some j => new[j]?

/-- `replaceBytes(p, old, new)`; `none` = panic -/
def replaceBytes (p old new : List UInt8) : Option (List UInt8) :=
  match p with
  | [] => some []
  | c :: cs =>
    match replaceByte old new c, replaceBytes cs old new with
    | some x, some xs => some (x :: xs)
    | _, _ => none

/-- the residues of `Complement(seq)` -/
def complementBytes (p : List UInt8) : Option (List UInt8) :=
  replaceBytes p Gen.complementFrom Gen.complementTo

/-- the residues of `Transcribe(seq)` -/
def transcribeBytes (p : List UInt8) : Option (List UInt8) :=
  replaceBytes p Gen.transcribeFrom Gen.transcribeTo

/-- what `Complement` does to one byte (`c` itself on the impossible panic path, see
`Gts.Nuc.complementBytes_eq_map`) -/
def complementByte (c : UInt8) : UInt8 :=
  (replaceByte Gen.complementFrom Gen.complementTo c).getD c

/-- what `Transcribe` does to one byte -/
def transcribeByte (c : UInt8) : UInt8 :=
  (replaceByte Gen.transcribeFrom Gen.transcribeTo c).getD c

/-! ### bytes.ToLower on ASCII -/

/-- `bytes.ToLower` on one ASCII byte -/
def lowerByte (c : UInt8) : UInt8 := if 65 ≤ c ∧ c ≤ 90 then c + 32 else c

/-- `bytes.ToLower(p)` for ASCII `p` -/
def toLower (p : List UInt8) : List UInt8 := p.map lowerByte

/-! ### Match (nucleotide.go 53-111) -/

/-- one position of the regular expression that `Match` builds -/
inductive Pat where
  /-- `[…]`: a plain character class -/
  | cls (bs : List UInt8)
  /-- `.`: any character except newline (Go regexp without the `s` flag) -/
  | any
  /-- `regexp.QuoteMeta(string(c))`: the literal character `c` -/
  | lit (c : UInt8)
  /-- text the model does not interpret (raw pattern syntax; go2lean only lets through `.`
  and plain classes, so this arises only for an unquoted `default` clause) -/
  | bad
  deriving Repr, DecidableEq, Inhabited

/-- meaning of the text a `case` writes: `"."` or `"[" letters "]"` -/
def parseClass (t : List UInt8) : Pat :=
  if t = [46] then .any
  else match t with
    | 91 :: rest => if rest.getLast? = some 93 then .cls rest.dropLast else .bad
    | _ => .bad

/-- the `switch c`: first clause whose case list contains `c` -/
def lookupCase : List (List UInt8 × List UInt8) → UInt8 → Option (List UInt8)
  | [], _ => none
  | (ks, t) :: rest, c => if ks.contains c then some t else lookupCase rest c

/-- what one (lower-cased) query byte contributes to the pattern -/
def patOf (c : UInt8) : Pat :=
  match lookupCase Gen.matchCases c with
  | some t => parseClass t
  | none => if Gen.matchDefaultQuoted then .lit c else .bad

/-- does this pattern position accept the sequence byte `c`? -/
def Pat.accepts : Pat → UInt8 → Bool
  | .cls bs, c => bs.contains c
  | .any, c => c != 10
  | .lit l, c => c == l
  | .bad, _ => false

/-- the whole pattern: one position per byte of `bytes.ToLower(query.Bytes())` -/
def pattern (query : List UInt8) : List Pat := (toLower query).map patOf

/-- anchored match of the pattern at the front of `s` -/
def matchAt : List Pat → List UInt8 → Bool
  | [], _ => true
  | _ :: _, [] => false
  | p :: ps, c :: cs => p.accepts c && matchAt ps cs

/-- `re.FindAllIndex(p, -1)` for a pattern of single-character positions: scan left to right,
report the leftmost window that matches, continue after its end (matches never overlap).
`pos` is the offset of the head of the remaining input, `skip` the number of bytes still
covered by the last reported window.  Returns the start offsets. -/
def scan (pat : List Pat) : List UInt8 → Nat → Nat → List Nat
  | [], _, _ => []
  | _ :: cs, pos, skip + 1 => scan pat cs (pos + 1) skip
  | c :: cs, pos, 0 =>
    if matchAt pat (c :: cs) then pos :: scan pat cs (pos + 1) (pat.length - 1)
    else scan pat cs (pos + 1) 0

/-- `Segment{i, i+w}` -/
def toSeg (w i : Nat) : Seg := ((i : Int), ((i + w : Nat) : Int))

/-- start offsets reported by the regexp scan in `Match(seq, query)` -/
def matchStarts (seq query : List UInt8) : List Nat :=
  scan (pattern query) (toLower seq) 0 0

/-- `Match(seq, query)` -/
def matchSegs (seq query : List UInt8) : List Seg :=
  if seq.length = 0 ∨ query.length = 0 then []
  else sortSegs ((matchStarts seq query).map (toSeg (pattern query).length))

/-- `Match` panics (in `regexp.MustCompile`) or leaves the modelled pattern language exactly
when some position is `bad` -/
def matchModelled (query : List UInt8) : Bool := (pattern query).all (· != .bad)

/-! ### bytesIndexAll, Search (sequence.go 358-385) -/

/-- all offsets at which `sep` starts in `s`, ascending; `pos` = offset of the head of `s` -/
def occ (sep : List UInt8) : List UInt8 → Nat → List Nat
  | [], _ => []
  | c :: cs, pos =>
    if sep.isPrefixOf (c :: cs) then pos :: occ sep cs (pos + 1) else occ sep cs (pos + 1)

/-- `bytesIndexAll(s, sep)` = `suffixarray.New(s).Lookup(sep, -1)`: every offset where `sep`
occurs, *in no particular order* (the model lists them ascending; callers must not depend on
the order — `Search` sorts); `nil` for an empty `sep`. -/
def indexAll (s sep : List UInt8) : List Nat :=
  if sep = [] then [] else occ sep s 0

/-- `Search(seq, query)` -/
def search (seq query : List UInt8) : List Seg :=
  if seq.length = 0 ∨ query.length = 0 then []
  else
    let s := toLower seq
    let sep := toLower query
    sortSegs ((indexAll s sep).map (toSeg sep.length))

end Gts.Nuc
