/-
  Protocol ops of one area (see /verif/FRAMEWORK.md).  Not part of any theorem.  Core Lean only.
  C07: seqio.AsDate, the writer's date stamp, gts.AsMolecule, gts.AsTopology.

    date.parse x<s>     → (D year month day) | ERR | PANIC     seqio.AsDate
    date.fmt y m d      → x<stamp>                              strings.ToUpper(Date{y,m,d}.ToTime().Format("02-Jan-2006"))
    mol.parse x<s>      → x<molecule> | ERR | PANIC            gts.AsMolecule
    top.parse x<s>      → 0 | 1 | ERR | PANIC                  gts.AsTopology
-/
import Gts.Model.Sexp
import Gts.Model.Date
import Gts.Model.MolTop
namespace Gts

def evalParse (op : String) (args : List Sexp) : Option String :=
  match op, args with
  | "date.parse", [s] => do
      match Date.asDate (← decBytes? s) with
      | .ok d => pure s!"(D {d.year} {d.month} {d.day})"
      | .error .fail => pure "ERR"
      | .error .panic => pure "PANIC"
  | "date.fmt", [y, m, d] => do
      let m ← decInt? m
      pure (encBytes (Date.fmtDate ⟨← decInt? y, m.toNat, ← decInt? d⟩))
  | "mol.parse", [s] => do
      match MolTop.asMolecule (← decBytes? s) with
      | .ok b => pure (encBytes b)
      | .error .fail => pure "ERR"
      | .error .panic => pure "PANIC"
  | "top.parse", [s] => do
      match MolTop.asTopology (← decBytes? s) with
      | .ok t => pure (toString t)
      | .error .fail => pure "ERR"
      | .error .panic => pure "PANIC"
  | _, _ => none

end Gts
