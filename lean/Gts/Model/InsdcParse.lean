/-
  Reader of the INSDC feature table on the `Gts.Pars` state model (seqio/insdc.go:184-480):
  `qualifierNameParser`, `quotedQualifierParser` (with `pars.Quoted`), `literalQualifierParser`,
  the toggle parser (`pars.EOL`), `QualifierParser` incl. the LEARNING of unknown names (the
  registry is explicit state: every parser takes the registry and returns the new one),
  `featureKeylineParser`, `INSDCTableParser`.  Statement by statement, including what a failing
  parser leaves behind (position, stack frames), because `pars.Many` and the key-line loop do not
  restore anything.  Core Lean only.
-/
import Gts.Model.GenBank
namespace Gts.GenBank
open Gts.Pars

/-! ### `pars.Quoted('"')` = `pars.Between('"', '"')` -/

/-- the scan of `Between` behind the opening quote, counting the bytes up to (excluding) the
closing quote; `esc` = the previous byte was a backslash, so this byte is skipped; `none` = end of
input before a closing quote -/
def scanQ : Bool → Bytes → Nat → Option Nat
  | _, [], _ => none
  | true, _ :: r, k => scanQ false r (k + 1)
  | false, c :: r, k =>
    if c = 34 then some k else if c = 92 then scanQ true r (k + 1) else scanQ false r (k + 1)

def scanQuoted (r : Bytes) (k : Nat) : Option Nat := scanQ false r k

/-- `pars.Quoted('"')`: on success the token is the raw text between the quotes (backslashes
kept) and the state is behind the closing quote; on failure the state is restored -/
def quoted : P Bytes := do
  let s ← getS
  match s.rest with
  | 34 :: r =>
    match scanQuoted r 0 with
    | some k => do setS { s with rest := r.drop (k + 1) }; pure (r.take k)
    | none => fail
  | _ => fail

/-! ### the three value parsers -/

/-- first index at which `pat` occurs in `t` (`bytes.Index`) -/
def findSub (pat : Bytes) : Bytes → Nat → Option Nat
  | [], i => if pat.isEmpty then some i else none
  | c :: t, i => if pat.isPrefixOf (c :: t) then some i else findSub pat t (i + 1)

/-- the loop of `quotedQualifierParser` BEFORE 2612fae (kept as the old reading; the model no longer
calls it): while `"\n" ++ prefix` occurs, delete that occurrence of the prefix — the search
restarted at the beginning of the token every time and the tail was copied down once per round
(known finding K7E, quadratic time).  With an empty prefix the Go loop never ended; the fuel ends it
here.  `stripCont_onepass_eq` (Gts/Lemmas/GbStripOnePass.lean): for a non-empty prefix the loop of
today returns the same value. -/
def stripContOld (pre : Bytes) : Nat → Bytes → Bytes
  | 0, t => t
  | f + 1, t =>
    match findSub (10 :: pre) t 0 with
    | none => t
    | some i => stripContOld pre f (t.take (i + 1) ++ t.drop (i + 1 + pre.length))

/-- the loop `for r := 0; r < len(token); r++` of `quotedQualifierParser` (since 2612fae): one pass,
every byte of the token is moved once.  `acc` is `token[:w]`, the value so far, REVERSED (its head is
the byte moved last), the list is `token[r:]`, `rp` is `p = "\n" ++ prefix` reversed and `k` is
`len(prefix)`: `token[w] = token[r]; w++` puts the byte on `acc`, and when `token[:w]` now ends with
`p` (`bytes.HasSuffix`) the prefix is cut off again (`w -= len(prefix)`; the line feed stays).  At the
end of the token the value is `token[:w]`. -/
def stripLoop (rp : Bytes) (k : Nat) : Bytes → Bytes → Bytes
  | acc, [] => acc.reverse
  | acc, c :: t =>
    if rp.isPrefixOf (c :: acc) then stripLoop rp k ((c :: acc).drop k) t
    else stripLoop rp k (c :: acc) t

/-- what `quotedQualifierParser(prefix)` makes of the raw text between the quotes: the continuation
indent is taken out behind every line feed (a counted loop over the token: no fuel; with the empty
prefix nothing is cut off and the token comes back as it is) -/
def stripCont (pre : Bytes) (t : Bytes) : Bytes :=
  stripLoop (10 :: pre).reverse pre.length [] t

/-- `quotedQualifierParser(prefix)` -/
def quotedValue (pre : Bytes) : P Bytes := do
  push
  let c ← (do match ← attempt next with | some c => pure c | none => do pop; fail)
  if c != 61 then do pop; fail
  advance1
  let tok ← (do match ← attempt quoted with | some t => pure t | none => do pop; fail)
  drop
  let _ ← attempt eol
  pure (stripCont pre tok)

/-- the continuation loop of `literalQualifierValueParser` (a frame is on the stack) -/
def literalMore (pre : Bytes) : Nat → Bytes → P Bytes
  | 0, p => do drop; pure p
  | f + 1, p => do
    match ← attempt (lit pre) with
    | none => do drop; pure p
    | some _ =>
      match ← attempt next with
      | none => do pop; pure p            -- the error is discarded by `literalQualifierParser`
      | some c =>
        if c == 47 then do pop; pure p
        else do
          let l ← line
          drop; push
          literalMore pre f (p ++ 10 :: l)

/-- `literalQualifierParser(prefix)` -/
def literalValue (pre : Bytes) : P Bytes := do
  push
  let c ← (do match ← attempt next with | some c => pure c | none => do pop; fail)
  if c != 61 then do pop; fail
  advance1
  let l ← line
  push
  let n := (← getS).rest.length
  let v ← literalMore pre (n + 1) l
  drop
  pure v

/-- `qualifierNameParser(prefix)`: the literal `prefix ++ "/"`, then a snake-case word; a missing
word leaves the state behind the slash -/
def qualifierName (pre : Bytes) : P Bytes := do
  lit (pre ++ [47])
  word isSnake

/-- `RegisterQuotedQualifier` &c. -/
def Registry.addQuoted (reg : Registry) (n : Bytes) : Registry := { reg with quoted := n :: reg.quoted }
def Registry.addLiteral (reg : Registry) (n : Bytes) : Registry := { reg with literal := n :: reg.literal }
def Registry.addToggle (reg : Registry) (n : Bytes) : Registry := { reg with toggle := n :: reg.toggle }

/-- `QualifierParser(prefix)`: name, then the value parser of the name's registered type.  An
unknown name is tried as quoted, literal, toggle in this order and registered under the first
type that parses; if none does, NOTHING fails: the value is the stale token, i.e. the name.
The value of a name that is (or has just been learned as) a toggle is empty (repo 2dd2956). -/
def qualifier (pre : Bytes) (reg : Registry) : P ((Bytes × Bytes) × Registry) := do
  let name ← qualifierName pre
  match reg.typeOf name with
  | .quoted => do let v ← quotedValue pre; pure ((name, v), reg)
  | .literal => do let v ← literalValue pre; pure ((name, v), reg)
  | .toggle => do let _ ← eol; pure ((name, []), reg)      -- 2dd2956: a toggle has no value
  | .unknown =>
    match ← attempt (quotedValue pre) with
    | some v => pure ((name, v), reg.addQuoted name)
    | none =>
      match ← attempt (literalValue pre) with
      | some v => pure ((name, v), reg.addLiteral name)
      | none =>
        match ← attempt eol with
        | some _ => pure ((name, []), reg.addToggle name)
        | none => pure ((name, name), reg)

/-- `pars.Many(qualifierParser)`: until the first failure, whose leftovers stay -/
def qualifiers (pre : Bytes) : Nat → Registry → List (Bytes × Bytes) → P (List (Bytes × Bytes) × Registry)
  | 0, reg, acc => pure (acc.reverse, reg)
  | f + 1, reg, acc => do
    match ← attempt (qualifier pre reg) with
    | some (q, reg') => qualifiers pre f reg' (q :: acc)
    | none => pure (acc.reverse, reg)

/-- `Props.Add(name, value)` -/
def propsAdd : List (List Bytes) → Bytes → Bytes → List (List Bytes)
  | [], n, v => [[n, v]]
  | row :: rest, n, v =>
    if row.head? = some n then (row ++ [v]) :: rest else row :: propsAdd rest n v

def propsOfItems (qs : List (Bytes × Bytes)) : List (List Bytes) :=
  qs.foldl (fun ps q => propsAdd ps q.1 q.2) []

/-! ### key lines and the table -/

/-- `gts.ParseLocation` with the recursion fuel of `parseLocation` -/
def location : P Loc := do
  let s ← getS
  LocParse.loc (s.rest.length + 2)

/-- `for i := 0; i < n; i++ { Next; c == ' '; Advance }` -/
def blanks : Nat → P Unit
  | 0 => pure ()
  | n + 1 => do
    let c ← next
    if c != 32 then fail
    advance1
    blanks n

/-- `featureKeylineParser(prefix, depth)` with `prefix` = `pre` blanks -/
def keyline (pre depth : Nat) : P (Bytes × Loc) := do
  lit (sp pre)
  let key ← word isSnake
  blanks (depth - (pre + key.length))
  let l ← location
  let _ ← eol
  pure (key, l)

/-- `firstParser`: `Seq("", Spaces, Word(IsSnake), Spaces, ParseLocation, EOL).Map(…)`:
(pre, key, pst, location); restores the position on failure -/
def firstKeyline : P (Nat × Bytes × Nat × Loc) := do
  push; push
  let back : P Unit := do pop; pop
  let a ← spaces
  let key ← (do match ← attempt (word isSnake) with | some k => pure k | none => do back; fail)
  let b ← spaces
  let l ← (do match ← attempt location with | some l => pure l | none => do back; fail)
  match ← attempt eol with
  | none => do back; fail
  | some _ => do drop; drop; pure (a.length, key, b.length, l)

/-- the loop over the further key lines -/
def tableMore (pre depth : Nat) : Nat → Registry → List QFeature → P (List QFeature × Registry)
  | 0, reg, acc => pure (acc.reverse, reg)
  | f + 1, reg, acc => do
    match ← attempt (keyline pre depth) with
    | none => pure (acc.reverse, reg)
    | some (key, l) =>
      let n := (← getS).rest.length
      let (qs, reg') ← qualifiers (sp depth) (n + 1) reg []
      tableMore pre depth f reg' (⟨key, l, propsOfItems qs⟩ :: acc)

/-- `INSDCTableParser("")` -/
def table (reg : Registry) : P (List QFeature × Registry) := do
  let (pre, key, pst, l) ← firstKeyline
  let depth := pre + key.length + pst
  let n := (← getS).rest.length
  let (qs, reg') ← qualifiers (sp depth) (n + 1) reg []
  tableMore pre depth (n + 1) reg' [⟨key, l, propsOfItems qs⟩]

end Gts.GenBank
