/-
  The cache PROTOCOL code of the CLI (`/repo/cmd/gts/io.go`) over a record of I/O primitives, and the machine
  on which it is the model.  Core Lean only.

  go2lean (iodelegatefn.go) regenerates `gtsCacheDir`, `newIODelegate`, `Commit`, `Write`, `Close`, `TryCache`
  as Lean FUNCTIONS over an ARBITRARY record `io : DelegateIO σ ε φ κ ν` (one field per external call shape, the
  state `s : σ` threaded through the effectful calls in statement order — the design of `Gts.Cache.FileIO` for
  cmd/cache, one level up): `Gts/Gen/IoDelegate.lean`.  So the translator fixes NO semantics of the I/O.
  `Gts/Bridge/IoDelegateFn.lean` proves what holds for EVERY `io` (a failing hit copy never reports a hit, …)
  and runs the generated functions on the machine `protoIO` below, whose primitives are given by the world and
  the store of `Gts/Model/CacheProto.lean`: one run of a cached command IS `CacheProto.step`.
-/
import Gts.Model.CacheProto
namespace Gts.CacheProto
open Gts.Cache

/-- io.go `type ioDelegate struct { infile, outfile *os.File; cache *cache.File; tmpin, done bool }`:
`φ` are the `*os.File` values, `κ` the `*cache.File` values (both with a `nil`) -/
structure Delegate (φ κ : Type) where
  infile : φ
  outfile : φ
  cache : κ
  tmpin : Bool
  done : Bool

/-- the external calls of io.go, one field per call shape.  `σ` the world, `ε` error values (`error` is
`Option ε`), `φ` / `κ` file and cache-file handles, `ν` what `Name()` returns (and `os.Remove` takes). -/
structure DelegateIO (σ ε φ κ ν : Type) where
  /-- `os.Stdin`, `os.Stdout` -/
  stdin : φ
  stdout : φ
  /-- the nil `*cache.File` -/
  nilCache : κ
  /-- `os.UserCacheDir()` -/
  userCacheDir : σ → σ × String × Option ε
  /-- `filepath.Join(a, b)` -/
  pathJoin : String → String → String
  /-- `os.MkdirAll(path, perm)` -/
  mkdirAll : String → Int → σ → σ × Option ε
  /-- `ioutil.TempFile(dir, pattern)` -/
  tempFile : String → String → σ → σ × φ × Option ε
  /-- `os.Open(path)`, `os.Create(path)` -/
  osOpen : String → σ → σ × φ × Option ε
  osCreate : String → σ → σ × φ × Option ε
  /-- `os.Remove(name)` -/
  osRemove : ν → σ → σ × Option ε
  /-- `f.Name()`, `f.Close()`, `f.Seek(off, io.SeekStart)`, `f.Write(p)` of an `*os.File` -/
  fileName : φ → ν
  fileClose : φ → σ → σ × Option ε
  fileSeek : φ → Int → σ → σ × Int × Option ε
  fileWrite : φ → Bytes → σ → σ × Int × Option ε
  /-- `io.Copy(dst, src)` between two `*os.File` -/
  copyFile : φ → φ → σ → σ × Int × Option ε
  /-- the one `hash.Hash`: `h.Reset()`, `h.Write(p)` (never fails), `h.Sum(nil)`, `io.Copy(h, f)` -/
  hashReset : σ → σ
  hashWrite : Bytes → σ → σ
  hashSum : σ → Bytes
  hashCopy : φ → σ → σ × Int × Option ε
  /-- `cache.Open(dir, h, rsum, dsum)`, `cache.CreateLevel(dir, h, rsum, dsum, level)` -/
  cacheOpen : String → Bytes → Bytes → σ → σ × κ × Option ε
  cacheCreateLevel : String → Bytes → Bytes → Int → σ → σ × κ × Option ε
  /-- `f.Name()`, `f.Write(p)`, `f.Close()` of a `*cache.File` -/
  cacheName : κ → ν
  cacheWrite : κ → Bytes → σ → σ × Int × Option ε
  cacheClose : κ → σ → σ × Option ε
  /-- `io.Copy(out, f)` from a `*cache.File` (its flate reader) to an `*os.File` -/
  copyOut : φ → κ → σ → σ × Int × Option ε

/-! ### the machine: the primitives over the world and the store of `CacheProto` -/

/-- the `*os.File` values of the machine -/
inductive FH where
  | nil
  | stdin
  | stdout
  /-- `os.Open(path)` (the primary input), `os.Create(path)` (the `-o` file) -/
  | input (path : String)
  | output (path : String)
  /-- `ioutil.TempFile` -/
  | tmp
  deriving DecidableEq, Repr

/-- the `*cache.File` values of the machine: from `cache.Open` (name, the bytes behind the header), from
`cache.CreateLevel` (name, the two sums) -/
inductive KH where
  | nil
  | rd (n : String) (body : Bytes)
  | wr (n : String) (r q : Bytes)
  deriving DecidableEq, Repr

/-- what `Name()` returns: an entry of the cache directory, the temporary copy (another directory), anything else -/
inductive PName where
  | entry (n : String)
  | tmp
  | other
  deriving DecidableEq, Repr

/-- error values of the machine -/
inductive PErr where
  | dir
  | tmp
  | open (e : Err)
  | inflate
  | close
  /-- a method called on a handle of the wrong kind (a nil `*cache.File`: a Go panic) -/
  | misuse
  deriving DecidableEq, Repr

/-- the world of one run -/
structure PMach where
  /-- the cache directory -/
  store : Store
  /-- the bytes that have reached the output (`os.Stdout` or the `-o` file) -/
  out : Bytes
  /-- written into the digest since its last `Reset` -/
  hash : Bytes
  /-- teed into the entry being written -/
  plain : Bytes
  /-- a temporary copy of stdin exists -/
  spooled : Bool
  /-- calls on a handle of the wrong kind -/
  misuse : Nat
  /-- the read offset of the primary input the process was started with (stdin or the named file) -/
  inpos : Nat
  /-- the temporary copy of stdin: its bytes and its offset -/
  tmp : Bytes
  tmppos : Nat

/-- a fresh process over the directory `σ` -/
def PMach.init (σ : Store) : PMach := ⟨σ, [], [], [], false, 0, 0, [], 0⟩

variable {Cmd Input : Type}

/-- the bytes behind a readable handle: the temporary copy, or the primary input of the run -/
def PMach.dataOf (W : World Cmd Input) (r : Run Cmd Input) (s : PMach) (f : FH) : Bytes :=
  if f = .tmp then s.tmp else W.content r.input

/-- its offset -/
def PMach.posOf (s : PMach) (f : FH) : Nat := if f = .tmp then s.tmppos else s.inpos

def PMach.setPos (s : PMach) (f : FH) (n : Nat) : PMach :=
  if f = .tmp then { s with tmppos := n } else { s with inpos := n }

/-- what a reader of the handle gets from here on (the command body reads `d.infile` to its end) -/
def PMach.unread (W : World Cmd Input) (r : Run Cmd Input) (s : PMach) (f : FH) : Bytes :=
  (s.dataOf W r f).drop (s.posOf f)

/-- **The machine.**  The primitives of io.go for one run `r` in the world `W`: the digest is `W.H`; the primary input
(stdin or the named file) holds `W.content r.input` and, like the temporary copy, has a read OFFSET — `io.Copy` reads from
the offset to the end, `Seek` sets it, so a missing rewind shows as an empty read —; `cache.Open` is `openAt` on the
directory, `cache.CreateLevel` truncates / creates the entry (placeholder header), `File.Write` collects the plain
bytes, `File.Close` of a writer writes `finish …` — or fails, leaving the placeholder, when `r.closeOk` is false —,
the copy of an opened entry inflates its body (`W.inflate`, or `W.inflatePrefix` and an error).  `dirOk` / `tmpOk`: whether
`os.UserCacheDir` / `ioutil.TempFile` succeed (the two halves of `r.usable`).  Everything else succeeds (the
assumption "file I/O does not fail" of C14). -/
def protoIO (W : World Cmd Input) (r : Run Cmd Input) (dirOk tmpOk : Bool) : DelegateIO PMach PErr FH KH PName where
  stdin := .stdin
  stdout := .stdout
  nilCache := .nil
  userCacheDir s := if dirOk then (s, "cache", none) else (s, "", some .dir)
  pathJoin a b := a ++ "/" ++ b
  mkdirAll _ _ s := (s, none)
  tempFile _ _ s := if tmpOk then ({ s with spooled := true, tmp := [], tmppos := 0 }, .tmp, none) else (s, .nil, some .tmp)
  osOpen p s := (s, .input p, none)
  osCreate p s := (s, .output p, none)
  osRemove n s :=
    match n with
    | .entry e => ({ s with store := Store.set s.store e none }, none)
    | .tmp => ({ s with spooled := false }, none)
    | .other => (s, none)
  fileName f := match f with | .tmp => .tmp | _ => .other
  fileClose _ s := (s, none)
  fileSeek f off s := (s.setPos f off.toNat, off, none)
  fileWrite _ p s := ({ s with out := s.out ++ p }, (p.length : Int), none)
  copyFile dst src s :=
    match dst with
    | .tmp =>
      ({ s.setPos src (s.dataOf W r src).length with
          tmp := s.tmp ++ s.unread W r src, tmppos := s.tmppos + (s.unread W r src).length },
        ((s.unread W r src).length : Int), none)
    | _ => ({ s with misuse := s.misuse + 1 }, 0, some .misuse)
  hashReset s := { s with hash := [] }
  hashWrite p s := { s with hash := s.hash ++ p }
  hashSum s := W.H s.hash
  hashCopy f s :=
    ({ s.setPos f (s.dataOf W r f).length with hash := s.hash ++ s.unread W r f }, ((s.unread W r f).length : Int), none)
  cacheOpen _ rs qs s :=
    match openAt W.H W.d s.store rs qs with
    | .ok body => (s, .rd (name W.H rs qs) body, none)
    | .error e => (s, .nil, some (.open e))
  cacheCreateLevel _ rs qs _ s :=
    ({ s with store := Store.set s.store (name W.H rs qs) (some (zeros (3 * W.d))), plain := [] },
      .wr (name W.H rs qs) rs qs, none)
  cacheName k := match k with | .rd n _ => .entry n | .wr n _ _ => .entry n | .nil => .other
  cacheWrite k p s :=
    match k with
    | .wr _ _ _ => ({ s with plain := s.plain ++ p }, (p.length : Int), none)
    | _ => ({ s with misuse := s.misuse + 1 }, 0, some .misuse)
  cacheClose k s :=
    match k with
    | .wr n rs qs =>
      if r.closeOk then ({ s with store := Store.set s.store n (some (finish W.H W.d W.deflate rs qs s.plain)) }, none)
      else (s, some .close)
    | .rd _ _ => (s, none)
    | .nil => ({ s with misuse := s.misuse + 1 }, some .misuse)
  copyOut _ k s :=
    match k with
    | .rd _ body =>
      match W.inflate body with
      | some w => ({ s with out := s.out ++ w }, (w.length : Int), none)
      | none => ({ s with out := s.out ++ W.inflatePrefix body }, ((W.inflatePrefix body).length : Int), some .inflate)
    | _ => ({ s with misuse := s.misuse + 1 }, 0, some .misuse)

end Gts.CacheProto
