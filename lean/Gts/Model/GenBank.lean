/-
  GenBank records and the GenBank WRITER, byte for byte:
    seqio/genbank.go   GenBank.String (197-305), genbankFieldFormatter, GenBankExtraField
    seqio/insdc.go     QualifierIO.String, QualifierFormatter.String, the three qualifier-name
                       registries (explicit state here), INSDCFormatter.String
    seqio/strings.go   AddPrefix;  seqio/contig.go Contig.String;  seqio/date.go Date.ToTime/Format
    go-wrap/wrap v1.0.3  wrap.Space (= At(s, ' ', n))
  Everything is bytes (`List UInt8`); Go `int` is `Int`; a Go panic is `.error .panic`.
  Core Lean only.
-/
import Gts.Model.LocText
import Gts.Model.Origin
import Gts.Model.Modifier
namespace Gts.GenBank
open Gts.Pars

abbrev Out (α : Type) := Except Err α

/-! ### small byte helpers -/

def sp (n : Nat) : Bytes := List.replicate n 32

/-- the bytes of an ASCII string literal (kernel-reducible, unlike `String.toUTF8`) -/
def bs (s : String) : Bytes := s.toList.map fun c => UInt8.ofNat c.toNat

/-- the 12-column `defaultGenBankIndent` -/
def indent : Bytes := sp 12

/-- `strings.ReplaceAll(s, "\n", "\n"+prefix)` — `AddPrefix` and `QualifierFormatter.String` -/
def addPrefix (pre : Bytes) : Bytes → Bytes
  | [] => []
  | c :: s => if c = 10 then 10 :: (pre ++ addPrefix pre s) else c :: addPrefix pre s

/-- `strings.Join(xs, sep)` -/
def joinWith (sep : Bytes) : List Bytes → Bytes
  | [] => []
  | [x] => x
  | x :: xs => x ++ sep ++ joinWith sep xs

/-- `%-Ns` -/
def padRight (w : Nat) (s : Bytes) : Bytes := s ++ sp (w - s.length)
/-- `%Ns` -/
def padLeft (w : Nat) (s : Bytes) : Bytes := sp (w - s.length) ++ s

/-- `strconv.Itoa` / `%d` -/
def itoaB (n : Int) : Bytes := if n < 0 then 45 :: natDigits n.natAbs else natDigits n.natAbs

/-- zero padded `%0Nd` of a natural number -/
def zpad (w n : Nat) : Bytes := List.replicate (w - (natDigits n).length) 48 ++ natDigits n

/-! ### `wrap.Space(s, n)` = `at(s, ' ', n)` -/

/-- `strings.IndexByte` -/
def indexOf (c : UInt8) : Bytes → Option Nat
  | [] => none
  | x :: xs => if x = c then some 0 else (indexOf c xs).map (· + 1)

/-- `strings.LastIndexByte` -/
def lastIndexOf (c : UInt8) : Bytes → Option Nat
  | [] => none
  | x :: xs =>
    match lastIndexOf c xs with
    | some i => some (i + 1)
    | none => if x = c then some 0 else none

/-- `at` on a string without line feed: break at the last `c` inside the first `n` bytes, else at
the first `c` anywhere, else leave the string alone.  The fuel is the length of the string. -/
def wrapLine (c : UInt8) (n : Nat) : Nat → Bytes → Bytes
  | 0, s => s
  | fuel + 1, s =>
    if s.length > n then
      match lastIndexOf c (s.take n) with
      | some i => s.take i ++ 10 :: wrapLine c n fuel (s.drop (i + 1))
      | none =>
        match indexOf c s with
        | some i => s.take i ++ 10 :: wrapLine c n fuel (s.drop (i + 1))
        | none => s
    else s

/-- split at line feeds (`strings.Split(s, "\n")`) -/
def splitLF : Bytes → List Bytes
  | [] => [[]]
  | c :: s =>
    if c = 10 then [] :: splitLF s
    else match splitLF s with
      | [] => [[c]]
      | l :: ls => (c :: l) :: ls

/-- `wrap.At(s, c, n)`: `at` recurses on both sides of the first line feed, i.e. wraps every
line separately. -/
def wrapAt (c : UInt8) (n : Nat) (s : Bytes) : Bytes :=
  joinWith [10] ((splitLF s).map fun l => wrapLine c n l.length l)

/-- `wrap.Space(s, 67)` -/
def wrapSpace (s : Bytes) : Bytes := wrapAt 32 67 s

/-! ### qualifier-name registries (insdc.go:64-182) -/

/-- the three process-global, sorted name lists, as explicit state -/
structure Registry where
  quoted : List Bytes
  literal : List Bytes
  toggle : List Bytes
  deriving Repr, Inhabited, DecidableEq

inductive QType where
  | quoted | literal | toggle | unknown
  deriving Repr, DecidableEq, Inhabited

/-- `GetQualifierType`: `searchString` is a binary search in a list that every `Register…`
re-sorts, i.e. membership. -/
def Registry.typeOf (reg : Registry) (name : Bytes) : QType :=
  if name ∈ reg.quoted then .quoted
  else if name ∈ reg.literal then .literal
  else if name ∈ reg.toggle then .toggle
  else .unknown

def namesOf (xs : List String) : List Bytes := xs.map bs

/-- the initial lists of insdc.go:64-99 -/
def Registry.default : Registry where
  quoted := namesOf [
    "allele", "altitude", "artificial_location", "bio_material",
    "bound_moiety", "cell_line", "cell_type", "chromosome",
    "clone", "clone_lib", "collected_by", "collection_date",
    "country", "cultivar", "culture_collection", "db_xref",
    "dev_stage", "EC_number", "ecotype", "exception",
    "experiment", "frequency", "function", "gap_type", "gene",
    "gene_synonym", "haplogroup", "haplotype", "host",
    "identified_by", "inference", "isolate", "isolation_source",
    "lab_host", "lat_lon", "linkage_evidence", "locus_tag", "map",
    "mating_type", "metagenome_source", "mobile_element_type",
    "mol_type", "ncRNA_class", "note", "old_locus_tag", "operon",
    "organelle", "organism", "PCR_conditions", "PCR_primers",
    "phenotype", "plasmid", "pop_variant", "product",
    "protein_id", "pseudogene", "recombination_class",
    "regulatory_class", "replace", "rpt_family", "rpt_unit_seq",
    "satellite", "segment", "serotype", "serovar", "sex",
    "specimen_voucher", "standard_name", "strain", "sub_clone",
    "submitter_seqid", "sub_species", "sub_strain", "tissue_lib",
    "tissue_type", "translation", "type_material", "variety"]
  literal := namesOf [
    "anticodon", "citation", "codon_start", "compare",
    "direction", "estimated_length", "mod_base", "number",
    "rpt_type", "rpt_unit_range", "tag_peptide", "transl_except",
    "transl_table"]
  toggle := namesOf [
    "environmental_sample", "focus", "germline", "macronuclear",
    "partial", "proviral", "pseudo", "rearranged",
    "ribosomal_slippage", "transgenic", "trans_splicing"]

/-- `reg ⊆ reg'`: names are only ever added -/
def Registry.le (a b : Registry) : Prop :=
  (∀ n, n ∈ a.quoted → n ∈ b.quoted) ∧ (∀ n, n ∈ a.literal → n ∈ b.literal) ∧
  (∀ n, n ∈ a.toggle → n ∈ b.toggle)

/-! ### records -/

/-- `seqio.Date` -/
structure Date where
  year : Int
  month : Int
  day : Int
  deriving Repr, Inhabited, DecidableEq

/-- `seqio.Reference`; of `Xref` only the key `PUBMED` is ever written or read -/
structure Reference where
  number : Int
  info : Bytes
  authors : Bytes
  group : Bytes
  title : Bytes
  journal : Bytes
  pubmed : Option Bytes
  comment : Bytes
  deriving Repr, Inhabited, DecidableEq

/-- `seqio.GenBankFields` (extra fields with the default formatter) -/
structure Fields where
  locusName : Bytes
  molecule : Bytes
  topology : Int
  division : Bytes
  date : Date
  definition : Bytes
  accession : Bytes
  version : Bytes
  dblink : List (Bytes × Bytes)
  keywords : List Bytes
  species : Bytes
  organism : Bytes
  taxon : List Bytes
  references : List Reference
  comments : List Bytes
  extra : List (Bytes × Bytes)
  contigAcc : Bytes
  contigHead : Int
  contigTail : Int
  region : Option (Int × Int)
  deriving Repr, Inhabited, DecidableEq

/-- `gts.Feature` with byte strings; a `Props` row is `name :: values` -/
structure QFeature where
  key : Bytes
  loc : Loc
  props : List (List Bytes)
  deriving Repr, Inhabited

/-- `*seqio.Origin`: `Parsed = true` holds residues, `Parsed = false` the formatted block -/
inductive OriginV where
  | residues (p : Bytes)
  | buffer (b : Bytes)
  deriving Repr, Inhabited, DecidableEq

/-- `seqio.GenBank` -/
structure Record where
  fields : Fields
  table : List QFeature
  origin : OriginV
  deriving Repr, Inhabited

def Fields.empty : Fields :=
  { locusName := [], molecule := [], topology := 0, division := [], date := ⟨0, 0, 0⟩,
    definition := [], accession := [], version := [], dblink := [], keywords := [],
    species := [], organism := [], taxon := [], references := [], comments := [], extra := [],
    contigAcc := [], contigHead := 0, contigTail := 0, region := none }

/-- `Origin.Len()` -/
def OriginV.len : OriginV → Int
  | .residues p => p.length
  | .buffer b => Origin.originLen b

/-- `Origin.String()` -/
def OriginV.text : OriginV → Out Bytes
  | .residues p => Origin.newOrigin p
  | .buffer b => .ok b

/-- `Origin.Bytes()` -/
def OriginV.bytes : OriginV → Out Bytes
  | .residues p => .ok p
  | .buffer b => Origin.originBytes b

/-! ### LOCUS line -/

def monthAbbr : List Bytes := namesOf
  ["JAN", "FEB", "MAR", "APR", "MAY", "JUN", "JUL", "AUG", "SEP", "OCT", "NOV", "DEC"]

/-- `isLeapYear` -/
def isLeapYear (y : Int) : Bool :=
  if y % 400 = 0 then true else if y % 100 = 0 then false else y % 4 = 0

/-- `dayMap` plus the leap day -/
def daysIn (y m : Int) : Int :=
  if m = 2 then (if isLeapYear y then 29 else 28)
  else if m = 4 ∨ m = 6 ∨ m = 9 ∨ m = 11 then 30 else 31

/-- a calendar date that `time.Date` does not normalise and `Format` prints with four year
digits: the domain on which the date printer is modelled -/
def Date.valid (d : Date) : Bool :=
  decide (0 ≤ d.year ∧ d.year ≤ 9999 ∧ 1 ≤ d.month ∧ d.month ≤ 12 ∧ 1 ≤ d.day ∧ d.day ≤ daysIn d.year d.month)

/-- `strings.ToUpper(date.ToTime().Format("02-Jan-2006"))` on valid dates (`time.Date`
normalises other values; those print `??-???-????` here and are outside the modelled domain) -/
def Date.text (d : Date) : Bytes :=
  if d.valid then
    zpad 2 d.day.toNat ++ [45] ++ monthAbbr.getD (d.month.toNat - 1) [] ++ [45] ++ zpad 4 d.year.toNat
  else bs "??-???-????"

/-- `Topology.String()` -/
def topologyText (t : Int) : Bytes :=
  if t = 0 then bs "linear" else if t = 1 then bs "circular" else []

/-- `Segment.Len()` of the CONTIG region -/
def contigLen (f : Fields) : Int := Int.ofNat (f.contigTail - f.contigHead).natAbs

/-- `"%-12s%-17s %10d bp %6s     %-9s%s %s"` -/
def locusLine (f : Fields) (length : Int) : Bytes :=
  padRight 12 (bs "LOCUS") ++ padRight 17 f.locusName ++ [32] ++ padLeft 10 (itoaB length) ++
  bs " bp " ++ padLeft 6 f.molecule ++ sp 5 ++ padRight 9 (topologyText f.topology) ++
  f.division ++ [32] ++ f.date.text

/-! ### feature table (insdc.go:25-61, 323-357) -/

/-- `QualifierIO.String()` -/
def qualifierText (reg : Registry) (name value : Bytes) : Bytes :=
  match reg.typeOf name with
  | .literal => 47 :: name ++ 61 :: value
  | .toggle => 47 :: name
  | _ => 47 :: name ++ 61 :: 34 :: value ++ [34]

/-- `QualifierFormatter.String()` -/
def qualifierFmt (reg : Registry) (pre name value : Bytes) : Bytes :=
  pre ++ addPrefix pre (qualifierText reg name value)

/-- `Props.Get(key)`: the values of the FIRST row of that name; `[]` also when an empty row is met
first (Go panics there; see `propsOk`).  Not used by the writer any more (repo 7b61a9a). -/
def propsGet (ps : List (List Bytes)) (key : Bytes) : List Bytes :=
  match ps.find? fun row => row.head? = some key with
  | some row => row.tail
  | none => []

/-- every row has a name (`prop[0]`, `prop[1:]`) -/
def propsOk (ps : List (List Bytes)) : Bool := ps.all fun row => !row.isEmpty

/-- the `(key, value)` items in the order `INSDCFormatter` (and `Props.Items`) writes them since repo
7b61a9a: row by row, every value of the row under the row's own name
(`for _, prop := range f.Props { for _, value := range prop[1:] { QualifierIO{prop[0], value} } }`).
Before the repair the rows' names were looked up with `Props.Get`, which returns the first row of
that name: a repeated name wrote the first row's values twice and lost the later row's (F31). -/
def propsItems (ps : List (List Bytes)) : List (Bytes × Bytes) :=
  ps.flatMap fun row =>
    match row with
    | [] => []
    | key :: vs => vs.map fun v => (key, v)

/-- the location column of the table: 21, or wider when a key does not fit in front of it — the
whole table is then laid out with the wider column (repo e050333) -/
def tableDepth (fs : List QFeature) : Nat := fs.foldl (fun d f => max d (5 + f.key.length + 1)) 21

/-- one feature: key line and qualifier lines (no trailing line feed) for the location column
`depth`; `prop[0]` / `prop[1:]` panic on a row without a name -/
def featureText (reg : Registry) (depth : Nat) (f : QFeature) : Out Bytes :=
  if !propsOk f.props then .error .panic
  else
    .ok (sp 5 ++ f.key ++ sp (depth - 5 - f.key.length) ++ f.loc.printB ++
      ((propsItems f.props).flatMap fun kv => 10 :: qualifierFmt reg (sp depth) kv.1 kv.2))

def tableTextD (reg : Registry) (depth : Nat) : List QFeature → Out Bytes
  | [] => .ok []
  | [f] => featureText reg depth f
  | f :: fs => do
    let a ← featureText reg depth f
    let b ← tableTextD reg depth fs
    pure (a ++ 10 :: b)

/-- `INSDCFormatter{table, "     ", 21}.String()` -/
def tableText (reg : Registry) (fs : List QFeature) : Out Bytes := tableTextD reg (tableDepth fs) fs

/-! ### the record (genbank.go:197-305) -/

/-- `"DBLINK      k: v\n"` then `indent k: v\n` -/
def dblinkText : List (Bytes × Bytes) → Bool → Bytes
  | [], _ => []
  | (k, v) :: rest, first =>
    (if first then bs "DBLINK      " else indent) ++ k ++ bs ": " ++ v ++ [10] ++ dblinkText rest false

/-- one `REFERENCE` block; the pad between number and info is `max 0 (3 - len(Itoa(n)))` blanks
(761240c: no panic for numbers of four or more characters) -/
def referenceText (r : Reference) : Out Bytes := do
  let num := itoaB r.number
  let head :=
    if r.info.isEmpty then bs "REFERENCE   " ++ num
    else bs "REFERENCE   " ++ num ++ sp (3 - num.length) ++ r.info
  let sub (name : String) (v : Bytes) : Bytes :=
    if v.isEmpty then [] else bs name ++ addPrefix indent v ++ [10]
  pure (head ++ [10] ++ sub "  AUTHORS   " r.authors ++ sub "  CONSRTM   " r.group ++
    sub "  TITLE     " r.title ++ sub "  JOURNAL   " r.journal ++
    (match r.pubmed with | some v => bs "   PUBMED   " ++ v ++ [10] | none => []) ++
    sub "  REMARK    " r.comment)

def referencesText : List Reference → Out Bytes
  | [] => .ok []
  | r :: rs => do
    let a ← referenceText r
    let b ← referencesText rs
    pure (a ++ b)

/-- `genbankFieldFormatter`: `%-12s` name, then the value with continuation indent -/
def extraText (name value : Bytes) : Bytes := padRight 12 name ++ addPrefix indent value

/-- `Contig.String()` -/
def contigText (f : Fields) : Bytes :=
  if f.contigAcc.isEmpty then []
  else bs "join(" ++ f.contigAcc ++ [58] ++ itoaB (f.contigHead + 1) ++ bs ".." ++ itoaB f.contigTail ++ [41]

/-- the header part: LOCUS … extra fields -/
def headerText (f : Fields) (length : Int) : Out Bytes := do
  -- 0f056fc: the REGION suffix is written for a proper segment only (`gts.Range` would panic)
  let region : Bytes :=
    match f.region with
    | none => []
    | some (h, t) => if t ≤ h then [] else bs " REGION: " ++ itoaB (h + 1) ++ bs ".." ++ itoaB t
  let refs ← referencesText f.references
  pure (
    locusLine f length ++ [10] ++
    bs "DEFINITION  " ++ addPrefix indent f.definition ++ bs ".\n" ++
    bs "ACCESSION   " ++ f.accession ++ region ++ [10] ++
    bs "VERSION     " ++ f.version ++ [10] ++
    dblinkText f.dblink true ++
    bs "KEYWORDS    " ++ addPrefix indent (wrapSpace (joinWith (bs "; ") f.keywords ++ [46])) ++ [10] ++
    -- 3d74d27 / 69bb3bf: SOURCE and ORGANISM are written as they are (no `wrap.Space`)
    bs "SOURCE      " ++ addPrefix indent f.species ++ [10] ++
    bs "  ORGANISM  " ++ addPrefix indent f.organism ++ [10] ++
    indent ++ addPrefix indent (wrapSpace (joinWith (bs "; ") f.taxon ++ [46])) ++ [10] ++
    refs ++
    (f.comments.flatMap fun c => bs "COMMENT     " ++ addPrefix indent c ++ [10]) ++
    (f.extra.flatMap fun e => extraText e.1 e.2 ++ [10]))

/-- `GenBank.String()` under the registry `reg` -/
def write (reg : Registry) (r : Record) : Out Bytes := do
  let olen := r.origin.len
  let length := if olen = 0 then contigLen r.fields else olen
  let header ← headerText r.fields length
  let table ←
    if r.table.isEmpty then pure []
    else do
      let t ← tableText reg r.table
      pure (bs "FEATURES             Location/Qualifiers\n" ++ t ++ [10])
  let contig := contigText r.fields
  let contig := if contig.isEmpty then [] else bs "CONTIG      " ++ contig ++ [10]
  let origin ←
    if olen > 0 then do
      let o ← r.origin.text
      pure (bs "ORIGIN      \n" ++ o)
    else pure []
  pure (header ++ table ++ contig ++ origin ++ bs "//\n")

/-- a multi-record stream: `WriteSeq` for every record -/
def writeAll (reg : Registry) : List Record → Out Bytes
  | [] => .ok []
  | r :: rs => do
    let a ← write reg r
    let b ← writeAll reg rs
    pure (a ++ b)

end Gts.GenBank
