/-
  Protocol ops of the cache-key encoding (C14; see /verif/FRAMEWORK.md and harness/props_c14_ops.go).
  Not part of any theorem.  Core Lean only.

    key.enc     (<tuple>…)   → x<encodePayload(tuples)>       io.go `encodePayload`
    key.rawjson (<tuple>…)   → x<json.Marshal(tuples)>         the encoder before 1c2c272
    key.quote   x<bytes>     → x<strconv.QuoteToASCII(bytes)>
    tuple = (x<key> <value>);  value = (S x<bytes>) | (L x<bytes>…) | (B 0|1) | (I <n>) | (D x<bytes>)
-/
import Gts.Model.Sexp
import Gts.Model.KeyEnc
namespace Gts
open Gts.KeyEnc

def decKeyValue? : Sexp → Option Value
  | .list [.atom "S", s] => do pure (.str (← decBytes? s))
  | .list (.atom "L" :: xs) => do pure (.strs (← xs.mapM decBytes?))
  | .list [.atom "B", b] => do pure (.bool (← decBool? b))
  | .list [.atom "I", n] => do pure (.int (← decInt? n))
  | .list [.atom "D", b] => do pure (.bytes (← decBytes? b))
  | _ => none

def decKeyPayload? : Sexp → Option Payload
  | .list ts => ts.mapM fun
      | .list [k, v] => do pure (← decBytes? k, ← decKeyValue? v)
      | _ => none
  | _ => none

def evalKeyEnc (op : String) (args : List Sexp) : Option String :=
  match op, args with
  | "key.enc", [p] => do pure (encBytes (encodePayload (← decKeyPayload? p)))
  | "key.rawjson", [p] => do pure (encBytes (jsonOfPayload (← decKeyPayload? p)))
  | "key.quote", [s] => do pure (encBytes (quoteToASCII (← decBytes? s)))
  | _, _ => none

end Gts
