/-
  Protocol ops of the ORIGIN area (C16; see /verif/FRAMEWORK.md).  Not part of any theorem.
  Core Lean only.

    origin.tolen n            → int                       toOriginLength
    origin.fromlen n          → int                       fromOriginLength
    origin.format x<p>        → x<block> | PANIC          NewOrigin(p).Buffer
    origin.string x<p>        → x<block> | PANIC          Origin{p, Parsed: true}.String()
    origin.bytes x<buf>       → x<residues> | NIL | PANIC (&Origin{buf, false}).Bytes()
    origin.len x<buf>         → int                       Origin{buf, false}.Len()
    origin.validate x<buf> n  → OK | ERR | PANIC          validateOrigin(buf, n)
    origin.slow x<input> n    → x<token> x<rest> | ERR | PANIC   slowGenBankOriginParser(n) on a fresh state
    origin.parse x<input> n   → x<buffer> x<rest> | ERR | PANIC  makeGenbankOriginParser(n)(gb, 12) on a fresh state
    origin.line x<input>      → x<token> x<rest>          pars.Line on a fresh state

  Generated-input ops (no hex traffic; both sides build the same residues `gen n k s` from an
  alphabet number `k` and a seed `s`, and answer with a digest `<length>:<fnv1a-64>`); `block` is
  each side's own NewOrigin(gen n k s):
    origin.g.format n k s     → digest(block) | PANIC
    origin.g.bytes n k s      → digest(Bytes(block)) | NIL | PANIC
    origin.g.len n k s        → int
    origin.g.validate n k s   → OK | ERR | PANIC
    origin.g.slow n k s c     → digest(token) digest(rest) | ERR | PANIC    input = eol_c(block) ++ "//" ++ eol
    origin.g.parse n k s c    → digest(buffer) digest(rest) | ERR | PANIC   input = "ORIGIN      " ++ eol ++ eol_c(block) ++ "//" ++ eol
  (c = 0: LF line ends, c = 1: CRLF line ends)
-/
import Gts.Model.Sexp
import Gts.Model.Origin
namespace Gts
open Gts.Origin

def encOutBytes : Out (List UInt8) → String
  | .ok b => encBytes b
  | .error .fail => "ERR"
  | .error .panic => "PANIC"

def encOutPair : Out (List UInt8 × List UInt8) → String
  | .ok (a, b) => encBytes a ++ " " ++ encBytes b
  | .error .fail => "ERR"
  | .error .panic => "PANIC"

/-! generated inputs and digests (mirrored in harness/props_c16.go) -/

def genAlphabets : Array (Array UInt8) := #[
  "acgt".toUTF8.data, "ACGTN".toUTF8.data, "acgtrymkswhbvdn".toUTF8.data,
  "ACDEFGHIKLMNPQRSTVWY*".toUTF8.data, (Array.range 94).map (fun i => UInt8.ofNat (33 + i)),
  "0123456789-.*".toUTF8.data]

def genResidues (n k s : Nat) : List UInt8 :=
  let a := genAlphabets[k % genAlphabets.size]!
  (List.range n).map fun i => a[(i * i + 7 * i + s) % a.size]!

def fnv64 (b : List UInt8) : UInt64 :=
  b.foldl (fun h c => (h ^^^ c.toUInt64) * 1099511628211) 14695981039346656037

def digest (b : List UInt8) : String := s!"{b.length}:{fnv64 b}"

def toCRLF (b : List UInt8) : List UInt8 := b.flatMap fun c => if c == 10 then [13, 10] else [c]

def eolOf (c : Nat) : List UInt8 := if c == 1 then [13, 10] else [10]
def convOf (c : Nat) (b : List UInt8) : List UInt8 := if c == 1 then toCRLF b else b

def encOutDigest : Out (List UInt8) → String
  | .ok b => digest b
  | .error .fail => "ERR"
  | .error .panic => "PANIC"

def encOutDigestPair : Out (List UInt8 × List UInt8) → String
  | .ok (a, b) => digest a ++ " " ++ digest b
  | .error .fail => "ERR"
  | .error .panic => "PANIC"

/-- `f` applied to this side's own `NewOrigin(gen n k s)` -/
def withBlock (n k s : Sexp) (f : Nat → List UInt8 → String) : Option String := do
  let n ← decNat? n
  match newOrigin (genResidues n (← decNat? k) (← decNat? s)) with
  | .ok b => pure (f n b)
  | .error _ => pure "PANIC"

def evalOrigin (op : String) (args : List Sexp) : Option String :=
  match op, args with
  | "origin.tolen", [n] => do pure (toString (toOriginLength (← decInt? n)))
  | "origin.fromlen", [n] => do pure (toString (fromOriginLength (← decInt? n)))
  | "origin.format", [p] => do pure (encOutBytes (newOrigin (← decBytes? p)))
  | "origin.string", [p] => do pure (encOutBytes (originString (← decBytes? p) true))
  | "origin.bytes", [p] => do
      match originBytes (← decBytes? p) with
      | .ok [] => pure "NIL"
      | r => pure (encOutBytes r)
  | "origin.len", [p] => do pure (toString (originLen (← decBytes? p)))
  | "origin.validate", [p, n] => do
      match validateOrigin (← decBytes? p) (← decInt? n) with
      | .ok () => pure "OK"
      | .error .fail => pure "ERR"
      | .error .panic => pure "PANIC"
  | "origin.slow", [p, n] => do pure (encOutPair (slowOrigin (← decBytes? p) (← decInt? n)))
  | "origin.parse", [p, n] => do pure (encOutPair (originParse (← decBytes? p) (← decInt? n)))
  | "origin.line", [p] => do
      let r := splitLine (← decBytes? p)
      pure (encBytes r.1 ++ " " ++ encBytes r.2)
  | "origin.g.format", [n, k, s] => withBlock n k s fun _ b => digest b
  | "origin.g.bytes", [n, k, s] => withBlock n k s fun _ b =>
      match originBytes b with
      | .ok [] => "NIL"
      | r => encOutDigest r
  | "origin.g.len", [n, k, s] => withBlock n k s fun _ b => toString (originLen b)
  | "origin.g.validate", [n, k, s] => withBlock n k s fun n b =>
      match validateOrigin b n with
      | .ok () => "OK"
      | .error .fail => "ERR"
      | .error .panic => "PANIC"
  | "origin.g.slow", [n, k, s, c] => do
      let c ← decNat? c
      withBlock n k s fun n b =>
        encOutDigestPair (slowOrigin (convOf c b ++ [47, 47] ++ eolOf c) n)
  | "origin.g.parse", [n, k, s, c] => do
      let c ← decNat? c
      withBlock n k s fun n b =>
        encOutDigestPair (originParse (Pars.str "ORIGIN      " ++ eolOf c ++ convOf c b ++ [47, 47] ++ eolOf c) n)
  | _, _ => none

end Gts
