/-
  Executable model of /repo/modifier.go and /repo/region.go (core Lean only).
-/
import Gts.Model.Loc
namespace Gts

/-- modifier.go: Head | Tail | HeadTail | HeadHead | TailTail -/
inductive Mod where
  | head (p : Int)
  | tail (q : Int)
  | headTail (p q : Int)
  | headHead (p q : Int)
  | tailTail (p q : Int)
  deriving Repr, Inhabited, DecidableEq

namespace Mod

/-- `Apply` on a forward pair (`head ≤ tail`) -/
def applyFwd : Mod → Int → Int → Int × Int
  | head p, h, _ => (h + p, h + p)
  | tail q, _, t => (t + q, t + q)
  | headTail p q, h, t => (h + p, Loc.gmax (h + p) (t + q))
  | headHead p q, h, _ => (h + p, Loc.gmax (h + p) (h + q))
  | tailTail p q, _, t => (t + p, Loc.gmax (t + p) (t + q))

/-- `Modifier.Apply(head, tail)`: a backward pair is negated, modified, negated back. -/
def apply (m : Mod) (h t : Int) : Int × Int :=
  if t < h then
    let r := applyFwd m (-h) (-t)
    (-r.1, -r.2)
  else applyFwd m h t

end Mod

/-- region.go: `Segment` and (possibly nested) `Regions` -/
inductive Reg where
  | seg (h t : Int)
  | many (rs : List Reg)
  deriving Repr, Inhabited

abbrev Seg := Int × Int

namespace Reg

mutual
def beq : Reg → Reg → Bool
  | seg a b, seg c d => a == c && b == d
  | many a, many b => beqList a b
  | _, _ => false
def beqList : List Reg → List Reg → Bool
  | [], [] => true
  | a :: as, b :: bs => beq a b && beqList as bs
  | _, _ => false
end
instance : BEq Reg := ⟨beq⟩

/-- utils.go Abs -/
def gabs (x : Int) : Int := if x < 0 then -x else x

mutual
def len : Reg → Int
  | seg h t => gabs (t - h)
  | many rs => lenList rs
def lenList : List Reg → Int
  | [] => 0
  | r :: rs => len r + lenList rs
end

mutual
/-- `Head()` (an empty `Regions` yields 0) -/
def head : Reg → Int
  | seg h _ => h
  | many rs => headList rs
def headList : List Reg → Int
  | [] => 0
  | r :: _ => head r
end

mutual
def tail : Reg → Int
  | seg _ t => t
  | many rs => tailList rs
def tailList : List Reg → Int
  | [] => 0
  | [r] => tail r
  | _ :: r :: rs => tailList (r :: rs)
end

mutual
/-- `Complement()`: segments swap ends, the order of a `Regions` is flipped. -/
def complement : Reg → Reg
  | seg h t => seg t h
  | many rs => many (complementRev rs [])
/-- maps `complement` over the list, accumulating in reverse order -/
def complementRev : List Reg → List Reg → List Reg
  | [], acc => acc
  | r :: rs, acc => complementRev rs (complement r :: acc)
end

/-- the (lower, upper) offsets from the 5' end computed at the top of `Regions.Resize` -/
def bounds (m : Mod) (total : Int) : Int × Int :=
  match m with
  | .head p => (p, p)
  | .tail q => (q + total, q + total)
  | .headHead p q => (p, q)
  | .headTail p q => (p, q + total)
  | .tailTail p q => (p + total, q + total)

/-- state of the segment walk in `Regions.Resize`: indices `left/right` and residual offsets -/
structure Walk where
  left : Nat
  lower : Int
  right : Nat
  upper : Int
  deriving Repr, DecidableEq

/-- one iteration `k` of the walk with `n = rr[k].Len()` (with the `left == k` / `right == k`
guards of the repaired code) -/
def walkStep (w : Walk) (k : Nat) (n : Int) : Walk :=
  let w1 := if w.left = k ∧ n < w.lower then { w with left := k + 1, lower := w.lower - n } else w
  if w1.right = k ∧ n < w1.upper then { w1 with right := k + 1, upper := w1.upper - n } else w1

/-- `for k := 0; k+1 < len(rr); k++` over the lengths of all but the last element -/
def walkLens : List Int → Nat → Walk → Walk
  | [], _, w => w
  | [_], _, w => w
  | n :: m :: rest, k, w => walkLens (m :: rest) (k + 1) (walkStep w k n)

def lens : List Reg → List Int
  | [] => []
  | r :: rs => len r :: lens rs

mutual
/-- `Region.Resize(mod)` -/
def resize : Reg → Mod → Reg
  | seg h t, m => let r := m.apply h t; seg r.1 r.2
  | many rs, m =>
    let b := bounds m (lenList rs)
    let w := walkLens (lens rs) 0 ⟨0, b.1, 0, b.2⟩
    if w.right < w.left then resizeNth rs w.left (.head w.lower)
    else if w.left = w.right then resizeNth rs w.left (.headHead w.lower w.upper)
    else many (resizeSpan rs w.left w.right w.lower w.upper)
/-- `ret[k].Resize(m)`; Go panics when `k` is out of range (empty `Regions`), the model
returns `many []`. -/
def resizeNth : List Reg → Nat → Mod → Reg
  | [], _, _ => many []
  | r :: _, 0, m => resize r m
  | _ :: rs, k + 1, m => resizeNth rs k m
/-- `ret[left:right+1]` with `ret[left]` resized by `HeadTail{lower,0}` and `ret[right]` by
`HeadHead{0,upper}` (`left < right`) -/
def resizeSpan : List Reg → Nat → Nat → Int → Int → List Reg
  | [], _, _, _, _ => []
  | r :: rs, 0, right, lower, upper => resize r (.headTail lower 0) :: resizeTail rs right upper
  | _ :: rs, l + 1, right, lower, upper => resizeSpan rs l (right - 1) lower upper
/-- the elements after `left`: untouched up to index `right`, which gets `HeadHead{0,upper}` -/
def resizeTail : List Reg → Nat → Int → List Reg
  | [], _, _ => []
  | r :: rs, k, upper =>
    if k ≤ 1 then [resize r (.headHead 0 upper)] else r :: resizeTail rs (k - 1) upper
end

mutual
/-- `flattenRegion`: forward-oriented segments in order -/
def flatten : Reg → List Seg
  | seg h t => if t < h then [(t, h)] else [(h, t)]
  | many rs => flattenList rs
def flattenList : List Reg → List Seg
  | [] => []
  | r :: rs => flatten r ++ flattenList rs
end

/-- `BySegment.Less` on forward segments (swap is a no-op after `flattenRegion`, kept) -/
def segLess (l r : Seg) : Bool :=
  let l := if l.2 < l.1 then (l.2, l.1) else l
  let r := if r.2 < r.1 then (r.2, r.1) else r
  if l.1 < r.1 then true else if r.1 < l.1 then false else decide (l.2 < r.2)

/-- `sort.Sort(BySegment(ss))`: any correct sort gives the same list because elements that
compare equal are equal values (forward segments); modelled by insertion sort. -/
def insertSeg (x : Seg) : List Seg → List Seg
  | [] => [x]
  | y :: ys => if segLess y x then y :: insertSeg x ys else x :: y :: ys

def sortSegs : List Seg → List Seg
  | [] => []
  | x :: xs => insertSeg x (sortSegs xs)

/-- the merge loop of `Minimize` -/
def mergeSegs : List Seg → List Seg
  | [] => []
  | [a] => [a]
  | a :: b :: rest =>
    if a.2 < b.1 then a :: mergeSegs (b :: rest)
    else mergeSegs ((Loc.gmin a.1 b.1, Loc.gmax a.2 b.2) :: rest)
termination_by l => l.length

/-- `Minimize(region)` -/
def minimize (r : Reg) : List Seg := mergeSegs (sortSegs (flatten r))

/-- `invertSegments(ss, n)` -/
def invertFrom (start : Int) (n : Int) : List Seg → List Seg
  | [] => if start ≠ n then [(start, n)] else []
  | s :: ss => (if start ≠ s.1 then [(start, s.1)] else []) ++ invertFrom s.2 n ss

def invertSegments (ss : List Seg) (n : Int) : List Seg := invertFrom 0 n ss

/-- `InvertLinear(r, n)` -/
def invertLinear (r : Reg) (n : Int) : List Reg :=
  (invertSegments (minimize r) n).map (fun s => seg s.1 s.2)

/-- `InvertCircular(r, n)`; `none` = Go panic (`ss[0]` on an empty minimisation, or
`rr[len(rr)-1]` on an empty inversion). -/
def invertCircular (r : Reg) (n : Int) : Option (List Reg) :=
  let ss := minimize r
  let rr := invertLinear r n
  match ss.head?, ss.getLast? with
  | some f, some l =>
    if f.1 = 0 ∨ l.2 = n then some rr
    else match rr, rr.getLast? with
      | first :: rest, some lastR => some ((many [lastR, first] :: rest).dropLast)
      | _, _ => none
  | _, _ => none

end Reg

namespace Loc
mutual
/-- `Location.Region()` -/
def region : Loc → Reg
  | between p => .seg p p
  | point p => .seg p (p + 1)
  | ranged s e _ _ => .seg s e
  | ambiguous s e => .seg s e
  | joined ls => .many (regionList ls)
  | ordered ls => .many (regionList ls)
  | compl l => (region l).complement
def regionList : List Loc → List Reg
  | [] => []
  | l :: ls => region l :: regionList ls
end
end Loc

end Gts
