/-
  I/O FAULTS of the cache-file writer (`/repo/cmd/cache/file.go`, `/repo/cmd/cache/header.go`).

  `Gts/Model/CacheFile.lean` models a process that DIES (`crashStates`: prefixes of the write
  sequence).  This file models a writer that LIVES ON while its individual I/O steps fail: the
  placeholder write of `CreateLevel`, the body writes (the flate writer flushing into the file
  during `File.Write`), the final flush inside `File.Close`, the two seeks, the read that hashes
  the body, and the header write.  A failed write may have written a prefix.

  Two layers, both core Lean only:

  1. `FileIO σ ε` — the vocabulary of primitives cmd/cache calls (hash, file, flate writer), as a
     structure of functions over an abstract state `σ` and error type `ε`.  go2lean translates
     `ReadHeader`, `Header.Validate`, `Open`, `CreateLevel`, `File.Write`, `File.Close` into Lean
     functions over an ARBITRARY `FileIO` (`Gts/Gen/CacheFile.lean`), so that the translator fixes
     no I/O semantics at all.  `machIO` is the model's semantics of the primitives on a concrete
     machine `Mach` (one open file with an offset, one hash, one flate writer, a fault pattern
     consumed one entry per fallible step).
  2. the hand-written fault model `createF / writeF / closeF` (explicit, following file.go
     statement by statement) over the small state `FWriter`, and `runSession`.
     `Gts/Bridge/CacheFile.lean` proves that the regenerated functions, run on `machIO`, ARE
     these (and, without faults, the functions of `CacheFile.lean`).

  Assumptions about external code (trusted base, stated here once):
    * `*os.File`: `Write` at the current offset (the file is opened without O_APPEND; writing
      behind the end fills the gap with zero bytes), a failed `Write` has written a prefix of its
      argument and advanced the offset by as much; a failed `Seek` leaves the offset unchanged;
      `Read` returns `min (len p) remaining` bytes and `0, io.EOF` at the end.
    * `compress/flate.Writer`: the bytes it has written to the file at any time are a prefix of
      `deflate x`, `x` = everything handed to `Write` so far (closing only appends); its first
      write error is STICKY: every later `Write` and `Close` returns an error without writing
      (`compressor.err`, `huffmanBitWriter.err`); `Close` without error has written the whole
      stream.  How much of the stream reached the file BEFORE a fault is not tracked — every
      amount is covered because the fault entry `some k` ("k bytes of the stream are on disk") is
      arbitrary.
    * `flate.NewWriter(w, level)` fails iff `level ∉ [-2, 9]`.
-/
import Gts.Model.CacheFile
namespace Gts.Cache

/-! ### the vocabulary of primitives -/

/-- a place in header.go where an error value is MADE (`errors.New`, `fmt.Errorf`): function and
index of the creating expression in source order.  (Messages are not modelled; the protocol
collapses every error to `ERR`.) -/
inductive ErrSite where
  /-- `ReadHeader`: 0 = "while reading header: …" (the `Read` failed), 1 = "could not read
  sufficient bytes in header" -/
  | readHeader (i : Nat)
  /-- `Header.Validate`: 0 = root, 1 = data, 2 = body "… hash sum mismatch" -/
  | validate (i : Nat)
  deriving DecidableEq, Repr, Inhabited

/-- what cmd/cache calls, over an abstract state `σ` (the hash, the open file, the flate writer)
and an abstract error type `ε` (`nil` is `none`).  One field per external call shape. -/
structure FileIO (σ ε : Type) where
  /-- `h.Reset()` -/
  hashReset : σ → σ
  /-- `h.Write(b)` -/
  hashWrite : Bytes → σ → σ
  /-- `h.Sum(nil)` -/
  hashSum : σ → Bytes
  /-- `io.Copy(h, f)`: from the file's offset to EOF into the hash -/
  hashCopy : σ → σ × Option ε
  /-- `hex.EncodeToString` (joined to the cache directory by `filepath.Join(path, ·)`) -/
  hex : Bytes → String
  /-- `os.Open(name)` -/
  osOpen : String → σ → σ × Option ε
  /-- `os.Create(name)` -/
  osCreate : String → σ → σ × Option ε
  /-- `r.Read(p)`: the buffer afterwards, `n`, `err` -/
  fileRead : Bytes → σ → σ × Bytes × Int × Option ε
  /-- `f.Write(p)` on the `*os.File`: `n`, `err` -/
  fileWrite : Bytes → σ → σ × Int × Option ε
  /-- `f.Seek(off, io.SeekStart)` -/
  seek : Int → σ → σ × Option ε
  /-- `flate.NewWriter(f, level)` -/
  newWriter : Int → σ → σ × Option ε
  /-- `f.wr.Write(p)` -/
  wrWrite : Bytes → σ → σ × Int × Option ε
  /-- `f.wr.Close()` -/
  wrClose : σ → σ × Option ε
  /-- `errors.New(…)` / `fmt.Errorf(…)` at a site of header.go -/
  mkErr : ErrSite → ε
  /-- `io.EOF` -/
  eof : ε

/-! ### the machine -/

/-- errors of the machine -/
inductive FErr where
  | site (s : ErrSite)
  | notFound
  | eof
  | create
  | write
  | seek
  | copy
  | flate
  | level
  deriving DecidableEq, Repr, Inhabited

/-- one open file, one hash, one flate writer, and the fault pattern still to come: one entry per
fallible step (`osCreate`, `fileWrite`, `seek`, `hashCopy`, `wrWrite`, `wrClose`) in the order the
steps are executed; `none` (or a list that has run out) = the step works, `some k` = it fails
(for a step that writes or reads: after `k` bytes). -/
structure Mach where
  /-- the name under which the file was opened / created (inside the one cache directory) -/
  fname : String
  data : Bytes
  pos : Nat
  hash : Bytes
  plain : Bytes
  broken : Bool
  faults : List (Option Nat)
  deriving DecidableEq, Repr

/-- the next fault entry -/
def Mach.pop (m : Mach) : Option Nat × Mach :=
  match m.faults with
  | [] => (none, m)
  | f :: t => (f, { m with faults := t })

/-- `pwrite` of `p` at offset `pos` (behind the end: the gap reads as zeros; nothing to write:
nothing changes) -/
def writeAt (data : Bytes) (pos : Nat) (p : Bytes) : Bytes :=
  if p = [] then data
  else data.take pos ++ zeros (pos - data.length) ++ p ++ data.drop (pos + p.length)

/-- the model's semantics of the primitives, for digest `H`, compressor `deflate` and the cache
directory `store` -/
def machIO (H : Bytes → Bytes) (deflate : Bytes → Bytes) (store : Store) : FileIO Mach FErr where
  hashReset m := { m with hash := [] }
  hashWrite b m := { m with hash := m.hash ++ b }
  hashSum m := H m.hash
  hashCopy m :=
    let (f, m) := m.pop
    match f with
    | none => ({ m with hash := m.hash ++ m.data.drop m.pos, pos := max m.pos m.data.length }, none)
    | some k =>
      let c := (m.data.drop m.pos).take k
      ({ m with hash := m.hash ++ c, pos := m.pos + c.length }, some .copy)
  hex := hex
  osOpen name m :=
    match store name with
    | none => (m, some .notFound)
    | some f => ({ m with fname := name, data := f, pos := 0 }, none)
  osCreate name m :=
    let (f, m) := m.pop
    match f with
    | none => ({ m with fname := name, data := [], pos := 0 }, none)
    | some _ => (m, some .create)
  fileRead p m :=
    let c := (m.data.drop m.pos).take p.length
    if c.length = 0 ∧ 0 < p.length then (m, p, 0, some .eof)
    else ({ m with pos := m.pos + c.length }, c ++ p.drop c.length, (c.length : Int), none)
  fileWrite p m :=
    let (f, m) := m.pop
    match f with
    | none => ({ m with data := writeAt m.data m.pos p, pos := m.pos + p.length }, (p.length : Int), none)
    | some k =>
      let c := p.take k
      ({ m with data := writeAt m.data m.pos c, pos := m.pos + c.length }, (c.length : Int), some .write)
  seek off m :=
    let (f, m) := m.pop
    match f with
    | none => ({ m with pos := off.toNat }, none)
    | some _ => (m, some .seek)
  newWriter level m := if level < -2 ∨ 9 < level then (m, some .level) else (m, none)
  wrWrite p m :=
    let (f, m) := m.pop
    if m.broken then (m, 0, some .flate)
    else match f with
      | none => ({ m with plain := m.plain ++ p }, (p.length : Int), none)
      | some k =>
        let c := (deflate (m.plain ++ p)).take k
        ({ m with data := writeAt m.data m.pos c, pos := m.pos + c.length, broken := true }, 0,
          some .flate)
  wrClose m :=
    let (f, m) := m.pop
    if m.broken then (m, some .flate)
    else match f with
      | none =>
        let c := deflate m.plain
        ({ m with data := writeAt m.data m.pos c, pos := m.pos + c.length }, none)
      | some k =>
        let c := (deflate m.plain).take k
        ({ m with data := writeAt m.data m.pos c, pos := m.pos + c.length, broken := true },
          some .flate)
  mkErr := .site
  eof := .eof

/-- the `Open`-side error of the machine as the error of `CacheFile.lean` -/
def FErr.toErr : FErr → Err
  | .notFound => .notFound
  | .site (.readHeader 0) => .eof
  | .site (.readHeader _) => .short
  | .site (.validate 0) => .root
  | .site (.validate 1) => .data
  | .site (.validate _) => .body
  | _ => .eof

/-! ### the hand-written fault model -/

/-- a `*File` being written by a process that lives on: what is on disk, the file offset, the
header fields remembered by `CreateLevel`, the plain bytes the flate writer has accepted, and
whether the flate writer has seen a write error. -/
structure FWriter where
  data : Bytes
  pos : Nat
  r : Bytes
  q : Bytes
  plain : Bytes
  broken : Bool
  deriving DecidableEq, Repr

/-- file.go `CreateLevel` (after a successful `os.Create`, with a valid level) under the fault
`fault` of the placeholder write `f.Write(make([]byte, h.Size()*3))`: `none` — the placeholder
is on disk; `some k` — the write failed after `k` zero bytes and `CreateLevel` returns that
error (next to the `*File`: the caller decides; `TryCache` removes the entry's name and keeps
writing into the unlinked file). -/
def createF (d : Nat) (r q : Bytes) (fault : Option Nat) : FWriter × Option FErr :=
  match fault with
  | none => (⟨zeros (3 * d), 3 * d, r, q, [], false⟩, none)
  | some k => (⟨(zeros (3 * d)).take k, ((zeros (3 * d)).take k).length, r, q, [], false⟩, some .write)

/-- file.go `File.Write(p)` of a writer under the fault `fault` of the file writes flate performs
during the call: `none` — `p` is accepted; `some k` — a write to the file failed, `k` bytes of
the compressed stream for everything handed over so far are on disk, the call returns the error
and the flate writer stays broken.  A broken flate writer returns its error without writing. -/
def writeF (deflate : Bytes → Bytes) (w : FWriter) (p : Bytes) (fault : Option Nat) :
    FWriter × Option FErr :=
  if w.broken then (w, some .flate)
  else match fault with
    | none => ({ w with plain := w.plain ++ p }, none)
    | some k =>
      let c := (deflate (w.plain ++ p)).take k
      ({ w with data := writeAt w.data w.pos c, pos := w.pos + c.length, broken := true }, some .flate)

/-- the fault pattern of one `File.Close`: one entry per fallible statement, in source order -/
structure CloseFaults where
  /-- `f.wr.Close()`: `some k` — the final flush failed, `k` bytes of the complete stream are on disk -/
  flush : Option Nat := none
  /-- `f.f.Seek(3*size, io.SeekStart)` -/
  seekBody : Option Nat := none
  /-- `io.Copy(f.h, f.f)`: `some k` — the read failed after `k` bytes had been hashed -/
  copy : Option Nat := none
  /-- `f.f.Seek(0, io.SeekStart)` -/
  seekStart : Option Nat := none
  /-- `f.hd.WriteTo(f.f)`: `some k` — the header write failed after `k` bytes -/
  header : Option Nat := none
  deriving DecidableEq, Repr

/-- the fault entries of one `Close` as the machine consumes them: in statement order -/
def CloseFaults.toList (cf : CloseFaults) : List (Option Nat) :=
  [cf.flush, cf.seekBody, cf.copy, cf.seekStart, cf.header]

/-- `ret == nil { ret = err }`: the FIRST error is kept -/
def keepFirst (ret err : Option FErr) : Option FErr :=
  match ret with
  | none => err
  | some _ => ret

/-- file.go `File.Close` of a writer, statement by statement; every later step still runs after
an error, `ret` keeps the FIRST error:
```
ret := f.wr.Close()
if _, err := f.f.Seek(int64(f.h.Size())*3, io.SeekStart); ret == nil { ret = err }
f.h.Reset()
if _, err := io.Copy(f.h, f.f); ret == nil { ret = err }
f.hd.BodySum = f.h.Sum(nil)
if _, err := f.f.Seek(0, io.SeekStart); ret == nil { ret = err }
if _, err := f.hd.WriteTo(f.f); ret == nil { ret = err }
return ret
```
Result: what is on disk afterwards, and `ret`. -/
def closeF (H : Bytes → Bytes) (d : Nat) (deflate : Bytes → Bytes) (w : FWriter) (cf : CloseFaults) :
    Bytes × Option FErr :=
  -- ret := f.wr.Close()
  let (data1, pos1, ret) :=
    if w.broken then (w.data, w.pos, some FErr.flate)
    else match cf.flush with
      | none => (writeAt w.data w.pos (deflate w.plain), w.pos + (deflate w.plain).length, none)
      | some k =>
        let c := (deflate w.plain).take k
        (writeAt w.data w.pos c, w.pos + c.length, some FErr.flate)
  -- f.f.Seek(3*size, SeekStart)
  let (pos2, ret) :=
    match cf.seekBody with
    | none => (3 * d, ret)
    | some _ => (pos1, keepFirst ret (some .seek))
  -- f.h.Reset(); io.Copy(f.h, f.f)
  let (hashed, pos3, ret) :=
    match cf.copy with
    | none => (data1.drop pos2, max pos2 data1.length, ret)
    | some k =>
      let c := (data1.drop pos2).take k
      (c, pos2 + c.length, keepFirst ret (some .copy))
  -- f.hd.BodySum = f.h.Sum(nil)
  let bsum := H hashed
  -- f.f.Seek(0, SeekStart)
  let (pos4, ret) :=
    match cf.seekStart with
    | none => (0, ret)
    | some _ => (pos3, keepFirst ret (some .seek))
  -- f.hd.WriteTo(f.f)
  let hdr := w.r ++ w.q ++ bsum
  match cf.header with
  | none => (writeAt data1 pos4 hdr, ret)
  | some k => (writeAt data1 pos4 (hdr.take k), keepFirst ret (some .write))

/-- a fault pattern for a whole `CreateLevel; Write p₁; …; Write pₙ; Close` -/
structure Session where
  create : Option Nat := none
  writes : List (Bytes × Option Nat)
  close : CloseFaults := {}
  deriving DecidableEq, Repr

/-- the `Write` calls in order: the writer afterwards and the error each call returned -/
def writesF (deflate : Bytes → Bytes) : FWriter → List (Bytes × Option Nat) → FWriter × List (Option FErr)
  | w, [] => (w, [])
  | w, (p, f) :: t =>
    let (w1, e) := writeF deflate w p f
    let (w2, es) := writesF deflate w1 t
    (w2, e :: es)

/-- what the caller of a session sees and what it leaves on disk -/
structure SessionResult where
  disk : Bytes
  createErr : Option FErr
  writeErrs : List (Option FErr)
  closeErr : Option FErr
  deriving DecidableEq, Repr

/-- `CreateLevel; Write…; Close` under a fault pattern -/
def runSession (H : Bytes → Bytes) (d : Nat) (deflate : Bytes → Bytes) (r q : Bytes) (s : Session) :
    SessionResult :=
  let (w0, ce) := createF d r q s.create
  let (w1, wes) := writesF deflate w0 s.writes
  let (disk, cle) := closeF H d deflate w1 s.close
  ⟨disk, ce, wes, cle⟩

/-- everything the session handed to `Write` -/
def Session.written (s : Session) : Bytes := (s.writes.map (·.1)).flatten

/-- the caller saw no error at all -/
def SessionResult.clean (o : SessionResult) : Bool :=
  o.createErr.isNone && o.writeErrs.all (·.isNone) && o.closeErr.isNone

end Gts.Cache
