/-
  Protocol ops of the cache-file area (see /verif/FRAMEWORK.md).  Not part of any theorem.
  Core Lean only.

  The model never computes SHA-1 / CRC-32 / flate: every digest and every (de)compression result
  the Go side obtained is passed IN as data and the model's parameters are instantiated with
  constant functions (`H := fun _ => bsum`, `deflate := fun _ => deflated`, …).  What is compared
  is everything else: the header layout, the short-read rule, which bytes are hashed, the order
  and outcome of `Validate`, which bytes the reader is given, the crash-state enumeration.

    cache.name   <hash> x<r> x<q> x<H(r‖q)>                         → x<file name>
    cache.finish <hash> x<r> x<q> <body> <chunk> x<deflated> x<H(deflated)> → x<file bytes>
    cache.open   <hash> x<file> x<r> x<q> x<H(file[3d:])> P          → OK x<plain> | OK RERR | ERR
    cache.openv  <hash> <body> <chunk> x<r> x<q> <fault> x<head> <len> x<H(file[3d:])> P
                                                                     → OK x<P> | OK RERR | ERR
    cache.incrash <hash> x<state> x<r> x<q> x<body> x<H(body)>       → 1 | 0
    cache.fault  x<r> x<q> x<deflated> x<disk> x<H(disk[3d:])> <werr> <cerr> → 1 | 0
    cache.faultcreate <d> x<disk>                                    → 1 | 0

  `cache.fault`: is the observation (bytes on disk after `Close`, did a `Write` / did `Close` return
  an error) an outcome of the fault model `runSession` (Gts/Model/CacheFault.lean) for a session
  whose `CreateLevel` works, whose one `Write` works or fails, and whose `Close` flush works or fails
  (the other steps of `Close` work)?  The number of stream bytes on disk at the fault is determined
  by the length of the file.  `cache.faultcreate`: is `disk` what a failed placeholder write leaves?

  `<hash>`, `<body>`, `<chunk>`, `<fault>` tell the Go side how to (re)build the real file; the
  model ignores them.  `P` is what an independent inflate of `file[3d:]` gives (`x<bytes>`, for
  `openv` a digest of them) or `-` when that stream is corrupt.  In `openv` the file is described
  by its first `min len 3d` bytes and its length (big files).
-/
import Gts.Model.Sexp
import Gts.Model.CacheFile
import Gts.Model.CacheFault
namespace Gts
open Gts.Cache

/-- the answer of `Open` + read-all, with the inflate result `p` supplied by the caller -/
def cacheVerdict (file r q bsum : List UInt8) (p : Sexp) : Option String :=
  let d := bsum.length
  match openf (fun _ => bsum) d file r q with
  | .error _ => some "ERR"
  | .ok _ =>
    match p with
    | .atom "-" => some "OK RERR"
    | _ => do pure ("OK " ++ encBytes (← decBytes? p))

def evalCache (op : String) (args : List Sexp) : Option String :=
  match op, args with
  | "cache.name", [_, r, q, l] => do
      let l ← decBytes? l
      pure (encStr (name (fun _ => l) (← decBytes? r) (← decBytes? q)))
  | "cache.finish", [_, r, q, _, _, z, b] => do
      let b ← decBytes? b
      let z ← decBytes? z
      pure (encBytes (finish (fun _ => b) b.length (fun _ => z) (← decBytes? r) (← decBytes? q) []))
  | "cache.open", [_, f, r, q, b, p] => do
      cacheVerdict (← decBytes? f) (← decBytes? r) (← decBytes? q) (← decBytes? b) p
  | "cache.openv", [_, _, _, r, q, _, hd, len, b, p] => do
      let hd ← decBytes? hd
      let b ← decBytes? b
      let len := (← decInt? len).toNat
      if hd.length ≠ min len (3 * b.length) then pure "BAD-ARGS"
      else cacheVerdict (hd ++ zeros (len - hd.length)) (← decBytes? r) (← decBytes? q) b p
  | "cache.incrash", [_, s, r, q, body, b] => do
      let b ← decBytes? b
      let s ← decBytes? s
      pure (boolStr' ((crashStates (fun _ => b) b.length (← decBytes? r) (← decBytes? q)
        (← decBytes? body)).elem s))
  | "cache.fault", [r, q, z, disk, b, werr, cerr] => do
      let b ← decBytes? b
      let z ← decBytes? z
      let disk ← decBytes? disk
      let r ← decBytes? r
      let q ← decBytes? q
      let werr := (← decInt? werr) == 1
      let cerr := (← decInt? cerr) == 1
      let d := b.length
      let k := disk.length - 3 * d
      let cands : List Session :=
        if werr then [{ writes := [([], some k)] }]
        else [{ writes := [([], none)] }, { writes := [([], none)], close := { flush := some k } }]
      pure (boolStr' (cands.any fun s =>
        let o := runSession (fun _ => b) d (fun _ => z) r q s
        o.disk == disk && o.createErr.isNone && (o.writeErrs.any (·.isSome) == werr)
          && (o.closeErr.isSome == cerr)))
  | "cache.faultcreate", [d, disk] => do
      let d := (← decInt? d).toNat
      let disk ← decBytes? disk
      pure (boolStr' ((List.range (3 * d)).any fun k => (createF d [] [] (some k)).1.data == disk))
  | _, _ => none
where
  boolStr' (b : Bool) : String := if b then "1" else "0"

end Gts
