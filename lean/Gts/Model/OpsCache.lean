/-
  Protocol ops of one area (see /verif/FRAMEWORK.md).  Not part of any theorem.  Core Lean only.
-/
import Gts.Model.Sexp
namespace Gts

def evalCache (op : String) (args : List Sexp) : Option String :=
  match op, args with
  | _, _ => none

end Gts
