/-
  Executable model of /repo/feature.go (table part) and /repo/sequence.go (core Lean only).
-/
import Gts.Model.Region
namespace Gts

structure Feature where
  key : String
  loc : Loc
  props : List (List String)
  deriving Repr, Inhabited

abbrev Table := List Feature

structure Seq where
  feats : Table
  bytes : List UInt8
  deriving Repr, Inhabited

/-- `sort.Search(n, f)`: binary search exactly as in Go's `sort` package; `fuel` bounds the
loop (`n + 1` iterations always suffice). -/
def sortSearchLoop (f : Nat → Bool) : Nat → Nat → Nat → Nat
  | 0, i, _ => i
  | fuel + 1, i, j =>
    if i < j then
      let h := (i + j) / 2
      if !f h then sortSearchLoop f fuel (h + 1) j else sortSearchLoop f fuel i h
    else i

def sortSearch (n : Nat) (f : Nat → Bool) : Nat := sortSearchLoop f (n + 1) 0 n

namespace Table

def sourceCount : Table → Nat
  | [] => 0
  | f :: fs => if f.key = "source" then sourceCount fs + 1 else 0

/-- `FeatureSlice.Insert(f)` -/
def insert (ff : Table) (f : Feature) : Table :=
  let i := sourceCount ff
  let i := if f.key ≠ "source" then
      i + sortSearch (ff.length - i) (fun j =>
        match ff[i + j]? with
        | some g => Loc.less f.loc g.loc
        | none => true)
    else i
  ff.take i ++ f :: ff.drop i

def insertAll (acc : Table) (fs : List Feature) : Table := fs.foldl insert acc

end Table

namespace Seq

def len (s : Seq) : Int := s.bytes.length

/-- `insert(p, pos, q)` on values (the aliasing behaviour is the subject of C11) -/
def spliceBytes (p : List UInt8) (pos : Nat) (q : List UInt8) : List UInt8 :=
  p.take pos ++ q ++ p.drop pos

/-- `gts.Insert(host, index, guest)` -/
def insert (host : Seq) (index : Int) (guest : Seq) : Seq :=
  let n := guest.len
  let ff := Table.insertAll [] (host.feats.map fun f => { f with loc := f.loc.shift index n })
  let ff := Table.insertAll ff (guest.feats.map fun f => { f with loc := f.loc.expand 0 index })
  ⟨ff, spliceBytes host.bytes index.toNat guest.bytes⟩

/-- `gts.Embed(host, index, guest)` -/
def embed (host : Seq) (index : Int) (guest : Seq) : Seq :=
  let n := guest.len
  let ff := Table.insertAll [] (host.feats.map fun f => { f with loc := f.loc.expand index n })
  let ff := Table.insertAll ff (guest.feats.map fun f => { f with loc := f.loc.expand 0 index })
  ⟨ff, spliceBytes host.bytes index.toNat guest.bytes⟩

/-- `gts.Delete(seq, offset, length)` (result value only) -/
def delete (s : Seq) (offset length : Int) : Seq :=
  ⟨s.feats.map fun f => { f with loc := f.loc.expand offset (-length) },
   s.bytes.take offset.toNat ++ s.bytes.drop (offset + length).toNat⟩

/-- `gts.Erase`: drop the features within the region unless their key is `source`, then delete -/
def erase (s : Seq) (offset length : Int) : Seq :=
  delete ⟨s.feats.filter fun f => f.key = "source" || !(f.loc.within offset (offset + length)),
          s.bytes⟩ offset length

/-- `gts.Rotate(seq, n)` for a non-empty sequence (Go divides by the length). -/
def rotate (s : Seq) (n : Int) : Seq :=
  let L := s.len
  -- `for Len(seq) > 0 && n < 0 { n += Len(seq) }; n %= Len(seq)`
  let n := Int.tmod (if n < 0 then n + ((-n + L - 1) / L) * L else n) L
  let ff := Table.insertAll [] (s.feats.map fun f => { f with loc := (f.loc.expand 0 n).normalize L })
  let m := (L - n).toNat
  ⟨ff, s.bytes.drop m ++ s.bytes.take m⟩

/-- the forward case of `gts.Slice` (`0 ≤ start ≤ end`) -/
def sliceFwd (s : Seq) (start end_ : Int) : Seq :=
  let L := s.len
  let ff := s.feats.filter fun f => f.loc.overlap start end_
  let ff := ff.map fun f =>
    let loc := (f.loc.expand end_ (end_ - L)).expand 0 (-start)
    { f with loc := if f.key = "source" then loc.asComplete else loc }
  ⟨ff, (s.bytes.drop start.toNat).take (end_ - start).toNat⟩

/-- `gts.Slice(seq, start, end)` -/
def slice (s : Seq) (start end_ : Int) : Seq :=
  let L := s.len
  let start := if start < 0 then start + L else start
  let end_ := if end_ < 0 then end_ + L else end_
  if end_ < start then
    sliceFwd (rotate s (-start)) 0 (L - start + end_)
  else sliceFwd s start end_

/-- `gts.Concat(ss...)` for two or more sequences folds `concat2`; one sequence is returned
as is, none gives the empty sequence. -/
def concat2 (a b : Seq) : Seq :=
  ⟨Table.insertAll a.feats (b.feats.map fun f => { f with loc := f.loc.expand 0 a.len }),
   a.bytes ++ b.bytes⟩

def concat : List Seq → Seq
  | [] => ⟨[], []⟩
  | s :: ss => ss.foldl concat2 s

/-- `gts.Reverse(seq)` -/
def reverse (s : Seq) : Seq :=
  ⟨Table.insertAll [] (s.feats.map fun f => { f with loc := f.loc.reverse s.len }),
   s.bytes.reverse⟩

end Seq
end Gts
