/-
  Model of /repo/seqio/date.go: `AsDate` (with `strings.Split`, `strconv.Atoi`, `monthMap`,
  `checkDate`, `dayMap`, `isLeapYear`) and of the date stamp the GenBank writer prints,
  `strings.ToUpper(date.ToTime().Format("02-Jan-2006"))` (genbank.go:206).  The two tables are
  also extracted from the AST (`Gts/Gen/Date.lean`) and compared in `Gts/Bridge/Date.lean`.
  Core Lean only.
-/
import Gts.Model.Modifier
namespace Gts.Date
open Pars

/-- `seqio.Date`; `month` is the integer value of `time.Month` (January = 1) -/
structure DateV where
  year : Int
  month : Nat
  day : Int
  deriving Repr, DecidableEq, Inhabited

/-- `strings.Split(s, "-")`: one more part than there are `-` bytes (`[""]` for the empty string) -/
def splitDash : Bytes → List Bytes
  | [] => [[]]
  | c :: r =>
    if c = 45 then [] :: splitDash r
    else match splitDash r with
      | [] => [[c]]
      | p :: ps => (c :: p) :: ps

/-- `monthMap` (date.go:28-41): the three spellings of every month -/
def monthTable : List (Bytes × Nat) := [
  ([74, 65, 78], 1), -- JAN
  ([74, 97, 110], 1), -- Jan
  ([48, 49], 1), -- 01
  ([70, 69, 66], 2), -- FEB
  ([70, 101, 98], 2), -- Feb
  ([48, 50], 2), -- 02
  ([77, 65, 82], 3), -- MAR
  ([77, 97, 114], 3), -- Mar
  ([48, 51], 3), -- 03
  ([65, 80, 82], 4), -- APR
  ([65, 112, 114], 4), -- Apr
  ([48, 52], 4), -- 04
  ([77, 65, 89], 5), -- MAY
  ([77, 97, 121], 5), -- May
  ([48, 53], 5), -- 05
  ([74, 85, 78], 6), -- JUN
  ([74, 117, 110], 6), -- Jun
  ([48, 54], 6), -- 06
  ([74, 85, 76], 7), -- JUL
  ([74, 117, 108], 7), -- Jul
  ([48, 55], 7), -- 07
  ([65, 85, 71], 8), -- AUG
  ([65, 117, 103], 8), -- Aug
  ([48, 56], 8), -- 08
  ([83, 69, 80], 9), -- SEP
  ([83, 101, 112], 9), -- Sep
  ([48, 57], 9), -- 09
  ([79, 67, 84], 10), -- OCT
  ([79, 99, 116], 10), -- Oct
  ([49, 48], 10), -- 10
  ([78, 79, 86], 11), -- NOV
  ([78, 111, 118], 11), -- Nov
  ([49, 49], 11), -- 11
  ([68, 69, 67], 12), -- DEC
  ([68, 101, 99], 12), -- Dec
  ([49, 50], 12) -- 12
]

/-- `monthMap[s]` with its `ok` -/
def monthOf (s : Bytes) : Option Nat := monthTable.lookup s

/-- `dayMap` (date.go:43-56) -/
def dayTable : List (Nat × Nat) := [(1, 31), (2, 28), (3, 31), (4, 30), (5, 31), (6, 30), (7, 31), (8, 31), (9, 30), (10, 31), (11, 30), (12, 31)]

/-- `isLeapYear` (date.go:58-67); Go's `%` truncates (`Int.tmod`) -/
def isLeapYear (year : Int) : Bool :=
  if year.tmod 400 = 0 then true
  else if year.tmod 100 = 0 then false
  else decide (year.tmod 4 = 0)

/-- `checkDate` (date.go:69-84): `true` = `nil` -/
def checkDate (year : Int) (month : Nat) (day : Int) : Bool :=
  match dayTable.lookup month with
  | none => false
  | some dayMax =>
    let dayMax : Int := if month = 2 && isLeapYear year then dayMax + 1 else dayMax
    if day < 1 then false
    else if day > dayMax then false
    else true

/-- `AsDate` (date.go:87-106).  `parts[0], parts[1], parts[2]` are index expressions: they are
modelled as checked reads (`.panic` when out of range) although the length test guards them. -/
def asDate (s : Bytes) : Except Err DateV :=
  let parts := splitDash s
  if parts.length ≠ 3 then .error .fail else
  match parts[0]?, parts[1]?, parts[2]? with
  | some sday, some smonth, some syear =>
    match atoi sday with
    | none => .error .fail
    | some day =>
      match monthOf smonth with
      | none => .error .fail
      | some month =>
        match atoi syear with
        | none => .error .fail
        | some year => if checkDate year month day then .ok ⟨year, month, day⟩ else .error .fail
  | _, _, _ => .error .panic

/-! ### the writer's date stamp -/

/-- upper-cased `time.Month.String()[:3]`, i.e. what `Format("Jan")` prints, through `ToUpper` -/
def monthNames : List Bytes := [[74, 65, 78], [70, 69, 66], [77, 65, 82], [65, 80, 82], [77, 65, 89], [74, 85, 78], [74, 85, 76], [65, 85, 71], [83, 69, 80], [79, 67, 84], [78, 79, 86], [68, 69, 67]]

/-- left-pad with `0` to width `w` (Go's `appendInt(b, x, w)` for `x ≥ 0`) -/
def padZero (w : Nat) (ds : Bytes) : Bytes := List.replicate (w - ds.length) 48 ++ ds

/-- the `2006` verb: at least four digits, a leading `-` for a negative year -/
def fmtYear (y : Int) : Bytes :=
  if y < 0 then 45 :: padZero 4 (natDigits y.natAbs) else padZero 4 (natDigits y.natAbs)

/-- `strings.ToUpper(time.Date(y, m, d, 0, 0, 0, 0, time.UTC).Format("02-Jan-2006"))` for a date
that `time.Date` does not normalise (a valid calendar date): `02-JAN-2006` -/
def fmtDate (d : DateV) : Bytes :=
  padZero 2 (natDigits d.day.natAbs) ++ (45 :: (monthNames.getD (d.month - 1) [] ++ (45 :: fmtYear d.year)))

/-- a calendar date: the month exists and `checkDate` accepts -/
def validDate (d : DateV) : Prop := 1 ≤ d.month ∧ d.month ≤ 12 ∧ checkDate d.year d.month d.day = true

instance (d : DateV) : Decidable (validDate d) := by unfold validDate; exact inferInstance

end Gts.Date
