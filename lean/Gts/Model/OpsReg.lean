/-
  Protocol ops of one area (see /verif/FRAMEWORK.md).  Not part of any theorem.  Core Lean only.
  Region area (C09): the stages of `Minimize` one by one, `invertSegments` on a raw segment list,
  and the spec-side cover.  C05: `reg.locate <region> x<bytes>` = `Region.Locate` (`Reg.locate`, Model/Cli.lean)
  on the feature-less record `gts.New(nil, nil, bytes)`, answered in the sequence encoding.  The model's
  `Seq.slice` is total where the real `Slice` panics, so the harness sends regions inside the sequence only.
-/
import Gts.Model.Sexp
import Gts.Model.Cli
import Gts.Spec.Cover
namespace Gts

def encInts (xs : List Int) : String := "[" ++ " ".intercalate (xs.map toString) ++ "]"

def evalReg (op : String) (args : List Sexp) : Option String :=
  match op, args with
  | "reg.flatten", [r] => do pure (encSegs (← decReg? r).flatten)
  | "reg.sort", [r] => do pure (encSegs (Reg.sortSegs (← decReg? r).flatten))
  | "reg.invsegs", [r, n] => do
      pure (encSegs (Reg.invertSegments (← decReg? r).leaves (← decInt? n)))
  | "reg.locate", [r, b] => do
      pure (encSeq (Reg.locate (← decReg? r) ⟨[], ← decBytes? b⟩))
  | "spec.cover", [r, lo, k] => do
      pure (encInts (coverList (← decReg? r) (← decInt? lo) (← decInt? k).toNat))
  | _, _ => none

end Gts
