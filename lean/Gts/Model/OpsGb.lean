/-
  Protocol ops for GenBank record-level helpers.  Not part of any theorem.  Core Lean only.
-/
import Gts.Model.Sexp
import Gts.Model.GbSlice
namespace Gts

def evalGb (op : String) (args : List Sexp) : Option String :=
  match op, args with
  | "gb.sliceref", pref :: a :: b :: infos => do
      let refs ← infos.mapM fun i => do pure (⟨0, ← decBytes? i⟩ : Ref)
      let rs := sliceRefs (← decBytes? pref) (← decInt? a) (← decInt? b) refs
      pure (encList (rs.map fun r => s!"({r.number} {encBytes r.info})"))
  | "gb.sliceref2", pref :: a :: b :: c :: d :: infos => do
      let refs ← infos.mapM fun i => do pure (⟨0, ← decBytes? i⟩ : Ref)
      let p ← decBytes? pref
      let rs := sliceRefs p (← decInt? c) (← decInt? d) (sliceRefs p (← decInt? a) (← decInt? b) refs)
      pure (encList (rs.map fun r => s!"({r.number} {encBytes r.info})"))
  | "gb.refinfo", [pref, info] => do
      match parseRefInfo (← decBytes? pref) (← decBytes? info) with
      | none => pure "ERR"
      | some rs => pure (encList (rs.map fun r => s!"(R {r.1} {r.2} 0 0)"))
  | _, _ => none

end Gts
