/-
  Protocol ops of the memory model (C11; see /verif/FRAMEWORK.md).  Not part of any theorem.
  Core Lean only.

  World syntax (shared with harness/props_c11.go):
    (B x<array0> x<array1> …)                    byte arrays, whole backing arrays
    (T (F… F…) (F…) …)                           feature-table arrays, whole backing arrays
    (S (ta to tl tc ba bo bl bc) …)              sequences: table slice header, byte slice header
  Operations on sequence number `k`:
    (insert i k) (embed i k) (delete i n) (erase i n) (slice a b) (rotate n) (reverse)
    (complement) (transcribe) (concat (k…) (k…)) (tabinsert F) (filter lo hi)
  Answer of `mem.prog`: `(B x… x…) (T (…) …) (R (Q x<bytes> F…) …)` — every array that existed
  before (whole array), then the results.
-/
import Gts.Model.Sexp
import Gts.Model.Mem
import Gts.Model.MemLoc
namespace Gts
open Gts.Mem Gts.Mem.Heap

/-- the capacity policy used by the driver (never observable in a dump) -/
def memGrow : Grow := fun _ _ => 0

def decSlice4? : List Sexp → Option (Slice × List Sexp)
  | a :: o :: l :: c :: rest => do pure (⟨← decNat? a, ← decNat? o, ← decNat? l, ← decNat? c⟩, rest)
  | _ => none

def decMSeq? : Sexp → Option MSeq
  | .list xs => do
    let (t, rest) ← decSlice4? xs
    let (b, rest) ← decSlice4? rest
    if rest.isEmpty then pure ⟨t, b⟩ else none
  | _ => none

def decWorld? : Sexp → Sexp → Sexp → Option (World Feature × List MSeq)
  | .list (.atom "B" :: bs), .list (.atom "T" :: ts), .list (.atom "S" :: ss) => do
    let B ← bs.mapM decBytes?
    let T ← ts.mapM fun
      | .list fs => fs.mapM decFeature?
      | _ => none
    let S ← ss.mapM decMSeq?
    pure (⟨B, T⟩, S)
  | _, _, _ => none

def decMemOp? (seqs : List MSeq) : Sexp → Option Op
  | .list [.atom "insert", i, k] => do pure (.insert (← decInt? i) (← seqs[← decNat? k]?))
  | .list [.atom "embed", i, k] => do pure (.embed (← decInt? i) (← seqs[← decNat? k]?))
  | .list [.atom "delete", i, n] => do pure (.delete (← decInt? i) (← decInt? n))
  | .list [.atom "erase", i, n] => do pure (.erase (← decInt? i) (← decInt? n))
  | .list [.atom "slice", a, b] => do pure (.slice (← decInt? a) (← decInt? b))
  | .list [.atom "rotate", n] => do pure (.rotate (← decInt? n))
  | .list [.atom "reverse"] => pure .reverse
  | .list [.atom "complement"] => pure .complement
  | .list [.atom "transcribe"] => pure .transcribe
  | .list [.atom "concat", .list before, .list after] => do
    let bs ← before.mapM fun k => do seqs[← decNat? k]?
    let as ← after.mapM fun k => do seqs[← decNat? k]?
    pure (.concat bs as)
  | .list [.atom "tabinsert", f] => do pure (.tabInsert (← decFeature? f))
  | .list [.atom "filter", lo, hi] => do pure (.filterOverlap (← decInt? lo) (← decInt? hi))
  | _ => none

def encWorldDump (w0 w : World Feature) : String :=
  let bs := (List.range w0.B.length).map fun a => encBytes (w.B.get a)
  let ts := (List.range w0.T.length).map fun a => encList ((w.T.get a).map encFeature)
  "(B" ++ String.join (bs.map (" " ++ ·)) ++ ") (T" ++ String.join (ts.map (" " ++ ·)) ++ ")"

/-- run a program on sequence `k` of the world and dump -/
def memProg (w : World Feature) (seqs : List MSeq) (k : Nat) (ops : List Sexp) : Option String := do
  let s ← seqs[k]?
  let ops ← ops.mapM (decMemOp? seqs)
  let r := runProg memGrow w s ops
  let res := r.1.map fun m => encSeq (readSeq r.2 m)
  pure (encWorldDump w r.2 ++ " (R" ++ String.join (res.map (" " ++ ·)) ++ ")")

/-- a feature-less sequence over one buffer: `off len cap x<buffer>` -/
def decBuf? : List Sexp → Option (Slice × List UInt8 × List Sexp)
  | o :: l :: c :: b :: rest => do
    pure (⟨0, ← decNat? o, ← decNat? l, ← decNat? c⟩, ← decBytes? b, rest)
  | _ => none

/-- byte-level single-buffer operations: `x<buffer after> x<result>` -/
def memBytes1 (args : List Sexp) (f : World Feature → MSeq → List Sexp → Option (MSeq × World Feature)) :
    Option String := do
  let (sl, buf, rest) ← decBuf? args
  let w : World Feature := ⟨[buf], []⟩
  let r ← f w ⟨Slice.nil, sl⟩ rest
  pure (encBytes (r.2.B.get 0) ++ " " ++ encBytes (r.2.readDat r.1))

/-! ### locations in memory -/

def locDepth : Nat := 64

/-! ### location heaps (op `mem.loc`, shared with harness/props_c11_loc.go)

    (H (cell…) (cell…) …)      the arrays of location cells, whole arrays
    cell = (B p) | (P p) | (R s e p5 p3) | (A s e)          a contiguous value
         | (MJ arr off len cap) | (MO arr off len cap)      a `Joined` / `Ordered` header
         | (MC cell)                                         `Complemented{cell}`
  Answer: the arrays after the call in the same syntax, then the result as a GRAPH: a header into
  an argument array is printed as above; an array allocated by the call is numbered in the order
  of first visit (preorder) and printed with the cells it shows, `(NJ k len cell…)`, a second visit
  as `(NJ k)`; a header without capacity as `(MJ ~)`. -/

partial def decCell? : Sexp → Option MLoc
  | .list [.atom "MJ", a, o, l, c] => do
    pure (.joined ⟨← decNat? a, ← decNat? o, ← decNat? l, ← decNat? c⟩)
  | .list [.atom "MO", a, o, l, c] => do
    pure (.ordered ⟨← decNat? a, ← decNat? o, ← decNat? l, ← decNat? c⟩)
  | .list [.atom "MC", x] => do pure (.compl (← decCell? x))
  | s => do
    let l ← decLoc? s
    if isContig l then pure (.leaf l) else none

def decLHeap? : Sexp → Option LHeap
  | .list (.atom "H" :: arrs) => arrs.mapM fun
    | .list cells => cells.mapM decCell?
    | _ => none
  | _ => none

/-- a cell of an argument array (`n0` arrays existed before the call) -/
partial def encCellArg (n0 : Nat) : MLoc → String
  | .leaf l => encLoc l
  | .joined s =>
    if s.cap = 0 then "(MJ ~)" else if s.arr < n0 then s!"(MJ {s.arr} {s.off} {s.len} {s.cap})" else "(?J)"
  | .ordered s =>
    if s.cap = 0 then "(MO ~)" else if s.arr < n0 then s!"(MO {s.arr} {s.off} {s.len} {s.cap})" else "(?O)"
  | .compl m => "(MC " ++ encCellArg n0 m ++ ")"

def encLHeapDump (n0 : Nat) (h : LHeap) : String :=
  "(H" ++ String.join ((List.range n0).map fun a => " " ++ encList ((h.get a).map (encCellArg n0))) ++ ")"

mutual
/-- the result as a graph; `seen` = the new arrays visited so far, as (array, offset) -/
partial def encGraph (n0 : Nat) (h : LHeap) (m : MLoc) (seen : List (Nat × Nat)) : String × List (Nat × Nat) :=
  match m with
  | .leaf l => (encLoc l, seen)
  | .joined s => encGraphSlice n0 h "J" s seen
  | .ordered s => encGraphSlice n0 h "O" s seen
  | .compl m => let r := encGraph n0 h m seen; ("(MC " ++ r.1 ++ ")", r.2)
partial def encGraphSlice (n0 : Nat) (h : LHeap) (tag : String) (s : Slice) (seen : List (Nat × Nat)) :
    String × List (Nat × Nat) :=
  if s.cap = 0 then (s!"(M{tag} ~)", seen)
  else if s.arr < n0 then (s!"(M{tag} {s.arr} {s.off} {s.len} {s.cap})", seen)
  else match seen.idxOf? (s.arr, s.off) with
    | some k => (s!"(N{tag} {k})", seen)
    | none =>
      let k := seen.length
      let r := (read h s).foldl (fun (st : String × List (Nat × Nat)) c =>
        let x := encGraph n0 h c st.2
        (st.1 ++ " " ++ x.1, x.2)) ("", seen ++ [(s.arr, s.off)])
      (s!"(N{tag} {k} {s.len}" ++ r.1 ++ ")", r.2)
end

/-- run one location method on a receiver laid out in a location heap -/
def memLoc (meth : Sexp) (h : LHeap) (m : MLoc) (rest : List Sexp) : Option (Option (MLoc × LHeap)) :=
  match meth, rest with
  | .atom "expand", [i, n] => do pure (expandMem memGrow (← decInt? i) (← decInt? n) locDepth h m)
  | .atom "shift", [i, n] => do pure (shiftMem memGrow (← decInt? i) (← decInt? n) locDepth h m)
  | .atom "normalize", [len] => do pure (normalizeMem memGrow (← decInt? len) locDepth h m)
  | .atom "reverse", [len] => do pure (reverseMem memGrow (← decInt? len) locDepth h m)
  | .atom "complement", [] => pure (some (complementMem m, h))
  | .atom "slice", [len, a, b, src] => do
    pure (sliceLocMem memGrow locDepth (← decInt? len) (← decInt? a) (← decInt? b) (← decBool? src) h m)
  | _, _ => none

/-! ### props in memory: `(P ocap (rcap x… x…) …)`: outer capacity, rows with their capacity -/

def decRow? : Sexp → Option (Nat × List String)
  | .list (c :: vs) => do pure (← decNat? c, ← vs.mapM decStr?)
  | _ => none

/-- lay a `Props` out: every row in its own array with `rcap` cells, the outer array with `ocap` -/
def buildProps (ocap : Nat) (rows : List (Nat × List String)) : Slice × PWorld :=
  let R : Heap String := rows.map fun (c, vs) => vs ++ List.replicate (c - vs.length) "î"
  let hdrs : List Slice := (List.range rows.length).zipWith (fun i (r : Nat × List String) => (⟨i, 0, r.2.length, max r.1 r.2.length⟩ : Slice)) rows
  (⟨0, 0, rows.length, max ocap rows.length⟩, ⟨R, [hdrs ++ List.replicate (ocap - rows.length) Slice.nil]⟩)

def encPropsVal (v : List (List String)) : String := encProps v

def evalMem (op : String) (args : List Sexp) : Option String :=
  match op, args with
  | "mem.prog", _share :: b :: t :: s :: k :: ops => do
      let (w, seqs) ← decWorld? b t s
      memProg w seqs (← decNat? k) ops
  | "mem.gbprog", _share :: b :: t :: s :: k :: ops => do
      -- the same worlds through seqio.GenBank values: every byte array is the residues of one
      -- *Origin (window = whole array); the dump reads them back through `Bytes()`
      let (w, seqs) ← decWorld? b t s
      memProg w seqs (← decNat? k) ops
  | "mem.insert", _ => do
      let (hs, hbuf, rest) ← decBuf? args
      match rest with
      | idx :: rest => do
        let (gs, gbuf, _) ← decBuf? rest
        let w : World Feature := ⟨[hbuf, gbuf], []⟩
        let r := insertSeq memGrow w ⟨Slice.nil, hs⟩ (← decInt? idx) ⟨Slice.nil, { gs with arr := 1 }⟩
        pure (encBytes (r.2.B.get 0) ++ " " ++ encBytes (r.2.B.get 1) ++ " " ++ encBytes (r.2.readDat r.1))
      | _ => none
  | "mem.embed", _ => do
      let (hs, hbuf, rest) ← decBuf? args
      match rest with
      | idx :: rest => do
        let (gs, gbuf, _) ← decBuf? rest
        let w : World Feature := ⟨[hbuf, gbuf], []⟩
        let r := embedSeq memGrow w ⟨Slice.nil, hs⟩ (← decInt? idx) ⟨Slice.nil, { gs with arr := 1 }⟩
        pure (encBytes (r.2.B.get 0) ++ " " ++ encBytes (r.2.B.get 1) ++ " " ++ encBytes (r.2.readDat r.1))
      | _ => none
  | "mem.insert1", _ => do
      -- host and guest are two windows of ONE buffer: off len cap goff glen gcap x<buffer> idx
      match args with
      | [o, l, c, go, gl, gc, b, idx] => do
        let w : World Feature := ⟨[← decBytes? b], []⟩
        let hs : Slice := ⟨0, ← decNat? o, ← decNat? l, ← decNat? c⟩
        let gs : Slice := ⟨0, ← decNat? go, ← decNat? gl, ← decNat? gc⟩
        let r := insertSeq memGrow w ⟨Slice.nil, hs⟩ (← decInt? idx) ⟨Slice.nil, gs⟩
        pure (encBytes (r.2.B.get 0) ++ " " ++ encBytes (r.2.readDat r.1))
      | _ => none
  | "mem.delete", _ => memBytes1 args fun w s rest =>
      match rest with
      | [i, n] => do pure (deleteSeq w s (← decInt? i) (← decInt? n))
      | _ => none
  | "mem.rotate", _ => memBytes1 args fun w s rest =>
      match rest with
      | [n] => do pure (rotateSeq memGrow w s (← decInt? n))
      | _ => none
  | "mem.slice", _ => memBytes1 args fun w s rest =>
      match rest with
      | [a, b] => do pure (sliceSeq memGrow w s (← decInt? a) (← decInt? b))
      | _ => none
  | "mem.reverse", _ => memBytes1 args fun w s _ => pure (reverseSeq w s)
  | "mem.complement", _ => memBytes1 args fun w s _ => pure (complementSeq w s)
  | "mem.transcribe", _ => memBytes1 args fun w s _ => pure (transcribeSeq w s)
  | "mem.concat", _ => do
      -- any number of `off len cap x<buffer>` groups, each in its own array
      let rec go (args : List Sexp) (a : Nat) (fuel : Nat) : Option (List (Slice × List UInt8)) :=
        match fuel, args with
        | _, [] => some []
        | 0, _ => none
        | fuel + 1, _ => do
          let (sl, buf, rest) ← decBuf? args
          let more ← go rest (a + 1) fuel
          pure (({ sl with arr := a }, buf) :: more)
      let parts ← go args 0 args.length
      let w : World Feature := ⟨parts.map (·.2), []⟩
      let r := concatSeq memGrow w (parts.map fun p => ⟨Slice.nil, p.1⟩)
      let dumps := (List.range w.B.length).map fun a => encBytes (r.2.B.get a)
      pure (" ".intercalate dumps ++ " " ++ encBytes (r.2.readDat r.1))
  | "mem.tabinsert", [o, l, c, .list fs, f] => do
      let tab ← fs.mapM decFeature?
      let w : World Feature := ⟨[], [tab]⟩
      let r := tabInsertSeq w ⟨⟨0, ← decNat? o, ← decNat? l, ← decNat? c⟩, Slice.nil⟩ (← decFeature? f)
      pure (encList ((r.2.T.get 0).map encFeature) ++ " " ++ encList ((r.2.readTab r.1).map encFeature))
  | "mem.ascomplete", [l] => do
      let l ← decLoc? l
      let a := allocLoc l []
      let r := asCompleteMem locDepth a.2 a.1
      pure (encLoc (readLoc locDepth r.2 a.1) ++ " " ++ encLoc (readLoc locDepth r.2 r.1))
  | "mem.loc", meth :: hs :: root :: rest => do
      let h ← decLHeap? hs
      let m ← decCell? root
      match ← memLoc meth h m rest with
      | none => pure "PANIC"
      | some r => pure (encLHeapDump h.length r.2 ++ " " ++ (encGraph h.length r.2 r.1 []).1)
  | "mem.origin", [t] => do
      let text ← decBytes? t
      let w : OWorld := ⟨[text], [⟨⟨0, 0, text.length, text.length⟩, false⟩]⟩
      let r1 := originBytes originDecode w 0
      let r2 := originBytes originDecode r1.2 0
      let c := r2.2.O.getD 0 default
      pure (encBytes (r2.2.B.get 0) ++ " " ++ encBytes (read r1.2.B r1.1) ++ " " ++ encBytes (read r2.2.B r2.1)
        ++ " " ++ encBool c.parsed ++ " " ++ toString (obsLen r2.2 0))
  | "mem.props", mode :: what :: .list (.atom "P" :: ocap :: rows) :: key :: vals => do
      let rows ← rows.mapM decRow?
      let (p, w) := buildProps (← decNat? ocap) rows
      let key ← decStr? key
      let vals ← vals.mapM decStr?
      let (q, w) ← match mode with
        | .atom "shared" => some (p, w)
        | .atom "clone" => some (propsClone w p)
        | _ => none
      let r ← match what with
        | .atom "set" => some (propsSet memGrow w q key vals)
        | .atom "add" => some (propsAdd memGrow w q key vals)
        | .atom "del" => some (propsDel memGrow w q key)
        | _ => none
      pure (encPropsVal (readProps r.2 p) ++ " " ++ encPropsVal (readProps r.2 r.1))
  | _, _ => none

end Gts
