/-
  Protocol ops of the nucleotide area (C18): alphabet operations, Match, Search, and the
  meaning side (`spec.*`) so that the Go oracle's re-statement of Gts/Spec/Iupac is compared
  with the Lean one on every run.  Not part of any theorem.  Core Lean only.

    nuc.complement x<seq>            → x<bytes> | PANIC
    nuc.transcribe x<seq>            → x<bytes> | PANIC
    seq.complement (Q …)             → (Q …) | PANIC              (gts.Complement)
    seq.revcomp (Q …)                → (Q …) | PANIC              (gts.Reverse ∘ gts.Complement)
    nuc.replace x<p> x<old> x<new>   → x<bytes> | PANIC          (replaceBytes)
    nuc.match x<seq> x<query>        → ((S a b) …) | PANIC        (ASCII only)
    nuc.search x<seq> x<query>       → ((S a b) …)                (ASCII only)
    nuc.indexall x<s> x<sep>         → (i …) ascending            (bytesIndexAll, sorted by the harness)
    spec.baseset x<byte>             → mask
    spec.complset <mask>             → mask
    spec.letterof <mask> <upper> <rna> → x<byte>
-/
import Gts.Model.Sexp
import Gts.Model.Nuc
import Gts.Model.SeqNuc
import Gts.Spec.Iupac
namespace Gts

def encOptBytes : Option (List UInt8) → String
  | some b => encBytes b
  | none => "PANIC"

def evalNuc (op : String) (args : List Sexp) : Option String :=
  match op, args with
  | "nuc.complement", [p] => do pure (encOptBytes (Nuc.complementBytes (← decBytes? p)))
  | "seq.complement", [q] => do
      pure (match (← decSeq? q).complementRec with | some r => encSeq r | none => "PANIC")
  | "seq.revcomp", [q] => do
      pure (match (← decSeq? q).revcompRec with | some r => encSeq r | none => "PANIC")
  | "nuc.transcribe", [p] => do pure (encOptBytes (Nuc.transcribeBytes (← decBytes? p)))
  | "nuc.replace", [p, o, n] => do
      pure (encOptBytes (Nuc.replaceBytes (← decBytes? p) (← decBytes? o) (← decBytes? n)))
  | "nuc.match", [s, q] => do
      let s ← decBytes? s
      let q ← decBytes? q
      if s.length = 0 ∨ q.length = 0 then pure (encSegs [])
      else if !Nuc.matchModelled q then pure "UNMODELLED"
      else pure (encSegs (Nuc.matchSegs s q))
  | "nuc.matchok", [_, _] => pure "OK"   -- the model's matcher is total: `Match` never crashes, on any bytes
  | "nuc.search", [s, q] => do pure (encSegs (Nuc.search (← decBytes? s) (← decBytes? q)))
  | "nuc.indexall", [s, q] => do
      pure (encList ((Nuc.indexAll (← decBytes? s) (← decBytes? q)).map toString))
  | "spec.baseset", [c] => do
      match ← decBytes? c with
      | [b] => pure (toString (Iupac.baseSet b))
      | _ => none
  | "spec.complset", [m] => do pure (toString (Iupac.complementSet (← decInt? m).toNat))
  | "spec.letterof", [m, u, r] => do
      pure (encBytes [Iupac.letterOf (← decInt? m).toNat (← decBool? u) (← decBool? r)])
  | _, _ => none

end Gts
