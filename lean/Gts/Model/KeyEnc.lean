/-
  Model of the ENCODING of the cache-key payload (`/repo/cmd/gts/io.go`: `exact`, `encodePayload`,
  since 1c2c272) and of the two standard-library functions it is made of, on the value shapes that
  occur in the payload tuples of the cached commands.  Core Lean only.

      type tuple [2]interface{}
      func exact(v interface{}) interface{}      string → strconv.QuoteToASCII(v), []string → element-wise,
                                                 everything else unchanged
      func encodePayload(tt []tuple) []byte      qq[i] = tuple{exact(t[0]), exact(t[1])}; json.Marshal(qq)

  Value kinds (cmd/gts/*.go, `Gts.Gen.Cli` `Tuple.form / prov`): a string (`*key`, `loc.String()`,
  `strings.Join(ctx.Name, "-")`, `encodeToString(sum)`), a `[]string` (`*locstrs`, `*propstrs`, …), a bool
  (`*erase`; `noqualifier` of `gts summary` is a `*bool`, which encoding/json writes as the bool it
  points to), an integer (`filetype` = `seqio.FileType`, `comma` = a rune: encoding/json writes every
  integer kind in decimal) and a `[]byte` (`hostSum`, `guestSum` = `h.Sum(nil)`: written as a base64
  string).  The key of a tuple is a string constant.

  * `quoteToASCII`  strconv.QuoteToASCII on an ARBITRARY byte string (go1.23 strconv/quote.go
    `appendQuotedWith(buf, s, '"', ASCIIonly = true, graphicOnly = false)` with
    `utf8.DecodeRuneInString` and `appendEscapedRune`), rune arithmetic with the shifts and masks of
    the source on `Nat`.
  * `jsonString`    encoding/json `appendString(dst, src, escapeHTML = true)` (json.Marshal escapes
    HTML): `"` `\` `\b \f \n \r \t`, other control bytes and `< > &` as `\u00XX`, an invalid UTF-8
    byte as `\ufffd` (the defect F32 when the strings were not quoted first), U+2028 / U+2029
    escaped, every other byte copied.
  * `base64`        encoding/base64 `StdEncoding.Encode` (what encoding/json does with a `[]byte`).
  * `jsonOfPayload` json.Marshal of a `[]tuple` whose members have these kinds: an array of
    two-element arrays, no white space.
  Not modelled: a nil `[]byte`, a nil `[]string` handed to json.Marshal directly and a nil `*bool`
  (all three are written as `null`; `exact` always allocates its `[]string`, `h.Sum(nil)` of SHA-1 has
  20 bytes, `opt.Switch` never returns nil).
-/
import Gts.Model.Decimal
namespace Gts.KeyEnc

abbrev Bytes := List UInt8

/-- the bytes of an ASCII string literal (used to write keys and expected texts) -/
def ascii (s : String) : Bytes := s.toList.map fun c => UInt8.ofNat c.toNat

/-! ### unicode/utf8 -/

/-- `utf8.DecodeRuneInString(s)` for `s = b0 :: rest`: the rune and its width in bytes; every
malformed, truncated, overlong, surrogate or out-of-range sequence is `(RuneError, 1) = (0xFFFD, 1)`
(the well-formed encoding `EF BF BD` of U+FFFD is `(0xFFFD, 3)`).  `first[b0]` gives the size and
the accept range of the second byte: `C2..DF` two bytes; `E0` (second `A0..BF`), `E1..EC`, `ED`
(second `80..9F`), `EE..EF` three bytes; `F0` (second `90..BF`), `F1..F3`, `F4` (second `80..8F`)
four bytes; the remaining continuation bytes are `80..BF`. -/
def decodeRune (b0 : UInt8) (rest : Bytes) : Nat × Nat :=
  let x := b0.toNat
  let cont (b : UInt8) : Bool := 0x80 ≤ b.toNat && b.toNat ≤ 0xBF
  if x < 0x80 then (x, 1)
  else if x < 0xC2 then (0xFFFD, 1)
  else if x < 0xE0 then
    match rest with
    | b1 :: _ =>
      if cont b1 then (((x &&& 0x1F) <<< 6) ||| (b1.toNat &&& 0x3F), 2) else (0xFFFD, 1)
    | _ => (0xFFFD, 1)
  else if x < 0xF0 then
    let lo := if x = 0xE0 then 0xA0 else 0x80
    let hi := if x = 0xED then 0x9F else 0xBF
    match rest with
    | b1 :: b2 :: _ =>
      if lo ≤ b1.toNat && b1.toNat ≤ hi && cont b2 then
        (((x &&& 0x0F) <<< 12) ||| ((b1.toNat &&& 0x3F) <<< 6) ||| (b2.toNat &&& 0x3F), 3)
      else (0xFFFD, 1)
    | _ => (0xFFFD, 1)
  else if x < 0xF5 then
    let lo := if x = 0xF0 then 0x90 else 0x80
    let hi := if x = 0xF4 then 0x8F else 0xBF
    match rest with
    | b1 :: b2 :: b3 :: _ =>
      if lo ≤ b1.toNat && b1.toNat ≤ hi && cont b2 && cont b3 then
        (((x &&& 0x07) <<< 18) ||| ((b1.toNat &&& 0x3F) <<< 12) ||| ((b2.toNat &&& 0x3F) <<< 6)
          ||| (b3.toNat &&& 0x3F), 4)
      else (0xFFFD, 1)
    | _ => (0xFFFD, 1)
  else (0xFFFD, 1)

/-- `utf8.ValidRune` -/
def validRune (r : Nat) : Bool := r < 0xD800 || (0xDFFF < r && r ≤ 0x10FFFF)

/-! ### strconv.QuoteToASCII -/

/-- `lowerhex[n]` (also the `hex` table of encoding/json), `n < 16` -/
def hexDigit (n : Nat) : UInt8 := if n < 10 then UInt8.ofNat (48 + n) else UInt8.ofNat (87 + n)

/-- `for s := 12; s >= 0; s -= 4 { buf = append(buf, lowerhex[r>>uint(s)&0xF]) }` -/
def hex4 (r : Nat) : Bytes :=
  [hexDigit (r >>> 12 &&& 0xF), hexDigit (r >>> 8 &&& 0xF), hexDigit (r >>> 4 &&& 0xF), hexDigit (r &&& 0xF)]

/-- `for s := 28; s >= 0; s -= 4 { … }` -/
def hex8 (r : Nat) : Bytes :=
  [hexDigit (r >>> 28 &&& 0xF), hexDigit (r >>> 24 &&& 0xF), hexDigit (r >>> 20 &&& 0xF),
   hexDigit (r >>> 16 &&& 0xF)] ++ hex4 r

/-- `\x` + two hex digits of the byte `b` -/
def hexEscape (b : Nat) : Bytes := [0x5C, 0x78, hexDigit (b >>> 4), hexDigit (b &&& 0xF)]

/-- `strconv.IsPrint(r)` for `r < utf8.RuneSelf` -/
def isPrintASCII (r : Nat) : Bool := 0x20 ≤ r && r ≤ 0x7E

/-- `appendEscapedRune(buf, r, '"', ASCIIonly = true, graphicOnly = false)`: the bytes appended -/
def escapedRune (r : Nat) : Bytes :=
  if r = 0x22 ∨ r = 0x5C then [0x5C, UInt8.ofNat r]
  else if r < 0x80 ∧ isPrintASCII r = true then [UInt8.ofNat r]
  else if r = 0x07 then [0x5C, 0x61]
  else if r = 0x08 then [0x5C, 0x62]
  else if r = 0x0C then [0x5C, 0x66]
  else if r = 0x0A then [0x5C, 0x6E]
  else if r = 0x0D then [0x5C, 0x72]
  else if r = 0x09 then [0x5C, 0x74]
  else if r = 0x0B then [0x5C, 0x76]
  else if r < 0x20 ∨ r = 0x7F then hexEscape (r % 256)
  else if validRune r = false then [0x5C, 0x75] ++ hex4 0xFFFD
  else if r < 0x10000 then [0x5C, 0x75] ++ hex4 r
  else [0x5C, 0x55] ++ hex8 r

/-- the loop of `appendQuotedWith`: `skip` = bytes of the current rune still to pass over
(`s = s[width:]`).  An iteration reads `r := rune(s[0]); width = 1; if r >= utf8.RuneSelf { r, width =
utf8.DecodeRuneInString(s) }`; `width == 1 && r == utf8.RuneError` is written as `\x` + the byte. -/
def quoteGo : Nat → Bytes → Bytes
  | _, [] => []
  | skip + 1, _ :: rest => quoteGo skip rest
  | 0, b0 :: rest =>
    let rw := if 0x80 ≤ b0.toNat then decodeRune b0 rest else (b0.toNat, 1)
    if rw.2 = 1 ∧ rw.1 = 0xFFFD then hexEscape b0.toNat ++ quoteGo 0 rest
    else escapedRune rw.1 ++ quoteGo (rw.2 - 1) rest

/-- what stands between the two quotes -/
def quoteBody (s : Bytes) : Bytes := quoteGo 0 s

/-- `strconv.QuoteToASCII(s)` -/
def quoteToASCII (s : Bytes) : Bytes := 0x22 :: (quoteBody s ++ [0x22])

/-! ### encoding/json: strings -/

/-- `htmlSafeSet[b]`, `b < 0x80`: every byte from blank to DEL except `"`, `&`, `<`, `>`, `\` -/
def htmlSafe (b : UInt8) : Bool :=
  0x20 ≤ b.toNat && b.toNat < 0x80 && b != 0x22 && b != 0x26 && b != 0x3C && b != 0x3E && b != 0x5C

/-- what `appendString` writes for one byte `b < utf8.RuneSelf` -/
def jsonByte (b : UInt8) : Bytes :=
  if htmlSafe b then [b]
  else if b = 0x5C ∨ b = 0x22 then [0x5C, b]
  else if b = 0x08 then [0x5C, 0x62]
  else if b = 0x0C then [0x5C, 0x66]
  else if b = 0x0A then [0x5C, 0x6E]
  else if b = 0x0D then [0x5C, 0x72]
  else if b = 0x09 then [0x5C, 0x74]
  else [0x5C, 0x75, 0x30, 0x30, hexDigit (b.toNat >>> 4), hexDigit (b.toNat &&& 0xF)]

/-- the loop of `appendString`: `skip` bytes of the current rune are still to be passed — copied
(`copy`, an ordinary multi-byte rune) or dropped (U+2028 / U+2029, written as an escape). -/
def jsonStrGo : Nat → Bool → Bytes → Bytes
  | _, _, [] => []
  | skip + 1, copy, b :: rest => (if copy then [b] else []) ++ jsonStrGo skip copy rest
  | 0, _, b :: rest =>
    if b.toNat < 0x80 then jsonByte b ++ jsonStrGo 0 true rest
    else
      let cs := decodeRune b rest
      if cs.1 = 0xFFFD ∧ cs.2 = 1 then [0x5C, 0x75, 0x66, 0x66, 0x66, 0x64] ++ jsonStrGo 0 true rest
      else if cs.1 = 0x2028 ∨ cs.1 = 0x2029 then
        [0x5C, 0x75, 0x32, 0x30, 0x32, hexDigit (cs.1 &&& 0xF)] ++ jsonStrGo (cs.2 - 1) false rest
      else b :: jsonStrGo (cs.2 - 1) true rest

/-- `appendString(dst, src, true)`: a JSON string literal -/
def jsonString (s : Bytes) : Bytes := 0x22 :: (jsonStrGo 0 true s ++ [0x22])

/-! ### encoding/base64 -/

/-- `encodeStd[n]`, `n < 64`: `A–Z a–z 0–9 + /` -/
def b64Char (n : Nat) : UInt8 :=
  if n < 26 then UInt8.ofNat (65 + n)
  else if n < 52 then UInt8.ofNat (71 + n)
  else if n < 62 then UInt8.ofNat (n - 4)
  else if n = 62 then 0x2B else 0x2F

/-- `base64.StdEncoding.Encode`: three bytes give four characters; a rest of one or two bytes is
padded with `=` -/
def base64 : Bytes → Bytes
  | a :: b :: c :: rest =>
    let val := (a.toNat <<< 16) ||| (b.toNat <<< 8) ||| c.toNat
    b64Char (val >>> 18 &&& 0x3F) :: b64Char (val >>> 12 &&& 0x3F) :: b64Char (val >>> 6 &&& 0x3F) ::
      b64Char (val &&& 0x3F) :: base64 rest
  | [a, b] =>
    let val := (a.toNat <<< 16) ||| (b.toNat <<< 8)
    [b64Char (val >>> 18 &&& 0x3F), b64Char (val >>> 12 &&& 0x3F), b64Char (val >>> 6 &&& 0x3F), 0x3D]
  | [a] =>
    let val := a.toNat <<< 16
    [b64Char (val >>> 18 &&& 0x3F), b64Char (val >>> 12 &&& 0x3F), 0x3D, 0x3D]
  | [] => []

/-! ### the payload -/

/-- a payload value, by the kind encoding/json sees -/
inductive Value where
  /-- a Go `string` -/
  | str (s : Bytes)
  /-- a (non-nil) `[]string` -/
  | strs (l : List Bytes)
  /-- a `bool` (or a non-nil `*bool`) -/
  | bool (b : Bool)
  /-- an integer kind (`seqio.FileType`, `rune`) -/
  | int (n : Int)
  /-- a (non-nil) `[]byte` -/
  | bytes (b : Bytes)
  deriving DecidableEq, Repr, Inhabited

/-- one `tuple{key, value}` (the key is a `string` in every call) -/
abbrev Tuple := Bytes × Value
/-- the argument of `encodePayload` -/
abbrev Payload := List Tuple

/-- the kind of a value: what a command fixes about a tuple, whatever the arguments are -/
inductive Kind where
  | str | strs | bool | int | bytes
  deriving DecidableEq, Repr

def Value.kind : Value → Kind
  | .str _ => .str
  | .strs _ => .strs
  | .bool _ => .bool
  | .int _ => .int
  | .bytes _ => .bytes

/-- elements separated by commas between brackets: encoding/json `arrayEncoder` on already
encoded elements -/
def jsonArrayTail : List Bytes → Bytes
  | [] => [0x5D]
  | e :: es => 0x2C :: (e ++ jsonArrayTail es)

def jsonArray : List Bytes → Bytes
  | [] => [0x5B, 0x5D]
  | e :: es => 0x5B :: (e ++ jsonArrayTail es)

/-- json.Marshal of one value -/
def jsonValue : Value → Bytes
  | .str s => jsonString s
  | .strs l => jsonArray (l.map jsonString)
  | .bool true => [0x74, 0x72, 0x75, 0x65]
  | .bool false => [0x66, 0x61, 0x6C, 0x73, 0x65]
  | .int n => Gts.dec n
  | .bytes b => 0x22 :: (base64 b ++ [0x22])

/-- json.Marshal of a `tuple` (`[2]interface{}`) -/
def jsonTuple (t : Tuple) : Bytes := jsonArray [jsonString t.1, jsonValue t.2]

/-- `json.Marshal(tt)` for `tt []tuple`: this alone was `encodePayload` before 1c2c272 -/
def jsonOfPayload (p : Payload) : Bytes := jsonArray (p.map jsonTuple)

/-- io.go `exact` on a value -/
def exact : Value → Value
  | .str s => .str (quoteToASCII s)
  | .strs l => .strs (l.map quoteToASCII)
  | v => v

/-- `tuple{exact(t[0]), exact(t[1])}` -/
def exactTuple (t : Tuple) : Tuple := (quoteToASCII t.1, exact t.2)

/-- io.go `encodePayload` -/
def encodePayload (p : Payload) : Bytes := jsonOfPayload (p.map exactTuple)

end Gts.KeyEnc
