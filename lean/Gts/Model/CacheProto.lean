/-
  Model of the cache PROTOCOL of a cached `gts` subcommand (`/repo/cmd/gts/io.go`: `TryCache`,
  `ioDelegate.Write`, `Commit`, the deferred `Close`), on top of the cache FILE model
  (`Gts/Model/CacheFile.lean`, property C13).  Core Lean only.

  What a subcommand computes is a PARAMETER (`World.exec`): the protocol model only says when the
  command body runs, where its bytes go, and what happens to the cache directory.

      func xxxFunc(ctx) error {
          … declare and parse options; open secondary inputs …      (an error here: `early`)
          d := newIODelegate(in, out); defer d.Close()
          if !*nocache { ok, err := d.TryCache(h, encodePayload(…)); if ok || err != nil { return … } }
          … scan, compute, write through d (tee into d.cache when armed) …
          d.Commit()
          return nil
      }

  `TryCache` (io.go:92-159): cache directory, temporary copy of stdin; root sum `H(input)`, data sum
  `H(payload)`; `cache.Open` — on success copy the entry to the output, remove the entry when the
  output is not stdout, report a hit; on failure `cache.CreateLevel` (truncate/create the entry,
  placeholder header) and arm the tee.  `Close` (io.go:161-177): `cache.Close()` finalises the entry
  (flush flate, hash body, write header), then the entry is REMOVED unless `Commit()` was reached
  and `cache.Close()` returned nil.
-/
import Gts.Model.CacheFile
namespace Gts.CacheProto
open Gts.Cache

/-- what the body of a subcommand does when it is run (no hit) -/
structure Outcome where
  /-- the bytes written through `ioDelegate.Write`, in order (all of them on success, those
  emitted before the failure otherwise) -/
  out : Bytes
  /-- exit status of the process: 0, 1 (error return), 2 (Go panic) -/
  status : Nat
  /-- `d.Commit()` was reached -/
  committed : Bool
  /-- the run ended before `TryCache` (usage error, bad locator, unreadable secondary input …):
  the cache directory is not touched at all -/
  early : Bool
  deriving DecidableEq, Repr

/-- what the user sees of one run: the bytes on stdout / in the `-o` file, the exit status -/
structure Observed where
  out : Bytes
  status : Nat
  deriving DecidableEq, Repr

def Outcome.observed (o : Outcome) : Observed := ⟨o.out, o.status⟩

/-- Everything the protocol is parameterised by.  `Cmd` = subcommand, option values and the
CONTENTS of the secondary input files; `Input` = the primary input. -/
structure World (Cmd Input : Type) where
  /-- the digest (`newHash()` = SHA-1 in gts) and its size -/
  H : Bytes → Bytes
  d : Nat
  /-- `compress/flate` at `BestSpeed`, whole stream; its reader -/
  deflate : Bytes → Bytes
  inflate : Bytes → Option Bytes
  /-- what the flate reader delivers before it reports a corrupt stream -/
  inflatePrefix : Bytes → Bytes
  /-- the command body -/
  exec : Cmd → Input → Outcome
  /-- `encodePayload([]tuple{…})` -/
  payload : Cmd → Bytes
  /-- the bytes of the primary input (hashed as the root sum) -/
  content : Input → Bytes

/-- one invocation -/
structure Run (Cmd Input : Type) where
  cmd : Cmd
  input : Input
  /-- `-o <file>`: `d.outfile != os.Stdout` -/
  toFile : Bool
  /-- `--no-cache` -/
  nocache : Bool
  /-- `gtsCacheDir()` and the temporary copy of stdin succeeded (else `TryCache` returns
  `false, nil` before looking at the directory) -/
  usable : Bool
  /-- `cache.File.Close()` of the entry being written returned nil -/
  closeOk : Bool

/-- `os.Remove(name)` / `os.Create(name)+…` on the directory -/
def Store.set (σ : Store) (n : String) (v : Option Bytes) : Store := fun m => if m = n then v else σ m

variable {Cmd Input : Type}

/-- the root and data sums of a run -/
def World.rsum (W : World Cmd Input) (i : Input) : Bytes := W.H (W.content i)
def World.dsum (W : World Cmd Input) (c : Cmd) : Bytes := W.H (W.payload c)
/-- the file name of the entry of a run -/
def World.entry (W : World Cmd Input) (c : Cmd) (i : Input) : String := name W.H (W.rsum i) (W.dsum c)

/-- the three ways a run relates to the cache -/
inductive Verdict where
  | bypass   -- `--no-cache`, unusable directory, or the run ended before `TryCache`
  | hit
  | miss
  /-- `cache.Open` accepted the entry but the flate stream is corrupt: `io.Copy` fails after
  some bytes, `TryCache` returns `false, nil` WITHOUT arming an entry -/
  | brokenHit
  deriving DecidableEq, Repr

/-- which way a run goes in a directory -/
def verdict (W : World Cmd Input) (σ : Store) (r : Run Cmd Input) : Verdict :=
  if r.nocache || !r.usable || (W.exec r.cmd r.input).early then .bypass
  else match openAt W.H W.d σ (W.rsum r.input) (W.dsum r.cmd) with
    | .ok body => match W.inflate body with
      | some _ => .hit
      | none => .brokenHit
    | .error _ => .miss

/-- **One run** against the cache directory `σ`: the directory afterwards and what is observed. -/
def step (W : World Cmd Input) (σ : Store) (r : Run Cmd Input) : Store × Observed :=
  let o := W.exec r.cmd r.input
  if r.nocache || !r.usable || o.early then (σ, o.observed)
  else
    let rs := W.rsum r.input
    let qs := W.dsum r.cmd
    let n := name W.H rs qs
    match openAt W.H W.d σ rs qs with
    | .ok body =>
      match W.inflate body with
      | some w =>
        -- hit: `io.Copy(d.outfile, f)`; `if d.outfile != os.Stdout { os.Remove(f.Name()) }`;
        -- the command returns `ctx.Raise(nil)`: status 0, the body never runs
        (if r.toFile then Store.set σ n none else σ, ⟨w, 0⟩)
      | none =>
        -- the copy fails midway: `return false, nil` with `d.cache == nil`; the body runs uncached
        (σ, ⟨W.inflatePrefix body ++ o.out, o.status⟩)
    | .error _ =>
      -- miss: `CreateLevel` truncates/creates the entry; every `Write` is teed; the deferred
      -- `Close` finalises it and then removes it unless `d.done` and `cache.Close() == nil`
      let keep := o.committed && r.closeOk
      (Store.set σ n (if keep then some (finish W.H W.d W.deflate rs qs o.out) else none), o.observed)

/-- a history of runs over one shared directory: the final directory and all observations -/
def history (W : World Cmd Input) : Store → List (Run Cmd Input) → Store × List Observed
  | σ, [] => (σ, [])
  | σ, r :: rs =>
    let s := step W σ r
    let h := history W s.1 rs
    (h.1, s.2 :: h.2)

/-- the empty cache directory -/
def emptyStore : Store := fun _ => none

end Gts.CacheProto
