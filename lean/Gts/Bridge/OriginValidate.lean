/-
  Bridge (C16, C07): `validateOrigin` REGENERATED from seqio/genbank_subparsers.go by go2lean
  (Gts/Gen/OriginValidate.lean: the three nested counting loops translated literally, with `int`
  offsets into the buffer and checked index reads) has, for EVERY buffer and every declared length,
  the outcome (accepted / returned error / run-time panic) of the hand-written model
  `Gts.Origin.validateOrigin` (Gts/Model/Origin.lean: natural-number counters, the suffix
  `p[offset:]` carried along) that the C16 theorems and the C07 no-panic theorems are about.
  Per loop: the model's loop does not depend on its fuel once the fuel covers the trip count
  (`…_fuel`), and the generated loop started at offset `off` simulates the model's loop started on
  `p.drop off` with the same fuel (`…_sim`, induction over the fuel; the invariant is "the model's
  remaining input is the buffer from the generated offset on").
-/
import Gts.Gen.OriginValidate
import Gts.Lemmas.GoBytes
import Gts.Model.Origin
namespace Gts.Bridge
open Gts Gts.Origin
open Gts.Pars (Bytes Err)

/-- `%9d` as the model prints it (`Origin.index9`, for the indices `i+1 ≥ 1` the loops print) -/
def fmt9 (n : Int) : Bytes := Origin.index9 n.toNat

theorem isBaseCharacter_eq (c : UInt8) : Gen.isBaseCharacter c = Origin.isBase c := rfl

theorem spaceByte_eq : Gen.spaceByte = 32 := rfl

/-- outcome of a generated loop with state `(offset, counter)` against the outcome of the model's
loop that returns the remaining input -/
def SimOff (p : Bytes) (m : Out Bytes) (g : Except Err (Int × Int)) : Prop :=
  match m with
  | .error e => g = .error e
  | .ok rest => ∃ off' c' : Nat, g = .ok ((off' : Int), (c' : Int)) ∧ rest = p.drop off'

/-! ### the model's loops do not depend on fuel beyond the trip count -/

theorem walkChars_fuel (oob : Err) (length : Int) (ij : Nat) :
    ∀ (f f' k : Nat) (rest : Bytes), 10 ≤ k + f → 10 ≤ k + f' →
      walkChars oob length ij f k rest = walkChars oob length ij f' k rest := by
  intro f
  induction f with
  | zero =>
    intro f' k rest h h'
    cases f' with
    | zero => rfl
    | succ f' =>
      simp only [walkChars]
      rw [if_neg (by omega)]
  | succ f ih =>
    intro f' k rest h h'
    cases f' with
    | zero =>
      simp only [walkChars]
      rw [if_neg (by omega)]
    | succ f' =>
      simp only [walkChars]
      split
      · cases rest with
        | nil => rfl
        | cons c r =>
          simp only []
          split
          · exact ih f' (k + 1) r (by omega) (by omega)
          · rfl
      · rfl

theorem walkGroups_fuel (oob : Err) (length : Int) (i : Nat) :
    ∀ (f f' j : Nat) (rest : Bytes), 60 ≤ j + 10 * f → 60 ≤ j + 10 * f' →
      walkGroups oob length i f j rest = walkGroups oob length i f' j rest := by
  intro f
  induction f with
  | zero =>
    intro f' j rest h h'
    cases f' with
    | zero => rfl
    | succ f' =>
      simp only [walkGroups]
      rw [if_neg (by omega)]
  | succ f ih =>
    intro f' j rest h h'
    cases f' with
    | zero =>
      simp only [walkGroups]
      rw [if_neg (by omega)]
    | succ f' =>
      simp only [walkGroups]
      split
      · cases rest with
        | nil => rfl
        | cons c r =>
          simp only []
          split
          · rfl
          · cases walkChars oob length (i + j) 10 0 r with
            | error e => rfl
            | ok r' => exact ih f' (j + 10) r' (by omega) (by omega)
      · rfl

theorem validateLines_fuel (length : Int) :
    ∀ (f f' i : Nat) (rest : Bytes), length ≤ (i : Int) + 60 * (f : Int) → length ≤ (i : Int) + 60 * (f' : Int) →
      validateLines length f i rest = validateLines length f' i rest := by
  intro f
  induction f with
  | zero =>
    intro f' i rest h h'
    cases f' with
    | zero => rfl
    | succ f' =>
      simp only [validateLines]
      rw [if_neg (by omega)]
  | succ f ih =>
    intro f' i rest h h'
    cases f' with
    | zero =>
      simp only [validateLines]
      rw [if_neg (by omega)]
    | succ f' =>
      simp only [validateLines]
      split
      · cases walkLine .panic length i rest with
        | error e => rfl
        | ok r =>
          cases r with
          | nil => rfl
          | cons c r' =>
            simp only []
            split
            · rfl
            · exact ih f' (i + 60) r' (by omega) (by omega)
      · rfl

/-! ### the generated loops simulate the model's loops -/

theorem simOff_error {p : Bytes} {e : Err} {g : Except Err (Int × Int)} (h : g = .error e) :
    SimOff p (.error e) g := h

theorem simOff_ok {p : Bytes} {g : Except Err (Int × Int)} (off' c' : Nat)
    (h : g = .ok ((off' : Int), (c' : Int))) : SimOff p (.ok (p.drop off')) g := ⟨off', c', h, rfl⟩

/-- innermost loop (`k`): ten residues at most, each read with an unchecked index -/
theorem validateOriginLoop3_sim (p : Bytes) (length : Int) (i j : Nat) :
    ∀ (f k off : Nat),
      SimOff p (walkChars .panic length (i + j) f k (p.drop off))
        (Gen.validateOriginLoop3 p length (i : Int) (j : Int) f (off : Int) (k : Int)) := by
  intro f
  induction f with
  | zero => intro k off; exact simOff_ok off k rfl
  | succ f ih =>
    intro k off
    simp only [Gen.validateOriginLoop3, walkChars]
    by_cases hc : k < 10 ∧ ((i + j + k : Nat) : Int) < length
    · rw [if_pos hc, if_pos (by omega), Gen.goIndex_nat]
      cases hg : p[off]? with
      | none => rw [Gen.drop_of_getElem?_none hg]; exact simOff_error rfl
      | some c =>
        rw [Gen.drop_of_getElem?_some hg]
        dsimp only
        by_cases hb : Gen.isBaseCharacter c = true
        · rw [if_pos (show isBase c = true from hb), if_neg (fun h => h hb)]
          have e1 : (off : Int) + 1 = ((off + 1 : Nat) : Int) := by omega
          have e2 : (k : Int) + 1 = ((k + 1 : Nat) : Int) := by omega
          rw [e1, e2]
          exact ih (k + 1) (off + 1)
        · rw [if_neg (show ¬ isBase c = true from hb), if_pos hb]
          exact simOff_error rfl
    · rw [if_neg hc, if_neg (by omega)]
      exact simOff_ok off k rfl

/-- middle loop (`j`): a blank, then the residues of one group -/
theorem validateOriginLoop2_sim (p : Bytes) (length : Int) (i : Nat) (fuel0 : Nat) (h0 : 10 ≤ fuel0) :
    ∀ (f j off : Nat),
      SimOff p (walkGroups .panic length i f j (p.drop off))
        (Gen.validateOriginLoop2 fuel0 p length (i : Int) f (off : Int) (j : Int)) := by
  intro f
  induction f with
  | zero => intro j off; exact simOff_ok off j rfl
  | succ f ih =>
    intro j off
    simp only [Gen.validateOriginLoop2, walkGroups]
    by_cases hc : j < 60 ∧ ((i + j : Nat) : Int) < length
    · rw [if_pos hc, if_pos (by omega), Gen.goIndex_nat]
      cases hg : p[off]? with
      | none => rw [Gen.drop_of_getElem?_none hg]; exact simOff_error rfl
      | some c =>
        rw [Gen.drop_of_getElem?_some hg]
        dsimp only
        by_cases hb : c = 32
        · rw [if_neg (by simp [hb]), if_neg (by rw [hb]; exact fun h => h rfl)]
          have e1 : (off : Int) + 1 = ((off + 1 : Nat) : Int) := by omega
          rw [e1, walkChars_fuel .panic length (i + j) 10 fuel0 0 _ (by omega) (by omega)]
          have h3 := validateOriginLoop3_sim p length i j fuel0 0 (off + 1)
          revert h3
          cases walkChars .panic length (i + j) fuel0 0 (p.drop (off + 1)) with
          | error e => intro h3; rw [show (0 : Int) = ((0 : Nat) : Int) from rfl, h3]; exact simOff_error rfl
          | ok r =>
            intro h3
            obtain ⟨off', k', hg', hr⟩ := h3
            rw [show (0 : Int) = ((0 : Nat) : Int) from rfl, hg', hr]
            have e2 : (j : Int) + 10 = ((j + 10 : Nat) : Int) := by omega
            simp only [e2]
            exact ih (j + 10) off'
        · rw [if_pos (by simpa using hb), if_pos (show c ≠ Gen.spaceByte from hb)]
          exact simOff_error rfl
    · rw [if_neg hc, if_neg (by omega)]
      exact simOff_ok off j rfl

theorem fmt9_succ (i : Nat) : fmt9 ((i : Int) + 1) = Origin.index9 (i + 1) := by
  simp only [fmt9]; congr 1

/-- outcome of the generated outer loop (its final state is not used) against the model's -/
def SimUnit (m : Out Unit) (g : Except Err (Int × Int)) : Prop :=
  match m with
  | .error e => g = .error e
  | .ok () => ∃ st, g = .ok st

/-- outer loop (`i`): the line index, the groups, the line feed -/
theorem validateOriginLoop_sim (p : Bytes) (length : Int) (fuel0 : Nat) (h0 : 10 ≤ fuel0) :
    ∀ (f i off : Nat), off ≤ p.length →
      SimUnit (validateLines length f i (p.drop off))
        (Gen.validateOriginLoop fuel0 fmt9 p length f (off : Int) (i : Int)) := by
  intro f
  induction f with
  | zero => intro i off _; exact ⟨_, rfl⟩
  | succ f ih =>
    intro i off hoff
    simp only [Gen.validateOriginLoop, validateLines, walkLine]
    by_cases hc : (i : Int) < length
    · rw [if_pos hc, if_pos hc, Gen.goSliceFrom_nat p off hoff, fmt9_succ]
      dsimp only
      by_cases hp : (index9 (i + 1)).isPrefixOf (p.drop off) = true
      · rw [if_pos hp, if_neg (not_not_intro (show Gen.bytesHasPrefix (p.drop off) (index9 (i + 1)) = true from hp)),
          List.drop_drop]
        have e1 : (off : Int) + ((index9 (i + 1)).length : Int) = ((off + (index9 (i + 1)).length : Nat) : Int) := by omega
        rw [e1, walkGroups_fuel .panic length i 6 fuel0 0 _ (by omega) (by omega)]
        have h2 := validateOriginLoop2_sim p length i fuel0 h0 fuel0 0 (off + (index9 (i + 1)).length)
        revert h2
        cases walkGroups .panic length i fuel0 0 (p.drop (off + (index9 (i + 1)).length)) with
        | error e => intro h2; rw [show (0 : Int) = ((0 : Nat) : Int) from rfl, h2]; exact rfl
        | ok r =>
          intro h2
          obtain ⟨off', j', hg', hr⟩ := h2
          rw [show (0 : Int) = ((0 : Nat) : Int) from rfl, hg', hr]
          dsimp only
          rw [Gen.goIndex_nat]
          cases hg : p[off']? with
          | none => rw [Gen.drop_of_getElem?_none hg]; exact rfl
          | some c =>
            rw [Gen.drop_of_getElem?_some hg]
            dsimp only
            by_cases hb : c = 10
            · rw [if_neg (by simp [hb]), if_neg (fun h => h hb)]
              have e2 : (off' : Int) + 1 = ((off' + 1 : Nat) : Int) := by omega
              have e3 : (i : Int) + 60 = ((i + 60 : Nat) : Int) := by omega
              rw [e2, e3]
              have hlt : off' < p.length := (List.getElem?_eq_some_iff.mp hg).1
              exact ih (i + 60) (off' + 1) hlt
            · rw [if_pos (by simpa using hb), if_pos hb]; exact rfl
      · rw [if_neg hp, if_pos (show ¬ Gen.bytesHasPrefix (p.drop off) (index9 (i + 1)) = true from hp)]; exact rfl
    · rw [if_neg hc, if_neg hc]
      exact ⟨_, rfl⟩

/-- **`validateOrigin`, as written in genbank_subparsers.go**, with `fmt.Sprintf("%9d", ·)` read as
the model's `index9`, run with any fuel that covers the trip counts (ten residues per group, one
line per sixty declared residues), has the outcome of the model's `Origin.validateOrigin`: accepted,
returned error or index out of range — for EVERY buffer and EVERY declared length (negative ones
included).  A relaxed residue test (seeded C16-g), `'\r'` accepted as a line end (seeded C16-b), an
off-by-one in a loop bound or a different order of the checks breaks one of the `…_sim` lemmas. -/
theorem validateOrigin_eq (fuel : Nat) (p : Bytes) (length : Int) (h10 : 10 ≤ fuel)
    (hl : length ≤ 60 * (fuel : Int)) :
    Gen.validateOrigin fuel fmt9 p length = Origin.validateOrigin p length := by
  have h := validateOriginLoop_sim p length fuel h10 fuel 0 0 (Nat.zero_le _)
  rw [List.drop_zero] at h
  simp only [Gen.validateOrigin, Origin.validateOrigin]
  rw [validateLines_fuel length length.toNat fuel 0 p (by omega) (by omega)]
  revert h
  cases validateLines length fuel 0 p with
  | error e => intro h; rw [show (0 : Int) = ((0 : Nat) : Int) from rfl, show Gen.validateOriginLoop _ _ _ _ _ _ _ = _ from h]
  | ok u =>
    intro h
    obtain ⟨st, hst⟩ := h
    rw [show (0 : Int) = ((0 : Nat) : Int) from rfl, hst]

/-- the fuel bound is met by `max 10 length.toNat` -/
example (p : Bytes) (length : Int) :
    Gen.validateOrigin (max 10 length.toNat) fmt9 p length = Origin.validateOrigin p length :=
  validateOrigin_eq _ p length (by omega) (by omega)

/-- a concrete accepted block, a rejected one and one that makes the unchecked index panic -/
example :
    Gen.validateOrigin 13 fmt9 [32,32,32,32,32,32,32,32,49,32,97,99,103,116,97,99,103,116,97,99,32,103,116,110,10] 13 = .ok ()
    ∧ Gen.validateOrigin 10 fmt9 [32,32,32,32,32,32,32,32,49,32,97,98,10] 1 = .error .fail
    ∧ Gen.validateOrigin 10 fmt9 [32,32,32,32,32,32,32,32,49,32,97] 1 = .error .panic := by
  decide

end Gts.Bridge
