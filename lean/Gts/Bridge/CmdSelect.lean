/-
  Bridge: the GLUE of `gts select`, `gts clear`, `gts define`, `gts annotate`, regenerated from cmd/gts/select.go,
  clear.go, define.go, annotate.go by go2lean (Gts/Gen/CmdSelect.lean, generator go2lean/cmdsteps.go), is the model's
  `Cli.selectFilter / selectStep / clearStep / defineStep / annotateStep` (Gts/Model/CliGlue.lean) — for EVERY list of
  selector filters, every option value, every record.

  `selectFilter` is the backward slice of the variable select.go hands to `FeatureSlice.Filter` in its scan loop: a
  change of the ORDER in which `Not`, `Or(Key("source"), ·)` and `And(·, strand)` are applied (seeded W10-1: the strand
  restriction inside the negation) still translates and breaks `selectFilter_eq`.
-/
import Gts.Gen.CmdSelect
import Gts.Bridge.CliLoops
namespace Gts.Bridge
open Gts

/-- **the filter of `gts select`, as written**: the statements of select.go between the selector loop and the scan loop
compute — without a panic — the model's `Cli.selectFilter`: `Or(Key("source"), invert ? Not(Or(sels…)) : Or(sels…))`,
then `And(·, ForwardStrand | ReverseStrand)` for `-s forward | reverse`, for EVERY list of selector filters and EVERY
strand word (any other word: no restriction). -/
theorem selectFilter_eq (sels : List Filter) (strand : String) (invert : Bool) :
    Gen.selectFilter sels strand invert = some (Cli.selectFilter sels invert strand) := by
  unfold Gen.selectFilter Cli.selectFilter
  cases invert <;> by_cases h1 : strand = "forward" <;> by_cases h2 : strand = "reverse" <;> simp [h1, h2]

example : Gen.selectFilter [keyF "gene"] "forward" true = some (Cli.selectFilter [keyF "gene"] true "forward") :=
  selectFilter_eq _ _ _

/-- **`gts select`, one record**: the scan-loop body of select.go hands exactly one record to `WriteSeq`: the record
with the features the filter accepts, in table order, residues kept -/
theorem selectStep_eq (filter : Filter) (seq : Seq) :
    Gen.selectStep filter seq = some [Cli.selectStep filter seq] := rfl

/-- **`gts clear`, one record**: `Features().Filter(Key("source"))` — exactly the source features stay -/
theorem clearStep_eq (seq : Seq) : Gen.clearStep seq = some [Cli.clearStep seq] := rfl

/-- **`gts define`, one record**: the one feature is `Insert`ed (sorted insertion, `Table.insert`) -/
theorem defineStep_eq (f : Feature) (seq : Seq) : Gen.defineStep f seq = some [Cli.defineStep f seq] := rfl

/-- the loop of annotate.go is the left fold of `Insert` -/
theorem annotateStepLoop_eq (featin : List Feature) : ∀ (l : List Feature) (ff : Table),
    Gen.annotateStepLoop featin l ff = some (Table.insertAll ff l) :=
  foldLoop_spec (Gen.annotateStepLoop featin) Table.insert (fun _ => rfl) (fun _ _ _ => rfl)

/-- **`gts annotate`, one record**: every feature of the table file is `Insert`ed, in file order -/
theorem annotateStep_eq (featin : List Feature) (seq : Seq) :
    Gen.annotateStep featin seq = some [Cli.annotateStep featin seq] := by
  simp only [Gen.annotateStep, annotateStepLoop_eq]
  rfl

example : Gen.annotateStep [⟨"gene", .point 1, []⟩, ⟨"CDS", .point 0, []⟩] ⟨[], [65, 67]⟩
    = some [Cli.annotateStep [⟨"gene", .point 1, []⟩, ⟨"CDS", .point 0, []⟩] ⟨[], [65, 67]⟩] := annotateStep_eq _ _

/-- each step writes its record once and flushes -/
theorem selectStepFacts_eq : Gen.selectStepFacts = ["write", "flush"] ∧ Gen.clearStepFacts = ["write", "flush"] ∧
    Gen.defineStepFacts = ["write", "flush"] ∧ Gen.annotateStepFacts = ["write", "flush"] := ⟨rfl, rfl, rfl, rfl⟩

end Gts.Bridge
