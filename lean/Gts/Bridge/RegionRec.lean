/-
  Bridge: `Region.Len / Head / Tail / Complement` over the whole tree `Segment | Regions`,
  regenerated from region.go by go2lean (Gts/Gen/RegionRec.lean: the `Regions` methods translated on
  the list of element-wise results, dynamic dispatch as structural recursion over `Gts.Reg`), are the
  hand-written model's `Reg.len / head / tail / complement` (Gts/Model/Region.lean) — for EVERY
  region tree (structural induction), `Len` under the explicit guard that every segment's
  `tail - head` is a 64-bit `int` (`utils.go Abs` is the sign-mask idiom).
-/
import Gts.Gen.RegionRec
import Gts.Bridge.RegionSeg
import Gts.Bridge.RegionResize
namespace Gts.Bridge
open Gts

/-! ### `Len` -/

mutual
/-- every segment of the tree has `tail - head` in the range of a 64-bit `int` -/
def lenFits : Reg → Bool
  | .seg h t => decide (-2 ^ 63 ≤ t - h) && decide (t - h < 2 ^ 63)
  | .many rs => lenFitsList rs
def lenFitsList : List Reg → Bool
  | [] => true
  | r :: rs => lenFits r && lenFitsList rs
end

mutual
theorem regLen_eq : ∀ (r : Reg), lenFits r = true → Gen.regLen r = Reg.len r
  | .seg h t, hf => by
    simp only [lenFits, Bool.and_eq_true, decide_eq_true_eq] at hf
    simp only [Gen.regLen, segmentLen_eq h t hf.1 hf.2]
  | .many rs, hf => by
    simp only [lenFits] at hf
    simp only [Gen.regLen, Reg.len, regLenList_eq rs hf, regionsLen_eq]
theorem regLenList_eq : ∀ (rs : List Reg), lenFitsList rs = true → Gen.regLenList rs = Reg.lens rs
  | [], _ => rfl
  | r :: rs, hf => by
    simp only [lenFitsList, Bool.and_eq_true] at hf
    simp only [Gen.regLenList, Reg.lens, regLen_eq r hf.1, regLenList_eq rs hf.2]
end

example : lenFits (.many [.seg 3 9, .many [.seg 20 12, .seg 4 4]]) = true := by decide

/-! ### `Head`, `Tail` -/

theorem regionsHead_map (rs : List Reg) : Gen.regionsHead (rs.map Reg.head) = Reg.headList rs := by
  cases rs with
  | nil => simp [Gen.regionsHead, Reg.headList]
  | cons r rs =>
    have : ((List.map Reg.head (r :: rs)).length : Int) > 0 := by simp
    simp only [Gen.regionsHead, this, if_true, Reg.headList]
    simp

theorem getD_last_tail : ∀ (rs : List Reg), rs ≠ [] →
    (rs.map Reg.tail).getD (rs.length - 1) 0 = Reg.tailList rs
  | [], h => absurd rfl h
  | [r], _ => by simp [Reg.tailList]
  | r :: r' :: rs, _ => by
    have := getD_last_tail (r' :: rs) (by simp)
    simp only [List.length_cons, List.map_cons, Nat.add_sub_cancel, Reg.tailList] at this ⊢
    rw [← this]
    simp [List.getD_eq_getElem?_getD]

theorem regionsTail_map (rs : List Reg) : Gen.regionsTail (rs.map Reg.tail) = Reg.tailList rs := by
  cases rs with
  | nil => simp [Gen.regionsTail, Reg.tailList]
  | cons r rs =>
    have h0 : ((List.map Reg.tail (r :: rs)).length : Int) > 0 := by simp
    have h1 : Int.toNat (((List.map Reg.tail (r :: rs)).length : Int) - 1) = (r :: rs).length - 1 := by
      simp
    simp only [Gen.regionsTail, h0, if_true, h1]
    exact getD_last_tail (r :: rs) (by simp)

mutual
theorem regHead_eq : ∀ (r : Reg), Gen.regHead r = Reg.head r
  | .seg _ _ => rfl
  | .many rs => by simp only [Gen.regHead, Reg.head, regHeadList_eq rs, regionsHead_map]
theorem regHeadList_eq : ∀ (rs : List Reg), Gen.regHeadList rs = rs.map Reg.head
  | [] => rfl
  | r :: rs => by simp only [Gen.regHeadList, List.map_cons, regHead_eq r, regHeadList_eq rs]
end

mutual
theorem regTail_eq : ∀ (r : Reg), Gen.regTail r = Reg.tail r
  | .seg _ _ => rfl
  | .many rs => by simp only [Gen.regTail, Reg.tail, regTailList_eq rs, regionsTail_map]
theorem regTailList_eq : ∀ (rs : List Reg), Gen.regTailList rs = rs.map Reg.tail
  | [] => rfl
  | r :: rs => by simp only [Gen.regTailList, List.map_cons, regTail_eq r, regTailList_eq rs]
end

/-! ### `Complement`: the range loop fills `ret[len(rr)-i-1]` -/

/-- a loop of the shape `for i, r := range rr { ret[len(rr)-i-1] = r }` entered at index `i` with the
cells `len-1-j` (`j < i`) already filled, ends with every cell `len-1-j` holding `rr[j]` -/
theorem complementLoop_inv (loop : List Reg → List Reg → Int → List Reg → List Reg)
    (hnil : ∀ rr i ret, loop rr [] i ret = ret)
    (hcons : ∀ rr r rest i ret, loop rr (r :: rest) i ret =
      loop rr rest (i + 1) (ret.set (Int.toNat (((rr.length : Int) - i) - 1)) r))
    (rr : List Reg) :
    ∀ (rest : List Reg) (i : Nat) (ret : List Reg), rest = rr.drop i → ret.length = rr.length →
      (∀ j, j < i → j < rr.length → ret.getD (rr.length - 1 - j) default = rr.getD j default) →
      (loop rr rest (i : Int) ret).length = rr.length ∧
      ∀ j, j < rr.length → (loop rr rest (i : Int) ret).getD (rr.length - 1 - j) default = rr.getD j default := by
  intro rest
  induction rest with
  | nil =>
    intro i ret hrest hlen hdone
    rw [hnil]
    refine ⟨hlen, fun j hj => hdone j ?_ hj⟩
    have : rr.length ≤ i := by
      have := congrArg List.length hrest
      simp only [List.length_nil, List.length_drop] at this
      omega
    omega
  | cons r rest' ih =>
    intro i ret hrest hlen hdone
    have hi : i < rr.length := by
      have := congrArg List.length hrest
      simp only [List.length_cons, List.length_drop] at this
      omega
    rw [List.drop_eq_getElem_cons hi] at hrest
    have hr : r = rr[i] := (List.cons.inj hrest).1
    have hrest' : rest' = rr.drop (i + 1) := (List.cons.inj hrest).2
    rw [hcons]
    have e : Int.toNat (((rr.length : Int) - (i : Int)) - 1) = rr.length - 1 - i := by omega
    have e2 : ((i : Int) + 1) = ((i + 1 : Nat) : Int) := by omega
    rw [e, e2]
    apply ih (i + 1) _ hrest' (by simp [hlen])
    intro j hj hjl
    by_cases hji : j = i
    · subst hji
      rw [List.getD_eq_getElem?_getD, List.getElem?_set_self (by omega), hr,
        List.getD_eq_getElem?_getD, List.getElem?_eq_getElem hi]
    · rw [List.getD_eq_getElem?_getD, List.getElem?_set_ne (by omega), ← List.getD_eq_getElem?_getD]
      exact hdone j (by omega) hjl

theorem complementLoop_reverse (loop : List Reg → List Reg → Int → List Reg → List Reg)
    (hnil : ∀ rr i ret, loop rr [] i ret = ret)
    (hcons : ∀ rr r rest i ret, loop rr (r :: rest) i ret =
      loop rr rest (i + 1) (ret.set (Int.toNat (((rr.length : Int) - i) - 1)) r))
    (rr : List Reg) :
    loop rr rr 0 (List.replicate rr.length default) = rr.reverse := by
  have hinv := complementLoop_inv loop hnil hcons rr rr 0 (List.replicate rr.length default)
    (by simp) (by simp) (by intro j hj; omega)
  rw [show ((0 : Nat) : Int) = 0 from rfl] at hinv
  obtain ⟨hlen, hall⟩ := hinv
  apply List.ext_getElem
  · simp [hlen]
  · intro k h1 h2
    have hk : k < rr.length := by omega
    have := hall (rr.length - 1 - k) (by omega)
    have e : rr.length - 1 - (rr.length - 1 - k) = k := by omega
    rw [e, List.getD_eq_getElem?_getD, List.getElem?_eq_getElem h1, List.getD_eq_getElem?_getD,
      List.getElem?_eq_getElem (by omega)] at this
    simp only [Option.getD_some] at this
    rw [this, List.getElem_reverse]

/-- `Regions.Complement` on the element-wise complements: the reversed list -/
theorem regionsComplement_eq (l : List Reg) : Gen.regionsComplement l = l.reverse := by
  have := complementLoop_reverse Gen.regionsComplementLoop (fun _ _ _ => rfl) (fun _ _ _ _ _ => rfl) l
  simpa [Gen.regionsComplement] using this

theorem complementRev_eq : ∀ (rs acc : List Reg),
    Reg.complementRev rs acc = (rs.map Reg.complement).reverse ++ acc
  | [], acc => by simp [Reg.complementRev]
  | r :: rs, acc => by
    simp only [Reg.complementRev, complementRev_eq rs, List.map_cons, List.reverse_cons,
      List.append_assoc, List.singleton_append]

mutual
theorem regComplement_eq : ∀ (r : Reg), Gen.regComplement r = Reg.complement r
  | .seg _ _ => rfl
  | .many rs => by
    simp only [Gen.regComplement, Reg.complement, regComplementList_eq rs, regionsComplement_eq,
      complementRev_eq, List.append_nil]
theorem regComplementList_eq : ∀ (rs : List Reg), Gen.regComplementList rs = rs.map Reg.complement
  | [] => rfl
  | r :: rs => by
    simp only [Gen.regComplementList, List.map_cons, regComplement_eq r, regComplementList_eq rs]
end

/-- `Region.Len / Head / Tail / Complement`, as the current region.go defines them over
`Segment | Regions`, are the model's — `Head`, `Tail`, `Complement` as functions, `Len` on every
tree whose segments have 64-bit lengths -/
theorem regrec_eq :
    Gen.regHead = Reg.head ∧ Gen.regTail = Reg.tail ∧ Gen.regComplement = Reg.complement ∧
      ∀ r, lenFits r = true → Gen.regLen r = Reg.len r :=
  ⟨funext regHead_eq, funext regTail_eq, funext regComplement_eq, regLen_eq⟩

end Gts.Bridge
