/-
  Bridge: `Repair`, regenerated from feature.go by go2lean (Gts/Gen/FeatRepair.lean: `make` + `copy`, the index
  map as an association list, the loop over the classes in the order `rangeMap_` — Go leaves it unspecified —
  with `locs[j] = gg[i].Loc`, `sort.Sort(Locations(locs))`, the `Push` fold with `force` only for `source`,
  `list.Slice()`, the write-back and `indices[:len(locs)]`, then `sort.Sort(sort.IntSlice(keep))` and the in-place
  compaction — literal loops over lists, every index / slice / `make` a checked operation), never panics and
  returns what the hand-written model `repair` (Gts/Model/Repair.lean) returns — for every table, every
  iteration order of the map, every sort of `keep`, every value of the zero `Feature` and of the nil
  `Location`.

  External calls are parameters with their assumed behaviour as hypotheses: `fmt.Sprintf("%q:%q", key, props)` is
  the model's `classKey` (the format text is part of the hypothesis), `sort.Sort(Locations(·))` is the model's
  `sortLocs` (Go's insertion sort up to 12 elements), `sort.Sort(sort.IntSlice(·))` returns a sorted permutation.
  `LocationList.Push` is the model's `Loc.push` (its rules are tied by Gts/Bridge/PushRules.lean).
-/
import Gts.Gen.FeatRepair
import Gts.Lemmas.GoList
import Gts.Lemmas.Repair
import Gts.Lemmas.RepairIndex
namespace Gts.Bridge
open Gts

/-! ### loop shapes -/

/-- `for _, x := range xs { s = step(s, x) }` -/
theorem foldLoop_shape {α σ : Type} (loop : List α → σ → Option σ) (step : σ → α → σ)
    (hnil : ∀ s, loop [] s = some s)
    (hcons : ∀ x rest s, loop (x :: rest) s = loop rest (step s x)) :
    ∀ xs s, loop xs s = some (xs.foldl step s)
  | [], s => by rw [hnil]; rfl
  | x :: xs, s => by rw [hcons, foldLoop_shape loop step hnil hcons xs]; rfl

/-- the gathering loop `for j, i := range idx { locs[j] = g(gg[i]) }` on a destination with room -/
theorem gatherLoop_shape {α β : Type} (loop : List Int → Int → List β → Option (List β)) (gg : List α) (g : α → β)
    (hnil : ∀ j dst, loop [] j dst = some dst)
    (hcons : ∀ i rest j dst, loop (i :: rest) j dst =
      (Gen.goIdx gg i).bind fun x => (Gen.goSet dst j (g x)).bind fun dst' => loop rest (j + 1) dst') :
    ∀ (idx : List Nat) (pre rest : List β), (∀ i ∈ idx, i < gg.length) → idx.length ≤ rest.length →
      loop (idx.map Int.ofNat) (pre.length : Int) (pre ++ rest) =
        some (pre ++ idx.filterMap (fun i => gg[i]?.map g) ++ rest.drop idx.length)
  | [], pre, rest, _, _ => by simp [hnil]
  | i :: idx, pre, [], _, hk => by simp at hk
  | i :: idx, pre, y :: rest, hi, hk => by
    simp only [List.map_cons, List.length_cons] at hk ⊢
    have hilt : i < gg.length := hi i (List.mem_cons_self)
    rw [hcons, Int.ofNat_eq_natCast, Gen.goIdx_lt gg i hilt, Option.bind_some,
      Gen.goSet_nat _ _ _ (by simp only [List.length_append, List.length_cons]; omega), Gen.set_append_length,
      Option.bind_some]
    have := gatherLoop_shape loop gg g hnil hcons idx (pre ++ [g gg[i]]) rest
      (fun j' h' => hi j' (List.mem_cons_of_mem _ h')) (by omega)
    simp only [List.length_append, List.length_cons, List.length_nil, Int.natCast_add, Int.cast_ofNat_Int,
      List.append_assoc, List.cons_append, List.nil_append, Nat.zero_add] at this
    rw [this]
    have hget : gg[i]? = some gg[i] := List.getElem?_eq_getElem hilt
    simp only [List.filterMap_cons, hget, Option.map_some, List.cons_append, List.drop_succ_cons, List.append_assoc]

theorem modify_loc_eq_set : ∀ (gg : Table) (i : Nat) (l : Loc) (h : i < gg.length),
    gg.modify i (fun f => { f with loc := l }) = gg.set i { gg[i] with loc := l }
  | _ :: _, 0, _, _ => rfl
  | f :: gg, i + 1, l, h => by
    simp only [List.modify_succ_cons, List.set_cons_succ, List.getElem_cons_succ]
    rw [modify_loc_eq_set gg i l (by simpa using h)]

theorem length_writeLocs : ∀ (ws : List (Nat × Loc)) (gg : Table), (writeLocs gg ws).length = gg.length
  | [], _ => rfl
  | (i, l) :: ws, gg => by
    simp only [writeLocs]
    rw [length_writeLocs ws, List.length_modify]

/-- the write-back loop `for i, loc := range locs { gg[indices[i]].Loc = loc }` -/
theorem writeLoop_shape (loop : List Loc → Int → Table → Option Table) (idx : List Nat)
    (hnil : ∀ i gg, loop [] i gg = some gg)
    (hcons : ∀ loc rest i gg, loop (loc :: rest) i gg =
      (Gen.goIdx (idx.map Int.ofNat) i).bind fun j =>
        (Gen.goIdx gg j).bind fun old => (Gen.goSet gg j { old with loc := loc }).bind fun gg' => loop rest (i + 1) gg') :
    ∀ (locs : List Loc) (k : Nat) (gg : Table), (∀ j ∈ idx, j < gg.length) → k + locs.length ≤ idx.length →
      loop locs (k : Int) gg = some (writeLocs gg ((idx.drop k).zip locs))
  | [], k, gg, _, _ => by simp [hnil, writeLocs]
  | loc :: locs, k, gg, hj, hk => by
    simp only [List.length_cons] at hk
    have hklt : k < idx.length := by omega
    have hjlt : idx[k] < gg.length := hj _ (List.getElem_mem hklt)
    have hk' : k < (idx.map Int.ofNat).length := by simpa using hklt
    rw [hcons, Gen.goIdx_lt _ k hk', Option.bind_some, List.getElem_map, Int.ofNat_eq_natCast,
      Gen.goIdx_lt gg _ hjlt, Option.bind_some, Gen.goSet_nat _ _ _ hjlt, Option.bind_some]
    have := writeLoop_shape loop idx hnil hcons locs (k + 1) (gg.set idx[k] { gg[idx[k]] with loc := loc })
      (fun j h => by simp only [List.length_set]; exact hj j h) (by omega)
    simp only [Int.natCast_add, Int.cast_ofNat_Int] at this
    rw [this, List.drop_eq_getElem_cons hklt]
    simp only [List.zip_cons_cons, writeLocs]
    rw [modify_loc_eq_set gg _ loc hjlt]

/-- the compaction loop `for _, j := range keep { gg[i] = gg[j]; i++ }` is the model's `compactLoop` -/
theorem compactLoop_shape (loop : List Int → Table → Int → Option (Table × Int))
    (hnil : ∀ gg i, loop [] gg i = some (gg, i))
    (hcons : ∀ j rest gg i, loop (j :: rest) gg i =
      (Gen.goIdx gg j).bind fun x => (Gen.goSet gg i x).bind fun gg' => loop rest gg' (i + 1)) :
    ∀ (js : List Nat) (gg : Table) (i : Nat),
      loop (js.map Int.ofNat) gg (i : Int) = (compactLoop gg i js).map fun g => (g, ((i + js.length : Nat) : Int))
  | [], gg, i => by simp [hnil, compactLoop]
  | j :: js, gg, i => by
    simp only [List.map_cons, compactLoop, List.length_cons]
    rw [hcons, Int.ofNat_eq_natCast, Gen.goIdx_nat]
    cases hg : gg[j]? with
    | none => rfl
    | some f =>
      simp only [Option.bind_some]
      by_cases hi : i < gg.length
      · rw [Gen.goSet_nat gg i f hi, Option.bind_some, if_pos hi]
        have := compactLoop_shape loop hnil hcons js (gg.set i f) (i + 1)
        simp only [Int.natCast_add, Int.cast_ofNat_Int] at this
        rw [this]
        have e : ((i : Int) + 1 + (js.length : Int)) = (i : Int) + ((js.length : Int) + 1) := by omega
        simp only [Int.natCast_add, Int.cast_ofNat_Int, e]
      · rw [if_neg hi]
        simp only [Gen.goSet]
        rw [if_neg (by omega)]
        rfl

/-- a successful compaction had room for every kept index -/
theorem compactLoop_some_length : ∀ (js : List Nat) (gg : Table) (i : Nat) (gg' : Table),
    compactLoop gg i js = some gg' → gg'.length = gg.length ∧ (js ≠ [] → i + js.length ≤ gg.length)
  | [], gg, i, gg', h => by
    simp only [compactLoop, Option.some.injEq] at h
    subst h
    exact ⟨rfl, fun h => absurd rfl h⟩
  | j :: js, gg, i, gg', h => by
    simp only [compactLoop] at h
    cases hg : gg[j]? with
    | none => rw [hg] at h; cases h
    | some f =>
      rw [hg] at h
      simp only at h
      by_cases hi : i < gg.length
      · rw [if_pos hi] at h
        have := compactLoop_some_length js (gg.set i f) (i + 1) gg' h
        simp only [List.length_set] at this
        refine ⟨this.1, fun _ => ?_⟩
        simp only [List.length_cons]
        by_cases hjs : js = []
        · subst hjs; simp only [List.length_nil]; omega
        · have := this.2 hjs; omega
      · rw [if_neg hi] at h; cases h

/-- whether the compaction succeeds depends on the indices and the length of the table only -/
theorem compactLoop_isSome_congr : ∀ (js : List Nat) (gg gg' : Table) (i : Nat), gg.length = gg'.length →
    (compactLoop gg i js).isSome = (compactLoop gg' i js).isSome
  | [], _, _, _, _ => rfl
  | j :: js, gg, gg', i, h => by
    simp only [compactLoop]
    cases h1 : gg[j]? with
    | none =>
      have : gg'[j]? = none := by
        rw [List.getElem?_eq_none_iff] at h1 ⊢; omega
      rw [this]
    | some f =>
      have hj : j < gg.length := (List.getElem?_eq_some_iff.mp h1).1
      rw [List.getElem?_eq_getElem (show j < gg'.length by omega)]
      simp only
      by_cases hi : i < gg.length
      · rw [if_pos hi, if_pos (show i < gg'.length by omega)]
        exact compactLoop_isSome_congr js _ _ (i + 1) (by simp only [List.length_set]; exact h)
      · rw [if_neg hi, if_neg (show ¬ i < gg'.length by omega)]

/-! ### one class -/

/-- `list.Slice()`: the pushed list, or `[nil]` for the empty `LocationList` -/
def sliceN (nil : Loc) (p : List Loc) : List Loc := if p.isEmpty then [nil] else p

/-- one iteration of `for _, indices := range index` with the nil `Location` as a value (the model's
`classStep` flags it instead: `RepairSt.nil`) -/
def classStepN (nil : Loc) (ff : Table) (st : Table × List Nat) (idx : List Nat) : Table × List Nat :=
  let p := sliceN nil (pushedOf (classForce ff idx) (classLocs st.1 idx))
  if p.length < idx.length then (writeLocs st.1 (idx.zip p), st.2 ++ idx.take p.length) else (st.1, st.2 ++ idx)

theorem length_classStepN (nil : Loc) (ff : Table) (st : Table × List Nat) (idx : List Nat) :
    (classStepN nil ff st idx).1.length = st.1.length := by
  simp only [classStepN]
  split
  · exact length_writeLocs _ _
  · rfl

theorem repairLoop3_eq (nil : Loc) (gg : Table) (idx : List Nat) (h : ∀ i ∈ idx, i < gg.length) :
    Gen.repairLoop3 gg (idx.map Int.ofNat) 0 (List.replicate idx.length nil) = some (classLocs gg idx) := by
  have := gatherLoop_shape (Gen.repairLoop3 gg) gg (fun f : Feature => f.loc)
    (fun _ _ => by rw [Gen.repairLoop3]) (fun _ _ _ _ => by rw [Gen.repairLoop3]) idx []
    (List.replicate idx.length nil) h (by simp only [List.length_replicate]; exact Nat.le_refl _)
  simp only [List.length_nil, Int.cast_ofNat_Int, List.nil_append, List.drop_replicate, Nat.sub_self,
    List.replicate_zero, List.append_nil] at this
  exact this

theorem repairLoop4_eq (force : Bool) (locs racc : List Loc) :
    Gen.repairLoop4 force locs racc = some (Loc.pushAll racc locs force) :=
  foldLoop_shape (Gen.repairLoop4 force) (fun acc y => Loc.push acc y force)
    (fun _ => by rw [Gen.repairLoop4]) (fun _ _ _ => by rw [Gen.repairLoop4]) locs racc

theorem repairLoop5_eq (idx : List Nat) (locs : List Loc) (gg : Table) (h : ∀ j ∈ idx, j < gg.length)
    (hl : locs.length ≤ idx.length) :
    Gen.repairLoop5 (idx.map Int.ofNat) locs 0 gg = some (writeLocs gg (idx.zip locs)) := by
  have := writeLoop_shape (Gen.repairLoop5 (idx.map Int.ofNat)) idx
    (fun _ _ => by rw [Gen.repairLoop5]) (fun _ _ _ _ => by rw [Gen.repairLoop5]) locs 0 gg h (by omega)
  simpa only [Int.cast_ofNat_Int, List.drop_zero] using this

theorem locationListSlice_eq (nil : Loc) (racc : List Loc) :
    Gen.locationListSlice nil racc = sliceN nil racc.reverse := by
  simp only [Gen.locationListSlice, sliceN, List.isEmpty_reverse]

/-- one iteration of the generated class loop is `classStepN` -/
theorem repairLoop2_cons (nil : Loc) (ff gg : Table) (keep idx : List Nat) (k : String)
    (rest : List (String × List Int)) (hidx : ∀ j ∈ idx, j < gg.length) (hlen : gg.length = ff.length) :
    Gen.repairLoop2 nil sortLocs ff ((k, idx.map Int.ofNat) :: rest) gg (keep.map Int.ofNat) =
      Gen.repairLoop2 nil sortLocs ff rest (classStepN nil ff (gg, keep) idx).1
        ((classStepN nil ff (gg, keep) idx).2.map Int.ofNat) := by
  rw [Gen.repairLoop2]
  simp only [List.length_map]
  cases idx with
  | nil =>
    rw [if_neg (by simp)]
    simp only [Option.bind_some, classStepN, sliceN, classLocs, List.filterMap_nil, pushedOf, sortLocs,
      List.foldl_nil, List.reverse_nil, classForce, Loc.pushAll, Loc.pushAllD, List.isEmpty_nil, if_true,
      List.length_cons, List.length_nil, List.append_nil, List.map_nil]
    rfl
  | cons i0 idx' =>
    have hi0 : i0 < ff.length := by have := hidx i0 List.mem_cons_self; omega
    rw [if_pos (by simp only [List.length_cons]; omega), Gen.goMake_nat]
    simp only [Option.bind_some]
    rw [repairLoop3_eq nil gg (i0 :: idx') hidx]
    simp only [Option.bind_some]
    have h0 : Gen.goIdx (List.map Int.ofNat (i0 :: idx')) 0 = some (i0 : Int) := rfl
    rw [h0]
    simp only [Option.bind_some]
    rw [Gen.goIdx_lt ff i0 hi0]
    simp only [Option.bind_some]
    rw [repairLoop4_eq]
    simp only [Option.bind_some, locationListSlice_eq]
    have hforce : decide (ff[i0].key = "source") = classForce ff (i0 :: idx') := by
      simp only [classForce, List.getElem?_eq_getElem hi0]
      rfl
    rw [hforce]
    have hp : (Loc.pushAll [] (sortLocs (classLocs gg (i0 :: idx'))) (classForce ff (i0 :: idx'))).reverse =
        pushedOf (classForce ff (i0 :: idx')) (classLocs gg (i0 :: idx')) := rfl
    rw [hp]
    simp only [classStepN]
    generalize sliceN nil (pushedOf (classForce ff (i0 :: idx')) (classLocs gg (i0 :: idx'))) = p
    by_cases hlt : p.length < (i0 :: idx').length
    · rw [if_pos (by simp only [List.length_cons] at hlt ⊢; omega), if_pos hlt,
        repairLoop5_eq (i0 :: idx') p gg hidx (by omega)]
      simp only [Option.bind_some]
      have hto : Gen.goTo (List.map Int.ofNat (i0 :: idx')) (p.length : Int) =
          some (List.map Int.ofNat ((i0 :: idx').take p.length)) := by
        rw [Gen.goTo_nat _ _ (by simp only [List.length_map]; omega), List.map_take]
      rw [hto]
      simp only [Option.bind_some, List.map_append]
    · rw [if_neg (by simp only [List.length_cons] at hlt ⊢; omega), if_neg hlt]
      simp only [Option.bind_some, List.map_append]

/-- the generated class loop, over classes of valid indices, is the fold of `classStepN` -/
theorem repairLoop2_eq (nil : Loc) (ff : Table) : ∀ (cs : List (String × List Nat)) (gg : Table) (keep : List Nat),
    (∀ c ∈ cs, ∀ j ∈ c.2, j < gg.length) → gg.length = ff.length →
    Gen.repairLoop2 nil sortLocs ff (cs.map fun c => (c.1, c.2.map Int.ofNat)) gg (keep.map Int.ofNat) =
      some ((cs.foldl (fun st c => classStepN nil ff st c.2) (gg, keep)).1,
        (cs.foldl (fun st c => classStepN nil ff st c.2) (gg, keep)).2.map Int.ofNat)
  | [], gg, keep, _, _ => by rw [List.map_nil, Gen.repairLoop2]; rfl
  | c :: cs, gg, keep, hv, hlen => by
    rw [List.map_cons, repairLoop2_cons nil ff gg keep c.2 c.1 _ (hv c List.mem_cons_self) hlen]
    have hl := length_classStepN nil ff (gg, keep) c.2
    rw [repairLoop2_eq nil ff cs _ _ (fun c' hc' j hj => by
      rw [hl]; exact hv c' (List.mem_cons_of_mem _ hc') j hj) (by rw [hl]; exact hlen)]
    rfl

/-! ### the function -/

/-- `Repair(ff)` with the nil `Location` as a value, the classes visited in the order `cs` -/
def repairOrdN (nil : Loc) (ff : Table) (cs : List (List Nat)) : Option Table :=
  compact (cs.foldl (classStepN nil ff) (ff, [])).1 (sortNat (cs.foldl (classStepN nil ff) (ff, [])).2)

theorem goCopy_replicate {α : Type} (z : α) (l : List α) : Gen.goCopy (List.replicate l.length z) l = l := by
  rw [Gen.goCopy_le _ _ (by simp only [List.length_replicate]; exact Nat.le_refl _)]
  simp only [List.drop_replicate, Nat.sub_self, List.replicate_zero, List.append_nil]

theorem map_toNat_ofNat (l : List Nat) : (l.map Int.ofNat).map Int.toNat = l := by
  simp only [List.map_map]
  conv => rhs; rw [← List.map_id l]
  apply List.map_congr_left
  intro a _
  simp

/-- a sorted permutation of a list of indices is the model's `sortNat` -/
theorem sortInts_eq (sortInts : List Int → List Int)
    (hsort : ∀ l, (sortInts l).Perm l ∧ (sortInts l).Pairwise (· ≤ ·)) (keep : List Nat) :
    sortInts (keep.map Int.ofNat) = (sortNat keep).map Int.ofNat := by
  obtain ⟨hp, hs⟩ := hsort (keep.map Int.ofNat)
  apply List.Perm.eq_of_pairwise (le := (· ≤ ·)) (fun a b _ _ h1 h2 => Int.le_antisymm h1 h2) hs
  · rw [List.pairwise_map]
    exact (sortNat_sorted keep).imp (fun h => by simpa using h)
  · exact hp.trans ((sortNat_perm keep).map _).symm

/-- the tail of `Repair`: sorted `keep`, compaction, `gg[:len(keep)]` is the model's `compact` -/
theorem repairTail_eq (js : List Nat) (gg : Table) :
    ((Gen.repairLoop6 (js.map Int.ofNat) gg 0).bind fun st =>
      (Gen.goTo st.1 ((js.map Int.ofNat).length : Int)).bind fun x => some x) = compact gg js := by
  have := compactLoop_shape Gen.repairLoop6 (fun _ _ => by rw [Gen.repairLoop6])
    (fun _ _ _ _ => by rw [Gen.repairLoop6]) js gg 0
  simp only [Int.cast_ofNat_Int] at this
  rw [this]
  simp only [compact, List.length_map]
  cases h : compactLoop gg 0 js with
  | none => rfl
  | some gg' =>
    obtain ⟨h1, h2⟩ := compactLoop_some_length js gg 0 gg' h
    have hle : js.length ≤ gg'.length := by
      by_cases hjs : js = []
      · subst hjs; exact Nat.zero_le _
      · have := h2 hjs; omega
    simp only [Option.map_some, Option.bind_some]
    rw [Gen.goTo_nat _ _ hle]
    rfl

/-- **the generated `Repair` is `repairOrdN`** for the order in which the map is visited, which is a
permutation of the model's classes `Table.groups` -/
theorem repair_gen_ord (zero : Feature) (nil : Loc) (sortInts : List Int → List Int)
    (sprintf : String → String → List (List String) → String)
    (rangeMap : List (String × List Int) → List (String × List Int))
    (hfmt : ∀ f : Feature, sprintf "%q:%q" f.key f.props = classKey f)
    (hsort : ∀ l, (sortInts l).Perm l ∧ (sortInts l).Pairwise (· ≤ ·))
    (hrange : ∀ m, (rangeMap m).Perm m) (ff : Table) :
    ∃ cs : List (List Nat), cs.Perm (Table.groups ff) ∧
      Gen.repair zero nil sortLocs sortInts sprintf rangeMap ff = repairOrdN nil ff cs := by
  -- the index map
  have hindex := indexLoop_shape (Gen.repairLoop sprintf) (fun _ _ => by rw [Gen.repairLoop])
    (fun f rest i m => by rw [Gen.repairLoop, hfmt]) ff
  generalize hA : ((Table.classKeys ff).map fun k => (k, (Table.memberIdx ff k).map Int.ofNat)) = idxA at hindex
  -- the order in which it is visited
  have hR := hrange idxA
  generalize hRdef : rangeMap idxA = R at hR
  have hmemR : ∀ e ∈ R, ∃ k, e = (k, (Table.memberIdx ff k).map Int.ofNat) := by
    intro e he
    have := hR.subset he
    rw [← hA] at this
    obtain ⟨k, _, rfl⟩ := List.mem_map.mp this
    exact ⟨k, rfl⟩
  let csK : List (String × List Nat) := R.map fun e => (e.1, e.2.map Int.toNat)
  have hRK : R = csK.map fun c => (c.1, c.2.map Int.ofNat) := by
    simp only [csK, List.map_map]
    conv => lhs; rw [← List.map_id R]
    apply List.map_congr_left
    intro e he
    obtain ⟨k, rfl⟩ := hmemR e he
    simp only [id, Function.comp, map_toNat_ofNat]
  have hvalid : ∀ c ∈ csK, ∀ j ∈ c.2, j < ff.length := by
    intro c hc j hj
    obtain ⟨e, he, rfl⟩ := List.mem_map.mp hc
    obtain ⟨k, rfl⟩ := hmemR e he
    simp only [map_toNat_ofNat] at hj
    obtain ⟨f, hf, _⟩ := (Table.mem_memberIdx ff k j).mp hj
    exact (List.getElem?_eq_some_iff.mp hf).1
  refine ⟨csK.map (·.2), ?_, ?_⟩
  · have h1 : (R.map fun e => e.2.map Int.toNat).Perm (idxA.map fun e => e.2.map Int.toNat) := hR.map _
    have h2 : (idxA.map fun e => e.2.map Int.toNat) = Table.groups ff := by
      rw [← hA, List.map_map, Table.groups]
      apply List.map_congr_left
      intro k _
      exact map_toNat_ofNat _
    rw [h2] at h1
    have h3 : csK.map (·.2) = R.map fun e => e.2.map Int.toNat := by
      simp only [csK, List.map_map]
      rfl
    rw [h3]
    exact h1
  · simp only [Gen.repair]
    rw [Gen.goMake_nat, Option.bind_some, goCopy_replicate, hindex, Option.bind_some, Gen.goMake3_zero,
      Option.bind_some, hRdef, hRK]
    have hloop := repairLoop2_eq nil ff csK ff [] hvalid rfl
    simp only [List.map_nil] at hloop
    rw [hloop, Option.bind_some]
    simp only [sortInts_eq sortInts hsort]
    rw [repairTail_eq]
    simp only [repairOrdN, List.foldl_map]

/-! ### `repairOrdN` and the model -/

theorem length_sliceN (nil : Loc) (p : List Loc) : (sliceN nil p).length = sliceLen p := by
  simp only [sliceN, sliceLen]
  split <;> rfl

theorem foldl_classStep_nil_mono (ff : Table) : ∀ (cs : List (List Nat)) (s : RepairSt),
    (cs.foldl (classStep ff) s).nil = false → s.nil = false
  | [], _, h => h
  | c :: cs, s, h => by
    have := foldl_classStep_nil_mono ff cs (classStep ff s c) h
    simp only [classStep] at this
    split at this
    · simp only [Bool.or_eq_false_iff] at this; exact this.1
    · exact this

/-- as long as the model writes no nil `Location`, the two class loops are in the same state -/
theorem foldl_classStepN_eq (nil : Loc) (ff : Table) : ∀ (cs : List (List Nat)) (st : Table × List Nat) (stM : RepairSt),
    st.1 = stM.gg → st.2 = stM.keep → (cs.foldl (classStep ff) stM).nil = false →
    cs.foldl (classStepN nil ff) st = ((cs.foldl (classStep ff) stM).gg, (cs.foldl (classStep ff) stM).keep)
  | [], st, stM, h1, h2, _ => by simp only [List.foldl_nil, ← h1, ← h2]
  | c :: cs, st, stM, h1, h2, hn => by
    simp only [List.foldl_cons] at hn ⊢
    have hc := foldl_classStep_nil_mono ff cs _ hn
    apply foldl_classStepN_eq nil ff cs _ _ _ _ hn
    · simp only [classStepN, classStep, length_sliceN, h1] at hc ⊢
      split
      · rename_i hlt
        simp only [hlt, if_true, Bool.or_eq_false_iff] at hc
        simp only [sliceN, hc.2, Bool.false_eq_true, if_false]
      · rfl
    · simp only [classStepN, classStep, length_sliceN, h1, h2]
      split <;> rfl

/-- the kept indices are taken from the classes -/
theorem foldl_classStepN_keep (nil : Loc) (ff : Table) : ∀ (cs : List (List Nat)) (st : Table × List Nat),
    ∃ X, (cs.foldl (classStepN nil ff) st).2 = st.2 ++ X ∧ X.Sublist cs.flatten
  | [], st => ⟨[], by simp, List.Sublist.refl _⟩
  | c :: cs, st => by
    obtain ⟨X, hX, hs⟩ := foldl_classStepN_keep nil ff cs (classStepN nil ff st c)
    simp only [List.foldl_cons, List.flatten_cons]
    rw [hX]
    simp only [classStepN]
    split
    · exact ⟨c.take (sliceN nil (pushedOf (classForce ff c) (classLocs st.1 c))).length ++ X,
        by simp only [List.append_assoc], (List.take_sublist _ _).append hs⟩
    · exact ⟨c ++ X, by simp only [List.append_assoc], (List.Sublist.refl _).append hs⟩

theorem length_foldl_classStepN (nil : Loc) (ff : Table) : ∀ (cs : List (List Nat)) (st : Table × List Nat),
    (cs.foldl (classStepN nil ff) st).1.length = st.1.length
  | [], _ => rfl
  | c :: cs, st => by
    rw [List.foldl_cons, length_foldl_classStepN nil ff cs, length_classStepN]

/-- **`repairOrdN` never fails** over a permutation of the classes of the table (the compaction reads and
writes inside the table: `keep` is a duplicate-free list of table indices) -/
theorem repairOrdN_some (nil : Loc) (ff : Table) (cs : List (List Nat)) (hp : cs.Perm (Table.groups ff)) :
    ∃ t, repairOrdN nil ff cs = some t := by
  obtain ⟨X, hX, hs⟩ := foldl_classStepN_keep nil ff cs (ff, [])
  simp only [List.nil_append] at hX
  have hnd : cs.flatten.Nodup := (hp.flatten.nodup_iff).mpr (Table.groups_flatten_nodup ff)
  have hXnd : X.Nodup := hnd.sublist hs
  have hXlt : ∀ j ∈ X, j < ff.length := fun j hj =>
    (Table.mem_groups_flatten ff j).mp ((hp.flatten.mem_iff).mp (hs.subset hj))
  have hperm := sortNat_perm X
  have hsorted : (sortNat X).Pairwise (· < ·) := by
    have hle := sortNat_sorted X
    have hnd' : (sortNat X).Nodup := (hperm.nodup_iff).mpr hXnd
    have := hle.and hnd'
    exact this.imp (fun ⟨h1, h2⟩ => Nat.lt_of_le_of_ne h1 h2)
  have hc := compact_incr (cs.foldl (classStepN nil ff) (ff, [])).1 (sortNat X) hsorted (fun j hj => by
    rw [length_foldl_classStepN]
    exact hXlt j ((hperm.mem_iff).mp hj))
  exact ⟨_, by simp only [repairOrdN, hX]; exact hc⟩

theorem repairOrd_ok (ff : Table) (cs : List (List Nat)) (t : Table) (h : repairOrd ff cs = .ok t) :
    (cs.foldl (classStep ff) ⟨ff, [], false⟩).nil = false ∧
      compact (cs.foldl (classStep ff) ⟨ff, [], false⟩).gg (sortNat (cs.foldl (classStep ff) ⟨ff, [], false⟩).keep) = some t := by
  simp only [repairOrd] at h
  split at h
  · cases h
  · rename_i gg hgg
    split at h
    · cases h
    · rename_i hnil
      cases h
      exact ⟨by simpa using hnil, hgg⟩

/-- when the model answers a table, `repairOrdN` answers the same table -/
theorem repairOrdN_of_ok (nil : Loc) (ff : Table) (cs : List (List Nat)) (t : Table)
    (h : repairOrd ff cs = .ok t) : repairOrdN nil ff cs = some t := by
  obtain ⟨hn, hc⟩ := repairOrd_ok ff cs t h
  simp only [repairOrdN, foldl_classStepN_eq nil ff cs (ff, []) ⟨ff, [], false⟩ rfl rfl hn]
  exact hc

/-- **`Repair(ff)` as feature.go defines it now returns the table the model's `repair ff` returns** — for every
table on which the model answers a table (every table without a class of two or more empty `Joined{}`
literals: `Gts.C12.no_panic_ok`), every order in which Go visits the map, every sorted permutation that
`sort.Sort(sort.IntSlice(keep))` produces, every zero `Feature` and nil `Location` -/
theorem repair_gen (zero : Feature) (nil : Loc) (sortInts : List Int → List Int)
    (sprintf : String → String → List (List String) → String)
    (rangeMap : List (String × List Int) → List (String × List Int))
    (hfmt : ∀ f : Feature, sprintf "%q:%q" f.key f.props = classKey f)
    (hsort : ∀ l, (sortInts l).Perm l ∧ (sortInts l).Pairwise (· ≤ ·))
    (hrange : ∀ m, (rangeMap m).Perm m) (ff t : Table) (h : repair ff = .ok t) :
    Gen.repair zero nil sortLocs sortInts sprintf rangeMap ff = some t := by
  obtain ⟨cs, hp, he⟩ := repair_gen_ord zero nil sortInts sprintf rangeMap hfmt hsort hrange ff
  rw [he]
  apply repairOrdN_of_ok
  have : repairOrd ff cs = repair ff :=
    (repairOrd_perm ff _ _ hp.symm (Table.groups_flatten_nodup ff)).symm
  rw [this, h]

/-- **`Repair(ff)` as feature.go defines it now never panics**, on any table (in particular: the index
expressions `gg[i]`, `ff[indices[0]]`, `gg[indices[i]]`, the slice `indices[:len(locs)]`, the compaction and
`gg[:len(keep)]` stay in range) -/
theorem repair_gen_nopanic (zero : Feature) (nil : Loc) (sortInts : List Int → List Int)
    (sprintf : String → String → List (List String) → String)
    (rangeMap : List (String × List Int) → List (String × List Int))
    (hfmt : ∀ f : Feature, sprintf "%q:%q" f.key f.props = classKey f)
    (hsort : ∀ l, (sortInts l).Perm l ∧ (sortInts l).Pairwise (· ≤ ·))
    (hrange : ∀ m, (rangeMap m).Perm m) (ff : Table) :
    ∃ t, Gen.repair zero nil sortLocs sortInts sprintf rangeMap ff = some t := by
  obtain ⟨cs, hp, he⟩ := repair_gen_ord zero nil sortInts sprintf rangeMap hfmt hsort hrange ff
  rw [he]
  exact repairOrdN_some nil ff cs hp

-- non-vacuity: the hypotheses are satisfiable (the model's key text, the identity order, the model's sort of the
-- indices), and the generated function fuses two abutting fragments of a gene next to an unrelated feature
example : ∃ (sprintf : String → String → List (List String) → String) (sortInts : List Int → List Int)
    (rangeMap : List (String × List Int) → List (String × List Int)),
    (∀ f : Feature, sprintf "%q:%q" f.key f.props = classKey f) ∧
    (∀ l, (sortInts l).Perm l ∧ (sortInts l).Pairwise (· ≤ ·)) ∧ (∀ m, (rangeMap m).Perm m) :=
  ⟨fun _ k p => classKey ⟨k, .point 0, p⟩, fun l => l.mergeSort (fun a b => decide (a ≤ b)), id, fun _ => rfl,
    fun l => ⟨List.mergeSort_perm l _, by
      have := List.pairwise_mergeSort (le := fun a b : Int => decide (a ≤ b))
        (fun a b c h1 h2 => by simp only [decide_eq_true_eq] at *; omega)
        (fun a b => by simp only [Bool.or_eq_true, decide_eq_true_eq]; omega) l
      exact this.imp (fun h => by simpa using h)⟩, fun _ => List.Perm.refl _⟩
example : repair [⟨"gene", .ranged 0 2 false true, []⟩, ⟨"CDS", .point 1, []⟩, ⟨"gene", .ranged 2 4 true false, []⟩] =
    .ok [⟨"gene", .ranged 0 4 false false, []⟩, ⟨"CDS", .point 1, []⟩] := by rfl

end Gts.Bridge
