/-
  Bridge: `Repair`, regenerated from feature.go by go2lean (Gts/Gen/FeatRepair.lean: `make` + `copy`, the index
  map as an association list, the loop over the classes in the order `rangeMap_` — Go leaves it unspecified —
  with `locs[j] = gg[i].Loc`, `sort.Sort(Locations(locs))`, the `Push` fold with `force` only for `source`,
  `list.Slice()`, the write-back and `indices[:len(locs)]`, then `sort.Sort(sort.IntSlice(keep))` and the in-place
  compaction — literal loops over lists, every index / slice / `make` a checked operation), never panics and
  returns what the hand-written model `repair` (Gts/Model/Repair.lean) returns — for every table, every
  iteration order of the map, every sort of `keep`, every value of the zero `Feature` and of the nil
  `Location`.

  External calls are parameters with their assumed behaviour as hypotheses: `fmt.Sprintf("%q:%q", key, props)` is
  the model's `classKey` (the format text is part of the hypothesis), `sort.Sort(Locations(·))` is the model's
  `sortLocs` (Go's insertion sort up to 12 elements), `sort.Sort(sort.IntSlice(·))` returns a sorted permutation.
  `LocationList.Push` is the model's `Loc.push` (its rules are tied by Gts/Bridge/PushRules.lean).
-/
import Gts.Gen.FeatRepair
import Gts.Lemmas.GoList
import Gts.Lemmas.Repair
namespace Gts.Bridge
open Gts

/-! ### loop shapes -/

/-- `for _, x := range xs { s = step(s, x) }` -/
theorem foldLoop_shape {α σ : Type} (loop : List α → σ → Option σ) (step : σ → α → σ)
    (hnil : ∀ s, loop [] s = some s)
    (hcons : ∀ x rest s, loop (x :: rest) s = loop rest (step s x)) :
    ∀ xs s, loop xs s = some (xs.foldl step s)
  | [], s => by rw [hnil]; rfl
  | x :: xs, s => by rw [hcons, foldLoop_shape loop step hnil hcons xs]; rfl

/-- the gathering loop `for j, i := range idx { locs[j] = g(gg[i]) }` on a destination with room -/
theorem gatherLoop_shape {α β : Type} (loop : List Int → Int → List β → Option (List β)) (gg : List α) (g : α → β)
    (hnil : ∀ j dst, loop [] j dst = some dst)
    (hcons : ∀ i rest j dst, loop (i :: rest) j dst =
      (Gen.goIdx gg i).bind fun x => (Gen.goSet dst j (g x)).bind fun dst' => loop rest (j + 1) dst') :
    ∀ (idx : List Nat) (pre rest : List β), (∀ i ∈ idx, i < gg.length) → idx.length ≤ rest.length →
      loop (idx.map Int.ofNat) (pre.length : Int) (pre ++ rest) =
        some (pre ++ idx.filterMap (fun i => gg[i]?.map g) ++ rest.drop idx.length)
  | [], pre, rest, _, _ => by simp [hnil]
  | i :: idx, pre, [], _, hk => by simp at hk
  | i :: idx, pre, y :: rest, hi, hk => by
    simp only [List.map_cons, List.length_cons] at hk ⊢
    have hilt : i < gg.length := hi i (List.mem_cons_self)
    rw [hcons, Int.ofNat_eq_natCast, Gen.goIdx_lt gg i hilt, Option.bind_some,
      Gen.goSet_nat _ _ _ (by simp only [List.length_append, List.length_cons]; omega), Gen.set_append_length,
      Option.bind_some]
    have := gatherLoop_shape loop gg g hnil hcons idx (pre ++ [g gg[i]]) rest
      (fun j' h' => hi j' (List.mem_cons_of_mem _ h')) (by omega)
    simp only [List.length_append, List.length_cons, List.length_nil, Int.natCast_add, Int.cast_ofNat_Int,
      List.append_assoc, List.cons_append, List.nil_append, Nat.zero_add] at this
    rw [this]
    have hget : gg[i]? = some gg[i] := List.getElem?_eq_getElem hilt
    simp only [List.filterMap_cons, hget, Option.map_some, List.cons_append, List.drop_succ_cons, List.append_assoc]

theorem modify_loc_eq_set : ∀ (gg : Table) (i : Nat) (l : Loc) (h : i < gg.length),
    gg.modify i (fun f => { f with loc := l }) = gg.set i { gg[i] with loc := l }
  | _ :: _, 0, _, _ => rfl
  | f :: gg, i + 1, l, h => by
    simp only [List.modify_succ_cons, List.set_cons_succ, List.getElem_cons_succ]
    rw [modify_loc_eq_set gg i l (by simpa using h)]

theorem length_writeLocs : ∀ (ws : List (Nat × Loc)) (gg : Table), (writeLocs gg ws).length = gg.length
  | [], _ => rfl
  | (i, l) :: ws, gg => by
    simp only [writeLocs]
    rw [length_writeLocs ws, List.length_modify]

/-- the write-back loop `for i, loc := range locs { gg[indices[i]].Loc = loc }` -/
theorem writeLoop_shape (loop : List Loc → Int → Table → Option Table) (idx : List Nat)
    (hnil : ∀ i gg, loop [] i gg = some gg)
    (hcons : ∀ loc rest i gg, loop (loc :: rest) i gg =
      (Gen.goIdx (idx.map Int.ofNat) i).bind fun j =>
        (Gen.goIdx gg j).bind fun old => (Gen.goSet gg j { old with loc := loc }).bind fun gg' => loop rest (i + 1) gg') :
    ∀ (locs : List Loc) (k : Nat) (gg : Table), (∀ j ∈ idx, j < gg.length) → k + locs.length ≤ idx.length →
      loop locs (k : Int) gg = some (writeLocs gg ((idx.drop k).zip locs))
  | [], k, gg, _, _ => by simp [hnil, writeLocs]
  | loc :: locs, k, gg, hj, hk => by
    simp only [List.length_cons] at hk
    have hklt : k < idx.length := by omega
    have hjlt : idx[k] < gg.length := hj _ (List.getElem_mem hklt)
    have hk' : k < (idx.map Int.ofNat).length := by simpa using hklt
    rw [hcons, Gen.goIdx_lt _ k hk', Option.bind_some, List.getElem_map, Int.ofNat_eq_natCast,
      Gen.goIdx_lt gg _ hjlt, Option.bind_some, Gen.goSet_nat _ _ _ hjlt, Option.bind_some]
    have := writeLoop_shape loop idx hnil hcons locs (k + 1) (gg.set idx[k] { gg[idx[k]] with loc := loc })
      (fun j h => by simp only [List.length_set]; exact hj j h) (by omega)
    simp only [Int.natCast_add, Int.cast_ofNat_Int] at this
    rw [this, List.drop_eq_getElem_cons hklt]
    simp only [List.zip_cons_cons, writeLocs]
    rw [modify_loc_eq_set gg _ loc hjlt]

/-- the compaction loop `for _, j := range keep { gg[i] = gg[j]; i++ }` is the model's `compactLoop` -/
theorem compactLoop_shape (loop : List Int → Table → Int → Option (Table × Int))
    (hnil : ∀ gg i, loop [] gg i = some (gg, i))
    (hcons : ∀ j rest gg i, loop (j :: rest) gg i =
      (Gen.goIdx gg j).bind fun x => (Gen.goSet gg i x).bind fun gg' => loop rest gg' (i + 1)) :
    ∀ (js : List Nat) (gg : Table) (i : Nat),
      loop (js.map Int.ofNat) gg (i : Int) = (compactLoop gg i js).map fun g => (g, ((i + js.length : Nat) : Int))
  | [], gg, i => by simp [hnil, compactLoop]
  | j :: js, gg, i => by
    simp only [List.map_cons, compactLoop, List.length_cons]
    rw [hcons, Int.ofNat_eq_natCast, Gen.goIdx_nat]
    cases hg : gg[j]? with
    | none => rfl
    | some f =>
      simp only [Option.bind_some]
      by_cases hi : i < gg.length
      · rw [Gen.goSet_nat gg i f hi, Option.bind_some, if_pos hi]
        have := compactLoop_shape loop hnil hcons js (gg.set i f) (i + 1)
        simp only [Int.natCast_add, Int.cast_ofNat_Int] at this
        rw [this]
        have e : ((i : Int) + 1 + (js.length : Int)) = (i : Int) + ((js.length : Int) + 1) := by omega
        simp only [Int.natCast_add, Int.cast_ofNat_Int, e]
      · rw [if_neg hi]
        simp only [Gen.goSet]
        rw [if_neg (by omega)]
        rfl

/-- a successful compaction had room for every kept index -/
theorem compactLoop_some_length : ∀ (js : List Nat) (gg : Table) (i : Nat) (gg' : Table),
    compactLoop gg i js = some gg' → gg'.length = gg.length ∧ (js ≠ [] → i + js.length ≤ gg.length)
  | [], gg, i, gg', h => by
    simp only [compactLoop, Option.some.injEq] at h
    subst h
    exact ⟨rfl, fun h => absurd rfl h⟩
  | j :: js, gg, i, gg', h => by
    simp only [compactLoop] at h
    cases hg : gg[j]? with
    | none => rw [hg] at h; cases h
    | some f =>
      rw [hg] at h
      simp only at h
      by_cases hi : i < gg.length
      · rw [if_pos hi] at h
        have := compactLoop_some_length js (gg.set i f) (i + 1) gg' h
        simp only [List.length_set] at this
        refine ⟨this.1, fun _ => ?_⟩
        simp only [List.length_cons]
        by_cases hjs : js = []
        · subst hjs; simp only [List.length_nil]; omega
        · have := this.2 hjs; omega
      · rw [if_neg hi] at h; cases h

/-- whether the compaction succeeds depends on the indices and the length of the table only -/
theorem compactLoop_isSome_congr : ∀ (js : List Nat) (gg gg' : Table) (i : Nat), gg.length = gg'.length →
    (compactLoop gg i js).isSome = (compactLoop gg' i js).isSome
  | [], _, _, _, _ => rfl
  | j :: js, gg, gg', i, h => by
    simp only [compactLoop]
    cases h1 : gg[j]? with
    | none =>
      have : gg'[j]? = none := by
        rw [List.getElem?_eq_none_iff] at h1 ⊢; omega
      rw [this]
    | some f =>
      have hj : j < gg.length := (List.getElem?_eq_some_iff.mp h1).1
      rw [List.getElem?_eq_getElem (show j < gg'.length by omega)]
      simp only
      by_cases hi : i < gg.length
      · rw [if_pos hi, if_pos (show i < gg'.length by omega)]
        exact compactLoop_isSome_congr js _ _ (i + 1) (by simp only [List.length_set]; exact h)
      · rw [if_neg hi, if_neg (show ¬ i < gg'.length by omega)]

end Gts.Bridge
