/-
  C07 / C01 / C06 bridge (DESIGN.md 4.1b, 4.1d): the pinned helper module github.com/go-pars/pars, on whose hand-written
  model `Gts/Model/Pars.lean` every parser proof rests, as go2lean extracts it from the MODULE DIRECTORY on every
  run (`Gts/Gen/ParsFacts.lean`, generator go2lean/gpars.go) is what the model was written against
  (`Gts/Spec/ParsTable.lean`, line by line with the model clause each line mirrors).

  `pars_pin`: the version go.mod requires, the go.sum lines, and — computed by go2lean over the directory it read,
  with the algorithm of `go mod verify` — the h1 hash of that directory IS the hash go.sum pins: the text the
  facts were taken from is the text that is compiled into gts.  `pars_inventory`: what gts uses of the package
  (names, method names, the files that import it) and the declarations that reaches; a NEW pars function used by gts
  shows here.  One theorem `pars_<Function>` per declaration (its function literals included), closed by `rfl` (the
  kernel compares the two literal tables); `pars_stateOps` and the statements about it that do not depend on
  line numbers (`decide +kernel`): who may call the panicking `stack.Pop`, where `Int` leaks its frame, that the
  `Until` family restores the state on failure, what `Clear` / `autoclear` / `Trail` do to the saved positions.
  The generated FUNCTIONS of the same source and their equality with the model are `Gts/Bridge/Pars.lean`.
-/
import Gts.Gen.ParsFacts
import Gts.Spec.ParsTable
namespace Gts.Bridge
open Gts.Gen

/-- the pin: go.mod requires the version the model was written against, go.sum has the two expected lines, and the
directory go2lean read hashes (h1, dirhash) to the value go.sum pins for the module tree -/
theorem pars_pin :
    ParsFacts.version = Spec.ParsTable.version ∧ ParsFacts.goSum = Spec.ParsTable.goSum ∧
    ParsFacts.dirHash = Spec.ParsTable.dirHash ∧
    ParsFacts.goSum.head? = some (ParsFacts.module ++ " " ++ ParsFacts.version ++ " " ++ ParsFacts.dirHash) := by
  decide +kernel

/-- the inventory: what gts uses of the package (every `pars.X`, every method name, the files that import it), the
files of the package, and the declarations reached from there with their function literals, in order (a new
function literal, a new or removed function, a NEW pars function used by gts shows here) -/
theorem pars_inventory :
    ParsFacts.usedNames = Spec.ParsTable.usedNames ∧ ParsFacts.usedMethods = Spec.ParsTable.usedMethods ∧
    ParsFacts.users = Spec.ParsTable.users ∧ ParsFacts.files = Spec.ParsTable.files ∧
    ParsFacts.fns.map (·.1) = Spec.ParsTable.fns.map (·.1) ∧
    ParsFacts.unreached = Spec.ParsTable.unreached := by decide +kernel

/-- `pars.Spaces`: every statement in normal form is the expected one -/
theorem pars_Spaces :
    ParsFacts.fn_Spaces = Spec.ParsTable.fn_Spaces := rfl

/-- `pars.Filter(f)` and its 1 function literal: every statement in normal form is the expected one -/
theorem pars_Filter :
    ParsFacts.fn_Filter = Spec.ParsTable.fn_Filter ∧
    ParsFacts.fn_Filter_func0 = Spec.ParsTable.fn_Filter_func0 := ⟨rfl, rfl⟩

/-- `pars.Word(f)` and its 1 function literal: every statement in normal form is the expected one -/
theorem pars_Word :
    ParsFacts.fn_Word = Spec.ParsTable.fn_Word ∧
    ParsFacts.fn_Word_func0 = Spec.ParsTable.fn_Word_func0 := ⟨rfl, rfl⟩

/-- `pars.Head` (first member of `Exact`): every statement in normal form is the expected one -/
theorem pars_Head :
    ParsFacts.fn_Head = Spec.ParsTable.fn_Head := rfl

/-- `pars.End`: every statement in normal form is the expected one -/
theorem pars_End :
    ParsFacts.fn_End = Spec.ParsTable.fn_End := rfl

/-- `pars.Byte(c…)` and its 4 function literals: every statement in normal form is the expected one -/
theorem pars_Byte :
    ParsFacts.fn_Byte = Spec.ParsTable.fn_Byte ∧
    ParsFacts.fn_Byte_func0 = Spec.ParsTable.fn_Byte_func0 ∧
    ParsFacts.fn_Byte_func1 = Spec.ParsTable.fn_Byte_func1 ∧
    ParsFacts.fn_Byte_func2 = Spec.ParsTable.fn_Byte_func2 ∧
    ParsFacts.fn_Byte_func3 = Spec.ParsTable.fn_Byte_func3 := ⟨rfl, rfl, rfl, rfl, rfl⟩

/-- `pars.Bytes(p)` and its 1 function literal: every statement in normal form is the expected one -/
theorem pars_Bytes :
    ParsFacts.fn_Bytes = Spec.ParsTable.fn_Bytes ∧
    ParsFacts.fn_Bytes_func0 = Spec.ParsTable.fn_Bytes_func0 := ⟨rfl, rfl⟩

/-- `pars.Dry(q)` and its 1 function literal: every statement in normal form is the expected one -/
theorem pars_Dry :
    ParsFacts.fn_Dry = Spec.ParsTable.fn_Dry ∧
    ParsFacts.fn_Dry_func0 = Spec.ParsTable.fn_Dry_func0 := ⟨rfl, rfl⟩

/-- `pars.Seq(q…)` and its 1 function literal: every statement in normal form is the expected one -/
theorem pars_Seq :
    ParsFacts.fn_Seq = Spec.ParsTable.fn_Seq ∧
    ParsFacts.fn_Seq_func0 = Spec.ParsTable.fn_Seq_func0 := ⟨rfl, rfl⟩

/-- `pars.Any(q…)` and its 1 function literal: every statement in normal form is the expected one -/
theorem pars_Any :
    ParsFacts.fn_Any = Spec.ParsTable.fn_Any ∧
    ParsFacts.fn_Any_func0 = Spec.ParsTable.fn_Any_func0 := ⟨rfl, rfl⟩

/-- `pars.Maybe(q)` and its 1 function literal: every statement in normal form is the expected one -/
theorem pars_Maybe :
    ParsFacts.fn_Maybe = Spec.ParsTable.fn_Maybe ∧
    ParsFacts.fn_Maybe_func0 = Spec.ParsTable.fn_Maybe_func0 := ⟨rfl, rfl⟩

/-- `pars.Many(q)` and its 1 function literal: every statement in normal form is the expected one -/
theorem pars_Many :
    ParsFacts.fn_Many = Spec.ParsTable.fn_Many ∧
    ParsFacts.fn_Many_func0 = Spec.ParsTable.fn_Many_func0 := ⟨rfl, rfl⟩

/-- `pars.Exact(q)`: every statement in normal form is the expected one -/
theorem pars_Exact :
    ParsFacts.fn_Exact = Spec.ParsTable.fn_Exact := rfl

/-- `pars.Count(q, n)`: every statement in normal form is the expected one -/
theorem pars_Count :
    ParsFacts.fn_Count = Spec.ParsTable.fn_Count := rfl

/-- `pars.Until(byte)` and its 1 function literal: every statement in normal form is the expected one -/
theorem pars_untilByte :
    ParsFacts.fn_untilByte = Spec.ParsTable.fn_untilByte ∧
    ParsFacts.fn_untilByte_func0 = Spec.ParsTable.fn_untilByte_func0 := ⟨rfl, rfl⟩

/-- `pars.Until([]byte)` and its 1 function literal: every statement in normal form is the expected one -/
theorem pars_untilBytes :
    ParsFacts.fn_untilBytes = Spec.ParsTable.fn_untilBytes ∧
    ParsFacts.fn_untilBytes_func0 = Spec.ParsTable.fn_untilBytes_func0 := ⟨rfl, rfl⟩

/-- `pars.Until(func(byte) bool)` and its 1 function literal: every statement in normal form is the expected one -/
theorem pars_untilFilter :
    ParsFacts.fn_untilFilter = Spec.ParsTable.fn_untilFilter ∧
    ParsFacts.fn_untilFilter_func0 = Spec.ParsTable.fn_untilFilter_func0 := ⟨rfl, rfl⟩

/-- `pars.Until(q)` and its 1 function literal: every statement in normal form is the expected one -/
theorem pars_Until :
    ParsFacts.fn_Until = Spec.ParsTable.fn_Until ∧
    ParsFacts.fn_Until_func0 = Spec.ParsTable.fn_Until_func0 := ⟨rfl, rfl⟩

/-- `pars.EOL`: every statement in normal form is the expected one -/
theorem pars_EOL :
    ParsFacts.fn_EOL = Spec.ParsTable.fn_EOL := rfl

/-- `calculateLineLength`: every statement in normal form is the expected one -/
theorem pars_calculateLineLength :
    ParsFacts.fn_calculateLineLength = Spec.ParsTable.fn_calculateLineLength := rfl

/-- `pars.Line`: every statement in normal form is the expected one -/
theorem pars_Line :
    ParsFacts.fn_Line = Spec.ParsTable.fn_Line := rfl

/-- the error of `Child` / `Children` on a result without children (error text only): every statement in normal form is the expected one -/
theorem pars_errNoChildren :
    ParsFacts.fn_errNoChildren = Spec.ParsTable.fn_errNoChildren := rfl

/-- the error type of `NewError` (message and position: never compared, the model has the one value `Err.fail`): every statement in normal form is the expected one -/
theorem pars_Error :
    ParsFacts.fn_Error = Spec.ParsTable.fn_Error := rfl

/-- `pars.NewError`: every statement in normal form is the expected one -/
theorem pars_NewError :
    ParsFacts.fn_NewError = Spec.ParsTable.fn_NewError := rfl

/-- error text only: every statement in normal form is the expected one -/
theorem pars_Error_Error :
    ParsFacts.fn_Error_Error = Spec.ParsTable.fn_Error_Error := rfl

/-- the error type of `NewNestedError` (not modelled: `Err.fail`): every statement in normal form is the expected one -/
theorem pars_NestedError :
    ParsFacts.fn_NestedError = Spec.ParsTable.fn_NestedError := rfl

/-- `NewNestedError`: every statement in normal form is the expected one -/
theorem pars_NewNestedError :
    ParsFacts.fn_NewNestedError = Spec.ParsTable.fn_NewNestedError := rfl

/-- error text only: every statement in normal form is the expected one -/
theorem pars_NestedError_Error :
    ParsFacts.fn_NestedError_Error = Spec.ParsTable.fn_NestedError_Error := rfl

/-- the error type of `Parser.Error` (not modelled: `Err.fail`): every statement in normal form is the expected one -/
theorem pars_BoundError :
    ParsFacts.fn_BoundError = Spec.ParsTable.fn_BoundError := rfl

/-- error text only: every statement in normal form is the expected one -/
theorem pars_BoundError_Error :
    ParsFacts.fn_BoundError_Error = Spec.ParsTable.fn_BoundError_Error := rfl

/-- `convertInt`: every statement in normal form is the expected one -/
theorem pars_convertInt :
    ParsFacts.fn_convertInt = Spec.ParsTable.fn_convertInt := rfl

/-- `pars.Int`: every statement in normal form is the expected one -/
theorem pars_Int :
    ParsFacts.fn_Int = Spec.ParsTable.fn_Int := rfl

/-- `pars.Between(l, r)` and its 1 function literal: every statement in normal form is the expected one -/
theorem pars_Between :
    ParsFacts.fn_Between = Spec.ParsTable.fn_Between ∧
    ParsFacts.fn_Between_func0 = Spec.ParsTable.fn_Between_func0 := ⟨rfl, rfl⟩

/-- `pars.Quoted(c)`: every statement in normal form is the expected one -/
theorem pars_Quoted :
    ParsFacts.fn_Quoted = Spec.ParsTable.fn_Quoted := rfl

/-- `pars.Child(i)` and its 1 function literal: every statement in normal form is the expected one -/
theorem pars_Child :
    ParsFacts.fn_Child = Spec.ParsTable.fn_Child ∧
    ParsFacts.fn_Child_func0 = Spec.ParsTable.fn_Child_func0 := ⟨rfl, rfl⟩

/-- `pars.Children(i…)` and its 1 function literal: every statement in normal form is the expected one -/
theorem pars_Children :
    ParsFacts.fn_Children = Spec.ParsTable.fn_Children ∧
    ParsFacts.fn_Children_func0 = Spec.ParsTable.fn_Children_func0 := ⟨rfl, rfl⟩

/-- `pars.Cat`: every statement in normal form is the expected one -/
theorem pars_Cat :
    ParsFacts.fn_Cat = Spec.ParsTable.fn_Cat := rfl

/-- the type of a parser: every statement in normal form is the expected one -/
theorem pars_Parser :
    ParsFacts.fn_Parser = Spec.ParsTable.fn_Parser := rfl

/-- the type of a result mapping: every statement in normal form is the expected one -/
theorem pars_Map :
    ParsFacts.fn_Map = Spec.ParsTable.fn_Map := rfl

/-- `Parser.Map(f)` and its 1 function literal: every statement in normal form is the expected one -/
theorem pars_Parser_Map :
    ParsFacts.fn_Parser_Map = Spec.ParsTable.fn_Parser_Map ∧
    ParsFacts.fn_Parser_Map_func0 = Spec.ParsTable.fn_Parser_Map_func0 := ⟨rfl, rfl⟩

/-- `p.Child(i)`: every statement in normal form is the expected one -/
theorem pars_Parser_Child :
    ParsFacts.fn_Parser_Child = Spec.ParsTable.fn_Parser_Child := rfl

/-- `p.Children(i…)`: every statement in normal form is the expected one -/
theorem pars_Parser_Children :
    ParsFacts.fn_Parser_Children = Spec.ParsTable.fn_Parser_Children := rfl

/-- `p.Bind(v)` and its 1 function literal: every statement in normal form is the expected one -/
theorem pars_Parser_Bind :
    ParsFacts.fn_Parser_Bind = Spec.ParsTable.fn_Parser_Bind ∧
    ParsFacts.fn_Parser_Bind_func0 = Spec.ParsTable.fn_Parser_Bind_func0 := ⟨rfl, rfl⟩

/-- `p.Error(err)` and its 1 function literal: every statement in normal form is the expected one -/
theorem pars_Parser_Error :
    ParsFacts.fn_Parser_Error = Spec.ParsTable.fn_Parser_Error ∧
    ParsFacts.fn_Parser_Error_func0 = Spec.ParsTable.fn_Parser_Error_func0 := ⟨rfl, rfl⟩

/-- `p.Parse(state)`: every statement in normal form is the expected one -/
theorem pars_Parser_Parse :
    ParsFacts.fn_Parser_Parse = Spec.ParsTable.fn_Parser_Parse := rfl

/-- `pars.AsParser(q)` and its 1 function literal: every statement in normal form is the expected one -/
theorem pars_AsParser :
    ParsFacts.fn_AsParser = Spec.ParsTable.fn_AsParser ∧
    ParsFacts.fn_AsParser_func0 = Spec.ParsTable.fn_AsParser_func0 := ⟨rfl, rfl⟩

/-- `AsParsers`: every statement in normal form is the expected one -/
theorem pars_AsParsers :
    ParsFacts.fn_AsParsers = Spec.ParsTable.fn_AsParsers := rfl

/-- line and byte number of the state (0-based).  NOT part of the model's state `PS`: gts uses positions for error texts, `Head` (fresh state) and the no-progress exit of `Many`: every statement in normal form is the expected one -/
theorem pars_Position :
    ParsFacts.fn_Position = Spec.ParsTable.fn_Position := rfl

/-- `Position.Head`: every statement in normal form is the expected one -/
theorem pars_Position_Head :
    ParsFacts.fn_Position_Head = Spec.ParsTable.fn_Position_Head := rfl

/-- error text only: every statement in normal form is the expected one -/
theorem pars_Position_String :
    ParsFacts.fn_Position_String = Spec.ParsTable.fn_Position_String := rfl

/-- `Position.Less`: every statement in normal form is the expected one -/
theorem pars_Position_Less :
    ParsFacts.fn_Position_Less = Spec.ParsTable.fn_Position_Less := rfl

/-- `pars.Reader`: every statement in normal form is the expected one -/
theorem pars_Reader :
    ParsFacts.fn_Reader = Spec.ParsTable.fn_Reader := rfl

/-- reached by NAME only (`Read`); no model clause: every statement in normal form is the expected one -/
theorem pars_Reader_Read :
    ParsFacts.fn_Reader_Read = Spec.ParsTable.fn_Reader_Read := rfl

/-- `pars.Void`: every statement in normal form is the expected one -/
theorem pars_Void :
    ParsFacts.fn_Void = Spec.ParsTable.fn_Void := rfl

/-- the result object: token, value or children: every statement in normal form is the expected one -/
theorem pars_Result :
    ParsFacts.fn_Result = Spec.ParsTable.fn_Result := rfl

/-- `Result.SetToken`: every statement in normal form is the expected one -/
theorem pars_Result_SetToken :
    ParsFacts.fn_Result_SetToken = Spec.ParsTable.fn_Result_SetToken := rfl

/-- `Result.SetValue`: every statement in normal form is the expected one -/
theorem pars_Result_SetValue :
    ParsFacts.fn_Result_SetValue = Spec.ParsTable.fn_Result_SetValue := rfl

/-- `Result.SetChildren`: every statement in normal form is the expected one -/
theorem pars_Result_SetChildren :
    ParsFacts.fn_Result_SetChildren = Spec.ParsTable.fn_Result_SetChildren := rfl

/-- error text only (reached from `Rune`): every statement in normal form is the expected one -/
theorem pars_runeRep :
    ParsFacts.fn_runeRep = Spec.ParsTable.fn_runeRep := rfl

/-- error text only (reached from `Rune` / `Runes`): every statement in normal form is the expected one -/
theorem pars_runeReps :
    ParsFacts.fn_runeReps = Spec.ParsTable.fn_runeReps := rfl

/-- reached from `Rune()` / `Rune(c1, c2, …)`, which gts does not use (no model clause): every statement in normal form is the expected one -/
theorem pars_readRune :
    ParsFacts.fn_readRune = Spec.ParsTable.fn_readRune := rfl

/-- `pars.Rune(c…)` and its 4 function literals: every statement in normal form is the expected one -/
theorem pars_Rune :
    ParsFacts.fn_Rune = Spec.ParsTable.fn_Rune ∧
    ParsFacts.fn_Rune_func0 = Spec.ParsTable.fn_Rune_func0 ∧
    ParsFacts.fn_Rune_func1 = Spec.ParsTable.fn_Rune_func1 ∧
    ParsFacts.fn_Rune_func2 = Spec.ParsTable.fn_Rune_func2 ∧
    ParsFacts.fn_Rune_func3 = Spec.ParsTable.fn_Rune_func3 := ⟨rfl, rfl, rfl, rfl, rfl⟩

/-- `pars.Runes` and its 1 function literal: every statement in normal form is the expected one -/
theorem pars_Runes :
    ParsFacts.fn_Runes = Spec.ParsTable.fn_Runes ∧
    ParsFacts.fn_Runes_func0 = Spec.ParsTable.fn_Runes_func0 := ⟨rfl, rfl⟩

/-- the stack of saved positions grows by 16 cells (capacity is not modelled: `PS.stk` is a list): every statement in normal form is the expected one -/
theorem pars_stackGrowthSize :
    ParsFacts.fn_stackGrowthSize = Spec.ParsTable.fn_stackGrowthSize := rfl

/-- one saved position: offset into the buffer and line / byte number: every statement in normal form is the expected one -/
theorem pars_frame :
    ParsFacts.fn_frame = Spec.ParsTable.fn_frame := rfl

/-- the saved positions: cells `v[0 … i-1]`, youngest last: every statement in normal form is the expected one -/
theorem pars_stack :
    ParsFacts.fn_stack = Spec.ParsTable.fn_stack := rfl

/-- an empty stack (`PS.stk = []`): every statement in normal form is the expected one -/
theorem pars_newStack :
    ParsFacts.fn_newStack = Spec.ParsTable.fn_newStack := rfl

/-- `stack.Empty`: every statement in normal form is the expected one -/
theorem pars_stack_Empty :
    ParsFacts.fn_stack_Empty = Spec.ParsTable.fn_stack_Empty := rfl

/-- `stack.Push`: every statement in normal form is the expected one -/
theorem pars_stack_Push :
    ParsFacts.fn_stack_Push = Spec.ParsTable.fn_stack_Push := rfl

/-- `stack.Pop`: every statement in normal form is the expected one -/
theorem pars_stack_Pop :
    ParsFacts.fn_stack_Pop = Spec.ParsTable.fn_stack_Pop := rfl

/-- `stack.Reset`: every statement in normal form is the expected one -/
theorem pars_stack_Reset :
    ParsFacts.fn_stack_Reset = Spec.ParsTable.fn_stack_Reset := rfl

/-- the chunk size of `Request` (buffering is not modelled: `PS.rest` is the whole remaining input): every statement in normal form is the expected one -/
theorem pars_bufferReadSize :
    ParsFacts.fn_bufferReadSize = Spec.ParsTable.fn_bufferReadSize := rfl

/-- the parser state: reader, buffer, offset, end of the requested range, reader error, position, saved positions: every statement in normal form is the expected one -/
theorem pars_State :
    ParsFacts.fn_State = Spec.ParsTable.fn_State := rfl

/-- `pars.NewState(r)`: every statement in normal form is the expected one -/
theorem pars_NewState :
    ParsFacts.fn_NewState = Spec.ParsTable.fn_NewState := rfl

/-- `pars.FromBytes(p)`: every statement in normal form is the expected one -/
theorem pars_FromBytes :
    ParsFacts.fn_FromBytes = Spec.ParsTable.fn_FromBytes := rfl

/-- `pars.FromString(s)`: every statement in normal form is the expected one -/
theorem pars_FromString :
    ParsFacts.fn_FromString = Spec.ParsTable.fn_FromString := rfl

/-- `State.Read`: every statement in normal form is the expected one -/
theorem pars_State_Read :
    ParsFacts.fn_State_Read = Spec.ParsTable.fn_State_Read := rfl

/-- `State.ReadByte`: every statement in normal form is the expected one -/
theorem pars_State_ReadByte :
    ParsFacts.fn_State_ReadByte = Spec.ParsTable.fn_State_ReadByte := rfl

/-- `State.Request(n)`: every statement in normal form is the expected one -/
theorem pars_State_Request :
    ParsFacts.fn_State_Request = Spec.ParsTable.fn_State_Request := rfl

/-- `State.Advance`: every statement in normal form is the expected one -/
theorem pars_State_Advance :
    ParsFacts.fn_State_Advance = Spec.ParsTable.fn_State_Advance := rfl

/-- `State.Buffer`: every statement in normal form is the expected one -/
theorem pars_State_Buffer :
    ParsFacts.fn_State_Buffer = Spec.ParsTable.fn_State_Buffer := rfl

/-- `State.Offset`: every statement in normal form is the expected one -/
theorem pars_State_Offset :
    ParsFacts.fn_State_Offset = Spec.ParsTable.fn_State_Offset := rfl

/-- `State.Position`: every statement in normal form is the expected one -/
theorem pars_State_Position :
    ParsFacts.fn_State_Position = Spec.ParsTable.fn_State_Position := rfl

/-- `State.Push`: every statement in normal form is the expected one -/
theorem pars_State_Push :
    ParsFacts.fn_State_Push = Spec.ParsTable.fn_State_Push := rfl

/-- `State.Pushed`: every statement in normal form is the expected one -/
theorem pars_State_Pushed :
    ParsFacts.fn_State_Pushed = Spec.ParsTable.fn_State_Pushed := rfl

/-- `State.Pop`: every statement in normal form is the expected one -/
theorem pars_State_Pop :
    ParsFacts.fn_State_Pop = Spec.ParsTable.fn_State_Pop := rfl

/-- `State.Drop`: every statement in normal form is the expected one -/
theorem pars_State_Drop :
    ParsFacts.fn_State_Drop = Spec.ParsTable.fn_State_Drop := rfl

/-- `State.autoclear`: every statement in normal form is the expected one -/
theorem pars_State_autoclear :
    ParsFacts.fn_State_autoclear = Spec.ParsTable.fn_State_autoclear := rfl

/-- `State.Clear`: every statement in normal form is the expected one -/
theorem pars_State_Clear :
    ParsFacts.fn_State_Clear = Spec.ParsTable.fn_State_Clear := rfl

/-- `pars.Skip(state, n)`: every statement in normal form is the expected one -/
theorem pars_Skip :
    ParsFacts.fn_Skip = Spec.ParsTable.fn_Skip := rfl

/-- `pars.Next`: every statement in normal form is the expected one -/
theorem pars_Next :
    ParsFacts.fn_Next = Spec.ParsTable.fn_Next := rfl

/-- `pars.Trail`: every statement in normal form is the expected one -/
theorem pars_Trail :
    ParsFacts.fn_Trail = Spec.ParsTable.fn_Trail := rfl

/-- `pars.String(s)` and its 1 function literal: every statement in normal form is the expected one -/
theorem pars_String :
    ParsFacts.fn_String = Spec.ParsTable.fn_String ∧
    ParsFacts.fn_String_func0 = Spec.ParsTable.fn_String_func0 := ⟨rfl, rfl⟩

/-- the whole table at once (follows from the theorems above; kept so that a function that is in `fns` but has
no theorem of its own cannot go unnoticed) -/
theorem pars_fns : ParsFacts.fns = Spec.ParsTable.fns := rfl

/-- every operation on the saved positions / the buffer with the header it stands under -/
theorem pars_stateOps : ParsFacts.stateOps = Spec.ParsTable.stateOps := rfl

/-! ### statements about the tables that do not depend on line numbers -/

/-- the operations of one entry, with the header each stands under -/
def parsOpsOf (f : String) : List (String × String) :=
  (ParsFacts.stateOps.filter (·.1 == f)).map (·.2)

/-- `stack.Pop` indexes `v[i-1]` and panics on an empty stack: its only callers are `State.Pop` and `State.Drop`, both
under `!s.stk.Empty()` — `Pars.pop` / `Pars.drop` do nothing on an empty stack -/
theorem pars_stackPop_guarded :
    (ParsFacts.stateOps.filter (fun o => o.2.1 == "recv.stk.Pop()")) =
      [("State.Pop", "recv.stk.Pop()", "if !recv.stk.Empty()"), ("State.Drop", "recv.stk.Pop()", "if !recv.stk.Empty()")] ∧
    ParsFacts.fn_stack_Pop.map (·.2.2) = ["(recv *stack) () (int, Position)", "recv.i--", "v0 := recv.v[recv.i]", "v0.Off, v0.Pos"] := by
  decide +kernel

/-- `Int` pushes one frame and pops it under the digit test only: when the input ends at the first byte or behind
the sign it returns with the frame still pushed (F34's root cause; `Pars.int`: "failure leaks the frame, as in Go") -/
theorem pars_Int_leaks_frame :
    parsOpsOf "Int" =
      [("state.Push()", ""), ("state.Advance()", "if v0 == '-' || v0 == '+'"), ("state.Pop()", "if !ascii.IsDigit(v0)"),
       ("state.Advance()", "if v0 == '0'"), ("state.Drop()", "if v0 == '0'"),
       ("state.Advance()", "for v1 == nil && ascii.IsDigit(v0)")] ∧
    (ParsFacts.fn_Int.filter (fun l => l.2.1 == "return")).map (·.2.2) =
      ["NewNestedError(\"Int\", v1)", "NewNestedError(\"Int\", v1)", "NewError(\"expected an integer\", state.Position())", "nil", "v1", "nil"] := by
  decide +kernel

/-- `untilByte` / `untilFilter`: one `Push`; both error returns stand behind a `Pop` (position and saved positions as
on entry — `Pars.untilFilter` fails with the state unchanged); the delimiter is not consumed (no `Advance` outside
the loop) -/
theorem pars_until_restores :
    parsOpsOf "untilByte/func0" =
      [("state.Push()", ""), ("state.Pop()", "if v2 != nil"), ("state.Advance()", "for v1 != b0"), ("state.Pop()", "if v2 != nil")] ∧
    parsOpsOf "untilFilter/func0" =
      [("state.Push()", ""), ("state.Pop()", "if v4 != nil"), ("state.Advance()", "for !filter0(v3)"), ("state.Pop()", "if v4 != nil")] := by
  decide +kernel

/-- `Clear` resets the stack unconditionally; `autoclear` clears only when nothing is pushed; `Advance`, `Pop` and
`Drop` end with `autoclear` (the last two under their guard) — invisible in `PS`, where positions are remaining inputs -/
theorem pars_clear_ops :
    parsOpsOf "State.Clear" = [("recv.stk.Reset()", "")] ∧
    parsOpsOf "State.autoclear" = [("recv.Clear()", "if recv.stk.Empty()")] ∧
    parsOpsOf "State.Advance" = [("recv.autoclear()", "")] ∧
    parsOpsOf "State.Pop" = [("recv.stk.Pop()", "if !recv.stk.Empty()"), ("recv.autoclear()", "if !recv.stk.Empty()")] ∧
    parsOpsOf "State.Drop" = [("recv.stk.Pop()", "if !recv.stk.Empty()"), ("recv.autoclear()", "if !recv.stk.Empty()")] ∧
    parsOpsOf "State.Push" = [("recv.stk.Push(recv.off, recv.pos)", "")] := by
  decide +kernel

/-- `Trail`: `Pop`, `Request` of the offset difference, `Advance`, all unconditional behind the `Pushed` test -/
theorem pars_Trail_ops :
    parsOpsOf "Trail" = [("state.Pop()", ""), ("state.Request(v1)", ""), ("state.Advance()", "")] ∧
    (ParsFacts.fn_Trail.filter (fun l => l.2.1 == "if")).map (·.2.2) = ["!state.Pushed()"] := by
  decide +kernel

/-- the frames of the combinators: `Seq`, `Map`, `Maybe` push one frame, pop it when the inner parser fails and drop
it otherwise; `Any` drops on the first success and pops when all failed; `Dry` pops on both outcomes -/
theorem pars_combinator_frames :
    parsOpsOf "Seq/func0" = [("state.Push()", ""), ("state.Pop()", "if v5 := v4(state, &v2[v3]); v5 != nil"), ("state.Drop()", "")] ∧
    parsOpsOf "Parser.Map/func0" = [("state.Push()", ""), ("state.Pop()", "if v0 := recv(state, result); v0 != nil"), ("state.Drop()", "")] ∧
    parsOpsOf "Maybe/func0" = [("state.Push()", ""), ("state.Pop()", "if v1 := v0(state, result); v1 != nil"), ("state.Drop()", "")] ∧
    parsOpsOf "Any/func0" = [("state.Push()", ""), ("state.Drop()", "if err0 = v2(state, result); err0 == nil"), ("state.Pop()", "")] ∧
    parsOpsOf "Dry/func0" = [("state.Push()", ""), ("state.Pop()", "")] := by
  decide +kernel

end Gts.Bridge
