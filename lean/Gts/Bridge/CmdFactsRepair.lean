/-
  Bridge (DESIGN.md 4.1b): the GLUE between the library and the CLI as facts — C12: repair.
  The command functions of `/repo/cmd/gts/*.go` that have no regenerated tie of their own, as go2lean extracts them from
  the Go source on every run (`Gts/Gen/CmdFacts.lean`, generator go2lean/cmdfacts.go: normal form, one line per statement,
  locals `v0, v1, …`, parameters by type), are what the hand-written expectation `Gts/Spec/CmdTable.lean` says, line by
  line with what each line does in terms of the library function the model has.

  Per command FILE `cmd_<file>` — every function, method and function literal of the file in normal form, its top-level
  declarations, its types (`rfl`: the kernel compares the two literal tables) — and `cmd_<file>_pipeline` — the library
  calls of the command function in source order with the kinds of the headers above them (no variable name, no line
  number: renaming, re-ordered option declarations, another error text keep it; a library call added, dropped, replaced
  or moved under / out of a condition or loop changes it).  One bridge module per property, so that a change of a
  command file stops the check of ITS property only.
-/
import Gts.Gen.CmdFacts
import Gts.Spec.CmdTable
namespace Gts.Bridge.Cmd

/-- `gts repair`: `gts.Repair` on the table of every record and nothing else -/
theorem cmd_repair : Gts.Gen.Cmd.file_repair = Gts.Spec.Cmd.file_repair ∧ Gts.Gen.Cmd.decls_repair = Gts.Spec.Cmd.decls_repair ∧
    Gts.Gen.Cmd.types_repair = Gts.Spec.Cmd.types_repair := ⟨rfl, rfl, rfl⟩

/-- the library pipeline of `gts repair` -/
theorem cmd_repair_pipeline : Gts.Gen.Cmd.pipeline_repair = Gts.Spec.Cmd.pipeline_repair := rfl

end Gts.Bridge.Cmd
