/-
  Bridge (C16): `slowGenBankOriginParser` REGENERATED from seqio/genbank_subparsers.go by go2lean
  (Gts/Gen/OriginSlow.lean: the line loop with its two bounds-checked inner loops, the token buffer
  filled with `copy` and a single-byte store) has, for EVERY input and every declared length, the
  outcome of the hand-written model `Gts.Origin.slowOrigin` (Gts/Model/Origin.lean) the C16
  theorems are about: the same token and remaining input, the same returned error, the same panic.
  `pars.Line` is the parameter `parsLine`, instantiated with the model's `splitLine`
  (`Gts.C16.splitLine_is_pars_line`: that is the framework's model of `pars.Line`).
  Also: what the constant `maxOriginResidues` of the ORIGIN reader's length guard means.
-/
import Gts.Gen.OriginSlow
import Gts.Lemmas.GoBytes
import Gts.Bridge.OriginValidate
import Gts.Bridge.Origin
import Gts.Lemmas.Origin
namespace Gts.Bridge
open Gts Gts.Origin
open Gts.Pars (Bytes Err)
open Gts.Gen (bufOf offOf)

/-- like `SimOff`, and the generated offset stays inside the line (every index is checked) -/
def SimOffB (q : Bytes) (m : Out Bytes) (g : Except Err (Int × Int)) : Prop :=
  match m with
  | .error e => g = .error e
  | .ok rest => ∃ off' c' : Nat, g = .ok ((off' : Int), (c' : Int)) ∧ rest = q.drop off' ∧ off' ≤ q.length

/-- innermost loop (`k`) of the slow path: a residue test behind a bounds check -/
theorem slowLoop3_sim (q : Bytes) (length : Int) (i j : Nat) :
    ∀ (f k off : Nat), off ≤ q.length →
      SimOffB q (walkChars .fail length (i + j) f k (q.drop off))
        (Gen.slowGenBankOriginParserLoop3 length (i : Int) q (j : Int) f (off : Int) (k : Int)) := by
  intro f
  induction f with
  | zero => intro k off h; exact ⟨off, k, rfl, rfl, h⟩
  | succ f ih =>
    intro k off hoff
    simp only [Gen.slowGenBankOriginParserLoop3, walkChars]
    by_cases hc : k < 10 ∧ ((i + j + k : Nat) : Int) < length
    · rw [if_pos hc, if_pos (show (k : Int) < 10 ∧ (i : Int) + (j : Int) + (k : Int) < length by omega)]
      by_cases hlt : off < q.length
      · rw [if_neg (show ¬ (off : Int) ≥ (q.length : Int) by omega), Gen.goIndex_nat]
        have hg : q[off]? = some q[off] := List.getElem?_eq_getElem hlt
        rw [hg, Gen.drop_of_getElem?_some hg]
        dsimp only
        by_cases hb : Gen.isBaseCharacter q[off] = true
        · rw [if_pos (show isBase q[off] = true from hb), if_neg (not_not_intro hb)]
          have e1 : (off : Int) + 1 = ((off + 1 : Nat) : Int) := by omega
          have e2 : (k : Int) + 1 = ((k + 1 : Nat) : Int) := by omega
          rw [e1, e2]
          exact ih (k + 1) (off + 1) hlt
        · rw [if_neg (show ¬ isBase q[off] = true from hb), if_pos hb]
          exact rfl
      · rw [if_pos (show (off : Int) ≥ (q.length : Int) by omega), List.drop_eq_nil_iff.mpr (by omega)]
        exact rfl
    · rw [if_neg hc, if_neg (show ¬ ((k : Int) < 10 ∧ (i : Int) + (j : Int) + (k : Int) < length) by omega)]
      exact ⟨off, k, rfl, rfl, hoff⟩

/-- middle loop (`j`) of the slow path: a blank behind a bounds check, then the residues -/
theorem slowLoop2_sim (q : Bytes) (length : Int) (i : Nat) (fuel0 : Nat) (h0 : 10 ≤ fuel0) :
    ∀ (f j off : Nat), off ≤ q.length →
      SimOffB q (walkGroups .fail length i f j (q.drop off))
        (Gen.slowGenBankOriginParserLoop2 fuel0 length (i : Int) q f (off : Int) (j : Int)) := by
  intro f
  induction f with
  | zero => intro j off h; exact ⟨off, j, rfl, rfl, h⟩
  | succ f ih =>
    intro j off hoff
    simp only [Gen.slowGenBankOriginParserLoop2, walkGroups]
    by_cases hc : j < 60 ∧ ((i + j : Nat) : Int) < length
    · rw [if_pos hc, if_pos (show (j : Int) < 60 ∧ (i : Int) + (j : Int) < length by omega)]
      by_cases hlt : off < q.length
      · rw [if_neg (show ¬ (off : Int) ≥ (q.length : Int) by omega), Gen.goIndex_nat]
        have hg : q[off]? = some q[off] := List.getElem?_eq_getElem hlt
        rw [hg, Gen.drop_of_getElem?_some hg]
        dsimp only
        by_cases hb : q[off] = 32
        · rw [if_neg (by simp [hb]), if_neg (by rw [hb]; exact fun h => h rfl)]
          have e1 : (off : Int) + 1 = ((off + 1 : Nat) : Int) := by omega
          rw [e1, walkChars_fuel .fail length (i + j) 10 fuel0 0 _ (by omega) (by omega)]
          have h3 := slowLoop3_sim q length i j fuel0 0 (off + 1) hlt
          revert h3
          cases walkChars .fail length (i + j) fuel0 0 (q.drop (off + 1)) with
          | error e =>
            intro h3
            rw [show (0 : Int) = ((0 : Nat) : Int) from rfl, show Gen.slowGenBankOriginParserLoop3 _ _ _ _ _ _ _ = _ from h3]
            exact rfl
          | ok r =>
            intro h3
            obtain ⟨off', k', hg', hr, hle⟩ := h3
            rw [show (0 : Int) = ((0 : Nat) : Int) from rfl, hg', hr]
            have e2 : (j : Int) + 10 = ((j + 10 : Nat) : Int) := by omega
            simp only [e2]
            exact ih (j + 10) off' hle
        · rw [if_pos (by simpa using hb), if_pos (show q[off] ≠ Gen.spaceByte from hb)]
          exact rfl
      · rw [if_pos (show (off : Int) ≥ (q.length : Int) by omega), List.drop_eq_nil_iff.mpr (by omega)]
        exact rfl
    · rw [if_neg hc, if_neg (show ¬ ((j : Int) < 60 ∧ (i : Int) + (j : Int) < length) by omega)]
      exact ⟨off, j, rfl, rfl, hoff⟩

theorem slowLines_fuel (length : Int) (cap : Nat) :
    ∀ (f f' i : Nat) (st acc : Bytes), length ≤ (i : Int) + 60 * (f : Int) → length ≤ (i : Int) + 60 * (f' : Int) →
      slowLines length cap f i st acc = slowLines length cap f' i st acc := by
  intro f
  induction f with
  | zero =>
    intro f' i st acc h h'
    cases f' with
    | zero => rfl
    | succ f' => simp only [slowLines]; rw [if_neg (by omega)]
  | succ f ih =>
    intro f' i st acc h h'
    cases f' with
    | zero => simp only [slowLines]; rw [if_neg (by omega)]
    | succ f' =>
      simp only [slowLines]
      split
      · cases walkLine .fail length i (splitLine st).1 with
        | error e => rfl
        | ok r =>
          dsimp only
          split
          · rfl
          · split
            · exact ih f' (i + 60) _ _ (by omega) (by omega)
            · rfl
      · rfl

/-- outcome of the generated line loop (state: remaining input, token of the last line, token
buffer, offset, counter) against the model's (what was written, remaining input) -/
def SimSlow (cap : Nat) (m : Out (Bytes × Bytes)) (g : Except Err (Bytes × Bytes × Bytes × Int × Int)) : Prop :=
  match m with
  | .error e => g = .error e
  | .ok (acc', st') => acc'.length ≤ cap ∧
      ∃ (tok' : Bytes) (i' : Nat), g = .ok (st', tok', bufOf cap acc', (offOf cap acc' : Int), (i' : Int))

/-- the line loop of the slow path -/
theorem slowLoop_sim (length : Int) (cap fuel0 : Nat) (h0 : 10 ≤ fuel0) :
    ∀ (f i : Nat) (st tok acc : Bytes), acc.length ≤ cap →
      SimSlow cap (slowLines length cap f i st acc)
        (Gen.slowGenBankOriginParserLoop fuel0 fmt9 splitLine length f st tok (bufOf cap acc) (offOf cap acc : Int) (i : Int)) := by
  intro f
  induction f with
  | zero => intro i st tok acc h; exact ⟨h, tok, i, rfl⟩
  | succ f ih =>
    intro i st tok acc hacc
    simp only [Gen.slowGenBankOriginParserLoop, slowLines, walkLine]
    by_cases hc : (i : Int) < length
    · rw [if_pos hc, if_pos hc, fmt9_succ]
      generalize (splitLine st).1 = q
      generalize (splitLine st).2 = st'
      by_cases hp : (index9 (i + 1)).isPrefixOf q = true
      · rw [if_pos hp, if_neg (not_not_intro (show Gen.bytesHasPrefix q (index9 (i + 1)) = true from hp))]
        have hple : (index9 (i + 1)).length ≤ q.length := (List.isPrefixOf_iff_prefix.mp hp).length_le
        have e1 : (0 : Int) + ((index9 (i + 1)).length : Int) = (((index9 (i + 1)).length : Nat) : Int) := by omega
        rw [e1, walkGroups_fuel .fail length i 6 fuel0 0 _ (by omega) (by omega)]
        have h2 := slowLoop2_sim q length i fuel0 h0 fuel0 0 (index9 (i + 1)).length hple
        revert h2
        cases walkGroups .fail length i fuel0 0 (q.drop (index9 (i + 1)).length) with
        | error e =>
          intro h2
          rw [show (0 : Int) = ((0 : Nat) : Int) from rfl, show Gen.slowGenBankOriginParserLoop2 _ _ _ _ _ _ _ = _ from h2]
          exact rfl
        | ok r =>
          intro h2
          obtain ⟨off', j', hg', hr, hle⟩ := h2
          rw [show (0 : Int) = ((0 : Nat) : Int) from rfl, hg', hr]
          dsimp only
          rw [Gen.goSliceFrom_nat q off' hle]
          dsimp only
          by_cases hbl : allBlank (q.drop off') = true
          · have hz : (Gen.bytesTrimRight (q.drop off') [32]).length = 0 := (Gen.bytesTrimRight_blank _).mpr hbl
            rw [if_neg (show ¬ (!allBlank (q.drop off')) = true by simp [hbl]),
              if_neg (show ¬ (((Gen.bytesTrimRight (q.drop off') [32]).length : Int) ≠ ((0 : Nat) : Int)) by omega),
              Gen.goSliceTo_nat q off' hle]
            dsimp only
            rw [Gen.goCopyAt_bufOf]
            dsimp only
            rw [Gen.offOf_add_sub]
            have hext : q.length - (q.drop off').length = off' := by
              simp only [List.length_drop]; omega
            rw [hext, ← Gen.bufOf_take cap (acc ++ q.take off'), ← Gen.offOf_take cap (acc ++ q.take off')]
            by_cases hroom : ((acc ++ q.take off').take cap).length < cap
            · rw [if_pos hroom, Gen.goStore_bufOf cap _ _ hroom, Gen.offOf_snoc cap _ _ hroom]
              dsimp only
              have e3 : (i : Int) + 60 = ((i + 60 : Nat) : Int) := by omega
              rw [e3]
              exact ih (i + 60) st' q _ (by simp only [List.length_append, List.length_cons, List.length_nil]; omega)
            · rw [if_neg hroom, Gen.goStore_bufOf_full cap _ _ (by omega)]
              exact rfl
          · have hz : (Gen.bytesTrimRight (q.drop off') [32]).length ≠ 0 := fun h => hbl ((Gen.bytesTrimRight_blank _).mp h)
            rw [if_pos (show (!allBlank (q.drop off')) = true by simp [hbl]),
              if_pos (show ((Gen.bytesTrimRight (q.drop off') [32]).length : Int) ≠ ((0 : Nat) : Int) by omega)]
            exact rfl
      · rw [if_neg hp, if_pos (show ¬ Gen.bytesHasPrefix q (index9 (i + 1)) = true from hp)]
        exact rfl
    · rw [if_neg hc, if_neg hc]
      exact ⟨hacc, tok, i, rfl⟩

/-- **`slowGenBankOriginParser(length)`, as written in genbank_subparsers.go**, run on a state with
remaining input `st` — `fmt.Sprintf("%9d", ·)` read as the model's `index9`, `pars.Line` as the
model's `splitLine` — with any fuel that covers the trip counts, has the outcome of the model's
`Origin.slowOrigin st length`: the same token and remaining input, the same returned error, the same
panic (negative `make` size, full token buffer) — for EVERY input and EVERY declared length.
Dropping a bounds check, the trailing-blanks test rewritten as a one-byte test (seeded C16-h) or a
changed loop bound breaks one of the `…_sim` lemmas or is refused. -/
theorem slowGenBankOriginParser_eq (fuel : Nat) (st tok : Bytes) (length : Int) (h10 : 10 ≤ fuel)
    (hl : length ≤ 60 * (fuel : Int)) :
    Gen.slowGenBankOriginParser fuel fmt9 splitLine length st tok = Origin.slowOrigin st length := by
  simp only [Gen.slowGenBankOriginParser, Origin.slowOrigin, toOriginLength_eq]
  by_cases hneg : Origin.toOriginLength length < 0
  · rw [if_pos hneg, Gen.goMake_neg _ hneg]
  · rw [if_neg hneg]
    obtain ⟨n, hn⟩ : ∃ n : Nat, Origin.toOriginLength length = (n : Int) :=
      ⟨(Origin.toOriginLength length).toNat, by omega⟩
    rw [hn, Gen.goMake_nat]
    dsimp only
    have h := slowLoop_sim length n fuel h10 fuel 0 st tok [] (Nat.zero_le _)
    rw [Gen.bufOf_nil, Gen.offOf_nil] at h
    simp only [Int.toNat_natCast]
    rw [slowLines_fuel length n length.toNat fuel 0 st [] (by omega) (by omega)]
    revert h
    cases slowLines length n fuel 0 st [] with
    | error e =>
      intro h
      rw [show (0 : Int) = ((0 : Nat) : Int) from rfl, show Gen.slowGenBankOriginParserLoop _ _ _ _ _ _ _ _ _ _ = _ from h]
    | ok r =>
      obtain ⟨acc', st'⟩ := r
      intro h
      obtain ⟨hle, tok', i', hg⟩ := h
      rw [show (0 : Int) = ((0 : Nat) : Int) from rfl, hg]
      dsimp only
      rw [Gen.bufOf_of_length_le n acc' hle]

/-- both reader paths on a block with trailing blanks (the slow path accepts it, the model agrees) -/
example :
    Gen.slowGenBankOriginParser 10 fmt9 splitLine 1 [32,32,32,32,32,32,32,32,49,32,97,32,32,10, 47,47,10] [] =
      .ok ([32,32,32,32,32,32,32,32,49,32,97,10], [47,47,10])
    ∧ Gen.slowGenBankOriginParser 10 fmt9 splitLine 1 [32,32,32,32,32,32,32,32,49,32,97,98,10] [] = .error .fail := by
  decide

/-! ### the length guard of the ORIGIN reader -/

/-- `maxOriginResidues` is what its comment says: a positive declared length passes the guard
`length > maxOriginResidues` exactly when the index `%9d` prints in front of its LAST line (and so
in front of every line) has at most nine digits — the condition under which `toOriginLength`
sizes the block correctly (`Gts.Origin.index9_length`). -/
theorem maxOriginResidues_index (length : Int) (h : 0 < length) :
    ¬ (length > Gen.maxOriginResidues) ↔ 60 * ((length - 1) / 60) + 1 < 10 ^ 9 := by
  simp only [Gen.maxOriginResidues]
  omega

/-- under the guard every line index the loops print is nine columns wide -/
theorem index9_under_guard (length : Int) (hg : ¬ (length > Gen.maxOriginResidues)) (i : Nat)
    (hi : (i : Int) < length) (h60 : i % 60 = 0) : (Origin.index9 (i + 1)).length = 9 := by
  apply Gts.Origin.index9_length
  simp only [Gen.maxOriginResidues] at hg
  omega

example : ¬ ((1000000020 : Int) > Gen.maxOriginResidues) ∧ (1000000021 : Int) > Gen.maxOriginResidues := by decide

end Gts.Bridge
