/-
  Bridge: `gts.Concat`, regenerated from sequence.go by go2lean (Gts/Gen/SeqConcat.lean: `switch len(ss)` as the
  chain of comparisons, `ss[0]` / `ss[1:]` as checked operations, the two nested `range` loops as recursions
  over the lists with the running state `(ff, p)` — `f.Loc.Expand(0, len(p))` reads the bytes accumulated SO
  FAR, `ff = ff.Insert(f)`, then `p = append(p, seq.Bytes()...)`), is the hand-written model's `Seq.concat`
  (Gts/Model/Seq.lean) — for EVERY list of sequences: the function cannot panic (`ss[0]`, `ss[1:]` are read
  behind `len(ss) ≥ 2`), which is part of what `seqConcat_eq` proves.

  Metadata: none gives `New(nil, nil, nil)`; otherwise the metadata of the FIRST sequence, unchanged.
-/
import Gts.Gen.SeqConcat
import Gts.Bridge.SeqBase
import Gts.Bridge.LocRec
namespace Gts.Bridge
open Gts

/-- the components the model sees of a generated sequence value -/
def toSeq {ι : Type} (v : Gen.SeqV ι) : Seq := ⟨v.2.1, v.2.2⟩

/-- the inner loop of `Concat` inserts the features of one piece, shifted by the bytes so far -/
theorem seqConcatLoop2_eq (p : List UInt8) (fs ff : List Feature) :
    Gen.seqConcatLoop2 p fs ff =
      .ok (Table.insertAll ff (fs.map fun f => { f with loc := f.loc.expand 0 p.length })) := by
  rw [foldLoop_shape (Gen.seqConcatLoop2 p)
    (fun f ff => Table.insert ff { f with loc := Gen.expand f.loc 0 p.length })
    (fun _ => rfl) (fun _ _ _ => rfl), insertAll_map]
  simp only [expand_eq]

/-- the outer loop of `Concat` folds `concat2` over the remaining pieces -/
theorem seqConcatLoop_eq {ι : Type} : ∀ (vs : List (Gen.SeqV ι)) (ff : List Feature) (p : List UInt8),
    Gen.seqConcatLoop vs ff p =
      .ok (((vs.map toSeq).foldl Seq.concat2 ⟨ff, p⟩).feats, ((vs.map toSeq).foldl Seq.concat2 ⟨ff, p⟩).bytes)
  | [], ff, p => rfl
  | v :: vs, ff, p => by
    simp only [Gen.seqConcatLoop, seqConcatLoop2_eq, seqConcatLoop_eq vs, List.map_cons, List.foldl_cons,
      Seq.concat2, toSeq, Seq.len]

/-- `gts.Concat` as sequence.go defines it now is the model's `Seq.concat`, for every list of sequences -/
theorem seqConcat_eq {ι : Type} (ops : Gen.InfoOps ι) (ss : List (Gen.SeqV ι)) :
    Gen.seqConcat ops ss =
      .ok (match ss with | [] => ops.nilInfo | v :: _ => v.1,
        (Seq.concat (ss.map toSeq)).feats, (Seq.concat (ss.map toSeq)).bytes) := by
  match ss with
  | [] => rfl
  | [v] => rfl
  | v :: w :: vs =>
    have h0 : ¬ (((v :: w :: vs).length : Int) = 0) := by simp only [List.length_cons]; omega
    have h1 : ¬ (((v :: w :: vs).length : Int) = 1) := by simp only [List.length_cons]; omega
    have hat : Gen.goAt (v :: w :: vs) 0 = some v := rfl
    have hfr : Gen.goFrom (v :: w :: vs) 1 = some (w :: vs) := by
      simp only [Gen.goFrom, List.length_cons]
      rw [if_pos (by omega)]
      rfl
    simp only [Gen.seqConcat, if_neg h0, if_neg h1, hat, hfr, seqConcatLoop_eq, Seq.concat, List.map_cons, toSeq]

-- non-vacuity: three pieces; the feature of the third is shifted by the residues of the first two
example : Gen.seqConcat (ι := Nat) ⟨fun i _ _ => i, fun i _ _ => i, fun i _ _ => i, fun i _ => i, 0⟩
      [(7, [⟨"a", .point 0, []⟩], [65, 67]), (8, [], [71]), (9, [⟨"b", .point 1, []⟩], [84, 84])] =
    .ok (7, [⟨"a", .point 0, []⟩, ⟨"b", .point 4, []⟩], [65, 67, 71, 84, 84]) := by
  rfl

end Gts.Bridge
