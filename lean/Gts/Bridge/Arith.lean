/-
  Bridge: the definitions REGENERATED from the Go source by go2lean (Gts/Gen/Arith.lean) are
  equal to the hand-written model the property theorems are about.  Re-checked on every run:
  a changed boundary condition in the Go code changes `Gts.Gen.*` and breaks these proofs,
  a harmless rewrite (renamed locals, re-ordered independent statements) does not.
-/
import Gts.Gen.Arith
import Gts.Model.Loc
namespace Gts.Bridge
open Gts

theorem gmax_eq : Gen.gmax = Loc.gmax := by
  funext i j; simp [Gen.gmax, Loc.gmax]

theorem gmin_eq : Gen.gmin = Loc.gmin := by
  funext i j; simp [Gen.gmin, Loc.gmin]

theorem rangeCompare_eq : Gen.rangeCompare = Loc.rangeCompare := by
  funext s1 e1 s2 e2
  simp only [Gen.rangeCompare, Loc.rangeCompare]
  by_cases h1 : e1 < s1 <;> by_cases h2 : e2 < s2 <;> simp [h1, h2]

theorem rangeWithin_eq : Gen.rangeWithin = Loc.rangeWithin := by
  funext s e l u
  simp only [Gen.rangeWithin, Loc.rangeWithin]
  by_cases h1 : e < s <;> by_cases h2 : u < l <;> simp [h1, h2]

theorem rangeOverlap_eq : Gen.rangeOverlap = Loc.rangeOverlap := by
  funext s e l u
  simp only [Gen.rangeOverlap, Loc.rangeOverlap]
  by_cases h1 : e < s <;> by_cases h2 : u < l <;> simp [h1, h2]

theorem betweenExpand_eq : Gen.betweenExpand = Loc.betweenExpand := by
  funext p i n
  simp only [Gen.betweenExpand, Loc.betweenExpand, gmax_eq]

theorem pointExpand_eq : Gen.pointExpand = Loc.pointExpand := by
  funext p i n
  simp only [Gen.pointExpand, Loc.pointExpand, gmax_eq]
  by_cases h : n < 0 ∧ i ≤ p ∧ p < i - n
  · have h' : (n < 0 ∧ i ≤ p) ∧ p < i - n := ⟨⟨h.1, h.2.1⟩, h.2.2⟩
    rw [if_pos h', if_pos h]
  · have h' : ¬ ((n < 0 ∧ i ≤ p) ∧ p < i - n) := fun hh => h ⟨hh.1.1, hh.1.2, hh.2⟩
    rw [if_neg h', if_neg h]

theorem rangedExpand_eq : Gen.rangedExpand = Loc.rangedExpand := by
  funext s e p5 p3 i n
  simp only [Gen.rangedExpand, Loc.rangedExpand, gmax_eq]
  all_goals try (
    by_cases h0 : n = 0
    · simp [h0]
    · simp only [h0, if_false]
      by_cases hn : n < 0
      · simp only [hn, true_and, if_true]
        by_cases a : i ≤ s ∧ s < i - n <;> by_cases b : i < e ∧ e ≤ i - n <;> simp [a, b] <;>
          try (split <;> simp_all)
      · simp only [hn, false_and, if_false]
        try (split <;> simp_all))

theorem ambiguousExpand_eq : Gen.ambiguousExpand = Loc.ambiguousExpand := by
  funext s e i n
  simp only [Gen.ambiguousExpand, Loc.ambiguousExpand, gmax_eq]
  all_goals try (
    by_cases h0 : n = 0
    · simp [h0]
    · simp only [h0, if_false]
      try (split <;> simp_all))

theorem rangedShift_eq : Gen.rangedShift = Loc.rangedShift := by
  funext s e p5 p3 i n
  simp only [Gen.rangedShift, Loc.rangedShift, rangedExpand_eq]
  all_goals try (
    by_cases h0 : n = 0
    · simp [h0]
    · simp only [h0, if_false]
      by_cases hn : n < 0
      · simp [hn]
      · simp only [hn, if_false]
        by_cases hs : s < i ∧ i < e
        · simp only [hs, and_self, if_true]
          cases p5 <;> cases p3 <;> simp
        · simp only [hs, if_false]
          try (by_cases a : i ≤ s <;> by_cases b : i < e <;> simp [a, b]))

theorem ambiguousShift_eq : Gen.ambiguousShift = Loc.ambiguousShift := by
  funext s e i n
  simp only [Gen.ambiguousShift, Loc.ambiguousShift, ambiguousExpand_eq]
  all_goals try (
    by_cases h0 : n = 0
    · simp [h0]
    · simp only [h0, if_false]
      by_cases hn : n < 0
      · simp [hn]
      · simp only [hn, if_false]
        by_cases hs : s < i ∧ i < e
        · simp [hs]
        · simp only [hs, if_false]
          try (by_cases a : i ≤ s <;> by_cases b : i < e <;> simp [a, b]))

theorem betweenReverse_eq (p L : Int) : Gen.betweenReverse p L = Loc.reverse (.between p) L := by
  simp [Gen.betweenReverse, Loc.reverse]

theorem pointReverse_eq (p L : Int) : Gen.pointReverse p L = Loc.reverse (.point p) L := by
  simp [Gen.pointReverse, Loc.reverse]

theorem ambiguousReverse_eq (s e L : Int) : Gen.ambiguousReverse s e L = Loc.reverse (.ambiguous s e) L := by
  simp [Gen.ambiguousReverse, Loc.reverse]

end Gts.Bridge
