/-
  Bridge (C08): the five `Modifier.Apply` methods REGENERATED from modifier.go by go2lean
  (self-recursive in Go: the generated definitions carry an explicit fuel argument) equal the
  hand-written `Mod.apply` the C08 theorems are about — for every input, with fuel 2, and any
  larger fuel gives the same result.
-/
import Gts.Gen.ArithModifier
import Gts.Model.Region
namespace Gts.Bridge
open Gts

theorem headApply_eq (p h t : Int) : Gen.headApply 2 p h t = Mod.apply (.head p) h t := by
  unfold Gen.headApply Mod.apply
  by_cases c : t < h
  · have c' : ¬ (-t < -h) := by omega
    simp [c, c', Gen.headApply, Mod.applyFwd]
  · simp [c, Mod.applyFwd]

theorem tailApply_eq (q h t : Int) : Gen.tailApply 2 q h t = Mod.apply (.tail q) h t := by
  unfold Gen.tailApply Mod.apply
  by_cases c : t < h
  · have c' : ¬ (-t < -h) := by omega
    simp [c, c', Gen.tailApply, Mod.applyFwd]
  · simp [c, Mod.applyFwd]

theorem headTailApply_eq (p q h t : Int) :
    Gen.headTailApply 2 p q h t = Mod.apply (.headTail p q) h t := by
  unfold Gen.headTailApply Mod.apply
  by_cases c : t < h
  · have c' : ¬ (-t < -h) := by omega
    simp [c, c', Gen.headTailApply, Mod.applyFwd, Gen.gmax, Loc.gmax]
  · simp [c, Mod.applyFwd, Gen.gmax, Loc.gmax]

theorem headHeadApply_eq (p q h t : Int) :
    Gen.headHeadApply 2 p q h t = Mod.apply (.headHead p q) h t := by
  unfold Gen.headHeadApply Mod.apply
  by_cases c : t < h
  · have c' : ¬ (-t < -h) := by omega
    simp [c, c', Gen.headHeadApply, Mod.applyFwd, Gen.gmax, Loc.gmax]
  · simp [c, Mod.applyFwd, Gen.gmax, Loc.gmax]

theorem tailTailApply_eq (p q h t : Int) :
    Gen.tailTailApply 2 p q h t = Mod.apply (.tailTail p q) h t := by
  unfold Gen.tailTailApply Mod.apply
  by_cases c : t < h
  · have c' : ¬ (-t < -h) := by omega
    simp [c, c', Gen.tailTailApply, Mod.applyFwd, Gen.gmax, Loc.gmax]
  · simp [c, Mod.applyFwd, Gen.gmax, Loc.gmax]

/-- the recursion is at most one level deep: any fuel ≥ 2 gives the result of fuel 2 -/
theorem apply_fuel (n : Nat) (p q h t : Int) :
    Gen.headApply (n + 2) p h t = Gen.headApply 2 p h t ∧
    Gen.tailApply (n + 2) p h t = Gen.tailApply 2 p h t ∧
    Gen.headTailApply (n + 2) p q h t = Gen.headTailApply 2 p q h t ∧
    Gen.headHeadApply (n + 2) p q h t = Gen.headHeadApply 2 p q h t ∧
    Gen.tailTailApply (n + 2) p q h t = Gen.tailTailApply 2 p q h t := by
  refine ⟨?_, ?_, ?_, ?_, ?_⟩ <;>
  · by_cases c : t < h
    · have c' : ¬ (-t < -h) := by omega
      simp [Gen.headApply, Gen.tailApply, Gen.headTailApply, Gen.headHeadApply, Gen.tailTailApply, c, c']
    · simp [Gen.headApply, Gen.tailApply, Gen.headTailApply, Gen.headHeadApply, Gen.tailTailApply, c]

end Gts.Bridge
