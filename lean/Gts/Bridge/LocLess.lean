/-
  Bridge: `LocationLess`, regenerated from location.go by go2lean (Gts/Gen/LocLess.lean: statement by
  statement in the order of the Go source — complement of `a`, complement of `b`, ANY over the parts
  of `a`, ALL over the parts of `b`, two contiguous leaves compared by `rangeCompare` and the number of
  partial ends; the recursive calls through the parameter `self_`, the knot tied with explicit fuel),
  is the hand-written model's `Loc.less` — for EVERY pair of locations and every fuel above the sum of
  their sizes.

  The model takes `a` apart completely before it looks at `b`; the Go code interleaves.  That the two
  orders agree is `Loc.less_compl_right` (Gts/Lemmas/LessGoOrder.lean).  The order theorems of C19
  (`less_irrefl`, `less_trans`, `less_incomp_trans`, `insert_sorted`, …) and the class order of
  `Repair` (C12) are about `Loc.less`; this file re-checks them against what location.go says now.

  The two loops are proved through lemmas about their SHAPE (any function satisfying the two
  equations); the generated helpers are then shown to have the shape by unfolding, so renamed locals
  keep the proofs.
-/
import Gts.Gen.LocLess
import Gts.Bridge.Arith
import Gts.Lemmas.LessGoOrder
namespace Gts.Bridge
open Gts

/-! ### the two loop shapes -/

/-- `for _, l := range ls { if p(l) { return true } }` falls through iff no part satisfies `p` -/
theorem anyLoop_shape (loop : List Loc → Option Bool) (p : Loc → Bool)
    (hnil : loop [] = none)
    (hcons : ∀ l rest, loop (l :: rest) = if p l = true then some true else loop rest) :
    ∀ ls, loop ls = if ls.any p = true then some true else none
  | [] => by simp [hnil]
  | l :: ls => by
    rw [hcons, anyLoop_shape loop p hnil hcons ls]
    cases h : p l <;> simp [h]

/-- `for _, l := range ls { if !p(l) { return false } }` falls through iff every part satisfies `p` -/
theorem allLoop_shape (loop : List Loc → Option Bool) (p : Loc → Bool)
    (hnil : loop [] = none)
    (hcons : ∀ l rest, loop (l :: rest) = if ¬ (p l = true) then some false else loop rest) :
    ∀ ls, loop ls = if ls.all p = true then none else some false
  | [] => by simp [hnil]
  | l :: ls => by
    rw [hcons, allLoop_shape loop p hnil hcons ls]
    cases h : p l <;> simp [h]

/-- the first loop of `LocationLess` (over the parts of `a`) has the ANY shape -/
theorem locationLessLoop_eq (self_ : Loc → Loc → Bool) (b : Loc) (ls : List Loc) :
    Gen.locationLessLoop self_ b ls = if ls.any (fun l => self_ l b) = true then some true else none :=
  anyLoop_shape (Gen.locationLessLoop self_ b) (fun l => self_ l b) (by simp only [Gen.locationLessLoop])
    (fun _ _ => by simp only [Gen.locationLessLoop]) ls

/-- the second loop of `LocationLess` (over the parts of `b`) has the ALL shape -/
theorem locationLessLoop2_eq (self_ : Loc → Loc → Bool) (a : Loc) (ls : List Loc) :
    Gen.locationLessLoop2 self_ a ls = if ls.all (fun l => self_ a l) = true then none else some false :=
  allLoop_shape (Gen.locationLessLoop2 self_ a) (fun l => self_ a l) (by simp only [Gen.locationLessLoop2])
    (fun _ _ => by simp only [Gen.locationLessLoop2]) ls

/-! ### the type tests -/

theorem asLocationSlice_leaf {a : Loc} (h : Loc.isContig a = true) : Gen.asLocationSlice a = none := by
  cases a <;> simp [Loc.isContig] at h <;> rfl

theorem asContiguous_leaf {a : Loc} (h : Loc.isContig a = true) :
    Gen.asContiguous a = ((Loc.span? a).getD (0, 0), true) := by
  cases a <;> simp [Loc.isContig] at h <;>
    simp [Gen.asContiguous, Loc.span?, Gen.betweenSpan, Gen.pointSpan, Gen.rangedSpan, Gen.ambiguousSpan]

/-! ### the body: one step of the recursion -/

set_option linter.unusedSimpArgs false in
/-- two contiguous leaves: the `switch` at the end of `LocationLess` is `contigLess` (`lok && rok` —
or `lok || rok`: both hold here) -/
theorem locationLessBody_leaf (self_ : Loc → Loc → Bool) {a b : Loc}
    (ha : Loc.isContig a = true) (hb : Loc.isContig b = true) :
    Gen.locationLessBody self_ a b = Loc.contigLess a b := by
  cases a <;> simp [Loc.isContig] at ha <;> cases b <;> simp [Loc.isContig] at hb <;>
    (try cases ‹Bool›) <;> (try cases ‹Bool›) <;> (try cases ‹Bool›) <;> (try cases ‹Bool›) <;>
    simp only [Gen.locationLessBody, Gen.asLocationSlice, Gen.asContiguous, Gen.asRanged, Gen.betweenSpan,
      Gen.pointSpan, Gen.rangedSpan, Gen.ambiguousSpan, rangeCompare_eq, Loc.contigLess, Loc.span?,
      Loc.partialCount, and_self, or_self, if_true] <;>
    (split <;> first | (simp; done) | (simp only [decide_eq_decide]; omega))

/-- a complement around `b` is stripped (when `a` is not a complement) -/
theorem locationLessBody_compl_right (self_ : Loc → Loc → Bool) {a : Loc} (ha : ∀ x, a ≠ .compl x)
    (c : Loc) : Gen.locationLessBody self_ a (.compl c) = self_ a c := by
  cases a <;> first | exact absurd rfl (ha _) | simp only [Gen.locationLessBody]

/-- then the parts of `a`: SOME part is less than `b` -/
theorem locationLessBody_slice_left (self_ : Loc → Loc → Bool) {a : Loc} {ls : List Loc}
    (ha : a = .joined ls ∨ a = .ordered ls) {b : Loc} (hb : ∀ x, b ≠ .compl x) :
    Gen.locationLessBody self_ a b = ls.any (fun l => self_ l b) := by
  rcases ha with rfl | rfl <;> cases b <;>
    first
    | exact absurd rfl (hb _)
    | (simp only [Gen.locationLessBody, Gen.asLocationSlice, locationLessLoop_eq]
       cases List.any ls _ <;> simp)

/-- then the parts of `b`: `a` (a contiguous leaf by now) is less than EVERY part -/
theorem locationLessBody_slice_right (self_ : Loc → Loc → Bool) {a : Loc} (ha : Loc.isContig a = true)
    {b : Loc} {ls : List Loc} (hb : b = .joined ls ∨ b = .ordered ls) :
    Gen.locationLessBody self_ a b = ls.all (fun l => self_ a l) := by
  rcases hb with rfl | rfl <;> cases a <;> simp [Loc.isContig] at ha <;>
    (simp only [Gen.locationLessBody, Gen.asLocationSlice, locationLessLoop2_eq]
     cases List.all ls _ <;> simp)

theorem any_congr_mem {p q : Loc → Bool} : ∀ {ls : List Loc}, (∀ l ∈ ls, p l = q l) → ls.any p = ls.any q
  | [], _ => rfl
  | x :: xs, h => by
    simp only [List.any_cons, h x (List.mem_cons_self ..),
      any_congr_mem (fun l hl => h l (List.mem_cons_of_mem _ hl))]

theorem all_congr_mem {p q : Loc → Bool} : ∀ {ls : List Loc}, (∀ l ∈ ls, p l = q l) → ls.all p = ls.all q
  | [], _ => rfl
  | x :: xs, h => by
    simp only [List.all_cons, h x (List.mem_cons_self ..),
      all_congr_mem (fun l hl => h l (List.mem_cons_of_mem _ hl))]

/-- ONE STEP: if `self_` is `Loc.less` on every pair of smaller total size, the body of
`LocationLess` computes `Loc.less a b` -/
theorem locationLessBody_eq (self_ : Loc → Loc → Bool) (a b : Loc)
    (h : ∀ a' b', Loc.size a' + Loc.size b' < Loc.size a + Loc.size b → self_ a' b' = Loc.less a' b') :
    Gen.locationLessBody self_ a b = Loc.less a b := by
  -- (1) complement of `a`, (2) complement of `b` (whichever the source strips first when both are
  -- complements: `Loc.less` does not see either)
  by_cases hca : ∃ c, a = .compl c
  · obtain ⟨c, rfl⟩ := hca
    cases b <;> simp only [Gen.locationLessBody] <;>
      rw [h _ _ (by simp only [Loc.size]; omega)] <;>
      simp only [Loc.less_compl_left, Loc.less_compl_right]
  have hca' : ∀ x, a ≠ .compl x := fun x hx => hca ⟨x, hx⟩
  by_cases hcb : ∃ c, b = .compl c
  · obtain ⟨c, rfl⟩ := hcb
    rw [locationLessBody_compl_right self_ hca', h a c (by simp only [Loc.size]; omega),
      Loc.less_compl_right]
  have hcb' : ∀ x, b ≠ .compl x := fun x hx => hcb ⟨x, hx⟩
  -- (3) parts of `a`
  by_cases hsa : ∃ ls, a = .joined ls ∨ a = .ordered ls
  · obtain ⟨ls, hls⟩ := hsa
    rw [locationLessBody_slice_left self_ hls hcb']
    have hsz : Loc.size a = 1 + Loc.sizeList ls := by rcases hls with rfl | rfl <;> simp only [Loc.size]
    have hcongr : ls.any (fun l => self_ l b) = ls.any (fun l => Loc.less l b) :=
      any_congr_mem (fun l hl => h l b (by have := Loc.size_le_sizeList hl; omega))
    rw [hcongr]
    rcases hls with rfl | rfl
    · rw [Loc.less_joined_left]
    · rw [Loc.less_ordered_left]
  have hla : Loc.isContig a = true := by
    cases a <;>
      first
      | rfl
      | exact absurd rfl (hca' _)
      | exact absurd ⟨_, Or.inl rfl⟩ hsa
      | exact absurd ⟨_, Or.inr rfl⟩ hsa
  -- (4) parts of `b`
  by_cases hsb : ∃ ls, b = .joined ls ∨ b = .ordered ls
  · obtain ⟨ls, hls⟩ := hsb
    rw [locationLessBody_slice_right self_ hla hls]
    have hsz : Loc.size b = 1 + Loc.sizeList ls := by rcases hls with rfl | rfl <;> simp only [Loc.size]
    have hcongr : ls.all (fun l => self_ a l) = ls.all (fun l => Loc.less a l) :=
      all_congr_mem (fun l hl => h a l (by have := Loc.size_le_sizeList hl; omega))
    rw [hcongr]
    rcases hls with rfl | rfl
    · rw [Loc.less_leaf_joined hla]
    · rw [Loc.less_leaf_ordered hla]
  have hlb : Loc.isContig b = true := by
    cases b <;>
      first
      | rfl
      | exact absurd rfl (hcb' _)
      | exact absurd ⟨_, Or.inl rfl⟩ hsb
      | exact absurd ⟨_, Or.inr rfl⟩ hsb
  -- (5) two contiguous leaves
  rw [locationLessBody_leaf self_ hla hlb, Loc.less_leaf_leaf hla hlb]

/-- `LocationLess` as location.go defines it now is the model's `Loc.less`: for every pair of
locations and every fuel of at least the sum of their sizes (the Go recursion terminates — each call
is on a pair of smaller total size — and returns `Loc.less a b`) -/
theorem locationLess_eq : ∀ (fuel : Nat) (a b : Loc), Loc.size a + Loc.size b ≤ fuel →
    Gen.locationLess fuel a b = Loc.less a b
  | 0, a, _, h => by have := Loc.size_pos a; omega
  | fuel + 1, a, b, h => by
    simp only [Gen.locationLess]
    exact locationLessBody_eq _ a b (fun a' b' hlt => locationLess_eq fuel a' b' (by omega))

/-- with exactly the summed size as fuel -/
theorem locationLess_size (a b : Loc) :
    Gen.locationLess (Loc.size a + Loc.size b) a b = Loc.less a b :=
  locationLess_eq _ a b (Nat.le_refl _)

-- non-vacuity: a pair on which the two recursion orders take different paths (the complement of `b`
-- is stripped before the parts of `a` are looked at), evaluated on the generated function
example : Gen.locationLess 9 (.joined [.ranged 5 9 false false, .point 1]) (.compl (.ordered [.point 3, .between 4]))
    = true := by decide
example : Loc.size (.joined [.ranged 5 9 false false, .point 1]) +
    Loc.size (.compl (.ordered [.point 3, .between 4])) = 7 := by decide

end Gts.Bridge
