/-
  Bridge: `gts.Delete` and `gts.Erase`, regenerated from sequence.go by go2lean (Gts/Gen/SeqDelete.lean:
  statement by statement; the loop `for i, f := range ff { ff[i].Loc = f.Loc.Expand(offset, -length) }`
  LITERALLY over a counter with live reads; `make`, the two slice expressions and the two `copy` calls as
  checked operations), are the hand-written model's `Seq.delete` and `Seq.erase` (Gts/Model/Seq.lean).

  Where Go panics: `make([]byte, len(q)-length)` for `length > len(q)`, `p[:offset]`, `q[:offset]`,
  `p[offset:]`, `q[offset+length:]` for bounds out of range.  With a slice END beyond `len` read as a panic
  (Gts/Gen/GoBytes.lean) the no-panic condition is exactly `0 ≤ offset ≤ len(seq)` and
  `0 ≤ offset + length ≤ len(seq)` (`length` may be negative: the code then duplicates a stretch, and so does
  the model).  The model is total outside (`List.take` / `List.drop` clamp), so equality with the model is
  stated under that condition and the panic is stated for every other input (`…_panic`).

  Metadata: `Delete` hands `tryExpand(info, offset, -length)` to `WithInfo`; `Erase` leaves the rest to `Delete`.
-/
import Gts.Gen.SeqDelete
import Gts.Bridge.SeqBase
import Gts.Bridge.SeqFilter
import Gts.Bridge.LocRec
namespace Gts.Bridge
open Gts

/-- the no-panic condition of `gts.Delete` / `gts.Erase` -/
def deleteOk (len offset length : Int) : Prop :=
  0 ≤ offset ∧ offset ≤ len ∧ 0 ≤ offset + length ∧ offset + length ≤ len

instance (len offset length : Int) : Decidable (deleteOk len offset length) := by
  unfold deleteOk; infer_instance

/-- the loop of `Delete` rewrites every location in place -/
theorem seqDeleteLoop_eq (offset length : Int) (ff : List Feature) :
    Gen.seqDeleteLoop offset length ff.length 0 ff =
      .ok (ff.map fun f => { f with loc := f.loc.expand offset (-length) }) := by
  rw [mapLocLoop_all (Gen.seqDeleteLoop offset length) (fun f => Gen.expand f.loc offset (-length))
    (fun _ _ => rfl) (fun _ _ _ => rfl)]
  simp only [expand_eq]

/-- `copy(p[:o], a)` into a fresh buffer, `len(a) = o ≤ len(p)` -/
theorem goCopyTo_fresh (a : List UInt8) (n : Nat) (h : a.length ≤ n) :
    Gen.goCopyTo (List.replicate n 0) (a.length : Int) a = some (a ++ List.replicate (n - a.length) 0) := by
  simp only [Gen.goCopyTo, List.length_replicate, Int.toNat_natCast]
  rw [if_pos (by omega)]
  simp only [Nat.min_self, List.drop_replicate, List.take_length]

/-- `copy(p[o:], src)` that fills the buffer behind the prefix `a` exactly -/
theorem goCopyAt_suffix (a r src : List UInt8) (h : r.length = src.length) :
    Gen.goCopyAt (a ++ r) (a.length : Int) src = some (a ++ src, (src.length : Int)) := by
  simp only [Gen.goCopyAt, List.length_append, Int.toNat_natCast]
  rw [if_pos (by omega)]
  have e1 : a.length + r.length - a.length = src.length := by omega
  rw [e1, List.take_length, List.take_left' rfl, ← h, ← List.length_append, List.drop_length, Nat.min_self]
  simp

/-- `gts.Delete` as sequence.go defines it now is the model's `Seq.delete` wherever Go does not panic, and hands
`tryExpand(info, offset, -length)` to `WithInfo` -/
theorem seqDelete_eq {ι : Type} (ops : Gen.InfoOps ι) (i : ι) (s : Seq) (offset length : Int)
    (h : deleteOk s.len offset length) :
    Gen.seqDelete ops i s.feats s.bytes offset length =
      .ok (ops.tryExpand i offset (-length), (s.delete offset length).feats, (s.delete offset length).bytes) := by
  obtain ⟨h0, h1, h2, h3⟩ := h
  simp only [Seq.len] at h1 h3
  obtain ⟨o, rfl⟩ := Int.eq_ofNat_of_zero_le h0
  obtain ⟨e, he⟩ := Int.eq_ofNat_of_zero_le h2
  have hl : length = (e : Int) - (o : Int) := by omega
  subst hl
  have ho : o ≤ s.bytes.length := by omega
  have he' : e ≤ s.bytes.length := by omega
  have hm : ¬ ((s.bytes.length : Int) - ((e : Int) - (o : Int)) < 0) := by omega
  have hn : ((s.bytes.length : Int) - ((e : Int) - (o : Int))).toNat = s.bytes.length + o - e := by omega
  have hst : (0 : Int) ≤ (o : Int) ∧ (o : Int) ≤ (s.bytes.length : Int) := by omega
  have hsf : (0 : Int) ≤ (o : Int) + ((e : Int) - (o : Int)) ∧
      (o : Int) + ((e : Int) - (o : Int)) ≤ (s.bytes.length : Int) := by omega
  have hen : ((o : Int) + ((e : Int) - (o : Int))).toNat = e := by omega
  have hto : (s.bytes.take o).length = o := by simp only [List.length_take]; omega
  have hb1 := goCopyTo_fresh (s.bytes.take o) (s.bytes.length + o - e) (by omega)
  have hb2 := goCopyAt_suffix (s.bytes.take o) (List.replicate (s.bytes.length + o - e - o) 0) (s.bytes.drop e)
    (by simp only [List.length_replicate, List.length_drop]; omega)
  rw [hto] at hb1 hb2
  simp only [Gen.seqDelete, goMakeFeats_nat, goCopyFeats_full]
  have hloop := seqDeleteLoop_eq (o : Int) ((e : Int) - (o : Int)) s.feats
  simp only [hloop, Gen.goMake, if_neg hm, hn, Gen.goSliceTo, if_pos hst, Gen.goSliceFrom, if_pos hsf, hen,
    Int.toNat_natCast, hb1, hb2, Seq.delete]

/-- … and panics on every other input -/
theorem seqDelete_panic {ι : Type} (ops : Gen.InfoOps ι) (i : ι) (s : Seq) (offset length : Int)
    (h : ¬ deleteOk s.len offset length) :
    Gen.seqDelete ops i s.feats s.bytes offset length = .error .panic := by
  simp only [deleteOk, Seq.len] at h
  simp only [Gen.seqDelete, goMakeFeats_nat, goCopyFeats_full, seqDeleteLoop_eq, Gen.goMake]
  by_cases hm : (s.bytes.length : Int) - length < 0
  · simp only [if_pos hm]
  · simp only [if_neg hm, Gen.goSliceTo]
    by_cases hst : 0 ≤ offset ∧ offset ≤ (s.bytes.length : Int)
    · simp only [if_pos hst, Gen.goCopyTo, List.length_replicate]
      by_cases hct : 0 ≤ offset ∧ offset ≤ (((s.bytes.length : Int) - length).toNat : Int)
      · have hsf : ¬ (0 ≤ offset + length ∧ offset + length ≤ (s.bytes.length : Int)) := by omega
        simp only [if_pos hct, Gen.goSliceFrom, if_neg hsf]
      · simp only [if_neg hct]
    · simp only [if_neg hst]

/-- `gts.Erase` as sequence.go defines it now is the model's `Seq.erase` wherever Go does not panic -/
theorem seqErase_eq {ι : Type} (ops : Gen.InfoOps ι) (i : ι) (s : Seq) (offset length : Int)
    (h : deleteOk s.len offset length) :
    Gen.seqErase ops i s.feats s.bytes offset length =
      .ok (ops.tryExpand i offset (-length), (s.erase offset length).feats, (s.erase offset length).bytes) := by
  have hf : (fun f => Gen.filterOr [Gen.filterKey "source", Gen.filterNot (Gen.filterWithin offset (offset + length))] f) =
      fun f : Feature => decide (f.key = "source") || !(f.loc.within offset (offset + length)) := by
    funext f; exact eraseFilter_eq _ _ f
  simp only [Gen.seqErase, featsFilter_eq]
  have := seqDelete_eq ops i ⟨s.feats.filter fun f => decide (f.key = "source") || !(f.loc.within offset (offset + length)),
    s.bytes⟩ offset length h
  simp only [] at this
  rw [← hf] at this
  simp only [this, Seq.erase]
  rw [← hf]

/-- … and panics on every other input -/
theorem seqErase_panic {ι : Type} (ops : Gen.InfoOps ι) (i : ι) (s : Seq) (offset length : Int)
    (h : ¬ deleteOk s.len offset length) :
    Gen.seqErase ops i s.feats s.bytes offset length = .error .panic := by
  simp only [Gen.seqErase, featsFilter_eq]
  have := seqDelete_panic ops i ⟨s.feats.filter (Gen.filterOr [Gen.filterKey "source",
    Gen.filterNot (Gen.filterWithin offset (offset + length))]), s.bytes⟩ offset length h
  simp only [] at this
  simp only [this]

-- non-vacuity
example : deleteOk 6 2 3 := by decide
example : Gen.seqErase (ι := Unit) ⟨fun i _ _ => i, fun i _ _ => i, fun i _ _ => i, fun i _ => i, ()⟩ ()
      [⟨"source", .ranged 0 6 false false, []⟩, ⟨"gene", .ranged 2 4 false false, []⟩, ⟨"cds", .ranged 1 6 false false, []⟩]
      [65, 67, 71, 84, 65, 67] 2 3 =
    .ok ((), [⟨"source", .ranged 0 3 false false, []⟩, ⟨"cds", .ranged 1 3 false false, []⟩], [65, 67, 67]) := by
  rfl
example : Gen.seqDelete (ι := Unit) ⟨fun i _ _ => i, fun i _ _ => i, fun i _ _ => i, fun i _ => i, ()⟩ ()
      [] [65, 67, 71, 84] 3 2 = .error .panic := by
  rfl

end Gts.Bridge
