/-
  Bridge, common part: how the checked slice operations of the prelude `Gts/Gen/CliList.lean` behave
  on the shapes the loops of the CLI steps and of locator.go produce, and one generic lemma per loop
  SHAPE (fold, fill by index, fill by a counter in the state).  The bridges
  `Gts/Bridge/Cli*.lean`, `Gts/Bridge/Locator.lean` show that a generated loop has one of these
  shapes (`rfl`: renamed locals do not matter, a changed index, order or guard does) and then use the
  generic lemma.
-/
import Gts.Gen.CliList
namespace Gts.Bridge
open Gts

/-! ### the checked operations -/

theorem clAt_nat {α : Type} (p : List α) (n : Nat) : Gen.clAt p (n : Int) = p[n]? := by
  have : ¬ ((n : Int) < 0) := by omega
  simp only [Gen.clAt, this, if_false, Int.toNat_natCast]

theorem clAt_append_length {α : Type} (pre : List α) (a : α) (suf : List α) :
    Gen.clAt (pre ++ a :: suf) (pre.length : Int) = some a := by
  rw [clAt_nat]; simp

theorem clAt_zero_cons {α : Type} (a : α) (l : List α) : Gen.clAt (a :: l) 0 = some a := by
  simp [Gen.clAt]

theorem clPut_append_length {α : Type} (pre : List α) (a c : α) (suf : List α) :
    Gen.clPut (pre ++ a :: suf) (pre.length : Int) c = some (pre ++ c :: suf) := by
  have h : (0 : Int) ≤ (pre.length : Int) ∧ (pre.length : Int) < ((pre ++ a :: suf).length : Int) := by
    simp only [List.length_append, List.length_cons]; omega
  simp only [Gen.clPut, h, and_self, if_true, Int.toNat_natCast]
  simp

theorem clMake_nat (α : Type) [Inhabited α] (n : Nat) :
    Gen.clMake α (n : Int) = some (List.replicate n default) := by
  simp [Gen.clMake]

theorem clFrom_nat {α : Type} (p : List α) (n : Nat) (h : n ≤ p.length) :
    Gen.clFrom p (n : Int) = some (p.drop n) := by
  have : (0 : Int) ≤ (n : Int) ∧ (n : Int) ≤ (p.length : Int) := by omega
  simp [Gen.clFrom, this]

theorem clTo_nat {α : Type} (p : List α) (n : Nat) (h : n ≤ p.length) :
    Gen.clTo p (n : Int) = some (p.take n) := by
  have : (0 : Int) ≤ (n : Int) ∧ (n : Int) ≤ (p.length : Int) := by omega
  simp [Gen.clTo, this]

/-! ### guards on `len(xs)`: the forms a harmless rewrite may give them, normalised

(`simp only [gt_iff_lt, ge_iff_le, …]` with these turns every form into the one the model uses) -/

theorem guard_zero_forms (n : Nat) :
    (((n : Int) = 0) = (n = 0)) ∧ (((n : Int) < 1) = (n = 0)) ∧ (((n : Int) ≤ 0) = (n = 0)) ∧
    ((0 = (n : Int)) = (n = 0)) := by
  refine ⟨?_, ?_, ?_, ?_⟩ <;> apply propext <;> omega

theorem guard_pos_forms (n : Nat) :
    ((0 < (n : Int)) = (n ≠ 0)) ∧ (((n : Int) ≠ 0) = (n ≠ 0)) ∧ ((1 ≤ (n : Int)) = (n ≠ 0)) ∧
    ((0 ≠ (n : Int)) = (n ≠ 0)) := by
  refine ⟨?_, ?_, ?_, ?_⟩ <;> apply propext <;> omega

/-- "exactly one element, and `c`" on a non-empty slice -/
theorem guard_one_forms (n : Nat) (c : Prop) (hn : 1 ≤ n) :
    ((((n : Int) = 1) ∧ c) = (n = 1 ∧ c)) ∧ ((c ∧ ((n : Int) = 1)) = (n = 1 ∧ c)) ∧
    ((((n : Int) ≤ 1) ∧ c) = (n = 1 ∧ c)) ∧ ((c ∧ ((n : Int) ≤ 1)) = (n = 1 ∧ c)) ∧
    ((((n : Int) < 2) ∧ c) = (n = 1 ∧ c)) ∧ ((c ∧ ((n : Int) < 2)) = (n = 1 ∧ c)) ∧
    (((1 = (n : Int)) ∧ c) = (n = 1 ∧ c)) ∧ ((c ∧ (1 = (n : Int))) = (n = 1 ∧ c)) := by
  refine ⟨?_, ?_, ?_, ?_, ?_, ?_, ?_, ?_⟩ <;> apply propext <;> constructor <;> intro h <;>
    first
      | exact ⟨by omega, h.2⟩
      | exact ⟨by omega, h.1⟩
      | exact ⟨h.2, by omega⟩

/-! ### loop shapes -/

/-- a loop of the shape `for _, x := range xs { st = f(st, x) }` is the left fold -/
theorem foldLoop_spec {α σ : Type} (loop : List α → σ → Option σ) (f : σ → α → σ)
    (hnil : ∀ st, loop [] st = some st)
    (hcons : ∀ a rest st, loop (a :: rest) st = loop rest (f st a)) :
    ∀ xs st, loop xs st = some (xs.foldl f st) := by
  intro xs
  induction xs with
  | nil => intro st; simp [hnil]
  | cons a rest ih => intro st; rw [hcons, ih]; rfl

/-- a loop of the shape `for _, x := range xs { st = f(st, x) }` whose step can fail -/
theorem foldLoopM_spec {α σ : Type} (loop : List α → σ → Option σ) (f : σ → α → σ)
    (hnil : ∀ st, loop [] st = some st)
    (hcons : ∀ a rest st, loop (a :: rest) st = (some (f st a)).bind (loop rest)) :
    ∀ xs st, loop xs st = some (xs.foldl f st) :=
  foldLoop_spec loop f hnil (fun a rest st => by rw [hcons]; rfl)

/-- a loop of the shape `for _, x := range xs { out = append(out, h(x)) }` appends the images -/
theorem appendLoop_spec {α β : Type} (loop : List α → List β → Option (List β)) (h : α → β)
    (hnil : ∀ w, loop [] w = some w)
    (hcons : ∀ a rest w, loop (a :: rest) w = loop rest (w ++ [h a])) :
    ∀ xs w, loop xs w = some (w ++ xs.map h) := by
  intro xs
  induction xs with
  | nil => intro w; simp [hnil]
  | cons a rest ih => intro w; rw [hcons, ih]; simp

/-- a loop of the shape `for _, x := range xs { if p(x) { out = append(out, h(x)) } }` -/
theorem appendIfLoop_spec {α β : Type} (loop : List α → List β → Option (List β)) (p : α → Bool) (h : α → β)
    (hnil : ∀ w, loop [] w = some w)
    (hcons : ∀ a rest w, loop (a :: rest) w = loop rest (if p a then w ++ [h a] else w)) :
    ∀ xs w, loop xs w = some (w ++ (xs.filter p).map h) := by
  intro xs
  induction xs with
  | nil => intro w; simp [hnil]
  | cons a rest ih =>
    intro w; rw [hcons, ih]
    cases hp : p a <;> simp [hp]

/-- a loop of the shape `for i, x := range xs { ys[i+off] = g(x) }`, entered with `ys = pre ++ suf ++ tl`,
`len(pre) = i + off`, `len(suf) = len(xs)`: no store is out of range and the cells of `suf` are
overwritten with the images of `xs` (invariant: the cells before `i + off` are final) -/
theorem fillLoop_spec {α β : Type} (loop : List α → Int → List β → Option (List β)) (g : α → β) (off : Int)
    (hnil : ∀ i ys, loop [] i ys = some ys)
    (hcons : ∀ a rest i ys, loop (a :: rest) i ys =
      (Gen.clPut ys (i + off) (g a)).bind fun ys' => loop rest (i + 1) ys') :
    ∀ (xs : List α) (i : Int) (pre suf tl : List β), (pre.length : Int) = i + off → suf.length = xs.length →
      loop xs i (pre ++ suf ++ tl) = some (pre ++ xs.map g ++ tl) := by
  intro xs
  induction xs with
  | nil =>
    intro i pre suf tl _ hs
    have : suf = [] := List.eq_nil_of_length_eq_zero (by simpa using hs)
    simp [hnil, this]
  | cons a rest ih =>
    intro i pre suf tl hp hs
    match suf, hs with
    | b :: suf', hs =>
      rw [hcons, ← hp]
      have e : pre ++ b :: suf' ++ tl = pre ++ b :: (suf' ++ tl) := by simp
      rw [e, clPut_append_length]
      simp only [Option.bind_some]
      have := ih (i + 1) (pre ++ [g a]) suf' tl (by simp only [List.length_append, List.length_cons, List.length_nil]; omega)
        (by simpa using hs)
      simp only [List.append_assoc, List.map_cons, List.cons_append, List.nil_append] at this ⊢
      exact this

/-- a loop of the shape `for _, x := range xs { ys[i] = g(x); i++ }` (the counter is part of the loop
state), entered with `ys = pre ++ suf ++ tl`, `i = len(pre)`, `len(suf) = len(xs)` -/
theorem fillCountLoop_spec {α β : Type} (loop : List α → List β → Int → Option (List β × Int)) (g : α → β)
    (hnil : ∀ ys i, loop [] ys i = some (ys, i))
    (hcons : ∀ a rest ys i, loop (a :: rest) ys i =
      (Gen.clPut ys i (g a)).bind fun ys' => loop rest ys' (i + 1)) :
    ∀ (xs : List α) (pre suf tl : List β), suf.length = xs.length →
      loop xs (pre ++ suf ++ tl) (pre.length : Int) =
        some (pre ++ xs.map g ++ tl, ((pre.length + xs.length : Nat) : Int)) := by
  intro xs
  induction xs with
  | nil =>
    intro pre suf tl hs
    have : suf = [] := List.eq_nil_of_length_eq_zero (by simpa using hs)
    simp [hnil, this]
  | cons a rest ih =>
    intro pre suf tl hs
    match suf, hs with
    | b :: suf', hs =>
      rw [hcons]
      have e : pre ++ b :: suf' ++ tl = pre ++ b :: (suf' ++ tl) := by simp
      rw [e, clPut_append_length]
      simp only [Option.bind_some]
      have := ih (pre ++ [g a]) suf' tl (by simpa using hs)
      simp only [List.append_assoc, List.map_cons, List.cons_append, List.nil_append,
        List.length_append, List.length_cons, List.length_nil] at this ⊢
      have e2 : ((pre.length + (0 + 1) : Nat) : Int) = (pre.length : Int) + 1 := by omega
      rw [e2] at this
      rw [this]
      congr 2
      omega

/-- a loop of the shape `for i, x := range ys { ys[i] = g(x) }` — the body stores into the slice it
ranges over, `x` is read live —, entered at `i = len(pre)` on `ys = pre ++ suf` with `len(suf)` iterations
left: no read or store is out of range and `suf` is replaced by its images (every cell is read
before it is written) -/
theorem mapInPlaceLoop_spec {γ β : Type} (loop : List γ → Int → List β → Option (List β)) (g : β → β)
    (hnil : ∀ i ys, loop [] i ys = some ys)
    (hcons : ∀ c rest i ys, loop (c :: rest) i ys =
      (Gen.clAt ys i).bind fun x => (Gen.clPut ys i (g x)).bind fun ys' => loop rest (i + 1) ys') :
    ∀ (cnt : List γ) (pre suf : List β), cnt.length = suf.length →
      loop cnt (pre.length : Int) (pre ++ suf) = some (pre ++ suf.map g) := by
  intro cnt
  induction cnt with
  | nil =>
    intro pre suf hs
    have : suf = [] := List.eq_nil_of_length_eq_zero (by simpa using hs.symm)
    simp [hnil, this]
  | cons c rest ih =>
    intro pre suf hs
    match suf, hs with
    | b :: suf', hs =>
      rw [hcons, clAt_append_length, Option.bind_some, clPut_append_length, Option.bind_some]
      have := ih (pre ++ [g b]) suf' (by simpa using hs)
      simp only [List.append_assoc, List.cons_append, List.nil_append,
        List.length_append, List.length_cons, List.length_nil] at this
      have e2 : ((pre.length + (0 + 1) : Nat) : Int) = (pre.length : Int) + 1 := by omega
      rw [e2] at this
      rw [this]
      simp

end Gts.Bridge
