/-
  Bridge: the reduction rules of `(*LocationList).Push`, regenerated from location.go by go2lean
  (Gts/Gen/PushRules.lean), are the rules of the hand-written model `Gts.Loc.pushOne` that the
  join theorems of C06 (and through joins C02–C05, C10, C12) are about — for every pair of
  locations, every `force`, every accumulator.

  What is tied here: all 49 (kind of last element, kind of pushed element) pairs: the nine clauses
  that can return (their conditions, what the last element becomes) and the fall-through to
  "append" for every other pair.  The Complemented/Complemented clause calls `Push` and `Join`
  recursively; its statements are recognised one by one by the extractor (`pushComplClause`), and
  the statements around the switch likewise (`pushFrame`); their recursion structure
  (`pushW` / `pushListW` / `pushD`) stays tied by the correspondence run.
-/
import Gts.Gen.PushRules
import Gts.Model.Loc
namespace Gts.Bridge
open Gts

/-- the frame of `Push` around the rule table is the one the model's `pushW` / `pushOne` follow:
walk to the last cell, flatten a pushed `Joined` (recursively), first element, rules, append -/
theorem pushFrame_eq :
    Gen.pushFrame = ["walk-to-last", "flatten-pushed-joined", "first-element", "rules", "append"] := rfl

/-- the Complemented/Complemented clause has the statements the model's `pushOne` mirrors -/
theorem pushComplClause_eq : Gen.pushComplClause = "as-modelled" := rfl

def isCompl : Loc → Bool
  | .compl _ => true
  | _ => false

/-- **the rule table**: on a non-empty accumulator whose last element is `v`, pushing a
non-`Joined` element `u` (not the Complemented/Complemented pair) does what the nested type switch
of the current location.go says: replace the last element (possibly by itself: `u` is dropped), or
append. -/
theorem pushOne_rule (low : List Loc → Loc → Bool → List Loc) (v : Loc) (rest : List Loc) (u : Loc)
    (force : Bool) (h : (isCompl v && isCompl u) = false) :
    Loc.pushOne low (v :: rest) u force =
      match Gen.pushRule v u force with
      | some d => d :: rest
      | none => u :: v :: rest := by
  cases v <;> cases u <;> simp only [Loc.pushOne, Gen.pushRule] <;>
    first
      | rfl
      | (split <;> rfl)
      | (simp [isCompl] at h)
      | skip
  -- ranged / ranged: the merge condition and the merged flags
  all_goals
    (rename_i vs ve v5 v3 us ue u5 u3
     cases v3 <;> cases u5 <;> cases force <;> by_cases hh : ve = us <;> simp [hh])

/-- on the empty accumulator the pushed element is the list (`first-element`) -/
theorem pushOne_nil (low : List Loc → Loc → Bool → List Loc) (u : Loc) (force : Bool) :
    Loc.pushOne low [] u force = [u] := rfl

/-- the Complemented/Complemented pair is not a rule of the table -/
theorem pushRule_compl (a b : Loc) (force : Bool) : Gen.pushRule (.compl a) (.compl b) force = none := rfl

end Gts.Bridge
