/-
  C07 / C08 bridge (DESIGN.md 4.1a): `pars.Seq`, `pars.Child` / `Parser.Child` and `pars.Exact` of go-pars v1.1.6 — regenerated
  statement by statement on every run (`Gts/Gen/Pars.lean`: `parsSeq`, `parsChild`, `parsMapP`, `parsParserChild`, `parsExact`;
  generator go2lean/gparsseq.go) — are the model's sequencing `ModParse.seq2` / `seq3`, `ModParse.mapP` with a selection and
  `ModParse.exact`, in the BOUNDED form of `Gts/Bridge/ParsComb.lean` (`SimPUpTo L`: from every state that meets `Inv` and whose
  abstraction has at most `L` bytes left at the position and at every saved position).

  `Seq` is a loop over a LIST of parsers that fills a slice of results; the model has it at the arities gts uses (two and three
  members, each of its own type).  The loop is therefore proved ROUND BY ROUND in continuation form: `seq_cons` — one round
  (`&v[i]` read, the member run, the cell written back; a failing member `Pop`s whatever frame is then on top and the error is
  final; a panic is a panic) is the model's `member m >>= k` when the rounds that follow are `k` — and `seq_nil` — behind the
  last round: `Drop`, the result holds the cells as its children.  `seq_simUpTo` (two members), `seq3_simUpTo` (three) put them
  together; every member but the last one is asked to be `Safe` on the model side (it carries the bound to the state the next
  member starts from).  `child_simUpTo`: `p.Child(i)` = `mapP m (selection)`, the index inside the children `p` answers (outside:
  the Go code panics — `child_out_of_range_panics`).  `exact_simUpTo`: `Exact(p)` = `Seq(Head, p, End).Map(Child(1))` is
  `ModParse.exact m` from a state whose position is the head of the input (what `pars.FromString` builds).
  `head_simUpTo`: the composed rule `pars.Any(pars.Seq('^', pars.Int).Child(1), pars.Byte('^').Bind(0)).Map(…)` of modifier.go.
-/
import Gts.Bridge.ParsComb
namespace Gts.Bridge
open Gts.Gen.GoPars
open Gts.Pars (PS Bytes Err)

section Seq
variable {ρ ε : Type}

/-- `v[i]` inside the slice does not panic -/
theorem goIdx_nat {α : Type} (v : List α) (i : Nat) (hi : i < v.length) : goIdx v (i : Int) = some v[i] := by
  unfold goIdx
  rw [if_neg (by omega), Int.toNat_natCast]
  exact List.getElem?_eq_getElem hi

/-- `v[i] = x` inside the slice does not panic -/
theorem goSet_nat {α : Type} (v : List α) (i : Nat) (hi : i < v.length) (x : α) : goSet v (i : Int) x = some (v.set i x) := by
  unfold goSet
  rw [if_pos (by omega), Int.toNat_natCast]

/-- one member of a `pars.Seq` as the model has it (`ModParse.seq2` / `seq3`): run it; a failure `Pop`s (whatever frame is then on
top) and is the failure of the sequence -/
def member {α : Type} (m : Pars.P α) : Pars.P α := do
  match ← Pars.attempt m with
  | some v => pure v
  | none => do Pars.pop; Pars.fail

/-- the sequences of the model are `Push`, the members, `Drop` -/
theorem seq2_eq {α β : Type} (p : Pars.P α) (q : Pars.P β) :
    ModParse.seq2 p q = (Pars.push >>= fun _ => member p >>= fun a => member q >>= fun b => (do Pars.drop; pure (a, b))) := rfl

theorem seq3_eq {α β γ : Type} (p : Pars.P α) (q : Pars.P β) (r : Pars.P γ) :
    ModParse.seq3 p q r = (Pars.push >>= fun _ => member p >>= fun a => member q >>= fun b => member r >>= fun c =>
      (do Pars.drop; pure (a, b, c))) := rfl

/-- `Pop` of the model always succeeds -/
theorem run_pop_ok (s : PS) : (Pars.pop.run' s).1 = .ok () := by
  rw [Pars.run_pop]; cases s.stk <;> rfl

theorem run_member {α : Type} (m : Pars.P α) (s : PS) : (member m).run' s =
    match m.run' s with
    | (.ok a, s') => (.ok a, s')
    | (.error .fail, s') => (.error .fail, (Pars.pop.run' s').2)
    | (.error .panic, s') => (.error .panic, s') := by
  unfold member
  rw [Pars.run_bind, Pars.run_attempt]
  rcases m.run' s with ⟨o, s'⟩
  cases o with
  | ok a => rfl
  | error e =>
    cases e with
    | panic => rfl
    | fail =>
      dsimp only
      rw [Pars.run_bind]
      have := run_pop_ok s'
      rcases hh : Pars.pop.run' s' with ⟨o2, s2⟩
      rw [hh] at this
      dsimp only at this
      subst this
      rfl

/-- BEHIND THE LAST ROUND of `Seq`'s loop: `Drop`; the result holds the cells as its children; no error -/
theorem seq_nil {γ : Type} (env : Env ρ ε) (pend : ρ → Option ε → Bytes) (valk : γ → ResultV → Prop)
    (all : List (GoParser ρ ε)) (result : ResultV) (i : Int) (v : List ResultV) (g : State ρ ε) (h : Inv g)
    (c : γ) (hv : valk c (.children v)) :
    Agree pend valk (rangeLoopIdx (parsSeq_body1 env all result) (parsSeq_exit1 env all result) i [] (g, v))
      ((do Pars.drop; pure c : Pars.P γ).run' (absState pend g)) := by
  obtain ⟨g3, hd, hinv3, habs3⟩ := drop_sim pend g h
  rw [Pars.run_bind, habs3]
  exact ⟨g3, .children v, by simp [rangeLoopIdx, parsSeq_exit1, hd], hv, hinv3, rfl⟩

/-- ONE ROUND of `Seq`'s loop, in continuation form: the cell `v[i]` (inside the slice) is handed to the member `p`, which
simulates `m` up to `L`; on success the cell holds what `p` answered and the rounds that follow run from the state `p` left
(`hrest`: they are `k a` there — `Q` is what is known of that state, e.g. the bound when `m` is `Safe`); on a failure `Pop` and
the error of the sequence, the result untouched; a panic of `p` is a panic -/
theorem seq_cons {α γ : Type} (L : Nat) (env : Env ρ ε) (pend : ρ → Option ε → Bytes) (val : α → ResultV → Prop)
    (valk : γ → ResultV → Prop) (all : List (GoParser ρ ε)) (result : ResultV) (p : GoParser ρ ε) (m : Pars.P α)
    (hp : SimPUpTo L pend val p m) (ps : List (GoParser ρ ε)) (k : α → Pars.P γ)
    (i : Nat) (v : List ResultV) (hi : i < v.length) (g : State ρ ε) (h : Inv g) (hb : Pars.Fr L [] 0 (absState pend g))
    (Q : PS → Prop) (hQ : Q (m.run' (absState pend g)).2)
    (hrest : ∀ a g2 r2, val a r2 → Inv g2 → Q (absState pend g2) →
      Agree pend valk
        (rangeLoopIdx (parsSeq_body1 env all result) (parsSeq_exit1 env all result) ((i : Int) + 1) ps (g2, v.set i r2))
        ((k a).run' (absState pend g2))) :
    Agree pend valk (rangeLoopIdx (parsSeq_body1 env all result) (parsSeq_exit1 env all result) (i : Int) (p :: ps) (g, v))
      ((member m >>= k).run' (absState pend g)) := by
  have h1 := hp g v[i] h hb
  rw [Pars.run_bind, run_member]
  generalize m.run' (absState pend g) = r at h1 hQ
  obtain ⟨o, s'⟩ := r
  cases o with
  | ok a =>
    obtain ⟨g2, r2, hp2, hv, hinv2, habs2⟩ := h1
    have := hrest a g2 r2 hv hinv2 (by rw [habs2]; exact hQ)
    rw [habs2] at this
    have hstep : rangeLoopIdx (parsSeq_body1 env all result) (parsSeq_exit1 env all result) (i : Int) (p :: ps) (g, v) =
        rangeLoopIdx (parsSeq_body1 env all result) (parsSeq_exit1 env all result) ((i : Int) + 1) ps (g2, v.set i r2) := by
      simp [rangeLoopIdx, parsSeq_body1, goIdx_nat v i hi, goSet_nat v i hi, hp2]
    rw [hstep]
    exact this
  | error e =>
    cases e with
    | fail =>
      obtain ⟨g2, r2, e2, hp2, hinv2, habs2⟩ := h1
      obtain ⟨g3, hpo, hinv3, habs3⟩ := pop_sim pend g2 hinv2
      dsimp only
      rw [← habs2, habs3]
      exact ⟨g3, result, env.mkErr,
        by simp [rangeLoopIdx, parsSeq_body1, goIdx_nat v i hi, goSet_nat v i hi, hp2, hpo], hinv3, rfl⟩
    | panic =>
      have : p g v[i] = none := h1
      show rangeLoopIdx _ _ (i : Int) (p :: ps) (g, v) = none
      simp [rangeLoopIdx, parsSeq_body1, goIdx_nat v i hi, this]

/-- `pars.Seq(p, q)` = `ModParse.seq2`, BOUNDED: `Push`; `p` from there, `q` from where `p` left the state; the first failing member
`Pop`s and its failure is the failure of the sequence (the frames it leaked stay, exactly as in the model); both succeeded:
`Drop`, and the result holds the two answers as its children, in the order of the parsers.  `p`'s model parser is `Safe`: the
bound must still hold where `q` starts. -/
theorem seq_simUpTo {α β : Type} (L : Nat) (env : Env ρ ε) (pend : ρ → Option ε → Bytes)
    (va : α → ResultV → Prop) (vb : β → ResultV → Prop) (p q : GoParser ρ ε) (m : Pars.P α) (n : Pars.P β)
    (hp : SimPUpTo L pend va p m) (hm : Pars.Safe m) (hq : SimPUpTo L pend vb q n) :
    SimPUpTo L pend (fun ab r => ∃ ra rb, r = .children [ra, rb] ∧ va ab.1 ra ∧ vb ab.2 rb)
      (parsSeq env [p, q]) (ModParse.seq2 m n) := by
  intro g res h hb
  obtain ⟨g1, hpu, hinv1, habs1, _⟩ := statePush_spec pend g h
  have hb1 : Pars.Fr L [] 0 (absState pend g1) := by rw [habs1]; exact fr_push hb
  rw [seq2_eq, Pars.run_bind, Pars.run_push]; dsimp only
  rw [← habs1]
  have hgo : parsSeq env [p, q] g res =
      rangeLoopIdx (parsSeq_body1 env [p, q] res) (parsSeq_exit1 env [p, q] res) ((0 : Nat) : Int) [p, q]
        (g1, [ResultV.unset, ResultV.unset]) := by
    simp [parsSeq, hpu, List.replicate]
  rw [hgo]
  refine seq_cons L env pend va _ _ res p m hp [q] _ 0 _ (by simp) g1 hinv1 hb1 (Pars.Fr L [] 0) (fr_keeps hm hb1) ?_
  intro a g2 ra hva hinv2 hb2
  refine seq_cons L env pend vb _ _ res q n hq [] _ 1 _ (by simp) g2 hinv2 hb2 (fun _ => True) trivial ?_
  intro b g3 rb hvb hinv3 _
  exact seq_nil env pend _ _ res _ _ g3 hinv3 (a, b) ⟨ra, rb, by simp, hva, hvb⟩

/-- `pars.Seq(p, q, r)` = `ModParse.seq3`, BOUNDED (as `seq_simUpTo`, three members; the first two `Safe`) -/
theorem seq3_simUpTo {α β γ : Type} (L : Nat) (env : Env ρ ε) (pend : ρ → Option ε → Bytes)
    (va : α → ResultV → Prop) (vb : β → ResultV → Prop) (vc : γ → ResultV → Prop) (p q r : GoParser ρ ε)
    (m : Pars.P α) (n : Pars.P β) (o : Pars.P γ)
    (hp : SimPUpTo L pend va p m) (hm : Pars.Safe m) (hq : SimPUpTo L pend vb q n) (hn : Pars.Safe n)
    (hr : SimPUpTo L pend vc r o) :
    SimPUpTo L pend (fun abc x => ∃ ra rb rc, x = .children [ra, rb, rc] ∧ va abc.1 ra ∧ vb abc.2.1 rb ∧ vc abc.2.2 rc)
      (parsSeq env [p, q, r]) (ModParse.seq3 m n o) := by
  intro g res h hb
  obtain ⟨g1, hpu, hinv1, habs1, _⟩ := statePush_spec pend g h
  have hb1 : Pars.Fr L [] 0 (absState pend g1) := by rw [habs1]; exact fr_push hb
  rw [seq3_eq, Pars.run_bind, Pars.run_push]; dsimp only
  rw [← habs1]
  have hgo : parsSeq env [p, q, r] g res =
      rangeLoopIdx (parsSeq_body1 env [p, q, r] res) (parsSeq_exit1 env [p, q, r] res) ((0 : Nat) : Int) [p, q, r]
        (g1, [ResultV.unset, ResultV.unset, ResultV.unset]) := by
    simp [parsSeq, hpu, List.replicate]
  rw [hgo]
  refine seq_cons L env pend va _ _ res p m hp [q, r] _ 0 _ (by simp) g1 hinv1 hb1 (Pars.Fr L [] 0) (fr_keeps hm hb1) ?_
  intro a g2 ra hva hinv2 hb2
  refine seq_cons L env pend vb _ _ res q n hq [r] _ 1 _ (by simp) g2 hinv2 hb2 (Pars.Fr L [] 0) (fr_keeps hn hb2) ?_
  intro b g3 rb hvb hinv3 hb3
  refine seq_cons L env pend vc _ _ res r o hr [] _ 2 _ (by simp) g3 hinv3 hb3 (fun _ => True) trivial ?_
  intro c g4 rc hvc hinv4 _
  exact seq_nil env pend _ _ res _ _ g4 hinv4 (a, b, c) ⟨ra, rb, rc, by simp, hva, hvb, hvc⟩

/-! ### `Child(i)` and `Parser.Child(i)` -/

/-- `Child(i)` on a result that holds children, the index inside: the `i`-th child, no error -/
theorem parsChild_in (env : Env ρ ε) (i : Nat) (cs : List ResultV) (hi : i < cs.length) :
    parsChild env (i : Int) (.children cs) = some (cs[i], none) := by
  simp [parsChild, resultChildren, goIdx_nat cs i hi]

/-- … the index outside: the Go code PANICS (index out of range) -/
theorem child_out_of_range_panics (env : Env ρ ε) (i : Nat) (cs : List ResultV) (hi : cs.length ≤ i) :
    parsChild env (i : Int) (.children cs) = none := by
  have : goIdx cs (i : Int) = none := by
    unfold goIdx
    rw [if_neg (by omega), Int.toNat_natCast]
    exact List.getElem?_eq_none hi
  simp [parsChild, resultChildren, this]

/-- … on a result without children: `errNoChildren`, the result untouched -/
theorem parsChild_no_children (env : Env ρ ε) (i : Int) (r : ResultV) (h : resultChildren r = none) :
    parsChild env i r = some (r, some env.mkErr) := by
  simp [parsChild, h]

/-- `Parser.Map(f)` with a mapping that MAY PANIC (`parsMapP`: the same Go statements as `parsMap`, read at the more general type)
= `ModParse.mapP` at one state, for a parser that simulates from the state `Push` leaves and a mapping that neither fails nor
panics on what that parser answers -/
theorem mapP_sim_pushed {α β : Type} (pend : ρ → Option ε → Bytes) (val : α → ResultV → Prop) (val' : β → ResultV → Prop)
    (p : GoParser ρ ε) (m : Pars.P α) (g : State ρ ε) (res : ResultV) (h : Inv g)
    (hp : ∀ g1, statePush g = some g1 → Inv g1 →
      absState pend g1 = ⟨(absState pend g).rest, (absState pend g).rest :: (absState pend g).stk⟩ →
      Agree pend val (p g1 res) (m.run' (absState pend g1)))
    (f : ResultV → Option (ResultV × Option ε)) (fn : α → β)
    (hf : ∀ a r, val a r → ∃ r', f r = some (r', none) ∧ val' (fn a) r') :
    Agree pend val' (parsMapP p f g res) ((ModParse.mapP m fn).run' (absState pend g)) := by
  obtain ⟨g1, hpu, hinv1, habs1, _⟩ := statePush_spec pend g h
  have h1 := hp g1 hpu hinv1 habs1
  unfold ModParse.mapP
  rw [Pars.run_bind, Pars.run_push]; dsimp only
  rw [Pars.run_bind, Pars.run_attempt, ← habs1]
  generalize m.run' (absState pend g1) = r at h1
  obtain ⟨o, s'⟩ := r
  cases o with
  | ok a =>
    obtain ⟨g2, res2, hp2, hv, hinv2, habs2⟩ := h1
    obtain ⟨g3, hd, hinv3, habs3⟩ := drop_sim pend g2 hinv2
    dsimp only
    rw [Pars.run_bind, ← habs2, habs3]
    obtain ⟨r', hf1, hf2⟩ := hf a res2 hv
    refine ⟨g3, r', ?_, hf2, hinv3, rfl⟩
    simp [parsMapP, hpu, hp2, hd, hf1]
  | error e =>
    cases e with
    | fail =>
      obtain ⟨g2, res2, e2, hp2, hinv2, habs2⟩ := h1
      obtain ⟨g3, hpo, hinv3, habs3⟩ := pop_sim pend g2 hinv2
      dsimp only
      rw [Pars.run_bind, ← habs2, habs3]
      exact ⟨g3, res2, e2, by simp [parsMapP, hpu, hp2, hpo], hinv3, rfl⟩
    | panic =>
      have : p g1 res = none := h1
      show parsMapP p f g res = none
      simp [parsMapP, hpu, this]

/-- `parsMapP` = `ModParse.mapP`, BOUNDED -/
theorem mapP_simUpTo {α β : Type} (L : Nat) (pend : ρ → Option ε → Bytes) (val : α → ResultV → Prop)
    (val' : β → ResultV → Prop) (p : GoParser ρ ε) (m : Pars.P α) (hp : SimPUpTo L pend val p m)
    (f : ResultV → Option (ResultV × Option ε)) (fn : α → β)
    (hf : ∀ a r, val a r → ∃ r', f r = some (r', none) ∧ val' (fn a) r') :
    SimPUpTo L pend val' (parsMapP p f) (ModParse.mapP m fn) :=
  fun g res h hb => mapP_sim_pushed pend val val' p m g res h
    (fun g1 _ h1 ha => hp g1 res h1 (by rw [ha]; exact fr_push hb)) f fn hf

/-- `p.Child(i)` = `ModParse.mapP m fn`, BOUNDED: `Push`, `p`, `Pop` and its error on a failure; on success `Drop` and the `i`-th
child of what `p` answered — for a parser whose answers hold more than `i` children, the `i`-th standing for `fn` of the model's
value (`hc`; with fewer children the Go code panics: `child_out_of_range_panics`) -/
theorem child_simUpTo {α β : Type} (L : Nat) (env : Env ρ ε) (pend : ρ → Option ε → Bytes) (val : α → ResultV → Prop)
    (val' : β → ResultV → Prop) (p : GoParser ρ ε) (m : Pars.P α) (hp : SimPUpTo L pend val p m) (i : Nat) (fn : α → β)
    (hc : ∀ a r, val a r → ∃ cs, r = .children cs ∧ ∃ hi : i < cs.length, val' (fn a) cs[i]) :
    SimPUpTo L pend val' (parsParserChild env p (i : Int)) (ModParse.mapP m fn) :=
  mapP_simUpTo L pend val val' p m hp (parsChild env (i : Int)) fn (fun a r hv => by
    obtain ⟨cs, rfl, hi, hv'⟩ := hc a r hv
    exact ⟨cs[i], parsChild_in env i cs hi, hv'⟩)

/-! ### `Exact` -/

/-- `Push` keeps the line / byte position -/
theorem statePush_pos {g g' : State ρ ε} (h : statePush g = some g') : g'.pos = g.pos := by
  unfold statePush at h
  cases hs : stackPush g.stk g.off g.pos with
  | none => simp [hs] at h
  | some k =>
    simp only [hs, Option.bind_some, Option.some.injEq] at h
    subst h; rfl

/-- `pars.End` simulates `ModParse.atEnd` at every bound (whatever the result held) -/
theorem end_simUpTo (L : Nat) (env : Env ρ ε) (pend : ρ → Option ε → Bytes) (hf : FillOk env pend) :
    SimPUpTo L pend (fun (_ : Unit) _ => True) (fun s_ r_ => some (parsEnd env s_ r_)) ModParse.atEnd := by
  intro g res h _
  have := end_sim env pend hf g h res
  revert this
  generalize ModParse.atEnd.run' (absState pend g) = x
  obtain ⟨o, s⟩ := x
  cases o with
  | ok a => exact fun ⟨g', r, h1, _, h3, h4⟩ => ⟨g', r, h1, trivial, h3, h4⟩
  | error e => cases e <;> exact id

/-- `Seq(Head, p, End)` from a state at the HEAD of the input = `ModParse.seq2 m atEnd` (the model leaves `Head` out: it holds):
three cells, the answer of `p` in the second one -/
theorem seq_head_end_sim {α : Type} (L : Nat) (env : Env ρ ε) (pend : ρ → Option ε → Bytes) (hf : FillOk env pend)
    (val : α → ResultV → Prop) (p : GoParser ρ ε) (m : Pars.P α) (hp : SimPUpTo L pend val p m) (hm : Pars.Safe m)
    (g : State ρ ε) (res : ResultV) (h : Inv g) (hb : Pars.Fr L [] 0 (absState pend g))
    (hhead : positionHead (statePosition g) = true) :
    Agree pend (fun (ab : α × Unit) r => ∃ r0 ra rb, r = .children [r0, ra, rb] ∧ val ab.1 ra)
      (parsSeq env [(fun s_ r_ => some (parsHead env s_ r_)), p, (fun s_ r_ => some (parsEnd env s_ r_))] g res)
      ((ModParse.seq2 m ModParse.atEnd).run' (absState pend g)) := by
  obtain ⟨g1, hpu, hinv1, habs1, _⟩ := statePush_spec pend g h
  have hb1 : Pars.Fr L [] 0 (absState pend g1) := by rw [habs1]; exact fr_push hb
  have hpos : positionHead (statePosition g1) = true := by
    unfold statePosition at hhead ⊢; rw [statePush_pos hpu]; exact hhead
  rw [seq2_eq, Pars.run_bind, Pars.run_push]; dsimp only
  rw [← habs1]
  generalize hH : (fun (s_ : State ρ ε) (r_ : ResultV) => some (parsHead env s_ r_)) = H
  generalize hE : (fun (s_ : State ρ ε) (r_ : ResultV) => some (parsEnd env s_ r_)) = E
  have h0 : goIdx [ResultV.unset, ResultV.unset, ResultV.unset] (0 : Int) = some ResultV.unset :=
    goIdx_nat _ 0 (by simp)
  have hs0 : goSet [ResultV.unset, ResultV.unset, ResultV.unset] (0 : Int) ResultV.unset =
      some [ResultV.unset, ResultV.unset, ResultV.unset] := goSet_nat _ 0 (by simp) _
  have hHg : H g1 ResultV.unset = some (g1, ResultV.unset, none) := by
    subst hH; simp [parsHead, hpos]
  have hgo : parsSeq env [H, p, E] g res =
      rangeLoopIdx (parsSeq_body1 env [H, p, E] res) (parsSeq_exit1 env [H, p, E] res) ((1 : Nat) : Int) [p, E]
        (g1, [ResultV.unset, ResultV.unset, ResultV.unset]) := by
    have h01 : ((0 : Int) + 1) = ((1 : Nat) : Int) := rfl
    simp only [parsSeq, hpu, Option.bind_some, List.length_cons, List.length_nil, List.replicate, rangeLoopIdx,
      parsSeq_body1, h0, hs0, hHg, Option.isSome_none, Bool.false_eq_true, if_false, h01]
  rw [hgo]
  refine seq_cons L env pend val _ _ res p m hp [E] _ 1 _ (by simp) g1 hinv1 hb1 (Pars.Fr L [] 0) (fr_keeps hm hb1) ?_
  intro a g2 ra hva hinv2 hb2
  subst hE
  refine seq_cons L env pend _ _ _ res _ ModParse.atEnd (end_simUpTo L env pend hf) [] _ 2 _ (by simp) g2 hinv2 hb2
    (fun _ => True) trivial ?_
  intro b g3 rb _ hinv3 _
  exact seq_nil env pend _ _ res _ _ g3 hinv3 (a, b) ⟨.unset, ra, rb, by simp, hva⟩

/-- **`pars.Exact(p)` = `ModParse.exact m`**, BOUNDED, from a state at the HEAD of the input (position line 0, byte 0 — what
`pars.FromString` builds; the model's `exact` is stated for such a state): `Exact(p)` = `Seq(Head, p, End).Map(Child(1))` runs `p`
behind two `Push`es and then asks for the END of the input; a failure of `p` or bytes left over `Pop` twice (the frames they leaked
stay, as in the model); the answer is `p`'s.  `p` simulates `m` up to `L`, `m` is `Safe`. -/
theorem exact_simUpTo {α : Type} (L : Nat) (env : Env ρ ε) (pend : ρ → Option ε → Bytes) (hf : FillOk env pend)
    (val : α → ResultV → Prop) (p : GoParser ρ ε) (m : Pars.P α) (hp : SimPUpTo L pend val p m) (hm : Pars.Safe m)
    (g : State ρ ε) (res : ResultV) (h : Inv g) (hb : Pars.Fr L [] 0 (absState pend g))
    (hhead : positionHead (statePosition g) = true) :
    Agree pend val (parsExact env p g res) ((ModParse.exact m).run' (absState pend g)) := by
  unfold parsExact ModParse.exact
  refine mapP_sim_pushed pend (fun (ab : α × Unit) r => ∃ r0 ra rb, r = .children [r0, ra, rb] ∧ val ab.1 ra) val _ _ g res h
    ?_ (parsChild env 1) (·.1) ?_
  · intro g1 hpu hinv1 habs1
    refine seq_head_end_sim L env pend hf val p m hp hm g1 res hinv1 (by rw [habs1]; exact fr_push hb) ?_
    unfold statePosition at hhead ⊢; rw [statePush_pos hpu]; exact hhead
  · rintro ⟨a, b⟩ r ⟨r0, ra, rb, rfl, hv⟩
    exact ⟨ra, parsChild_in env 1 [r0, ra, rb] (by simp), hv⟩

/-! ### one grammar rule of modifier.go end to end -/

/-- **`parseHead` / `parseTail` of modifier.go** — `pars.Any(pars.Seq(c, pars.Int).Child(1), pars.Byte(c).Bind(0)).Map(…)`, `c` = `^` /
`$` — **is the model's `ModParse.parseMark c`** (`parseHead = parseMark 94`, `parseTail = parseMark 36`) up to every bound `L` below
the loop fuel of `Int`: the regenerated `Any`, `Seq`, `Parser.Child`, `Byte`, `Int`, `Parser.Map` composed as the Go declaration
composes them.  NOT regenerated, hypotheses: `AsParser(c)` is `pars.Byte(c)`; the second alternative `q` (`Parser.Bind` stores an
`interface{}`, outside the translator's subset) simulates "the byte, then 0"; the final mapping `f` turns the integer `n` into the
value standing for the offset `n` and does not fail. -/
theorem head_simUpTo (L : Nat) (env : Env ρ ε) (pend : ρ → Option ε → Bytes) (hf : FillOk env pend) (he : EnvOk env)
    (fuel : Nat) (hfu : L < fuel) (c : UInt8) (q : GoParser ρ ε)
    (hq : SimPUpTo L pend (fun n r => r = ResultV.int n) q (do ModParse.byte c; pure 0))
    (val' : Int → ResultV → Prop) (f : ResultV → ResultV × Option ε)
    (hmap : ∀ n, (f (ResultV.int n)).2 = none ∧ val' n (f (ResultV.int n)).1) :
    SimPUpTo L pend val'
      (parsMap (parsAny env [parsParserChild env (parsSeq env [parsByte env c, parsInt env fuel]) 1, q]) f)
      (ModParse.parseMark c) := by
  unfold ModParse.parseMark
  refine map_simUpTo L pend (fun n r => r = ResultV.int n) val' _ _ ?_ f id (fun a r hr => by subst hr; exact hmap a)
  refine any_simUpTo L env pend _ _ _ (.cons ⟨?_, ?_⟩ (.cons ⟨hq, ?_⟩ .nil))
  · exact child_simUpTo L env pend _ _ _ _
      (seq_simUpTo L env pend _ _ _ _ _ _ (byte_simUpTo L env pend hf c) (Pars.byte_safe c)
        (int_simUpTo L env pend hf he fuel hfu)) 1 (·.2)
      (fun ab r ⟨ra, rb, hr, _, hb⟩ => ⟨[ra, rb], hr, by simp, by simpa using hb⟩)
  · exact Pars.mapP_safe _ _ (Pars.seq2_safe _ _ (Pars.byte_safe c) Pars.int_safe)
  · have := Pars.byte_safe c
    wp_run

/-- `parseHead` of the model is the rule at `^` -/
theorem parseHead_eq : ModParse.parseHead = ModParse.parseMark 94 := rfl

end Seq

/-- the generated `Seq('^', Int).Child(1)` run on the demo reader: on `^+12,` the integer 12, the comma next, nothing pushed; on `^`
alone `Int` fails at the end of the input and LEAKS its frame (F34), `Seq` `Pop`s that one (not its own), `Child`'s `Map` pops `Seq`'s:
the frame of `Map` stays, the position is restored — as the model says -/
example :
    (parsParserChild demoEnv (parsSeq demoEnv [parsByte demoEnv 94, parsInt demoEnv 10]) 1
        (freshState [] [94, 43, 49, 50, 44]) .unset).map
      (fun t => (t.2.1, t.2.2, (absState demoPend t.1).rest, (absState demoPend t.1).stk)) =
      some (.int 12, none, [44], []) ∧
    (parsParserChild demoEnv (parsSeq demoEnv [parsByte demoEnv 94, parsInt demoEnv 10]) 1
        (freshState [] [94]) .unset).map
      (fun t => (t.2.2.isSome, (absState demoPend t.1).rest, (absState demoPend t.1).stk)) =
      some (true, [94], [[94]]) := by
  refine ⟨by decide, by decide⟩

/-- `Exact(Seq('^', Int).Child(1))` on the demo reader: `^7` is taken whole; on `^7x` the end check fails -/
example :
    (parsExact demoEnv (parsParserChild demoEnv (parsSeq demoEnv [parsByte demoEnv 94, parsInt demoEnv 10]) 1)
        (freshState [] [94, 55]) .unset).map (fun t => (t.2.1, t.2.2)) = some (.int 7, none) ∧
    (parsExact demoEnv (parsParserChild demoEnv (parsSeq demoEnv [parsByte demoEnv 94, parsInt demoEnv 10]) 1)
        (freshState [] [94, 55, 120]) .unset).map (fun t => t.2.2.isSome) = some true := by
  refine ⟨by decide, by decide⟩

/-- the hypotheses of `exact_simUpTo` are met by the fresh state over `^7` on the demo reader -/
example : Inv (freshState (ρ := Bytes) (ε := Unit) [] [94, 55]) ∧
    Pars.Fr 9 [] 0 (absState demoPend (freshState (ρ := Bytes) (ε := Unit) [] [94, 55])) ∧
    positionHead (statePosition (freshState (ρ := Bytes) (ε := Unit) [] [94, 55])) = true := by
  refine ⟨fresh_inv _ _, ?_, by decide⟩
  rw [fresh_abs]
  exact ⟨⟨[], rfl, Nat.le_refl _, fun _ hf => nomatch hf⟩, by decide, trivial⟩
end Gts.Bridge
