/-
  C07 / C08 bridge (DESIGN.md 4.1a): `pars.Seq`, `pars.Child` / `Parser.Child` and `pars.Exact` of go-pars v1.1.6 — regenerated
  statement by statement on every run (`Gts/Gen/Pars.lean`: `parsSeq`, `parsChild`, `parsMapP`, `parsParserChild`, `parsExact`;
  generator go2lean/gparsseq.go) — are the model's sequencing `ModParse.seq2` / `seq3`, `ModParse.mapP` with a selection and
  `ModParse.exact`, in the BOUNDED form of `Gts/Bridge/ParsComb.lean` (`SimPUpTo L`: from every state that meets `Inv` and whose
  abstraction has at most `L` bytes left at the position and at every saved position).

  `Seq` is a loop over a LIST of parsers that fills a slice of results; the model has it at the arities gts uses (two and three
  members, each of its own type).  The loop is therefore proved ROUND BY ROUND in continuation form: `seq_cons` — one round
  (`&v[i]` read, the member run, the cell written back; a failing member `Pop`s whatever frame is then on top and the error is
  final; a panic is a panic) is the model's `member m >>= k` when the rounds that follow are `k` — and `seq_nil` — behind the
  last round: `Drop`, the result holds the cells as its children.  `seq_simUpTo` (two members), `seq3_simUpTo` (three) put them
  together; every member but the last one is asked to be `Safe` on the model side (it carries the bound to the state the next
  member starts from).  `child_simUpTo`: `p.Child(i)` = `mapP m (selection)`, the index inside the children `p` answers (outside:
  the Go code panics — `child_out_of_range_panics`).  `exact_simUpTo`: `Exact(p)` = `Seq(Head, p, End).Map(Child(1))` is
  `ModParse.exact m` from a state whose position is the head of the input (what `pars.FromString` builds).
  `head_simUpTo`: the composed rule `pars.Any(pars.Seq('^', pars.Int).Child(1), pars.Byte('^').Bind(0)).Map(…)` of modifier.go.
-/
import Gts.Bridge.ParsComb
namespace Gts.Bridge
open Gts.Gen.GoPars
open Gts.Pars (PS Bytes Err)

section Seq
variable {ρ ε : Type}

/-- `v[i]` inside the slice does not panic -/
theorem goIdx_nat {α : Type} (v : List α) (i : Nat) (hi : i < v.length) : goIdx v (i : Int) = some v[i] := by
  unfold goIdx
  rw [if_neg (by omega), Int.toNat_natCast]
  exact List.getElem?_eq_getElem hi

/-- `v[i] = x` inside the slice does not panic -/
theorem goSet_nat {α : Type} (v : List α) (i : Nat) (hi : i < v.length) (x : α) : goSet v (i : Int) x = some (v.set i x) := by
  unfold goSet
  rw [if_pos (by omega), Int.toNat_natCast]

/-- one member of a `pars.Seq` as the model has it (`ModParse.seq2` / `seq3`): run it; a failure `Pop`s (whatever frame is then on
top) and is the failure of the sequence -/
def member {α : Type} (m : Pars.P α) : Pars.P α := do
  match ← Pars.attempt m with
  | some v => pure v
  | none => do Pars.pop; Pars.fail

/-- the sequences of the model are `Push`, the members, `Drop` -/
theorem seq2_eq {α β : Type} (p : Pars.P α) (q : Pars.P β) :
    ModParse.seq2 p q = (Pars.push >>= fun _ => member p >>= fun a => member q >>= fun b => (do Pars.drop; pure (a, b))) := rfl

theorem seq3_eq {α β γ : Type} (p : Pars.P α) (q : Pars.P β) (r : Pars.P γ) :
    ModParse.seq3 p q r = (Pars.push >>= fun _ => member p >>= fun a => member q >>= fun b => member r >>= fun c =>
      (do Pars.drop; pure (a, b, c))) := rfl

/-- `Pop` of the model always succeeds -/
theorem run_pop_ok (s : PS) : (Pars.pop.run' s).1 = .ok () := by
  rw [Pars.run_pop]; cases s.stk <;> rfl

theorem run_member {α : Type} (m : Pars.P α) (s : PS) : (member m).run' s =
    match m.run' s with
    | (.ok a, s') => (.ok a, s')
    | (.error .fail, s') => (.error .fail, (Pars.pop.run' s').2)
    | (.error .panic, s') => (.error .panic, s') := by
  unfold member
  rw [Pars.run_bind, Pars.run_attempt]
  rcases m.run' s with ⟨o, s'⟩
  cases o with
  | ok a => rfl
  | error e =>
    cases e with
    | panic => rfl
    | fail =>
      dsimp only
      rw [Pars.run_bind]
      have := run_pop_ok s'
      rcases hh : Pars.pop.run' s' with ⟨o2, s2⟩
      rw [hh] at this
      dsimp only at this
      subst this
      rfl

/-- BEHIND THE LAST ROUND of `Seq`'s loop: `Drop`; the result holds the cells as its children; no error -/
theorem seq_nil {γ : Type} (env : Env ρ ε) (pend : ρ → Option ε → Bytes) (valk : γ → ResultV → Prop)
    (all : List (GoParser ρ ε)) (result : ResultV) (i : Int) (v : List ResultV) (g : State ρ ε) (h : Inv g)
    (c : γ) (hv : valk c (.children v)) :
    Agree pend valk (rangeLoopIdx (parsSeq_body1 env all result) (parsSeq_exit1 env all result) i [] (g, v))
      ((do Pars.drop; pure c : Pars.P γ).run' (absState pend g)) := by
  obtain ⟨g3, hd, hinv3, habs3⟩ := drop_sim pend g h
  rw [Pars.run_bind, habs3]
  exact ⟨g3, .children v, by simp [rangeLoopIdx, parsSeq_exit1, hd], hv, hinv3, rfl⟩

/-- ONE ROUND of `Seq`'s loop, in continuation form: the cell `v[i]` (inside the slice) is handed to the member `p`, which
simulates `m` up to `L`; on success the cell holds what `p` answered and the rounds that follow run from the state `p` left
(`hrest`: they are `k a` there — `Q` is what is known of that state, e.g. the bound when `m` is `Safe`); on a failure `Pop` and
the error of the sequence, the result untouched; a panic of `p` is a panic -/
theorem seq_cons {α γ : Type} (L : Nat) (env : Env ρ ε) (pend : ρ → Option ε → Bytes) (val : α → ResultV → Prop)
    (valk : γ → ResultV → Prop) (all : List (GoParser ρ ε)) (result : ResultV) (p : GoParser ρ ε) (m : Pars.P α)
    (hp : SimPUpTo L pend val p m) (ps : List (GoParser ρ ε)) (k : α → Pars.P γ)
    (i : Nat) (v : List ResultV) (hi : i < v.length) (g : State ρ ε) (h : Inv g) (hb : Pars.Fr L [] 0 (absState pend g))
    (Q : PS → Prop) (hQ : Q (m.run' (absState pend g)).2)
    (hrest : ∀ a g2 r2, val a r2 → Inv g2 → Q (absState pend g2) →
      Agree pend valk
        (rangeLoopIdx (parsSeq_body1 env all result) (parsSeq_exit1 env all result) ((i : Int) + 1) ps (g2, v.set i r2))
        ((k a).run' (absState pend g2))) :
    Agree pend valk (rangeLoopIdx (parsSeq_body1 env all result) (parsSeq_exit1 env all result) (i : Int) (p :: ps) (g, v))
      ((member m >>= k).run' (absState pend g)) := by
  have h1 := hp g v[i] h hb
  rw [Pars.run_bind, run_member]
  generalize m.run' (absState pend g) = r at h1 hQ
  obtain ⟨o, s'⟩ := r
  cases o with
  | ok a =>
    obtain ⟨g2, r2, hp2, hv, hinv2, habs2⟩ := h1
    have := hrest a g2 r2 hv hinv2 (by rw [habs2]; exact hQ)
    rw [habs2] at this
    have hstep : rangeLoopIdx (parsSeq_body1 env all result) (parsSeq_exit1 env all result) (i : Int) (p :: ps) (g, v) =
        rangeLoopIdx (parsSeq_body1 env all result) (parsSeq_exit1 env all result) ((i : Int) + 1) ps (g2, v.set i r2) := by
      simp [rangeLoopIdx, parsSeq_body1, goIdx_nat v i hi, goSet_nat v i hi, hp2]
    rw [hstep]
    exact this
  | error e =>
    cases e with
    | fail =>
      obtain ⟨g2, r2, e2, hp2, hinv2, habs2⟩ := h1
      obtain ⟨g3, hpo, hinv3, habs3⟩ := pop_sim pend g2 hinv2
      dsimp only
      rw [← habs2, habs3]
      exact ⟨g3, result, env.mkErr,
        by simp [rangeLoopIdx, parsSeq_body1, goIdx_nat v i hi, goSet_nat v i hi, hp2, hpo], hinv3, rfl⟩
    | panic =>
      have : p g v[i] = none := h1
      show rangeLoopIdx _ _ (i : Int) (p :: ps) (g, v) = none
      simp [rangeLoopIdx, parsSeq_body1, goIdx_nat v i hi, this]

/-- `pars.Seq(p, q)` = `ModParse.seq2`, BOUNDED: `Push`; `p` from there, `q` from where `p` left the state; the first failing member
`Pop`s and its failure is the failure of the sequence (the frames it leaked stay, exactly as in the model); both succeeded:
`Drop`, and the result holds the two answers as its children, in the order of the parsers.  `p`'s model parser is `Safe`: the
bound must still hold where `q` starts. -/
theorem seq_simUpTo {α β : Type} (L : Nat) (env : Env ρ ε) (pend : ρ → Option ε → Bytes)
    (va : α → ResultV → Prop) (vb : β → ResultV → Prop) (p q : GoParser ρ ε) (m : Pars.P α) (n : Pars.P β)
    (hp : SimPUpTo L pend va p m) (hm : Pars.Safe m) (hq : SimPUpTo L pend vb q n) :
    SimPUpTo L pend (fun ab r => ∃ ra rb, r = .children [ra, rb] ∧ va ab.1 ra ∧ vb ab.2 rb)
      (parsSeq env [p, q]) (ModParse.seq2 m n) := by
  intro g res h hb
  obtain ⟨g1, hpu, hinv1, habs1, _⟩ := statePush_spec pend g h
  have hb1 : Pars.Fr L [] 0 (absState pend g1) := by rw [habs1]; exact fr_push hb
  rw [seq2_eq, Pars.run_bind, Pars.run_push]; dsimp only
  rw [← habs1]
  have hgo : parsSeq env [p, q] g res =
      rangeLoopIdx (parsSeq_body1 env [p, q] res) (parsSeq_exit1 env [p, q] res) ((0 : Nat) : Int) [p, q]
        (g1, [ResultV.unset, ResultV.unset]) := by
    simp [parsSeq, hpu, List.replicate]
  rw [hgo]
  refine seq_cons L env pend va _ _ res p m hp [q] _ 0 _ (by simp) g1 hinv1 hb1 (Pars.Fr L [] 0) (fr_keeps hm hb1) ?_
  intro a g2 ra hva hinv2 hb2
  refine seq_cons L env pend vb _ _ res q n hq [] _ 1 _ (by simp) g2 hinv2 hb2 (fun _ => True) trivial ?_
  intro b g3 rb hvb hinv3 _
  exact seq_nil env pend _ _ res _ _ g3 hinv3 (a, b) ⟨ra, rb, by simp, hva, hvb⟩

/-- `pars.Seq(p, q, r)` = `ModParse.seq3`, BOUNDED (as `seq_simUpTo`, three members; the first two `Safe`) -/
theorem seq3_simUpTo {α β γ : Type} (L : Nat) (env : Env ρ ε) (pend : ρ → Option ε → Bytes)
    (va : α → ResultV → Prop) (vb : β → ResultV → Prop) (vc : γ → ResultV → Prop) (p q r : GoParser ρ ε)
    (m : Pars.P α) (n : Pars.P β) (o : Pars.P γ)
    (hp : SimPUpTo L pend va p m) (hm : Pars.Safe m) (hq : SimPUpTo L pend vb q n) (hn : Pars.Safe n)
    (hr : SimPUpTo L pend vc r o) :
    SimPUpTo L pend (fun abc x => ∃ ra rb rc, x = .children [ra, rb, rc] ∧ va abc.1 ra ∧ vb abc.2.1 rb ∧ vc abc.2.2 rc)
      (parsSeq env [p, q, r]) (ModParse.seq3 m n o) := by
  intro g res h hb
  obtain ⟨g1, hpu, hinv1, habs1, _⟩ := statePush_spec pend g h
  have hb1 : Pars.Fr L [] 0 (absState pend g1) := by rw [habs1]; exact fr_push hb
  rw [seq3_eq, Pars.run_bind, Pars.run_push]; dsimp only
  rw [← habs1]
  have hgo : parsSeq env [p, q, r] g res =
      rangeLoopIdx (parsSeq_body1 env [p, q, r] res) (parsSeq_exit1 env [p, q, r] res) ((0 : Nat) : Int) [p, q, r]
        (g1, [ResultV.unset, ResultV.unset, ResultV.unset]) := by
    simp [parsSeq, hpu, List.replicate]
  rw [hgo]
  refine seq_cons L env pend va _ _ res p m hp [q, r] _ 0 _ (by simp) g1 hinv1 hb1 (Pars.Fr L [] 0) (fr_keeps hm hb1) ?_
  intro a g2 ra hva hinv2 hb2
  refine seq_cons L env pend vb _ _ res q n hq [r] _ 1 _ (by simp) g2 hinv2 hb2 (Pars.Fr L [] 0) (fr_keeps hn hb2) ?_
  intro b g3 rb hvb hinv3 hb3
  refine seq_cons L env pend vc _ _ res r o hr [] _ 2 _ (by simp) g3 hinv3 hb3 (fun _ => True) trivial ?_
  intro c g4 rc hvc hinv4 _
  exact seq_nil env pend _ _ res _ _ g4 hinv4 (a, b, c) ⟨ra, rb, rc, by simp, hva, hvb, hvc⟩

end Seq
end Gts.Bridge
