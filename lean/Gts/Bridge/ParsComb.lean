/-
  C07 / C06 bridge (DESIGN.md 4.1a): four COMBINATORS of go-pars v1.1.6 — `Parser.Map`, `pars.Dry`, `pars.Maybe`, `pars.Any` —
  regenerated statement by statement on every run (`Gts/Gen/Pars.lean`, generator go2lean/gparsfn.go), with the parsers
  they are built from as parameters (`GoParser`: a function on the regenerated state that may panic), are
  `ModParse.mapP` and `LocParse.anyOf` of the model — the two combinators every location / modifier / locator parser
  of C06 / C07 is built from — and the readings `dryP` / `maybeP` the GenBank model inlines.

  `SimP pend val p m`: the Go parser `p` simulates the model parser `m` from every state that meets `Inv` (`Agree`,
  Gts/Bridge/ParsPrim.lean).  `map_sim`, `dry_sim`, `maybe_sim`, `any_sim`: the combinator applied to parsers that
  simulate model parsers simulates the model's combinator applied to those — so `Push` / `Pop` / `Drop` / `Pushed` stand
  where the model has them: `Any` tries each alternative from wherever the previous one left the state and gives up at
  once when a failing alternative left nothing pushed (the HARD failure the GenBank reader relies on); `Map` pops on a
  failure and drops BEFORE the mapping runs.  `map_sim_at` is the pointwise form (a fuelled parser simulates only where
  the fuel suffices); `point_sim`: `pars.Parser(pars.Int).Map(…)` of location.go is `LocParse.point`.
  `pars.Seq`, `Many`, `Exact`, `Until(parser)`, `Quoted` stay with the facts (`pars_<Function>`).
-/
import Gts.Bridge.ParsPrim
import Gts.Lemmas.Fuel
namespace Gts.Bridge
open Gts.Gen.GoPars
open Gts.Pars (PS Bytes Err)

section Comb
variable {ρ ε : Type}

/-- a Go parser held in a variable simulates a model parser: from every state that meets the invariant -/
def SimP {α : Type} (pend : ρ → Option ε → Bytes) (val : α → ResultV → Prop) (p : GoParser ρ ε) (m : Pars.P α) : Prop :=
  ∀ (g : State ρ ε) (res : ResultV), Inv g → Agree pend val (p g res) (m.run' (absState pend g))

/-- `Parser.Map(f)` = `ModParse.mapP` at one state: `Push`, the parser, `Pop` + its error on a failure, `Drop` + the mapping on
success — for a parser that simulates a model parser FROM THE PUSHED STATE and a mapping that cannot fail on what that parser
answers -/
theorem map_sim_at {α β : Type} (pend : ρ → Option ε → Bytes) (val : α → ResultV → Prop) (val' : β → ResultV → Prop)
    (p : GoParser ρ ε) (m : Pars.P α) (g : State ρ ε) (res : ResultV) (h : Inv g)
    (hp : ∀ g1, Inv g1 → (absState pend g1).rest = (absState pend g).rest →
      Agree pend val (p g1 res) (m.run' (absState pend g1)))
    (f : ResultV → ResultV × Option ε) (fn : α → β) (hf : ∀ a r, val a r → (f r).2 = none ∧ val' (fn a) (f r).1) :
    Agree pend val' (parsMap p f g res) ((ModParse.mapP m fn).run' (absState pend g)) := by
  obtain ⟨g1, hpu, hinv1, habs1, _⟩ := statePush_spec pend g h
  have h1 := hp g1 hinv1 (by rw [habs1])
  unfold ModParse.mapP
  rw [Pars.run_bind, Pars.run_push]; dsimp only
  rw [Pars.run_bind, Pars.run_attempt, ← habs1]
  generalize m.run' (absState pend g1) = r at h1
  obtain ⟨o, s'⟩ := r
  cases o with
  | ok a =>
    obtain ⟨g2, res2, hp2, hv, hinv2, habs2⟩ := h1
    obtain ⟨g3, hd, hinv3, habs3⟩ := drop_sim pend g2 hinv2
    dsimp only
    rw [Pars.run_bind, ← habs2, habs3]
    obtain ⟨hf1, hf2⟩ := hf a res2 hv
    refine ⟨g3, (f res2).1, ?_, hf2, hinv3, rfl⟩
    simp [parsMap, hpu, hp2, hd, hf1]
  | error e =>
    cases e with
    | fail =>
      obtain ⟨g2, res2, e2, hp2, hinv2, habs2⟩ := h1
      obtain ⟨g3, hpo, hinv3, habs3⟩ := pop_sim pend g2 hinv2
      dsimp only
      rw [Pars.run_bind, ← habs2, habs3]
      exact ⟨g3, res2, e2, by simp [parsMap, hpu, hp2, hpo], hinv3, rfl⟩
    | panic =>
      have : p g1 res = none := h1
      show parsMap p f g res = none
      simp [parsMap, hpu, this]

/-- `Parser.Map(f)` = `ModParse.mapP`, for every parser that simulates a model parser from every state -/
theorem map_sim {α β : Type} (pend : ρ → Option ε → Bytes) (val : α → ResultV → Prop) (val' : β → ResultV → Prop)
    (p : GoParser ρ ε) (m : Pars.P α) (hp : SimP pend val p m)
    (f : ResultV → ResultV × Option ε) (fn : α → β) (hf : ∀ a r, val a r → (f r).2 = none ∧ val' (fn a) (f r).1) :
    SimP pend val' (parsMap p f) (ModParse.mapP m fn) :=
  fun g res h => map_sim_at pend val val' p m g res h (fun g1 h1 _ => hp g1 res h1) f fn hf

/-- how the model reads `pars.Dry(q)` (inlined in `GenBank.fieldPadding`): run `q`, go back, keep its verdict -/
def dryP {α : Type} (m : Pars.P α) : Pars.P α := do
  Pars.push
  match ← Pars.attempt m with
  | some a => do Pars.pop; pure a
  | none => do Pars.pop; Pars.fail

/-- how the model reads `pars.Maybe(q)` (inlined in `GenBank.divisionParser`): a failure of `q` is "nothing", with the position
restored — unless `q` cleared the saved positions -/
def maybeP {α : Type} (m : Pars.P α) : Pars.P (Option α) := do
  Pars.push
  match ← Pars.attempt m with
  | some a => do Pars.drop; pure (some a)
  | none => do
    if !(← Pars.pushed) then Pars.fail
    Pars.pop
    pure none

/-- `pars.Dry(q)` = `dryP`: `Pop` on both outcomes -/
theorem dry_sim {α : Type} (pend : ρ → Option ε → Bytes) (val : α → ResultV → Prop)
    (p : GoParser ρ ε) (m : Pars.P α) (hp : SimP pend val p m) : SimP pend val (parsDry p) (dryP m) := by
  intro g res h
  obtain ⟨g1, hpu, hinv1, habs1, _⟩ := statePush_spec pend g h
  have h1 := hp g1 res hinv1
  unfold dryP
  rw [Pars.run_bind, Pars.run_push]; dsimp only
  rw [Pars.run_bind, Pars.run_attempt, ← habs1]
  generalize m.run' (absState pend g1) = r at h1
  obtain ⟨o, s'⟩ := r
  cases o with
  | ok a =>
    obtain ⟨g2, res2, hp2, hv, hinv2, habs2⟩ := h1
    obtain ⟨g3, hpo, hinv3, habs3⟩ := pop_sim pend g2 hinv2
    dsimp only
    rw [Pars.run_bind, ← habs2, habs3]
    exact ⟨g3, res2, by simp [parsDry, hpu, hp2, hpo], hv, hinv3, rfl⟩
  | error e =>
    cases e with
    | fail =>
      obtain ⟨g2, res2, e2, hp2, hinv2, habs2⟩ := h1
      obtain ⟨g3, hpo, hinv3, habs3⟩ := pop_sim pend g2 hinv2
      dsimp only
      rw [Pars.run_bind, ← habs2, habs3]
      exact ⟨g3, res2, e2, by simp [parsDry, hpu, hp2, hpo], hinv3, rfl⟩
    | panic =>
      have : p g1 res = none := h1
      show parsDry p g res = none
      simp [parsDry, hpu, this]

/-- `pars.Maybe(q)` = `maybeP`: success `Drop`s; a failure `Pop`s and is no error — unless nothing is pushed any more -/
theorem maybe_sim {α : Type} (env : Env ρ ε) (pend : ρ → Option ε → Bytes) (val : α → ResultV → Prop)
    (p : GoParser ρ ε) (m : Pars.P α) (hp : SimP pend val p m) :
    SimP pend (fun o r => ∀ a, o = some a → val a r) (parsMaybe env p) (maybeP m) := by
  intro g res h
  obtain ⟨g1, hpu, hinv1, habs1, _⟩ := statePush_spec pend g h
  have h1 := hp g1 res hinv1
  unfold maybeP
  rw [Pars.run_bind, Pars.run_push]; dsimp only
  rw [Pars.run_bind, Pars.run_attempt, ← habs1]
  generalize m.run' (absState pend g1) = r at h1
  obtain ⟨o, s'⟩ := r
  cases o with
  | ok a =>
    obtain ⟨g2, res2, hp2, hv, hinv2, habs2⟩ := h1
    obtain ⟨g3, hd, hinv3, habs3⟩ := drop_sim pend g2 hinv2
    dsimp only
    rw [Pars.run_bind, ← habs2, habs3]
    exact ⟨g3, res2, by simp [parsMaybe, hpu, hp2, hd], by intro b hb; cases hb; exact hv, hinv3, rfl⟩
  | error e =>
    cases e with
    | fail =>
      obtain ⟨g2, res2, e2, hp2, hinv2, habs2⟩ := h1
      have hpushed := statePushed_eq pend g2 hinv2
      rw [habs2] at hpushed
      dsimp only
      rw [Pars.run_bind, Pars.run_pushed]; dsimp only
      cases hemp : s'.stk.isEmpty with
      | true =>
        rw [hemp] at hpushed
        simp only [Bool.not_true, Bool.not_false, if_true, Pars.run_bind, Pars.run_fail]
        exact ⟨g2, res2, env.mkErr, by simp [parsMaybe, hpu, hp2, hpushed], hinv2, habs2⟩
      | false =>
        rw [hemp] at hpushed
        obtain ⟨g3, hpo, hinv3, habs3⟩ := pop_sim pend g2 hinv2
        simp only [Bool.not_false, Bool.not_true, Bool.false_eq_true, if_false, Pars.run_bind, Pars.run_pure]
        rw [← habs2, habs3]
        exact ⟨g3, res2, by simp [parsMaybe, hpu, hp2, hpushed, hpo], (show ∀ a : α, (none : Option α) = some a → val a res2 from fun b hb => nomatch hb), hinv3, rfl⟩
    | panic =>
      have : p g1 res = none := h1
      show parsMaybe env p g res = none
      simp [parsMaybe, hpu, this]

/-- the loop of `pars.Any` = `anyOf.go`: every alternative from wherever the previous one left the state; the first success
drops the frame; a failure with nothing pushed any more is final; all failed: `Pop` -/
theorem any_loop {α : Type} (env : Env ρ ε) (pend : ρ → Option ε → Bytes) (val : α → ResultV → Prop)
    (all : List (GoParser ρ ε)) :
    ∀ (ps : List (GoParser ρ ε)) (ms : List (Pars.P α)), Pars.All2 (fun p m => SimP pend val p m) ps ms →
      ∀ (g : State ρ ε) (res : ResultV) (err : Option ε), Inv g →
        Agree pend val (rangeLoop (parsAny_body1 env all) (parsAny_exit1 env all) ps (g, res, err))
          ((LocParse.anyOf.go ms).run' (absState pend g))
  | [], [], _ => by
    intro g res err h
    obtain ⟨g1, hpo, hinv1, habs1⟩ := pop_sim pend g h
    rw [LocParse.anyOf.go, Pars.run_bind, habs1]
    exact ⟨g1, res, env.mkErr, by simp [rangeLoop, parsAny_exit1, hpo], hinv1, rfl⟩
  | p :: ps, m :: ms, .cons hpm hrest => by
    intro g res err h
    have h1 := hpm g res h
    rw [Pars.run_go_cons]
    generalize m.run' (absState pend g) = r at h1
    obtain ⟨o, s'⟩ := r
    cases o with
    | ok a =>
      obtain ⟨g2, res2, hp2, hv, hinv2, habs2⟩ := h1
      obtain ⟨g3, hd, hinv3, habs3⟩ := stateDrop_spec pend g2 hinv2
      exact ⟨g3, res2, by simp [rangeLoop, parsAny_body1, hp2, hd], hv, hinv3, by rw [habs3, habs2]⟩
    | error e =>
      cases e with
      | fail =>
        obtain ⟨g2, res2, e2, hp2, hinv2, habs2⟩ := h1
        have hpushed := statePushed_eq pend g2 hinv2
        rw [habs2] at hpushed
        dsimp only
        cases hemp : s'.stk.isEmpty with
        | true =>
          rw [hemp] at hpushed
          simp only [if_true]
          exact ⟨g2, res2, env.mkErr, by simp [rangeLoop, parsAny_body1, hp2, hpushed], hinv2, habs2⟩
        | false =>
          rw [hemp] at hpushed
          simp only [Bool.false_eq_true, if_false]
          have ih := any_loop env pend val all ps ms hrest g2 res2 (some e2) hinv2
          rw [habs2] at ih
          have hstep : rangeLoop (parsAny_body1 env all) (parsAny_exit1 env all) (p :: ps) (g, res, err) =
              rangeLoop (parsAny_body1 env all) (parsAny_exit1 env all) ps (g2, res2, some e2) := by
            simp [rangeLoop, parsAny_body1, hp2, hpushed]
          rw [hstep]
          exact ih
      | panic =>
        have : p g res = none := h1
        show rangeLoop _ _ (p :: ps) (g, res, err) = none
        simp [rangeLoop, parsAny_body1, this]

/-- `pars.Any(q…)` = `LocParse.anyOf`: for every list of parsers that simulate model parsers one by one -/
theorem any_sim {α : Type} (env : Env ρ ε) (pend : ρ → Option ε → Bytes) (val : α → ResultV → Prop)
    (ps : List (GoParser ρ ε)) (ms : List (Pars.P α)) (h2 : Pars.All2 (fun p m => SimP pend val p m) ps ms) :
    SimP pend val (parsAny env ps) (LocParse.anyOf ms) := by
  intro g res h
  obtain ⟨g1, hpu, hinv1, habs1, _⟩ := statePush_spec pend g h
  have := any_loop env pend val ps ps ms h2 g1 res none hinv1
  unfold LocParse.anyOf
  rw [Pars.run_bind, Pars.run_push]; dsimp only
  rw [← habs1]
  simpa [parsAny, hpu] using this

/-- `parsePoint = pars.Parser(pars.Int).Map(…)` (location.go) = `LocParse.point`: `Int` under `Map`, for every mapping that
turns the integer `n` into the value standing for `Point(n - 1)` and cannot fail -/
theorem point_sim (env : Env ρ ε) (pend : ρ → Option ε → Bytes) (hf : FillOk env pend) (he : EnvOk env)
    (val' : Loc → ResultV → Prop) (f : ResultV → ResultV × Option ε)
    (hmap : ∀ n, (f (ResultV.int n)).2 = none ∧ val' (.point (n - 1)) (f (ResultV.int n)).1)
    (g : State ρ ε) (h : Inv g) (fuel : Nat) (hfu : (absState pend g).rest.length < fuel) (res : ResultV) :
    Agree pend val' (parsMap (parsInt env fuel) f g res) (LocParse.point.run' (absState pend g)) := by
  have : LocParse.point.run' (absState pend g) = (ModParse.mapP Pars.int (fun v => Loc.point (v - 1))).run' (absState pend g) := by
    unfold LocParse.point ModParse.mapP
    rw [Pars.run_bind, Pars.run_bind]
    rcases Pars.push.run' (absState pend g) with ⟨o, s⟩
    cases o with
    | error e => rfl
    | ok u =>
      dsimp only
      rw [Pars.run_bind, Pars.run_bind]
      rcases (Pars.attempt Pars.int).run' s with ⟨o2, s2⟩
      cases o2 with
      | error e => rfl
      | ok v => cases v <;> rfl
  rw [this]
  refine map_sim_at pend (fun n r => r = ResultV.int n) val' (parsInt env fuel) Pars.int g res h ?_ f _ ?_
  · intro g1 h1 hr
    exact int_sim env pend hf he g1 h1 fuel (by rw [hr]; exact hfu) res
  · intro a r hr; subst hr; exact hmap a
end Comb

/-- `pars.Any('^', '$')` on the demo reader: the alternatives are `Byte` parsers, each simulates `ModParse.byte` -/
example : SimP demoPend (fun _ _ => True) (parsAny demoEnv [parsByte demoEnv 94, parsByte demoEnv 36])
    (LocParse.anyOf [ModParse.byte 94, ModParse.byte 36]) :=
  any_sim demoEnv demoPend _ _ _
    (.cons (fun g res h => by
        have := byte_sim demoEnv demoPend demo_fillOk 94 g h res
        revert this; generalize (ModParse.byte 94).run' _ = m; obtain ⟨o, s⟩ := m
        cases o with
        | ok a => exact fun ⟨g', r, h1, _, h3, h4⟩ => ⟨g', r, h1, trivial, h3, h4⟩
        | error e => cases e <;> exact id)
      (.cons (fun g res h => by
        have := byte_sim demoEnv demoPend demo_fillOk 36 g h res
        revert this; generalize (ModParse.byte 36).run' _ = m; obtain ⟨o, s⟩ := m
        cases o with
        | ok a => exact fun ⟨g', r, h1, _, h3, h4⟩ => ⟨g', r, h1, trivial, h3, h4⟩
        | error e => cases e <;> exact id) .nil))

/-- … and run: on `$x` the first alternative fails, the second one takes the `$`; nothing stays pushed -/
example : (parsAny demoEnv [parsByte demoEnv 94, parsByte demoEnv 36] (freshState [36, 120] []) .unset).map
    (fun t => (t.2.1, t.2.2, (absState demoPend t.1).rest, (absState demoPend t.1).stk)) =
    some (.token [36], none, [120], []) := by decide
end Gts.Bridge
