/-
  C07 / C06 bridge (DESIGN.md 4.1a): four COMBINATORS of go-pars v1.1.6 — `Parser.Map`, `pars.Dry`, `pars.Maybe`, `pars.Any` —
  regenerated statement by statement on every run (`Gts/Gen/Pars.lean`, generator go2lean/gparsfn.go), with the parsers
  they are built from as parameters (`GoParser`: a function on the regenerated state that may panic), are
  `ModParse.mapP` and `LocParse.anyOf` of the model — the two combinators every location / modifier / locator parser
  of C06 / C07 is built from — and the readings `dryP` / `maybeP` the GenBank model inlines.

  `SimP pend val p m`: the Go parser `p` simulates the model parser `m` from every state that meets `Inv` (`Agree`,
  Gts/Bridge/ParsPrim.lean).  `map_sim`, `dry_sim`, `maybe_sim`, `any_sim`: the combinator applied to parsers that
  simulate model parsers simulates the model's combinator applied to those — so `Push` / `Pop` / `Drop` / `Pushed` stand
  where the model has them: `Any` tries each alternative from wherever the previous one left the state and gives up at
  once when a failing alternative left nothing pushed (the HARD failure the GenBank reader relies on); `Map` pops on a
  failure and drops BEFORE the mapping runs.  `map_sim_at` is the pointwise form (a fuelled parser simulates only where
  the fuel suffices); `point_sim`: `pars.Parser(pars.Int).Map(…)` of location.go is `LocParse.point`.
  `Many`, `Quoted` stay with the facts (`pars_<Function>`); `pars.Seq` / `Child` / `Exact` are bridged in
  `Bridge/ParsSeq.lean`, `Until(parser)` in `Bridge/ParsUntil.lean` (added later).

  CORRECTED (audit S5).  `SimP` asks for agreement from EVERY `Inv` state; every fuelled primitive (`parsInt env fuel`, `parsSpaces`,
  `parsWord`, `parsLine`, `parsUntil*`) simulates its model parser only where fewer bytes than the fuel are left, so `SimP` is FALSE
  for every parser that contains one (`int_not_simP`) and `map_sim`, `dry_sim`, `maybe_sim`, `any_sim` — true as stated — reach
  loop-free inner parsers only, NOT "every location / modifier / locator parser".  The section "bounded simulation" has the forms
  that do: `SimPUpTo L` (every `Inv` state whose abstraction meets `Pars.Fr L [] 0`: position and every saved position within `L`,
  sorted), `map_simUpTo`, `dry_simUpTo`, `maybe_simUpTo`, `any_simUpTo`, the primitives' `int_simUpTo` / `tokens_simUpTo` /
  `byte_simUpTo` for `L < fuel`, and `any_int_point_simUpTo`: the shape of `ParseLocation` with an `Int`-based alternative.
-/
import Gts.Bridge.ParsPrim
import Gts.Lemmas.Fuel
namespace Gts.Bridge
open Gts.Gen.GoPars
open Gts.Pars (PS Bytes Err)

section Comb
variable {ρ ε : Type}

/-- a Go parser held in a variable simulates a model parser: from every state that meets the invariant -/
def SimP {α : Type} (pend : ρ → Option ε → Bytes) (val : α → ResultV → Prop) (p : GoParser ρ ε) (m : Pars.P α) : Prop :=
  ∀ (g : State ρ ε) (res : ResultV), Inv g → Agree pend val (p g res) (m.run' (absState pend g))

/-- `Parser.Map(f)` = `ModParse.mapP` at one state: `Push`, the parser, `Pop` + its error on a failure, `Drop` + the mapping on
success — for a parser that simulates a model parser FROM THE PUSHED STATE and a mapping that cannot fail on what that parser
answers -/
theorem map_sim_at {α β : Type} (pend : ρ → Option ε → Bytes) (val : α → ResultV → Prop) (val' : β → ResultV → Prop)
    (p : GoParser ρ ε) (m : Pars.P α) (g : State ρ ε) (res : ResultV) (h : Inv g)
    (hp : ∀ g1, Inv g1 → (absState pend g1).rest = (absState pend g).rest →
      Agree pend val (p g1 res) (m.run' (absState pend g1)))
    (f : ResultV → ResultV × Option ε) (fn : α → β) (hf : ∀ a r, val a r → (f r).2 = none ∧ val' (fn a) (f r).1) :
    Agree pend val' (parsMap p f g res) ((ModParse.mapP m fn).run' (absState pend g)) := by
  obtain ⟨g1, hpu, hinv1, habs1, _⟩ := statePush_spec pend g h
  have h1 := hp g1 hinv1 (by rw [habs1])
  unfold ModParse.mapP
  rw [Pars.run_bind, Pars.run_push]; dsimp only
  rw [Pars.run_bind, Pars.run_attempt, ← habs1]
  generalize m.run' (absState pend g1) = r at h1
  obtain ⟨o, s'⟩ := r
  cases o with
  | ok a =>
    obtain ⟨g2, res2, hp2, hv, hinv2, habs2⟩ := h1
    obtain ⟨g3, hd, hinv3, habs3⟩ := drop_sim pend g2 hinv2
    dsimp only
    rw [Pars.run_bind, ← habs2, habs3]
    obtain ⟨hf1, hf2⟩ := hf a res2 hv
    refine ⟨g3, (f res2).1, ?_, hf2, hinv3, rfl⟩
    simp [parsMap, hpu, hp2, hd, hf1]
  | error e =>
    cases e with
    | fail =>
      obtain ⟨g2, res2, e2, hp2, hinv2, habs2⟩ := h1
      obtain ⟨g3, hpo, hinv3, habs3⟩ := pop_sim pend g2 hinv2
      dsimp only
      rw [Pars.run_bind, ← habs2, habs3]
      exact ⟨g3, res2, e2, by simp [parsMap, hpu, hp2, hpo], hinv3, rfl⟩
    | panic =>
      have : p g1 res = none := h1
      show parsMap p f g res = none
      simp [parsMap, hpu, this]

/-- `Parser.Map(f)` = `ModParse.mapP`, for every parser that simulates a model parser from every state -/
theorem map_sim {α β : Type} (pend : ρ → Option ε → Bytes) (val : α → ResultV → Prop) (val' : β → ResultV → Prop)
    (p : GoParser ρ ε) (m : Pars.P α) (hp : SimP pend val p m)
    (f : ResultV → ResultV × Option ε) (fn : α → β) (hf : ∀ a r, val a r → (f r).2 = none ∧ val' (fn a) (f r).1) :
    SimP pend val' (parsMap p f) (ModParse.mapP m fn) :=
  fun g res h => map_sim_at pend val val' p m g res h (fun g1 h1 _ => hp g1 res h1) f fn hf

/-- how the model reads `pars.Dry(q)` (inlined in `GenBank.fieldPadding`): run `q`, go back, keep its verdict -/
def dryP {α : Type} (m : Pars.P α) : Pars.P α := do
  Pars.push
  match ← Pars.attempt m with
  | some a => do Pars.pop; pure a
  | none => do Pars.pop; Pars.fail

/-- how the model reads `pars.Maybe(q)` (inlined in `GenBank.divisionParser`): a failure of `q` is "nothing", with the position
restored — unless `q` cleared the saved positions -/
def maybeP {α : Type} (m : Pars.P α) : Pars.P (Option α) := do
  Pars.push
  match ← Pars.attempt m with
  | some a => do Pars.drop; pure (some a)
  | none => do
    if !(← Pars.pushed) then Pars.fail
    Pars.pop
    pure none

/-- `pars.Dry(q)` = `dryP`: `Pop` on both outcomes -/
theorem dry_sim {α : Type} (pend : ρ → Option ε → Bytes) (val : α → ResultV → Prop)
    (p : GoParser ρ ε) (m : Pars.P α) (hp : SimP pend val p m) : SimP pend val (parsDry p) (dryP m) := by
  intro g res h
  obtain ⟨g1, hpu, hinv1, habs1, _⟩ := statePush_spec pend g h
  have h1 := hp g1 res hinv1
  unfold dryP
  rw [Pars.run_bind, Pars.run_push]; dsimp only
  rw [Pars.run_bind, Pars.run_attempt, ← habs1]
  generalize m.run' (absState pend g1) = r at h1
  obtain ⟨o, s'⟩ := r
  cases o with
  | ok a =>
    obtain ⟨g2, res2, hp2, hv, hinv2, habs2⟩ := h1
    obtain ⟨g3, hpo, hinv3, habs3⟩ := pop_sim pend g2 hinv2
    dsimp only
    rw [Pars.run_bind, ← habs2, habs3]
    exact ⟨g3, res2, by simp [parsDry, hpu, hp2, hpo], hv, hinv3, rfl⟩
  | error e =>
    cases e with
    | fail =>
      obtain ⟨g2, res2, e2, hp2, hinv2, habs2⟩ := h1
      obtain ⟨g3, hpo, hinv3, habs3⟩ := pop_sim pend g2 hinv2
      dsimp only
      rw [Pars.run_bind, ← habs2, habs3]
      exact ⟨g3, res2, e2, by simp [parsDry, hpu, hp2, hpo], hinv3, rfl⟩
    | panic =>
      have : p g1 res = none := h1
      show parsDry p g res = none
      simp [parsDry, hpu, this]

/-- `pars.Maybe(q)` = `maybeP`: success `Drop`s; a failure `Pop`s and is no error — unless nothing is pushed any more -/
theorem maybe_sim {α : Type} (env : Env ρ ε) (pend : ρ → Option ε → Bytes) (val : α → ResultV → Prop)
    (p : GoParser ρ ε) (m : Pars.P α) (hp : SimP pend val p m) :
    SimP pend (fun o r => ∀ a, o = some a → val a r) (parsMaybe env p) (maybeP m) := by
  intro g res h
  obtain ⟨g1, hpu, hinv1, habs1, _⟩ := statePush_spec pend g h
  have h1 := hp g1 res hinv1
  unfold maybeP
  rw [Pars.run_bind, Pars.run_push]; dsimp only
  rw [Pars.run_bind, Pars.run_attempt, ← habs1]
  generalize m.run' (absState pend g1) = r at h1
  obtain ⟨o, s'⟩ := r
  cases o with
  | ok a =>
    obtain ⟨g2, res2, hp2, hv, hinv2, habs2⟩ := h1
    obtain ⟨g3, hd, hinv3, habs3⟩ := drop_sim pend g2 hinv2
    dsimp only
    rw [Pars.run_bind, ← habs2, habs3]
    exact ⟨g3, res2, by simp [parsMaybe, hpu, hp2, hd], by intro b hb; cases hb; exact hv, hinv3, rfl⟩
  | error e =>
    cases e with
    | fail =>
      obtain ⟨g2, res2, e2, hp2, hinv2, habs2⟩ := h1
      have hpushed := statePushed_eq pend g2 hinv2
      rw [habs2] at hpushed
      dsimp only
      rw [Pars.run_bind, Pars.run_pushed]; dsimp only
      cases hemp : s'.stk.isEmpty with
      | true =>
        rw [hemp] at hpushed
        simp only [Bool.not_true, Bool.not_false, if_true, Pars.run_bind, Pars.run_fail]
        exact ⟨g2, res2, env.mkErr, by simp [parsMaybe, hpu, hp2, hpushed], hinv2, habs2⟩
      | false =>
        rw [hemp] at hpushed
        obtain ⟨g3, hpo, hinv3, habs3⟩ := pop_sim pend g2 hinv2
        simp only [Bool.not_false, Bool.not_true, Bool.false_eq_true, if_false, Pars.run_bind, Pars.run_pure]
        rw [← habs2, habs3]
        exact ⟨g3, res2, by simp [parsMaybe, hpu, hp2, hpushed, hpo], (show ∀ a : α, (none : Option α) = some a → val a res2 from fun b hb => nomatch hb), hinv3, rfl⟩
    | panic =>
      have : p g1 res = none := h1
      show parsMaybe env p g res = none
      simp [parsMaybe, hpu, this]

/-- the loop of `pars.Any` = `anyOf.go`: every alternative from wherever the previous one left the state; the first success
drops the frame; a failure with nothing pushed any more is final; all failed: `Pop` -/
theorem any_loop {α : Type} (env : Env ρ ε) (pend : ρ → Option ε → Bytes) (val : α → ResultV → Prop)
    (all : List (GoParser ρ ε)) :
    ∀ (ps : List (GoParser ρ ε)) (ms : List (Pars.P α)), Pars.All2 (fun p m => SimP pend val p m) ps ms →
      ∀ (g : State ρ ε) (res : ResultV) (err : Option ε), Inv g →
        Agree pend val (rangeLoop (parsAny_body1 env all) (parsAny_exit1 env all) ps (g, res, err))
          ((LocParse.anyOf.go ms).run' (absState pend g))
  | [], [], _ => by
    intro g res err h
    obtain ⟨g1, hpo, hinv1, habs1⟩ := pop_sim pend g h
    rw [LocParse.anyOf.go, Pars.run_bind, habs1]
    exact ⟨g1, res, env.mkErr, by simp [rangeLoop, parsAny_exit1, hpo], hinv1, rfl⟩
  | p :: ps, m :: ms, .cons hpm hrest => by
    intro g res err h
    have h1 := hpm g res h
    rw [Pars.run_go_cons]
    generalize m.run' (absState pend g) = r at h1
    obtain ⟨o, s'⟩ := r
    cases o with
    | ok a =>
      obtain ⟨g2, res2, hp2, hv, hinv2, habs2⟩ := h1
      obtain ⟨g3, hd, hinv3, habs3⟩ := stateDrop_spec pend g2 hinv2
      exact ⟨g3, res2, by simp [rangeLoop, parsAny_body1, hp2, hd], hv, hinv3, by rw [habs3, habs2]⟩
    | error e =>
      cases e with
      | fail =>
        obtain ⟨g2, res2, e2, hp2, hinv2, habs2⟩ := h1
        have hpushed := statePushed_eq pend g2 hinv2
        rw [habs2] at hpushed
        dsimp only
        cases hemp : s'.stk.isEmpty with
        | true =>
          rw [hemp] at hpushed
          simp only [if_true]
          exact ⟨g2, res2, env.mkErr, by simp [rangeLoop, parsAny_body1, hp2, hpushed], hinv2, habs2⟩
        | false =>
          rw [hemp] at hpushed
          simp only [Bool.false_eq_true, if_false]
          have ih := any_loop env pend val all ps ms hrest g2 res2 (some e2) hinv2
          rw [habs2] at ih
          have hstep : rangeLoop (parsAny_body1 env all) (parsAny_exit1 env all) (p :: ps) (g, res, err) =
              rangeLoop (parsAny_body1 env all) (parsAny_exit1 env all) ps (g2, res2, some e2) := by
            simp [rangeLoop, parsAny_body1, hp2, hpushed]
          rw [hstep]
          exact ih
      | panic =>
        have : p g res = none := h1
        show rangeLoop _ _ (p :: ps) (g, res, err) = none
        simp [rangeLoop, parsAny_body1, this]

/-- `pars.Any(q…)` = `LocParse.anyOf`: for every list of parsers that simulate model parsers one by one -/
theorem any_sim {α : Type} (env : Env ρ ε) (pend : ρ → Option ε → Bytes) (val : α → ResultV → Prop)
    (ps : List (GoParser ρ ε)) (ms : List (Pars.P α)) (h2 : Pars.All2 (fun p m => SimP pend val p m) ps ms) :
    SimP pend val (parsAny env ps) (LocParse.anyOf ms) := by
  intro g res h
  obtain ⟨g1, hpu, hinv1, habs1, _⟩ := statePush_spec pend g h
  have := any_loop env pend val ps ps ms h2 g1 res none hinv1
  unfold LocParse.anyOf
  rw [Pars.run_bind, Pars.run_push]; dsimp only
  rw [← habs1]
  simpa [parsAny, hpu] using this

/-! ### bounded simulation (audit S5)

`SimP` asks for agreement from EVERY state that meets `Inv`.  No parser that contains a fuelled primitive (`parsInt env fuel`,
`parsSpaces`, `parsWord`, `parsLine`, `parsUntil*`) has it: for every fuel there is a longer input, on which the generated loop is
left "as if its condition were false" (`int_not_simP` below).  So `map_sim`, `dry_sim`, `maybe_sim`, `any_sim` above — true as
stated — apply to loop-free inner parsers only (`pars.Any(" bp", " aa")`, `pars.Dry(pars.EOL)`).  `SimPUpTo L` is the form the
fuelled primitives DO have for `L < fuel`: agreement from every `Inv` state whose abstraction meets `Fr L [] 0` — the position
and EVERY saved position have at most `L` bytes left (an inner parser may `Pop` back to a saved position), and the saved
positions are sorted: the invariant of the never-panic proofs (Gts/Lemmas/ParsSafe.lean).  The combinators keep it: `Map`, `Dry`,
`Maybe` run their parser once, behind a `Push` (which keeps `Fr L [] 0`); `Any` runs each alternative from where the previous
one left the state, so its alternatives are asked to be `Safe` on the model side (every model parser of gts is:
`Pars.int_safe`, `byte_safe`, `anyOf_safe`, `mapP_safe`, …), which carries `Fr L [] 0` from one alternative to the next. -/

/-- the Go parser `p` simulates the model parser `m` from every state that meets `Inv` and whose abstraction has at most `L`
bytes left at the position and at every saved position, saved positions sorted (`Pars.Fr L [] 0`) -/
def SimPUpTo {α : Type} (L : Nat) (pend : ρ → Option ε → Bytes) (val : α → ResultV → Prop) (p : GoParser ρ ε)
    (m : Pars.P α) : Prop :=
  ∀ (g : State ρ ε) (res : ResultV), Inv g → Pars.Fr L [] 0 (absState pend g) →
    Agree pend val (p g res) (m.run' (absState pend g))

/-- the unbounded form gives every bounded one -/
theorem SimP.upTo {α : Type} {pend : ρ → Option ε → Bytes} {val : α → ResultV → Prop} {p : GoParser ρ ε} {m : Pars.P α}
    (h : SimP pend val p m) (L : Nat) : SimPUpTo L pend val p m := fun g res hi _ => h g res hi

/-- `Push` keeps the bound -/
theorem fr_push {L : Nat} {s : PS} (h : Pars.Fr L [] 0 s) : Pars.Fr L [] 0 ⟨s.rest, s.rest :: s.stk⟩ := by
  have : Pars.WP Pars.push (fun _ s' => Pars.Fr L [] 0 s') s := Pars.wp_push h (fun _ h' => h'.weaken)
  exact this

/-- a `Safe` model parser keeps the bound -/
theorem fr_keeps {α : Type} {m : Pars.P α} (hm : Pars.Safe m) {L : Nat} {s : PS} (h : Pars.Fr L [] 0 s) :
    Pars.Fr L [] 0 (m.run' s).2 := (hm L [] 0 s h).2

/-- `Parser.Map(f)` = `ModParse.mapP` at one state, for a parser that simulates FROM THE STATE `Push` LEAVES (`map_sim_at` asks for
every state with the same position) -/
theorem map_sim_pushed {α β : Type} (pend : ρ → Option ε → Bytes) (val : α → ResultV → Prop) (val' : β → ResultV → Prop)
    (p : GoParser ρ ε) (m : Pars.P α) (g : State ρ ε) (res : ResultV) (h : Inv g)
    (hp : ∀ g1, Inv g1 →
      absState pend g1 = ⟨(absState pend g).rest, (absState pend g).rest :: (absState pend g).stk⟩ →
      Agree pend val (p g1 res) (m.run' (absState pend g1)))
    (f : ResultV → ResultV × Option ε) (fn : α → β) (hf : ∀ a r, val a r → (f r).2 = none ∧ val' (fn a) (f r).1) :
    Agree pend val' (parsMap p f g res) ((ModParse.mapP m fn).run' (absState pend g)) := by
  obtain ⟨g1, hpu, hinv1, habs1, _⟩ := statePush_spec pend g h
  have h1 := hp g1 hinv1 habs1
  unfold ModParse.mapP
  rw [Pars.run_bind, Pars.run_push]; dsimp only
  rw [Pars.run_bind, Pars.run_attempt, ← habs1]
  generalize m.run' (absState pend g1) = r at h1
  obtain ⟨o, s'⟩ := r
  cases o with
  | ok a =>
    obtain ⟨g2, res2, hp2, hv, hinv2, habs2⟩ := h1
    obtain ⟨g3, hd, hinv3, habs3⟩ := drop_sim pend g2 hinv2
    dsimp only
    rw [Pars.run_bind, ← habs2, habs3]
    obtain ⟨hf1, hf2⟩ := hf a res2 hv
    refine ⟨g3, (f res2).1, ?_, hf2, hinv3, rfl⟩
    simp [parsMap, hpu, hp2, hd, hf1]
  | error e =>
    cases e with
    | fail =>
      obtain ⟨g2, res2, e2, hp2, hinv2, habs2⟩ := h1
      obtain ⟨g3, hpo, hinv3, habs3⟩ := pop_sim pend g2 hinv2
      dsimp only
      rw [Pars.run_bind, ← habs2, habs3]
      exact ⟨g3, res2, e2, by simp [parsMap, hpu, hp2, hpo], hinv3, rfl⟩
    | panic =>
      have : p g1 res = none := h1
      show parsMap p f g res = none
      simp [parsMap, hpu, this]

/-- `Parser.Map(f)` = `ModParse.mapP`, BOUNDED: for a parser that simulates a model parser up to `L` (e.g. `parsInt env fuel`,
`L < fuel`).  What changed against `map_sim`: the hypothesis and the conclusion are `SimPUpTo L` instead of `SimP` — `SimP` is
false for every fuelled primitive, `SimPUpTo L` is what `int_sim` … give. -/
theorem map_simUpTo {α β : Type} (L : Nat) (pend : ρ → Option ε → Bytes) (val : α → ResultV → Prop)
    (val' : β → ResultV → Prop) (p : GoParser ρ ε) (m : Pars.P α) (hp : SimPUpTo L pend val p m)
    (f : ResultV → ResultV × Option ε) (fn : α → β) (hf : ∀ a r, val a r → (f r).2 = none ∧ val' (fn a) (f r).1) :
    SimPUpTo L pend val' (parsMap p f) (ModParse.mapP m fn) :=
  fun g res h hb => map_sim_pushed pend val val' p m g res h
    (fun g1 h1 ha => hp g1 res h1 (by rw [ha]; exact fr_push hb)) f fn hf

/-- `pars.Dry(q)` = `dryP`, BOUNDED (what changed against `dry_sim`: `SimPUpTo L` for `SimP`, on both sides) -/
theorem dry_simUpTo {α : Type} (L : Nat) (pend : ρ → Option ε → Bytes) (val : α → ResultV → Prop)
    (p : GoParser ρ ε) (m : Pars.P α) (hp : SimPUpTo L pend val p m) : SimPUpTo L pend val (parsDry p) (dryP m) := by
  intro g res h hb
  obtain ⟨g1, hpu, hinv1, habs1, _⟩ := statePush_spec pend g h
  have h1 := hp g1 res hinv1 (by rw [habs1]; exact fr_push hb)
  unfold dryP
  rw [Pars.run_bind, Pars.run_push]; dsimp only
  rw [Pars.run_bind, Pars.run_attempt, ← habs1]
  generalize m.run' (absState pend g1) = r at h1
  obtain ⟨o, s'⟩ := r
  cases o with
  | ok a =>
    obtain ⟨g2, res2, hp2, hv, hinv2, habs2⟩ := h1
    obtain ⟨g3, hpo, hinv3, habs3⟩ := pop_sim pend g2 hinv2
    dsimp only
    rw [Pars.run_bind, ← habs2, habs3]
    exact ⟨g3, res2, by simp [parsDry, hpu, hp2, hpo], hv, hinv3, rfl⟩
  | error e =>
    cases e with
    | fail =>
      obtain ⟨g2, res2, e2, hp2, hinv2, habs2⟩ := h1
      obtain ⟨g3, hpo, hinv3, habs3⟩ := pop_sim pend g2 hinv2
      dsimp only
      rw [Pars.run_bind, ← habs2, habs3]
      exact ⟨g3, res2, e2, by simp [parsDry, hpu, hp2, hpo], hinv3, rfl⟩
    | panic =>
      have : p g1 res = none := h1
      show parsDry p g res = none
      simp [parsDry, hpu, this]

/-- `pars.Maybe(q)` = `maybeP`, BOUNDED (what changed against `maybe_sim`: `SimPUpTo L` for `SimP`, on both sides) -/
theorem maybe_simUpTo {α : Type} (L : Nat) (env : Env ρ ε) (pend : ρ → Option ε → Bytes) (val : α → ResultV → Prop)
    (p : GoParser ρ ε) (m : Pars.P α) (hp : SimPUpTo L pend val p m) :
    SimPUpTo L pend (fun o r => ∀ a, o = some a → val a r) (parsMaybe env p) (maybeP m) := by
  intro g res h hb
  obtain ⟨g1, hpu, hinv1, habs1, _⟩ := statePush_spec pend g h
  have h1 := hp g1 res hinv1 (by rw [habs1]; exact fr_push hb)
  unfold maybeP
  rw [Pars.run_bind, Pars.run_push]; dsimp only
  rw [Pars.run_bind, Pars.run_attempt, ← habs1]
  generalize m.run' (absState pend g1) = r at h1
  obtain ⟨o, s'⟩ := r
  cases o with
  | ok a =>
    obtain ⟨g2, res2, hp2, hv, hinv2, habs2⟩ := h1
    obtain ⟨g3, hd, hinv3, habs3⟩ := drop_sim pend g2 hinv2
    dsimp only
    rw [Pars.run_bind, ← habs2, habs3]
    exact ⟨g3, res2, by simp [parsMaybe, hpu, hp2, hd], by intro b hb; cases hb; exact hv, hinv3, rfl⟩
  | error e =>
    cases e with
    | fail =>
      obtain ⟨g2, res2, e2, hp2, hinv2, habs2⟩ := h1
      have hpushed := statePushed_eq pend g2 hinv2
      rw [habs2] at hpushed
      dsimp only
      rw [Pars.run_bind, Pars.run_pushed]; dsimp only
      cases hemp : s'.stk.isEmpty with
      | true =>
        rw [hemp] at hpushed
        simp only [Bool.not_true, Bool.not_false, if_true, Pars.run_bind, Pars.run_fail]
        exact ⟨g2, res2, env.mkErr, by simp [parsMaybe, hpu, hp2, hpushed], hinv2, habs2⟩
      | false =>
        rw [hemp] at hpushed
        obtain ⟨g3, hpo, hinv3, habs3⟩ := pop_sim pend g2 hinv2
        simp only [Bool.not_false, Bool.not_true, Bool.false_eq_true, if_false, Pars.run_bind, Pars.run_pure]
        rw [← habs2, habs3]
        exact ⟨g3, res2, by simp [parsMaybe, hpu, hp2, hpushed, hpo], (show ∀ a : α, (none : Option α) = some a → val a res2 from fun b hb => nomatch hb), hinv3, rfl⟩
    | panic =>
      have : p g1 res = none := h1
      show parsMaybe env p g res = none
      simp [parsMaybe, hpu, this]

/-- the loop of `pars.Any`, BOUNDED: every alternative simulates up to `L` and its model parser is `Safe`, which carries the
bound to the state the next alternative starts from -/
theorem any_loopUpTo {α : Type} (L : Nat) (env : Env ρ ε) (pend : ρ → Option ε → Bytes) (val : α → ResultV → Prop)
    (all : List (GoParser ρ ε)) :
    ∀ (ps : List (GoParser ρ ε)) (ms : List (Pars.P α)),
      Pars.All2 (fun p m => SimPUpTo L pend val p m ∧ Pars.Safe m) ps ms →
      ∀ (g : State ρ ε) (res : ResultV) (err : Option ε), Inv g → Pars.Fr L [] 0 (absState pend g) →
        Agree pend val (rangeLoop (parsAny_body1 env all) (parsAny_exit1 env all) ps (g, res, err))
          ((LocParse.anyOf.go ms).run' (absState pend g))
  | [], [], _ => by
    intro g res err h _
    obtain ⟨g1, hpo, hinv1, habs1⟩ := pop_sim pend g h
    rw [LocParse.anyOf.go, Pars.run_bind, habs1]
    exact ⟨g1, res, env.mkErr, by simp [rangeLoop, parsAny_exit1, hpo], hinv1, rfl⟩
  | p :: ps, m :: ms, .cons hpm hrest => by
    intro g res err h hb
    have h1 := hpm.1 g res h hb
    have hk := fr_keeps hpm.2 hb
    rw [Pars.run_go_cons]
    generalize m.run' (absState pend g) = r at h1 hk
    obtain ⟨o, s'⟩ := r
    cases o with
    | ok a =>
      obtain ⟨g2, res2, hp2, hv, hinv2, habs2⟩ := h1
      obtain ⟨g3, hd, hinv3, habs3⟩ := stateDrop_spec pend g2 hinv2
      exact ⟨g3, res2, by simp [rangeLoop, parsAny_body1, hp2, hd], hv, hinv3, by rw [habs3, habs2]⟩
    | error e =>
      cases e with
      | fail =>
        obtain ⟨g2, res2, e2, hp2, hinv2, habs2⟩ := h1
        have hpushed := statePushed_eq pend g2 hinv2
        rw [habs2] at hpushed
        dsimp only
        cases hemp : s'.stk.isEmpty with
        | true =>
          rw [hemp] at hpushed
          simp only [if_true]
          exact ⟨g2, res2, env.mkErr, by simp [rangeLoop, parsAny_body1, hp2, hpushed], hinv2, habs2⟩
        | false =>
          rw [hemp] at hpushed
          simp only [Bool.false_eq_true, if_false]
          have ih := any_loopUpTo L env pend val all ps ms hrest g2 res2 (some e2) hinv2 (by rw [habs2]; exact hk)
          rw [habs2] at ih
          have hstep : rangeLoop (parsAny_body1 env all) (parsAny_exit1 env all) (p :: ps) (g, res, err) =
              rangeLoop (parsAny_body1 env all) (parsAny_exit1 env all) ps (g2, res2, some e2) := by
            simp [rangeLoop, parsAny_body1, hp2, hpushed]
          rw [hstep]
          exact ih
      | panic =>
        have : p g res = none := h1
        show rangeLoop _ _ (p :: ps) (g, res, err) = none
        simp [rangeLoop, parsAny_body1, this]

/-- `pars.Any(q…)` = `LocParse.anyOf`, BOUNDED: for every list of parsers that simulate model parsers up to `L`, one by one, the
model parsers `Safe`.  What changed against `any_sim`: `SimPUpTo L` for `SimP` on both sides (so alternatives built on `pars.Int`,
`Spaces`, `Word`, `Line`, `Until` qualify for `L < fuel`), and the added hypothesis `Safe` on the model alternatives — needed because
alternative `k+1` starts where alternative `k` left the state, and the bound must still hold there. -/
theorem any_simUpTo {α : Type} (L : Nat) (env : Env ρ ε) (pend : ρ → Option ε → Bytes) (val : α → ResultV → Prop)
    (ps : List (GoParser ρ ε)) (ms : List (Pars.P α))
    (h2 : Pars.All2 (fun p m => SimPUpTo L pend val p m ∧ Pars.Safe m) ps ms) :
    SimPUpTo L pend val (parsAny env ps) (LocParse.anyOf ms) := by
  intro g res h hb
  obtain ⟨g1, hpu, hinv1, habs1, _⟩ := statePush_spec pend g h
  have := any_loopUpTo L env pend val ps ps ms h2 g1 res none hinv1 (by rw [habs1]; exact fr_push hb)
  unfold LocParse.anyOf
  rw [Pars.run_bind, Pars.run_push]; dsimp only
  rw [← habs1]
  simpa [parsAny, hpu] using this

/-- THE PRIMITIVES GIVE `SimPUpTo`: `pars.Int` with more loop fuel than the bound -/
theorem int_simUpTo (L : Nat) (env : Env ρ ε) (pend : ρ → Option ε → Bytes) (hf : FillOk env pend) (he : EnvOk env)
    (fuel : Nat) (hfu : L < fuel) : SimPUpTo L pend (fun n r => r = ResultV.int n) (parsInt env fuel) Pars.int :=
  fun g res h hb => int_sim env pend hf he g h fuel (Nat.lt_of_le_of_lt hb.le hfu) res

/-- … `pars.Spaces`, `pars.Word(f)`, `pars.Line`, `pars.Until(filter)`, `pars.Until(byte)` likewise -/
theorem tokens_simUpTo (L : Nat) (env : Env ρ ε) (pend : ρ → Option ε → Bytes) (hf : FillOk env pend) (he : EnvOk env)
    (fuel : Nat) (hfu : L < fuel) (f : UInt8 → Bool) (e : UInt8) :
    SimPUpTo L pend (fun p r => r = ResultV.token p) (parsSpaces env fuel) Pars.spaces ∧
    SimPUpTo L pend (fun p r => r = ResultV.token p) (parsWord env fuel f) (Pars.word f) ∧
    SimPUpTo L pend (fun p r => r = ResultV.token p) (parsLine env fuel) Pars.line ∧
    SimPUpTo L pend (fun p r => r = ResultV.token p) (parsUntilFilter env fuel f) (Pars.untilFilter f) ∧
    SimPUpTo L pend (fun p r => r = ResultV.token p) (parsUntilByte env fuel e) (Pars.untilFilter (· == e)) :=
  ⟨fun g res h hb => spaces_sim env pend hf he g h fuel (Nat.lt_of_le_of_lt hb.le hfu) res,
   fun g res h hb => word_sim env pend hf f g h fuel (Nat.lt_of_le_of_lt hb.le hfu) res,
   fun g res h hb => line_sim env pend hf g h fuel (Nat.lt_of_le_of_lt hb.le hfu) res,
   fun g res h hb => untilFilter_sim env pend hf f g h fuel (Nat.lt_of_le_of_lt hb.le hfu) res,
   fun g res h hb => untilByte_sim env pend hf e g h fuel (Nat.lt_of_le_of_lt hb.le hfu) res⟩

/-- … and the loop-free ones (`pars.Byte`) at every bound; the value relation may be weakened -/
theorem byte_simUpTo (L : Nat) (env : Env ρ ε) (pend : ρ → Option ε → Bytes) (hf : FillOk env pend) (c : UInt8) :
    SimPUpTo L pend (fun _ r => r = ResultV.token [c]) (parsByte env c) (ModParse.byte c) :=
  fun g res h _ => byte_sim env pend hf c g h res

/-- the value relation of a simulation may be weakened -/
theorem SimPUpTo.mono {α : Type} {L : Nat} {pend : ρ → Option ε → Bytes} {val val' : α → ResultV → Prop}
    {p : GoParser ρ ε} {m : Pars.P α} (h : SimPUpTo L pend val p m) (hv : ∀ a r, val a r → val' a r) :
    SimPUpTo L pend val' p m := by
  intro g res hi hb
  have := h g res hi hb
  revert this
  generalize m.run' (absState pend g) = x
  obtain ⟨o, s⟩ := x
  cases o with
  | ok a => exact fun ⟨g', r, h1, h2, h3, h4⟩ => ⟨g', r, h1, hv a r h2, h3, h4⟩
  | error e => cases e <;> exact id

/-- `parsePoint = pars.Parser(pars.Int).Map(…)` (location.go) = `LocParse.point`: `Int` under `Map`, for every mapping that
turns the integer `n` into the value standing for `Point(n - 1)` and cannot fail -/
theorem point_sim (env : Env ρ ε) (pend : ρ → Option ε → Bytes) (hf : FillOk env pend) (he : EnvOk env)
    (val' : Loc → ResultV → Prop) (f : ResultV → ResultV × Option ε)
    (hmap : ∀ n, (f (ResultV.int n)).2 = none ∧ val' (.point (n - 1)) (f (ResultV.int n)).1)
    (g : State ρ ε) (h : Inv g) (fuel : Nat) (hfu : (absState pend g).rest.length < fuel) (res : ResultV) :
    Agree pend val' (parsMap (parsInt env fuel) f g res) (LocParse.point.run' (absState pend g)) := by
  have : LocParse.point.run' (absState pend g) = (ModParse.mapP Pars.int (fun v => Loc.point (v - 1))).run' (absState pend g) := by
    unfold LocParse.point ModParse.mapP
    rw [Pars.run_bind, Pars.run_bind]
    rcases Pars.push.run' (absState pend g) with ⟨o, s⟩
    cases o with
    | error e => rfl
    | ok u =>
      dsimp only
      rw [Pars.run_bind, Pars.run_bind]
      rcases (Pars.attempt Pars.int).run' s with ⟨o2, s2⟩
      cases o2 with
      | error e => rfl
      | ok v => cases v <;> rfl
  rw [this]
  refine map_sim_at pend (fun n r => r = ResultV.int n) val' (parsInt env fuel) Pars.int g res h ?_ f _ ?_
  · intro g1 h1 hr
    exact int_sim env pend hf he g1 h1 fuel (by rw [hr]; exact hfu) res
  · intro a r hr; subst hr; exact hmap a
end Comb

/-- `SimP` IS FALSE OF A FUELLED PRIMITIVE (audit S5): `parsInt demoEnv 2` on `12345` leaves its loop after two rounds and answers
`12`, the model's `Pars.int` answers `12345` — so no parser that contains `pars.Int` meets the hypotheses of `map_sim`, `dry_sim`,
`maybe_sim`, `any_sim`; `SimPUpTo L` with `L < fuel` is the form that holds (`int_simUpTo`). -/
theorem int_not_simP : ¬ SimP demoPend (fun n r => r = ResultV.int n) (parsInt demoEnv 2) Pars.int := by
  intro h
  have h1 := h (freshState [] [49, 50, 51, 52, 53]) .unset (fresh_inv _ _)
  rw [fresh_abs] at h1
  have hm : (Pars.int.run' ⟨[49, 50, 51, 52, 53] ++ demoPend [] none, []⟩).1.toOption = some 12345 := by decide
  generalize Pars.int.run' ⟨[49, 50, 51, 52, 53] ++ demoPend [] none, []⟩ = x at h1 hm
  obtain ⟨o, s⟩ := x
  cases o with
  | error e => cases hm
  | ok a =>
  have ha : a = 12345 := by injection hm
  subst ha
  obtain ⟨g', res, hr, hv, _, _⟩ := h1
  have hg : (parsInt demoEnv 2 (freshState [] [49, 50, 51, 52, 53]) .unset).map (fun t => t.2.1) = some (.int 12) := by decide
  rw [hr] at hg
  dsimp only [Option.map] at hg
  rw [hv] at hg
  exact absurd hg (by decide)

/-- THE REAL SHAPE (location.go: `ParseLocation = pars.Any(…, parsePoint, …)`, `parsePoint = pars.Parser(pars.Int).Map(…)`):
`pars.Any(pars.Parser(pars.Int).Map(f), pars.Byte('^'))` — an `Int`-based point parser among the alternatives — simulates the
model's `LocParse.anyOf [LocParse.point-as-mapP, byte]` up to every bound `L` below the loop fuel of `Int`, for every reader that
meets `FillOk` / `EnvOk` and every mapping `f` that turns `n` into a value standing for `Point(n − 1)` and cannot fail.  (The other
alternatives of `ParseLocation` — `parseRange`, `parseComplement`, `parseJoin`, `parseOrder`, `parseAmbiguous`, `parseBetween` — are
built with `pars.Seq`, whose bridge — `seq_simUpTo`, `Bridge/ParsSeq.lean` — was added later and is not instantiated on them.) -/
theorem any_int_point_simUpTo (L : Nat) (env : Env ρ ε) (pend : ρ → Option ε → Bytes) (hf : FillOk env pend) (he : EnvOk env)
    (fuel : Nat) (hfu : L < fuel) (val' : Loc → ResultV → Prop) (f : ResultV → ResultV × Option ε)
    (hmap : ∀ n, (f (ResultV.int n)).2 = none ∧ val' (.point (n - 1)) (f (ResultV.int n)).1)
    (tok : Loc) (htok : ∀ r, r = ResultV.token [94] → val' tok r) :
    SimPUpTo L pend val' (parsAny env [parsMap (parsInt env fuel) f, parsMap (parsByte env 94) (fun r => (r, none))])
      (LocParse.anyOf [ModParse.mapP Pars.int (fun v => Loc.point (v - 1)), ModParse.mapP (ModParse.byte 94) (fun _ => tok)]) :=
  any_simUpTo L env pend val' _ _
    (.cons ⟨map_simUpTo L pend _ val' _ _ (int_simUpTo L env pend hf he fuel hfu) f _
        (fun a r hr => by subst hr; exact hmap a), Pars.mapP_safe _ _ Pars.int_safe⟩
      (.cons ⟨map_simUpTo L pend _ val' _ _ (byte_simUpTo L env pend hf 94) _ _
          (fun _ r hr => ⟨rfl, htok r hr⟩), Pars.mapP_safe _ _ (Pars.byte_safe 94)⟩ .nil))

/-- non-vacuity of `any_int_point_simUpTo` / `any_simUpTo`: the demo reader, loop fuel 10, bound 9; the fresh state over `12^`
meets `Inv` and `Fr 9 [] 0`; the generated `Any` answers the integer 12 mapped (here: kept), `^` is next, nothing stays pushed;
over `^12` the `Int` alternative fails, leaks nothing that stays, and the second alternative takes the `^` -/
example : Inv (freshState (ρ := Bytes) (ε := Unit) [] [49, 50, 94]) ∧
    Pars.Fr 9 [] 0 (absState demoPend (freshState (ρ := Bytes) (ε := Unit) [] [49, 50, 94])) ∧
    (parsAny demoEnv [parsMap (parsInt demoEnv 10) (fun r => (r, none)), parsMap (parsByte demoEnv 94) (fun r => (r, none))]
        (freshState [] [49, 50, 94]) .unset).map
      (fun t => (t.2.1, t.2.2, (absState demoPend t.1).rest, (absState demoPend t.1).stk)) =
      some (.int 12, none, [94], []) ∧
    (parsAny demoEnv [parsMap (parsInt demoEnv 10) (fun r => (r, none)), parsMap (parsByte demoEnv 94) (fun r => (r, none))]
        (freshState [] [94, 49, 50]) .unset).map
      (fun t => (t.2.1, t.2.2, (absState demoPend t.1).rest, (absState demoPend t.1).stk)) =
      some (.token [94], none, [49, 50], []) := by
  refine ⟨fresh_inv _ _, ?_, by decide, by decide⟩
  rw [fresh_abs]
  exact ⟨⟨[], rfl, Nat.le_refl _, fun _ hf => nomatch hf⟩, by decide, trivial⟩

/-- `pars.Any('^', '$')` on the demo reader: the alternatives are `Byte` parsers, each simulates `ModParse.byte` -/
example : SimP demoPend (fun _ _ => True) (parsAny demoEnv [parsByte demoEnv 94, parsByte demoEnv 36])
    (LocParse.anyOf [ModParse.byte 94, ModParse.byte 36]) :=
  any_sim demoEnv demoPend _ _ _
    (.cons (fun g res h => by
        have := byte_sim demoEnv demoPend demo_fillOk 94 g h res
        revert this; generalize (ModParse.byte 94).run' _ = m; obtain ⟨o, s⟩ := m
        cases o with
        | ok a => exact fun ⟨g', r, h1, _, h3, h4⟩ => ⟨g', r, h1, trivial, h3, h4⟩
        | error e => cases e <;> exact id)
      (.cons (fun g res h => by
        have := byte_sim demoEnv demoPend demo_fillOk 36 g h res
        revert this; generalize (ModParse.byte 36).run' _ = m; obtain ⟨o, s⟩ := m
        cases o with
        | ok a => exact fun ⟨g', r, h1, _, h3, h4⟩ => ⟨g', r, h1, trivial, h3, h4⟩
        | error e => cases e <;> exact id) .nil))

/-- … and run: on `$x` the first alternative fails, the second one takes the `$`; nothing stays pushed -/
example : (parsAny demoEnv [parsByte demoEnv 94, parsByte demoEnv 36] (freshState [36, 120] []) .unset).map
    (fun t => (t.2.1, t.2.2, (absState demoPend t.1).rest, (absState demoPend t.1).stk)) =
    some (.token [36], none, [120], []) := by decide
end Gts.Bridge
