/-
  Bridge: the order of `gts sort`, regenerated from cmd/gts/sort.go by go2lean (Gts/Gen/CmdSort.lean, generator
  go2lean/cmdsteps.go): `byLength.Less(i, j)` — the `Less` method of the type sort.go converts the collected records
  to — is `gts.Len(ss[j]) < gts.Len(ss[i])`: record `i` sorts in front of record `j` iff it is LONGER.
-/
import Gts.Gen.CmdSort
import Gts.Bridge.CliLoops
namespace Gts.Bridge
open Gts

/-- **the order of `gts sort`, as written**: for two valid indices `byLength.Less(i, j)` does not panic and is the
model's `Cli.lenLess false` on the two records — DESCENDING by number of residues (a swapped comparison, `<=`, another
key break it) -/
theorem byLengthLess_eq (ss : List Seq) (i j : Nat) (a b : Seq) (hi : ss[i]? = some a) (hj : ss[j]? = some b) :
    Gen.byLengthLess ss (i : Int) (j : Int) = some (Cli.lenLess false a b) := by
  simp [Gen.byLengthLess, clAt_nat, hi, hj, Cli.lenLess]

/-- `sort.Reverse` swaps the arguments of `Less`: behind `-r` the order is `Cli.lenLess true` — ascending -/
theorem byLengthLess_reverse (ss : List Seq) (i j : Nat) (a b : Seq) (hi : ss[i]? = some a) (hj : ss[j]? = some b) :
    Gen.byLengthLess ss (j : Int) (i : Int) = some (Cli.lenLess true a b) := by
  simp [Gen.byLengthLess, clAt_nat, hi, hj, Cli.lenLess]

/-- an index outside the slice is the Go panic -/
theorem byLengthLess_panic (ss : List Seq) (i j : Nat) (h : ss.length ≤ i ∨ ss.length ≤ j) :
    Gen.byLengthLess ss (i : Int) (j : Int) = none := by
  simp only [Gen.byLengthLess, clAt_nat]
  rcases h with h | h
  · cases hj : ss[j]? with
    | none => rfl
    | some b => simp [List.getElem?_eq_none h]
  · simp [List.getElem?_eq_none h]

example : Gen.byLengthLess [⟨[], [1]⟩, ⟨[], [1, 2]⟩] 1 0 = some true := by decide +kernel

end Gts.Bridge
