/-
  Bridge: the per-record step of `gts search`, regenerated from cmd/gts/search.go by go2lean (Gts/Gen/CmdSearch.lean,
  generator go2lean/cmdsteps.go), is the model's `Cli.searchStep` (Gts/Model/CliGlue.lean) for EVERY record, every list
  of queries, both matchers, with and without `--no-complement` — and none of its three checked operations fails:
  `gts.Range(head, tail)` gets proper segments only (`Cli.matcher_proper`), the assertion
  `loc.Reverse(len).(gts.Ranged)` holds (`Cli.asRanged_reverse`).

  The three `range` loops (queries; forward hits; hits on the reverse complement) are shown to be left folds by ONE
  lemma about the loop shape with a guard (`guardedFoldLoop_spec`).
-/
import Gts.Gen.CmdSearch
import Gts.Lemmas.CmdSearch
import Gts.Bridge.CliLoops
namespace Gts.Bridge
open Gts

/-- a loop `for _, x := range xs { st = f(st, x) }` whose step is the fold step on every element that meets a guard is
the left fold on a list of such elements -/
theorem guardedFoldLoop_spec {α σ : Type} (loop : List α → σ → Option σ) (f : σ → α → σ) (ok : α → Prop)
    (hnil : ∀ st, loop [] st = some st)
    (hcons : ∀ a rest st, ok a → loop (a :: rest) st = loop rest (f st a)) :
    ∀ xs st, (∀ a ∈ xs, ok a) → loop xs st = some (xs.foldl f st) := by
  intro xs
  induction xs with
  | nil => intro st _; simp [hnil]
  | cons a rest ih =>
    intro st h
    rw [hcons a rest st (h a (by simp)), ih _ (fun b hb => h b (by simp [hb]))]
    rfl

/-- the forward hits: one feature `key head+1..tail` per segment, `Insert`ed in order -/
theorem searchFwdLoop_eq (key : String) (exact nocomplement : Bool) (queries : List Seq) (props : Props) :
    ∀ (segs : List Seg) (ff : Table), (∀ sg ∈ segs, sg.1 < sg.2) →
    Gen.searchStepLoop2 key exact nocomplement queries props segs ff
      = some (segs.foldl (fun (ff : Table) sg => ff.insert (Cli.fwdFeature key props sg)) ff) :=
  guardedFoldLoop_spec (Gen.searchStepLoop2 key exact nocomplement queries props)
    (fun (ff : Table) sg => ff.insert (Cli.fwdFeature key props sg)) (fun sg : Seg => sg.1 < sg.2) (fun _ => rfl)
    (fun sg rest ff h => by
      simp only [Gen.searchStepLoop2, Cli.rangeOf_proper _ _ h]
      rfl)

/-- the hits on the reverse complement: one feature `key complement(len−tail+1..len−head)` per segment -/
theorem searchBwdLoop_eq (key : String) (exact nocomplement : Bool) (queries : List Seq) (props : Props) (seq : Seq) :
    ∀ (segs : List Seg) (ff : Table), (∀ sg ∈ segs, sg.1 < sg.2) →
    Gen.searchStepLoop3 key exact nocomplement queries props seq segs ff
      = some (segs.foldl (fun (ff : Table) sg => ff.insert (Cli.bwdFeature key props seq.len sg)) ff) :=
  guardedFoldLoop_spec (Gen.searchStepLoop3 key exact nocomplement queries props seq)
    (fun (ff : Table) sg => ff.insert (Cli.bwdFeature key props seq.len sg)) (fun sg : Seg => sg.1 < sg.2) (fun _ => rfl)
    (fun sg rest ff h => by
      simp only [Gen.searchStepLoop3, Cli.rangeOf_proper _ _ h, Cli.asRanged_reverse]
      rfl)

/-- the loop over the queries: `Cli.searchQuery` per query -/
theorem searchQueryLoop_eq (key : String) (exact nocomplement : Bool) (queries : List Seq) (props : Props) (seq : Seq) :
    ∀ (qs : List Seq) (ff : Table),
    Gen.searchStepLoop key exact nocomplement queries props seq (Cli.revcompOf seq) qs ff
      = some (qs.foldl (Cli.searchQuery exact nocomplement key props seq) ff) :=
  foldLoop_spec _ _ (fun _ => rfl) (fun q rest ff => by
    have hf := Cli.matcher_proper exact seq q
    have hb := Cli.matcher_proper exact (Cli.revcompOf seq) q
    simp only [Cli.matcher] at hf hb
    simp only [Gen.searchStepLoop, Cli.searchQuery, Cli.matcher, searchFwdLoop_eq _ _ _ _ _ _ _ hf]
    cases nocomplement
    · simp only [searchBwdLoop_eq _ _ _ _ _ _ _ _ hb]
      simp
    · simp)

/-- **`gts search`, one record**: the scan-loop body of search.go, as written, hands exactly one record to `WriteSeq`
— the model's `Cli.searchStep`: per query, in order, one feature per forward hit of the matcher (`Match`, `-e`:
`Search`) on the record, then (unless `--no-complement`) one `complement(…)` feature per hit on the reverse complement,
mapped back to the record's coordinates, each `Insert`ed — and neither `gts.Range` nor the type assertion panics. -/
theorem searchStep_eq (key : String) (exact nocomplement : Bool) (queries : List Seq) (props : Props) (seq : Seq) :
    Gen.searchStep key exact nocomplement queries props seq
      = some [Cli.searchStep exact nocomplement key props queries seq] := by
  have := searchQueryLoop_eq key exact nocomplement queries props seq queries seq.feats
  simp only [Cli.revcompOf] at this
  simp only [Gen.searchStep, this]
  rfl

example : Gen.searchStep "misc_feature" true false [⟨[], [97, 99]⟩] [] ⟨[], [65, 67, 71, 84]⟩
    = some [Cli.searchStep true false "misc_feature" [] [⟨[], [97, 99]⟩] ⟨[], [65, 67, 71, 84]⟩] := searchStep_eq _ _ _ _ _ _

theorem searchStepFacts_eq : Gen.searchStepFacts = ["write", "flush"] := rfl

end Gts.Bridge
