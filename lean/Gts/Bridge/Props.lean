/-
  Bridge: props.go, regenerated statement by statement by go2lean (Gts/Gen/Props.lean, generator gprops.go on the
  typed translator of gfeat.go: `string` an abstract type `σ_` with decidable equality, `Props` a list of rows,
  `props[i][0]`, `prop[1:]`, `keys[i] = …`, `make`, `copy` checked operations whose `none` is the Go panic, the
  `range` loops recursions over the list with a counter and live reads of `props[i]`, the pointer-receiver methods
  functions that RETURN the new value of `*props` — aliasing and capacity are C11's, Gts/Model/Mem.lean).

  For EVERY table, key, values and every zero string that `make` fills in (so: every cell is overwritten):
  `Index` is the model's `Props.index` under `rowsOk` and PANICS when an empty row stands in front of the first
  row of that name (`props_index_panic`; without one it does not: `props_index_total`); every other method
  panics exactly when its `Index` does (`props_*_eq` have the form `(findO key ps).map …`: `Lemmas/PropsGen.lean`)
  and is the model's function otherwise.  The same generated functions at byte strings are the seqio reader's
  `GenBank.propsAdd` (Gts/Model/InsdcParse.lean) and the table writer's `GenBank.propsItems` (fix 7b61a9a / F31).
-/
import Gts.Lemmas.PropsGen
import Gts.Model.Feature
import Gts.Model.InsdcParse
import Gts.Model.GenBank
namespace Gts.Bridge
open Gts Gts.Gen Gts.Gen.PropsGo Gts.PropsG

/-! ### the model over `String` is the polymorphic reading -/

theorem props_rowsOk_eq (ps : Props) : Props.rowsOk ps = PropsG.rowsOk ps := rfl

theorem props_findO_index (ps : Props) (key : String) (n : Nat) (ok : Props.rowsOk ps = true) :
    (findO key ps).map (fun r => match r with | none => (-1 : Int) | some j => ((n + j : Nat) : Int)) =
      some (Props.indexFrom key ps n) := by
  induction ps generalizing n with
  | nil => rfl
  | cons row rest ih =>
    cases row with
    | nil => simp [Props.rowsOk] at ok
    | cons h t =>
      have ok' : Props.rowsOk rest = true := by simpa [Props.rowsOk] using ok
      by_cases hk : h = key
      · simp [findO, Props.indexFrom, hk]
      · have := ih (n + 1) ok'
        simp only [findO, hk, if_false, Props.indexFrom, List.head?_cons, Option.some.injEq, Option.map_map]
        rw [← this]
        congr 1
        funext r
        cases r with
        | none => rfl
        | some j => simp only [Function.comp, Option.map_some]; congr 1; omega

theorem props_set_g (ps : Props) (k : String) (vs : List String) : Props.set ps k vs = gset ps k vs := by
  induction ps with
  | nil => rfl
  | cons r a ih => simp [Props.set, gset, ih]

theorem props_add_g (ps : Props) (k : String) (vs : List String) : Props.add ps k vs = gadd ps k vs := by
  induction ps with
  | nil => rfl
  | cons r a ih => simp [Props.add, gadd, ih]

theorem props_del_g (ps : Props) (k : String) : Props.del ps k = gdel ps k := by
  induction ps with
  | nil => rfl
  | cons r a ih => simp [Props.del, gdel, ih]

theorem props_items_g : ∀ ps : Props, Props.items ps = gitems ps
  | [] => rfl
  | [] :: rest => by simp [Props.items, gitems, props_items_g rest]
  | (k :: vs) :: rest => by simp [Props.items, gitems, props_items_g rest]

/-- `Props.get` (position by `index`, then the row) is the first row of that name -/
theorem props_get_g (ps : Props) (k : String) (ok : Props.rowsOk ps = true) : Props.get ps k = gget ps k := by
  have hi := props_findO_index ps k 0 ok
  unfold Props.get Props.index
  cases h : findO k ps with
  | none => exact absurd h (findO_rowsOk k ps ok)
  | some r =>
    rw [h] at hi
    cases r with
    | none =>
      simp only [Option.map_some, Option.some.injEq] at hi
      simp [← hi, gget_noRow ps k (findO_absent k ps h)]
    | some j =>
      obtain ⟨a, t, b, e, hl, hn, _⟩ := findO_found k ps j h
      simp only [Option.map_some, Option.some.injEq, Nat.zero_add] at hi
      subst e; subst hl
      have hne : ¬ ((a.length : Int) = -1) := by omega
      simp [← hi, hne, gget_at a k t b hn]

/-! ### `Index`, `Has`, `Keys`, `Get` -/

/-- `Props.Index` on a table whose rows all have a name: the model's `Props.index` (never a panic) -/
theorem props_index_eq (ps : Props) (key : String) (ok : Props.rowsOk ps = true) :
    propsIndex ps key = some (Props.index ps key) := by
  rw [propsIndex_eq]
  have := props_findO_index ps key 0 ok
  simp only [Nat.zero_add] at this
  exact this

/-- `Props.Index` PANICS (`props[i][0]`) when an empty row stands in front of every row of that name -/
theorem props_index_panic {σ : Type} [DecidableEq σ] (a b : List (List σ)) (key : σ)
    (hn : ∀ row ∈ a, row.head? ≠ some key) (ok : PropsG.rowsOk a = true) :
    propsIndex (a ++ [] :: b) key = none := by
  rw [propsIndex_eq, (findO_none_iff key _).2 ⟨a, b, rfl, ok, hn⟩]
  rfl

/-- … and only then: `Index` panics exactly on `a ++ [] :: b` with no row of that name and no empty row in `a` -/
theorem props_index_panic_iff {σ : Type} [DecidableEq σ] (ps : List (List σ)) (key : σ) :
    propsIndex ps key = none ↔
      ∃ a b, ps = a ++ [] :: b ∧ PropsG.rowsOk a = true ∧ ∀ row ∈ a, row.head? ≠ some key := by
  rw [propsIndex_eq, Option.map_eq_none_iff]
  exact findO_none_iff key ps

/-- `Props.Has` -/
theorem props_has_eq (ps : Props) (name : String) (ok : Props.rowsOk ps = true) :
    propsHas ps name = some (Props.has ps name) := by
  unfold propsHas Props.has
  rw [props_index_eq ps name ok]
  rfl

/-- `Props.Keys`: the names in order, whatever `make` filled in -/
theorem props_keys_eq (z : String) (ps : Props) (ok : Props.rowsOk ps = true) :
    propsKeys z ps = some (Props.keys ps) := by
  rw [propsKeys_eq, keysO_rowsOk ps ok]
  congr 1
  unfold Props.keys
  induction ps with
  | nil => rfl
  | cons r a ih =>
    cases r with
    | nil => simp [Props.rowsOk] at ok
    | cons h t =>
      have ok' : Props.rowsOk a = true := by simpa [Props.rowsOk] using ok
      simp [ih ok']

/-- `Props.Keys` panics on every table with an empty row -/
theorem props_keys_panic {σ : Type} [DecidableEq σ] (z : σ) (a b : List (List σ)) :
    propsKeys z (a ++ [] :: b) = none := by
  rw [propsKeys_eq]
  induction a with
  | nil => rfl
  | cons r a ih => cases r <;> simp [keysO, ih]

/-- `Props.Get`: the values of the first row of that name; Go's `nil` (absent, the model's `none`) and the empty
slice are both the empty list in the value reading -/
theorem props_get_eq (ps : Props) (key : String) (ok : Props.rowsOk ps = true) :
    propsGet ps key = some ((Props.get ps key).getD []) := by
  rw [propsGet_eq, props_get_g ps key ok]
  cases h : findO key ps with
  | none => exact absurd h (findO_rowsOk key ps ok)
  | some r => rfl

/-! ### `Items` -/

/-- `Props.Items`: the flat list of (name, value) pairs row by row, in order -/
theorem props_items_eq (z : String) (ps : Props) (ok : Props.rowsOk ps = true) :
    propsItems z ps = some (Props.items ps) := by
  rw [propsItems_eq, itemsO_rowsOk ps ok, props_items_g]

theorem gitems_genbank : ∀ ps : List (List (List UInt8)), gitems ps = GenBank.propsItems ps
  | [] => rfl
  | [] :: rest => by simp [gitems, GenBank.propsItems, gitems_genbank rest]
  | (k :: vs) :: rest => by simp [gitems, GenBank.propsItems, gitems_genbank rest]

/-- at byte strings `Props.Items` is what the model's table writer walks per feature (`GenBank.propsItems` inside
`featureText`; `propsOk` there is the no-panic condition here): one qualifier per VALUE of every row, rows of one
name kept apart (F31) -/
theorem props_items_writer (z : List UInt8) (ps : List (List (List UInt8))) :
    propsItems z ps = if GenBank.propsOk ps then some (GenBank.propsItems ps) else none := by
  rw [propsItems_eq]
  by_cases ok : GenBank.propsOk ps = true
  · rw [itemsO_rowsOk ps ok, gitems_genbank]; simp [ok]
  · simp only [ok]
    induction ps with
    | nil => simp [GenBank.propsOk] at ok
    | cons r a ih =>
      cases r with
      | nil => rfl
      | cons h t =>
        have : ¬ GenBank.propsOk a = true := by simpa [GenBank.propsOk] using ok
        simp [itemsO, ih this]

/-! ### `Set`, `Add`, `Del`, `Clone` -/

/-- `(*Props).Set`: the first row of that name replaced by `key :: values`, else a new last row -/
theorem props_set_eq (z : String) (ps : Props) (key : String) (values : List String) (ok : Props.rowsOk ps = true) :
    propsSet z ps key values = some (Props.set ps key values) := by
  rw [propsSet_eq, props_set_g]
  cases h : findO key ps with
  | none => exact absurd h (findO_rowsOk key ps ok)
  | some r => rfl

/-- `(*Props).Add` with any number of values: appended to the FIRST row of that name, else a new last row -/
theorem props_add_eq (z : String) (ps : Props) (key : String) (values : List String) (ok : Props.rowsOk ps = true) :
    propsAdd z ps key values = some (Props.add ps key values) := by
  rw [propsAdd_eq, props_add_g]
  cases h : findO key ps with
  | none => exact absurd h (findO_rowsOk key ps ok)
  | some r => rfl

theorem gadd_insdc (ps : List (List (List UInt8))) (n v : List UInt8) : gadd ps n [v] = GenBank.propsAdd ps n v := by
  induction ps with
  | nil => rfl
  | cons r a ih => simp [gadd, GenBank.propsAdd, ih]

/-- a single value added to a table of byte strings is the reader's `GenBank.propsAdd` (Gts/Model/InsdcParse.lean) (how `INSDCTableParser`
builds the rows) -/
theorem props_add_reader (z : List UInt8) (ps : List (List (List UInt8))) (n v : List UInt8)
    (ok : PropsG.rowsOk ps = true) : propsAdd z ps n [v] = some (GenBank.propsAdd ps n v) := by
  rw [propsAdd_eq, gadd_insdc]
  cases h : findO n ps with
  | none => exact absurd h (findO_rowsOk n ps ok)
  | some r => rfl

/-- `(*Props).Del`: the FIRST row of that name removed, no other -/
theorem props_del_eq (ps : Props) (key : String) (ok : Props.rowsOk ps = true) :
    propsDel ps key = some (Props.del ps key) := by
  rw [propsDel_eq, props_del_g]
  cases h : findO key ps with
  | none => exact absurd h (findO_rowsOk key ps ok)
  | some r => rfl

/-- `Set`, `Add`, `Del`, `Get`, `Has` panic exactly when their `Index` does -/
theorem props_ops_panic {σ : Type} [DecidableEq σ] (z : σ) (ps : List (List σ)) (key : σ) (values : List σ)
    (h : propsIndex ps key = none) :
    propsSet z ps key values = none ∧ propsAdd z ps key values = none ∧ propsDel ps key = none ∧
      propsGet ps key = none ∧ propsHas ps key = none := by
  rw [propsIndex_eq, Option.map_eq_none_iff] at h
  simp [propsSet_eq, propsAdd_eq, propsDel_eq, propsGet_eq, propsHas_eq, h]

/-- `Props.Clone`: the identity on values, for EVERY table (empty rows included: no panic) and every zero string -/
theorem props_clone_eq (z : String) (ps : Props) : propsClone z ps = some (Props.clone ps) :=
  propsClone_eq z ps

end Gts.Bridge
