/-
  Bridge: `Regions.Len` and the two computational parts of `Regions.Resize` — the type switch that
  computes `(lower, upper)` per modifier kind and the walk over the elements — regenerated from
  region.go by go2lean (Gts/Gen/RegionResize.lean), are the hand-written model's `Reg.lenList`,
  `Reg.bounds` and `Reg.walkLens` / `Reg.walkStep` (Gts/Model/Region.lean) the C08 theorems are
  about.  The final `switch Compare(left, right)` is recognised arm by arm (`resizeFinal`).
-/
import Gts.Gen.RegionResize
import Gts.Gen.Arith
import Gts.Model.Region
namespace Gts.Bridge
open Gts

/-! ### `Regions.Len`: the range loop sums the lengths of the elements -/

theorem regionsLenLoop_lens (loop : List Int → Int → Int)
    (hnil : ∀ total, loop [] total = total)
    (hcons : ∀ r rest total, loop (r :: rest) total = loop rest (total + r)) :
    ∀ (rs : List Reg) (total : Int), loop (Reg.lens rs) total = total + Reg.lenList rs := by
  intro rs
  induction rs with
  | nil => intro total; simp [Reg.lens, Reg.lenList, hnil]
  | cons r rs ih =>
    intro total
    simp only [Reg.lens, Reg.lenList, hcons, ih]
    omega

/-- `Regions.Len()` on the lengths of the elements is the model's `Reg.lenList` -/
theorem regionsLen_eq (rs : List Reg) : Gen.regionsLen (Reg.lens rs) = Reg.lenList rs := by
  simp only [Gen.regionsLen]
  rw [regionsLenLoop_lens Gen.regionsLenLoop (fun _ => rfl) (fun _ _ _ => rfl)]
  omega

/-! ### `Regions.Resize`: bounds and walk -/

/-- the type switch of `Regions.Resize` computing `(lower, upper)` per modifier kind, with
`ret.Len()` the regenerated `Regions.Len`, is the model's `Reg.bounds` -/
theorem resizeBounds_eq (m : Mod) (rs : List Reg) :
    Gen.resizeBounds m (Reg.lens rs) = Reg.bounds m (Reg.lenList rs) := by
  cases m <;>
    simp only [Gen.resizeBounds, Gen.resizeBoundsHead, Gen.resizeBoundsTail, Gen.resizeBoundsHeadTail,
      Gen.resizeBoundsHeadHead, Gen.resizeBoundsTailTail, Reg.bounds, regionsLen_eq]

theorem lens_length (rs : List Reg) : (Reg.lens rs).length = rs.length := by
  induction rs with
  | nil => rfl
  | cons r rs ih => simp [Reg.lens, ih]

theorem walkLens_drop_short (rr : List Int) (k : Nat) (w : Reg.Walk) (h : rr.length ≤ k + 1) :
    Reg.walkLens (rr.drop k) k w = w := by
  have hl : (rr.drop k).length ≤ 1 := by simp only [List.length_drop]; omega
  match rr.drop k, hl with
  | [], _ => rfl
  | [_], _ => rfl

theorem walkLens_drop_step (rr : List Int) (k : Nat) (w : Reg.Walk) (h : k + 1 < rr.length) :
    Reg.walkLens (rr.drop k) k w =
      Reg.walkLens (rr.drop (k + 1)) (k + 1) (Reg.walkStep w k (rr.getD k 0)) := by
  have h1 : rr.drop k = rr[k] :: rr.drop (k + 1) := List.drop_eq_getElem_cons (by omega)
  have h2 : rr.drop (k + 1) = rr[k + 1] :: rr.drop (k + 1 + 1) := List.drop_eq_getElem_cons h
  have h3 : rr.getD k 0 = rr[k] := by
    rw [List.getD_eq_getElem?_getD, List.getElem?_eq_getElem (by omega)]; rfl
  rw [h1, h2, h3, Reg.walkLens]

theorem walkStep_fields (w : Reg.Walk) (k : Nat) (n : Int) :
    (Reg.walkStep w k n).lower = (if w.left = k ∧ n < w.lower then w.lower - n else w.lower) ∧
    (Reg.walkStep w k n).upper = (if w.right = k ∧ n < w.upper then w.upper - n else w.upper) ∧
    ((Reg.walkStep w k n).left : Int) = (if w.left = k ∧ n < w.lower then (k : Int) + 1 else (w.left : Int)) ∧
    ((Reg.walkStep w k n).right : Int) = (if w.right = k ∧ n < w.upper then (k : Int) + 1 else (w.right : Int)) := by
  unfold Reg.walkStep
  by_cases a : w.left = k ∧ n < w.lower <;> by_cases b : w.right = k ∧ n < w.upper <;>
    simp only [a, b, if_true, if_false, and_self, Int.natCast_add, Int.cast_ofNat_Int] <;> simp

/-- a loop of the shape
`for k := …; k+1 < len(rr); k++ { n := rr[k].Len(); if left == k && n < lower { left = k+1; lower -= n }; if right == k && n < upper { right = k+1; upper -= n } }`
over the lengths `rr`, entered at index `k` in the walk state `w`, ends in the state the model's
`Reg.walkLens` computes; `len(rr) - k - 1` units of fuel suffice (the loop ends because its
condition fails) -/
theorem walkLoop_spec (loop : List Int → Nat → Int → Int → Int → Int → Int → Int × Int × Int × Int × Int)
    (h0 : ∀ rr lower upper left right k, loop rr 0 lower upper left right k = (lower, upper, left, right, k))
    (hs : ∀ rr fuel lower upper left right k, loop rr (fuel + 1) lower upper left right k =
      if k + 1 < (rr.length : Int) then
        loop rr fuel
          (if left = k ∧ rr.getD (Int.toNat k) 0 < lower then lower - rr.getD (Int.toNat k) 0 else lower)
          (if right = k ∧ rr.getD (Int.toNat k) 0 < upper then upper - rr.getD (Int.toNat k) 0 else upper)
          (if left = k ∧ rr.getD (Int.toNat k) 0 < lower then k + 1 else left)
          (if right = k ∧ rr.getD (Int.toNat k) 0 < upper then k + 1 else right)
          (k + 1)
      else (lower, upper, left, right, k))
    (rr : List Int) :
    ∀ (fuel k : Nat) (w : Reg.Walk), rr.length ≤ fuel + k + 1 →
      ∃ k' : Int, loop rr fuel w.lower w.upper (w.left : Int) (w.right : Int) (k : Int) =
        ((Reg.walkLens (rr.drop k) k w).lower, (Reg.walkLens (rr.drop k) k w).upper,
         ((Reg.walkLens (rr.drop k) k w).left : Int), ((Reg.walkLens (rr.drop k) k w).right : Int), k') := by
  intro fuel
  induction fuel with
  | zero =>
    intro k w hf
    rw [h0, walkLens_drop_short rr k w (by omega)]
    exact ⟨_, rfl⟩
  | succ f ih =>
    intro k w hf
    rw [hs]
    by_cases hc : (k : Int) + 1 < (rr.length : Int)
    · rw [if_pos hc, walkLens_drop_step rr k w (by omega), Int.toNat_natCast]
      have := ih (k + 1) (Reg.walkStep w k (rr.getD k 0)) (by omega)
      obtain ⟨k', hk'⟩ := this
      refine ⟨k', ?_⟩
      rw [← hk']
      have e : ((k + 1 : Nat) : Int) = (k : Int) + 1 := by omega
      have eL : ((w.left : Int) = (k : Int)) ↔ w.left = k := by omega
      have eR : ((w.right : Int) = (k : Int)) ↔ w.right = k := by omega
      obtain ⟨f1, f2, f3, f4⟩ := walkStep_fields w k (rr.getD k 0)
      rw [f1, f2, f3, f4, e]
      simp only [eL, eR]
    · rw [if_neg hc, walkLens_drop_short rr k w (by omega)]
      exact ⟨_, rfl⟩

theorem resizeWalkLoop_shape (rr : List Int) (fuel : Nat) (lower upper left right k : Int) :
    Gen.resizeWalkLoop rr (fuel + 1) lower upper left right k =
      if k + 1 < (rr.length : Int) then
        Gen.resizeWalkLoop rr fuel
          (if left = k ∧ rr.getD (Int.toNat k) 0 < lower then lower - rr.getD (Int.toNat k) 0 else lower)
          (if right = k ∧ rr.getD (Int.toNat k) 0 < upper then upper - rr.getD (Int.toNat k) 0 else upper)
          (if left = k ∧ rr.getD (Int.toNat k) 0 < lower then k + 1 else left)
          (if right = k ∧ rr.getD (Int.toNat k) 0 < upper then k + 1 else right)
          (k + 1)
      else (lower, upper, left, right, k) := by
  simp only [Gen.resizeWalkLoop]
  by_cases hc : k + 1 < (rr.length : Int)
  · simp only [hc, if_true]
    by_cases a : left = k ∧ rr.getD (Int.toNat k) 0 < lower <;>
      by_cases b : right = k ∧ rr.getD (Int.toNat k) 0 < upper <;>
        simp only [a, b, and_self, if_true, if_false]
  · simp only [hc, if_false]

/-- **the walk of `Regions.Resize`, as written in region.go** (`left, right := 0, 0` and the `for`
loop over the lengths of the elements), with any fuel `≥ len(rr) - 1`, ends in the state of the
model's `Reg.walkLens` started from `⟨0, lower, 0, upper⟩` -/
theorem resizeWalk_eq (fuel : Nat) (rr : List Int) (lower upper : Int) (h : rr.length ≤ fuel + 1) :
    Gen.resizeWalk fuel rr lower upper =
      (((Reg.walkLens rr 0 ⟨0, lower, 0, upper⟩).left : Int), (Reg.walkLens rr 0 ⟨0, lower, 0, upper⟩).lower,
       ((Reg.walkLens rr 0 ⟨0, lower, 0, upper⟩).right : Int), (Reg.walkLens rr 0 ⟨0, lower, 0, upper⟩).upper) := by
  obtain ⟨k', hk'⟩ := walkLoop_spec Gen.resizeWalkLoop (fun _ _ _ _ _ _ => rfl) resizeWalkLoop_shape rr fuel 0
    ⟨0, lower, 0, upper⟩ (by omega)
  simp only [List.drop_zero] at hk'
  simp only [Gen.resizeWalk]
  have hk'' : Gen.resizeWalkLoop rr fuel lower upper 0 0 0 = _ := hk'
  rw [hk'']

example : Gen.resizeWalk 2 [2, 3, 4] 4 6 = (1, 2, 2, 1) := by
  rw [resizeWalk_eq 2 [2, 3, 4] 4 6 (by decide)]; decide

/-- the statements of `Regions.Resize` around the regenerated parts -/
theorem resizeFrame_eq :
    Gen.resizeFrame = ["ret := make(Regions, len(rr)); copy(ret, rr)", "resizeBounds", "resizeWalk", "final switch"] := rfl

/-- the final `switch Compare(left, right)` of `Regions.Resize` has the three arms the model's
`Reg.resize (.many rs)` mirrors (`resizeNth … (.head lower)`, `resizeNth … (.headHead lower upper)`,
`resizeSpan`) -/
theorem resizeFinal_eq :
    Gen.resizeFinal = ["switch Compare(left, right)", "case 1: return ret[left].Resize(Head(lower))",
      "case 0: return ret[left].Resize(HeadHead{lower, upper})",
      "default: ret[left] = ret[left].Resize(HeadTail{lower, 0}); ret[right] = ret[right].Resize(HeadHead{0, upper}); return ret[left : right+1]"] := rfl

theorem compare_one (i j : Int) : Gen.compare i j = 1 ↔ j < i := by
  unfold Gen.compare
  by_cases h1 : i < j
  · simp only [h1, if_true]
    constructor
    · intro h; exact absurd h (by decide)
    · intro h; omega
  · by_cases h2 : j < i <;> simp [h1, h2]

theorem compare_zero (i j : Int) : Gen.compare i j = 0 ↔ i = j := by
  unfold Gen.compare
  by_cases h1 : i < j
  · simp only [h1, if_true]
    constructor
    · intro h; exact absurd h (by decide)
    · intro h; omega
  · by_cases h2 : j < i
    · simp only [h1, h2, if_true, if_false]
      constructor
      · intro h; exact absurd h (by decide)
      · intro h; omega
    · simp only [h1, h2, if_false]
      exact ⟨fun _ => by omega, fun _ => trivial⟩

/-- `Regions.Resize(mod)` of the model is: the REGENERATED bounds, the REGENERATED walk, then the
final `switch Compare(left, right)` with the regenerated `Compare` of utils.go and the three arms
recognised statement by statement (`resizeFinal_eq`; what the arms do — `ret[left].Resize(…)`, the
span — stays hand-modelled: `resizeNth`, `resizeSpan`) -/
theorem resize_many_gen (rs : List Reg) (m : Mod) (fuel : Nat) (h : rs.length ≤ fuel + 1) :
    Reg.resize (.many rs) m =
      (let b := Gen.resizeBounds m (Reg.lens rs)
       let w := Gen.resizeWalk fuel (Reg.lens rs) b.1 b.2
       let left := w.1; let lower := w.2.1; let right := w.2.2.1; let upper := w.2.2.2
       if Gen.compare left right = 1 then Reg.resizeNth rs left.toNat (.head lower)
       else if Gen.compare left right = 0 then Reg.resizeNth rs left.toNat (.headHead lower upper)
       else .many (Reg.resizeSpan rs left.toNat right.toNat lower upper)) := by
  have hl : (Reg.lens rs).length = rs.length := lens_length rs
  simp only [resizeBounds_eq, resizeWalk_eq fuel (Reg.lens rs) _ _ (by omega), Reg.resize, Int.toNat_natCast,
    compare_one, compare_zero]
  simp only [Int.ofNat_lt, Int.natCast_inj]

example : (Reg.resize (.many [.seg 0 2, .seg 5 8, .seg 10 14]) (.headTail 3 (-2)) ==
    .many [.seg 6 8, .seg 10 12]) = true := by decide

example : ([Reg.seg 0 2, .seg 5 8, .seg 10 14]).length ≤ 2 + 1 := by decide

end Gts.Bridge
