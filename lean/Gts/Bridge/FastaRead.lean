/-
  Bridge: the function handed to `.Map(…)` in `var FastaParser = pars.Seq(…).Map(func …)` (seqio/fasta.go), as
  it is re-read on every run (`Gts/Gen/FastaRead.lean`, go2lean gfastard.go), IS the model's reading
  (`Gts/Model/Fasta.lean`, property C17):

    body ↦ data (Split on '\n', the loop with TrimSuffix "\r", Join with nil)   = `fastaBody`    (`fastaBody_eq`)
    the tokens of the children ↦ (Desc, Data)                                    = child 1, `fastaBody` of child 2
                                                                                   (`fastaMap_eq`, `fastaMap_seq`)
    the constructor in front of `.Map`, its arguments, the child indices         `fastaParser_shape`

  for EVERY byte list; the generated loop never takes its panic branch (`fastaData_range_map`).
  What the library calls are read as (fixed text of the generated module, `Gts/Gen/GbReaderPrelude.lean`):
  `bytes.Split` on one byte — a left-to-right scan (`bytesSplitByte_lines`: the model's `splitLines`),
  `bytes.TrimSuffix` — `bytesTrimSuffix` (`bytesTrimSuffix_cr`: the model's `stripCR`), `bytes.Join` with an
  empty separator — concatenation (`bytesJoin_nil`).
-/
import Gts.Gen.FastaRead
import Gts.Lemmas.Fasta
import Gts.Lemmas.GbReaderPrelude
namespace Gts.Bridge
open Gts.Pars Gts.Fasta Gts.Gen Gts.Gen.FastaRead

/-! ### the library calls -/

/-- `cur` put in front of the first piece -/
private def prependHead (cur : Bytes) : List Bytes → List Bytes
  | [] => [cur]
  | l :: ls => (cur ++ l) :: ls

private theorem splitLines_cons (c : UInt8) (r : Bytes) :
    splitLines (c :: r) = if c == 10 then [] :: splitLines r else prependHead [c] (splitLines r) := by
  rw [splitLines]
  cases splitLines r <;> simp [prependHead]

private theorem bytesSplitByteFrom_lines (s cur : Bytes) :
    bytesSplitByteFrom 10 s cur = prependHead cur (splitLines s) := by
  induction s generalizing cur with
  | nil => simp [bytesSplitByteFrom, splitLines, prependHead]
  | cons c r ih =>
    rw [bytesSplitByteFrom, splitLines_cons]
    by_cases h : (c == 10) = true
    · simp only [h, if_true, ih, prependHead, List.append_nil]
      cases hs : splitLines r with
      | nil => exact absurd hs (splitLines_ne_nil r)
      | cons l ls => simp
    · simp only [h, if_false, ih, Bool.false_eq_true]
      cases splitLines r <;> simp [prependHead]

/-- `bytes.Split(s, []byte{'\n'})` as the translator reads it is the model's `splitLines` -/
theorem bytesSplitByte_lines (s : Bytes) : bytesSplitByte s 10 = splitLines s := by
  rw [bytesSplitByte, bytesSplitByteFrom_lines]
  cases hs : splitLines s with
  | nil => exact absurd hs (splitLines_ne_nil s)
  | cons l ls => simp [prependHead]

private theorem stripCR_getLast (s : Bytes) :
    stripCR s = if s.getLast? = some 13 then s.dropLast else s := by
  fun_induction stripCR s with
  | case1 => simp
  | case2 c h =>
    have : c = 13 := by simpa using h
    simp [this]
  | case3 c h =>
    have : ¬ c = 13 := by simpa using h
    simp [this]
  | case4 c r hne ih =>
    cases r with
    | nil => exact (hne rfl).elim
    | cons x t =>
      rw [ih]
      simp only [List.getLast?_cons_cons, List.dropLast_cons_cons]
      split <;> rfl

/-- `bytes.TrimSuffix(line, []byte{'\r'})` as the translator reads it is the model's `stripCR` -/
theorem bytesTrimSuffix_cr (s : Bytes) : bytesTrimSuffix s [13] = stripCR s := by
  rw [stripCR_getLast]
  simp only [bytesTrimSuffix, isSuffixOf_singleton, List.length_cons, List.length_nil,
    Nat.zero_add, List.dropLast_eq_take]
  by_cases h : s.getLast? = some 13
  · simp [h]
  · have : (s.getLast? == some 13) = false := by simpa using h
    simp [h, this]

/-- `bytes.Join(lines, nil)` is the concatenation -/
theorem bytesJoin_nil (ls : List Bytes) : bytesJoin ls [] = ls.flatten := by
  induction ls with
  | nil => simp [bytesJoin]
  | cons a t ih =>
    cases t with
    | nil => simp [bytesJoin]
    | cons b t' => rw [bytesJoin, ih]; simp

/-! ### the loop -/

/-- **The range loop, with its invariant.**  With `pre` already trimmed and `suf` still to do — the index is
`pre.length`, `suf.length` rounds are left — the loop ends regularly (no read or store outside the slice) with
every element of `suf` trimmed. -/
theorem fastaData_range_inv (pre suf : List Bytes) :
    fastaData_range suf.length pre.length (pre ++ suf) =
      some (pre ++ suf.map fun x => bytesTrimSuffix x [13]) := by
  induction suf generalizing pre with
  | nil => simp [fastaData_range]
  | cons x t ih =>
    have hget : (pre ++ x :: t)[pre.length]? = some x := by simp
    have hset : (pre ++ x :: t).set pre.length (bytesTrimSuffix x [13]) =
        (pre ++ [bytesTrimSuffix x [13]]) ++ t := by simp
    have hlen : pre.length + 1 = (pre ++ [bytesTrimSuffix x [13]]).length := by simp
    rw [List.length_cons, fastaData_range, hget]
    simp only []
    rw [hset, hlen, ih]
    simp

/-- the whole loop `for i := range lines { lines[i] = bytes.TrimSuffix(lines[i], "\r") }` never panics and
strips one carriage return from the end of every line -/
theorem fastaData_range_map (lines : List Bytes) :
    fastaData_range lines.length 0 lines = some (lines.map stripCR) := by
  have := fastaData_range_inv [] lines
  simp only [List.length_nil, List.nil_append] at this
  rw [this]
  congr 2
  funext x
  exact bytesTrimSuffix_cr x

/-! ### the Map function -/

/-- **The body computation of the tree IS the model's.**  For every body token (every byte list, line feeds,
carriage returns and `>` anywhere): the regenerated statements `lines := bytes.Split(body, "\n")` … `data :=
bytes.Join(lines, nil)` do not panic and give `fastaBody body`. -/
theorem fastaBody_eq (body : Bytes) : fastaData body = some (fastaBody body) := by
  simp only [fastaData, bytesSplitByte_lines, fastaData_range_map, bytesJoin_nil, fastaBody]

/-- **The Map function of the tree, on every list of children.**  It reads child 1 as the description and
child 2 as the body (a Go panic exactly when there are fewer than three children) and stores
`Fasta{child 1, fastaBody (child 2)}`. -/
theorem fastaMap_eq (children : List Bytes) :
    fastaMap children =
      (children[1]?).bind fun desc => (children[2]?).map fun body => (desc, fastaBody body) := by
  simp only [fastaMap, fastaDescChild, fastaBodyChild, fastaBody_eq]
  cases children[1]? <;> cases children[2]? <;> rfl

/-- … in particular on the three children a `pars.Seq` of three parsers leaves (the token of `'>'`, of
`pars.Line`, of `pars.Until(…)`): exactly what the model's `fastaParse` returns after `fastaSeq`. -/
theorem fastaMap_seq (gt desc body : Bytes) :
    fastaMap [gt, desc, body] = some (desc, fastaBody body) := by
  rw [fastaMap_eq]; rfl

/-- **Facts about the declaration.**  `FastaParser` is `pars.Seq('>', pars.Line, pars.Until(pars.Any('>',
pars.End))).Map(…)` — the sequence the model's `fastaSeq` reads — and the Map function takes the description
from child 1, the body from child 2. -/
theorem fastaParser_shape :
    fastaParserCtor = "pars.Seq" ∧
    fastaParserArgs = ["'>'", "pars.Line", "pars.Until(pars.Any('>', pars.End))"] ∧
    fastaDescChild = 1 ∧ fastaBodyChild = 2 := ⟨rfl, rfl, rfl, rfl⟩

end Gts.Bridge
