/-
  Bridge (DESIGN.md 4.1b): the GLUE between the library and the CLI as facts — C17 (the reader → edit → writer frame of the commands without a property of their own): join, length, pick, query, summary.
  The command functions of `/repo/cmd/gts/*.go` that have no regenerated tie of their own, as go2lean extracts them from
  the Go source on every run (`Gts/Gen/CmdFacts.lean`, generator go2lean/cmdfacts.go: normal form, one line per statement,
  locals `v0, v1, …`, parameters by type), are what the hand-written expectation `Gts/Spec/CmdTable.lean` says, line by
  line with what each line does in terms of the library function the model has.

  Per command FILE `cmd_<file>` — every function, method and function literal of the file in normal form, its top-level
  declarations, its types (`rfl`: the kernel compares the two literal tables) — and `cmd_<file>_pipeline` — the library
  calls of the command function in source order with the kinds of the headers above them (no variable name, no line
  number: renaming, re-ordered option declarations, another error text keep it; a library call added, dropped, replaced
  or moved under / out of a condition or loop changes it).  One bridge module per property, so that a change of a
  command file stops the check of ITS property only.
-/
import Gts.Gen.CmdFacts
import Gts.Spec.CmdTable
namespace Gts.Bridge.Cmd

/-- `gts join`: `gts.Concat` of all records, `-c` sets the topology -/
theorem cmd_join : Gts.Gen.Cmd.file_join = Gts.Spec.Cmd.file_join ∧ Gts.Gen.Cmd.decls_join = Gts.Spec.Cmd.decls_join ∧
    Gts.Gen.Cmd.types_join = Gts.Spec.Cmd.types_join := ⟨rfl, rfl, rfl⟩

/-- the library pipeline of `gts join` -/
theorem cmd_join_pipeline : Gts.Gen.Cmd.pipeline_join = Gts.Spec.Cmd.pipeline_join := rfl

/-- `gts length`: `gts.Len` per record, one decimal line -/
theorem cmd_length : Gts.Gen.Cmd.file_length = Gts.Spec.Cmd.file_length ∧ Gts.Gen.Cmd.decls_length = Gts.Spec.Cmd.decls_length ∧
    Gts.Gen.Cmd.types_length = Gts.Spec.Cmd.types_length := ⟨rfl, rfl, rfl⟩

/-- the library pipeline of `gts length` -/
theorem cmd_length_pipeline : Gts.Gen.Cmd.pipeline_length = Gts.Spec.Cmd.pipeline_length := rfl

/-- `gts pick`: the `cut`-style list, records numbered from 1 -/
theorem cmd_pick : Gts.Gen.Cmd.file_pick = Gts.Spec.Cmd.file_pick ∧ Gts.Gen.Cmd.decls_pick = Gts.Spec.Cmd.decls_pick ∧
    Gts.Gen.Cmd.types_pick = Gts.Spec.Cmd.types_pick := ⟨rfl, rfl, rfl⟩

/-- the library pipeline of `gts pick` -/
theorem cmd_pick_pipeline : Gts.Gen.Cmd.pipeline_pick = Gts.Spec.Cmd.pipeline_pick := rfl

/-- `gts query`: the feature report -/
theorem cmd_query : Gts.Gen.Cmd.file_query = Gts.Spec.Cmd.file_query ∧ Gts.Gen.Cmd.decls_query = Gts.Spec.Cmd.decls_query ∧
    Gts.Gen.Cmd.types_query = Gts.Spec.Cmd.types_query := ⟨rfl, rfl, rfl⟩

/-- the library pipeline of `gts query` -/
theorem cmd_query_pipeline : Gts.Gen.Cmd.pipeline_query = Gts.Spec.Cmd.pipeline_query := rfl

/-- `gts summary`: the text report -/
theorem cmd_summary : Gts.Gen.Cmd.file_summary = Gts.Spec.Cmd.file_summary ∧ Gts.Gen.Cmd.decls_summary = Gts.Spec.Cmd.decls_summary ∧
    Gts.Gen.Cmd.types_summary = Gts.Spec.Cmd.types_summary := ⟨rfl, rfl, rfl⟩

/-- the library pipeline of `gts summary` -/
theorem cmd_summary_pipeline : Gts.Gen.Cmd.pipeline_summary = Gts.Spec.Cmd.pipeline_summary := rfl

end Gts.Bridge.Cmd
