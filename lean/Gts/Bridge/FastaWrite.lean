/-
  Bridge: the regenerated FASTA writer of seqio/fasta.go and the two description methods of
  `GenBankFields` (seqio/genbank.go) — `Gts/Gen/FastaWrite.lean`, `Gts/Gen/GbFields.lean`, go2lean
  gwriter*.go — ARE the model's `Gts.Fasta` (property C17):

    Fasta.WriteTo (the text handed to io.WriteString)   = `fastaWrite`           (`fastaWriteTo_eq`)
    FastaWriter.WriteSeq (both type switches)            = `fastaWriteSeq`        (`fastaWriterWriteSeq_eq`,
                                                                                  `fastaWriterWriteSeq_genbank`)
    GenBankFields.String                                 = `fastaDescOfGenBank`   (`genBankFieldsString_eq`)
    GenBankFields.ID                                     = `genbankID`            (`genBankFieldsID_eq`)

  Parameters of the generated text and what they are instantiated with: `wrap.Force(s, n)` — the model's
  `wrapForce s n` (go-wrap v1.0.3, hand-modelled); `%d` — the model's `itoaBytes`.
  `strings.ReplaceAll(desc, "\n", " ")` is the fixed re-implementation `wsReplaceByte` of
  `Gts/Gen/GoStrings.lean`, `fmt.Sprintf` with the literal formats `>%s\n%s\n`, `%s:%d-%d %s`, `%s %s` is
  re-implemented by the translator (concatenation).
-/
import Gts.Gen.FastaWrite
import Gts.Gen.GbFields
import Gts.Model.Fasta
namespace Gts.Bridge
open Gts.Pars Gts.Fasta Gts.Gen.GoStrings
open Gts.Gen.FastaWrite Gts.Gen.GbFields

/-- `wrap.Force(s, n)` as the model reads it -/
def wrapForceModel (s : Bytes) (n : Int) : Bytes := wrapForce s n.toNat

/-- `strings.ReplaceAll(d, "\n", " ")` is the model's `nl2sp` -/
theorem wsReplaceByte_nl2sp (d : Bytes) : wsReplaceByte (10 : UInt8) (wsLit " ") d = nl2sp d := by
  induction d with
  | nil => rfl
  | cons c d ih =>
    unfold wsReplaceByte nl2sp
    rw [ih]
    by_cases h : c = 10
    · subst h; rfl
    · simp [h, nl2sp]

/-- **fasta.go `Fasta.WriteTo` writes the model's `fastaWrite`**: `>`, the description with every line feed
turned into a blank, a line feed, the residues wrapped at 70, a line feed -/
theorem fastaWriteTo_eq (desc data : Bytes) :
    fastaWriteTo wrapForceModel { Desc := desc, Data := data } = fastaWrite desc data := by
  unfold fastaWriteTo fastaWrite wrapForceModel
  simp only [wsReplaceByte_nl2sp]
  show wsLit ">" ++ nl2sp desc ++ wsLit "\n" ++ wrapForce data 70 ++ wsLit "\n" = _
  simp [wsLit, width, List.append_assoc]

/-- a sequence value of the model as the dynamic types `FastaWriter.WriteSeq` distinguishes; a
`GenBankFields` is a `fmt.Stringer` whose `String()` is `fastaDescOfGenBank` (`genBankFieldsString_eq`) -/
def seqDyn : SeqVal → SeqDyn
  | .fasta d b => .fasta { Desc := d, Data := b }
  | .fastaPtr d b => .fastaPtr { Desc := d, Data := b }
  | .generic (.str s) b => .other (.string s) b
  | .generic (.genbank v d r) b => .other (.stringer (fastaDescOfGenBank v d r)) b
  | .generic (.stringer s) b => .other (.stringer s) b
  | .generic .other b => .other .other b

/-- **fasta.go `FastaWriter.WriteSeq` is the model's `fastaWriteSeq`**: a `Fasta` and a `*Fasta` are written
as they are, `string` metadata is the description, a `fmt.Stringer` gives its `String()`, everything else
is the error -/
theorem fastaWriterWriteSeq_eq (v : SeqVal) :
    fastaWriterWriteSeq wrapForceModel (seqDyn v) = fastaWriteSeq v := by
  cases v with
  | fasta d b => simp [seqDyn, fastaWriterWriteSeq, fastaWriterWriteSeqFasta, fastaWriteTo_eq, fastaWriteSeq]
  | fastaPtr d b => simp [seqDyn, fastaWriterWriteSeq, fastaWriterWriteSeqFasta, fastaWriteTo_eq, fastaWriteSeq]
  | generic info b =>
    cases info <;> simp [seqDyn, fastaWriterWriteSeq, fastaWriterWriteSeqFasta, fastaWriteTo_eq, fastaWriteSeq]

/-- **genbank.go `GenBankFields.String` is `fastaDescOfGenBank`** of the version, the definition and the
region — for EVERY value of the Go struct: `version:head+1-tail definition` when the region is a
`gts.Segment`, `version definition` otherwise -/
theorem genBankFieldsString_eq (gbf : GenBankFields) :
    genBankFieldsString itoaBytes gbf = fastaDescOfGenBank gbf.Version gbf.Definition gbf.Region := by
  unfold genBankFieldsString fastaDescOfGenBank gtsUnpack
  cases h : gbf.Region with
  | none => simp [wsLit, List.append_assoc]
  | some seg =>
    obtain ⟨a, c⟩ := seg
    simp [wsLit, List.append_assoc]

/-- the GenBank case of `WriteSeq` with the REGENERATED `String()`: a sequence whose metadata is a
`GenBankFields` value is written under the description `fastaDescOfGenBank` -/
theorem fastaWriterWriteSeq_genbank (gbf : GenBankFields) (b : Bytes) :
    fastaWriterWriteSeq wrapForceModel (.other (.stringer (genBankFieldsString itoaBytes gbf)) b) =
      fastaWriteSeq (.generic (.genbank gbf.Version gbf.Definition gbf.Region) b) := by
  rw [genBankFieldsString_eq]
  exact fastaWriterWriteSeq_eq (.generic (.genbank gbf.Version gbf.Definition gbf.Region) b)

/-- **genbank.go `GenBankFields.ID` is `genbankID`**: the first non-empty one of version, accession, locus name -/
theorem genBankFieldsID_eq (gbf : GenBankFields) :
    genBankFieldsID gbf = genbankID gbf.Version gbf.Accession gbf.LocusName := by
  unfold genBankFieldsID genbankID
  cases gbf.Version <;> cases gbf.Accession <;> simp

/-- non-vacuity: a two-line description `a\nb` and 71 residues (one wrapped line) -/
example : fastaWriteTo wrapForceModel { Desc := [97, 10, 98], Data := List.replicate 71 65 } =
    [62, 97, 32, 98, 10] ++ List.replicate 70 65 ++ [10, 65, 10] := by
  rw [fastaWriteTo_eq]; decide

/-- non-vacuity: string metadata `id` over the residues `acgt`, and metadata of no known kind -/
example : fastaWriterWriteSeq wrapForceModel (seqDyn (.generic (.str [105, 100]) [97, 99, 103, 116])) =
      some [62, 105, 100, 10, 97, 99, 103, 116, 10] ∧
    fastaWriterWriteSeq wrapForceModel (seqDyn (.generic .other [97])) = none := by
  rw [fastaWriterWriteSeq_eq, fastaWriterWriteSeq_eq]; decide

/-- non-vacuity: the description of a sliced GenBank record (`Region = Segment{2, 9}`) -/
example : genBankFieldsString itoaBytes
      { LocusName := [], Molecule := [], Topology := 0, Division := [], Date := ⟨0, 0, 0⟩, Definition := [100],
        Accession := [], Version := [86], DBLink := [], Keywords := [], Source := ⟨[], [], []⟩, References := [],
        Comments := [], Extra := [], Contig := ⟨[], (0, 0)⟩, Region := some (2, 9) } =
    [86] ++ 58 :: itoaBytes 3 ++ 45 :: itoaBytes 9 ++ 32 :: [100] := by
  rw [genBankFieldsString_eq]; rfl

end Gts.Bridge
