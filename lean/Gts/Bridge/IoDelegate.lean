/-
  C14 bridge (DESIGN.md 4.1b): the cache PROTOCOL code of the CLI — `/repo/cmd/gts/io.go`: `newIODelegate`,
  `TryCache`, the tee `Write`, `Commit`, `Close`, `gtsCacheDir`, `attach` — as go2lean extracts it from the Go
  source on every run (`Gts/Gen/IoDelegateFacts.lean`, generator go2lean/iodelegate.go) is what the
  hand-written protocol model follows (`Gts/Spec/IoDelegateTable.lean`, written next to
  `Gts/Model/CacheProto.lean`, line by line with the clause of `step` each line mirrors).

  One theorem per Go function (`iodelegate_<function>`, closed by `rfl`: the kernel compares the two literal
  tables), so that a change names the function that changed; plus statements ABOUT the extracted tables that
  the C14 theorems lean on and that do not depend on the line numbers or on which `vN` a local got
  (closed by `decide +kernel` on the tables `calls / returns / assigns / conds` the generator reads off the
  normal form): `hit_copy_error_falls_back`, `stdin_always_spooled_and_hashed`, `commit_only_sets_flag`,
  `close_removes_unless_committed`, `tee_writes_both`.
-/
import Gts.Gen.IoDelegateFacts
import Gts.Spec.IoDelegateTable
namespace Gts.Bridge.IoDelegate

/-! ### the tables, function by function -/

/-- the inventory: the functions and methods of io.go (outside `exact` / `encodePayload`) are the expected
ones, in order — a new helper (seeded C14-g: `isRegular`) or a function literal shows here -/
theorem iodelegate_inventory : Gts.Gen.IoDelegate.fns.map (·.1) = Gts.Spec.IoDelegate.fns.map (·.1) := by decide +kernel

/-- `exact` and `encodePayload` are the functions left to Gts/Bridge/KeyEnc.lean -/
theorem iodelegate_elsewhere : Gts.Gen.IoDelegate.elsewhere = Gts.Spec.IoDelegate.elsewhere := rfl

/-- the struct `ioDelegate` field by field (the literal of `newIODelegate` is positional), `attachment`, `tuple` -/
theorem iodelegate_types : Gts.Gen.IoDelegate.types = Gts.Spec.IoDelegate.types := rfl

/-- `(*attachment).Read`: what is read from a secondary input is what goes into its digest -/
theorem iodelegate_attachment_Read : Gts.Gen.IoDelegate.fn_attachment_Read = Gts.Spec.IoDelegate.fn_attachment_Read := rfl

/-- `attach(w, r)` -/
theorem iodelegate_attach : Gts.Gen.IoDelegate.fn_attach = Gts.Spec.IoDelegate.fn_attach := rfl

/-- `gtsCacheDir`: the user's cache directory, `gts-cache` below it, made on demand -/
theorem iodelegate_gtsCacheDir : Gts.Gen.IoDelegate.fn_gtsCacheDir = Gts.Spec.IoDelegate.fn_gtsCacheDir := rfl

/-- `Commit` -/
theorem iodelegate_Commit : Gts.Gen.IoDelegate.fn_ioDelegate_Commit = Gts.Spec.IoDelegate.fn_ioDelegate_Commit := rfl

/-- `newIODelegate`: `-` is stdin / stdout; a fresh delegate has no entry, is not committed -/
theorem iodelegate_newIODelegate : Gts.Gen.IoDelegate.fn_newIODelegate = Gts.Spec.IoDelegate.fn_newIODelegate := rfl

/-- `(*ioDelegate).Read` -/
theorem iodelegate_Read : Gts.Gen.IoDelegate.fn_ioDelegate_Read = Gts.Spec.IoDelegate.fn_ioDelegate_Read := rfl

/-- the tee `(*ioDelegate).Write` -/
theorem iodelegate_Write : Gts.Gen.IoDelegate.fn_ioDelegate_Write = Gts.Spec.IoDelegate.fn_ioDelegate_Write := rfl

/-- `TryCache`: every statement in normal form is the one the model's `step` mirrors, in its order -/
theorem iodelegate_TryCache : Gts.Gen.IoDelegate.fn_ioDelegate_TryCache = Gts.Spec.IoDelegate.fn_ioDelegate_TryCache := rfl

/-- `Close` -/
theorem iodelegate_Close : Gts.Gen.IoDelegate.fn_ioDelegate_Close = Gts.Spec.IoDelegate.fn_ioDelegate_Close := rfl

/-- all of them at once -/
theorem iodelegate_fns : Gts.Gen.IoDelegate.fns = Gts.Spec.IoDelegate.fns := rfl

/-! ### reading the extracted tables -/

abbrev Line := Gts.Gen.IoDelegate.Line

/-- the table of a function -/
def table (f : String) : List Line := ((Gts.Gen.IoDelegate.fns.filter (·.1 == f)).map (·.2)).flatten

/-- the lines of function `f` that call `on.name(…)`, with the arguments (`on = none`: called on anything) -/
def callsTo (f : String) (on : Option String) (name : String) : List (Nat × List String) :=
  (Gts.Gen.IoDelegate.calls.filter fun c => c.1 == f && (on.isNone || on == some c.2.2.1) && c.2.2.2.1 == name).map
    fun c => (c.2.1, c.2.2.2.2)

/-- the calls of function `f` as `(on, name, arguments)` in source order -/
def callSeq (f : String) (p : Nat → String → String → List String → Bool) : List (String × String × List String) :=
  (Gts.Gen.IoDelegate.calls.filter fun c => c.1 == f && p c.2.1 c.2.2.1 c.2.2.2.1 c.2.2.2.2).map (·.2.2)

def assignAt (f : String) (i : Nat) : Option (List String × String × List String) :=
  ((Gts.Gen.IoDelegate.assigns.filter fun a => a.1 == f && a.2.1 == i).map (·.2.2)).head?

def condAt (f : String) (i : Nat) : Option String :=
  ((Gts.Gen.IoDelegate.conds.filter fun a => a.1 == f && a.2.1 == i).map (·.2.2)).head?

def underAt (f : String) (i : Nat) : List String :=
  ((Gts.Gen.IoDelegate.under.filter fun a => a.1 == f && a.2.1 == i).map (·.2.2)).flatten

/-- the body of the header at line `i`: the lines behind it that are indented deeper -/
def bodyOf (f : String) (i : Nat) : List Line :=
  match (table f)[i]? with
  | none => []
  | some h => ((table f).drop (i + 1)).takeWhile fun l => h.1 < l.1

/-- the returns of `f`: (line, results, innermost header) -/
def returnsOf (f : String) : List (Nat × List String × String) :=
  (Gts.Gen.IoDelegate.returns.filter (·.1 == f)).map (·.2)

abbrev TC := "ioDelegate.TryCache"

/-! ### what the C14 theorems lean on -/

/-- the check behind `hit_copy_error_falls_back` -/
def hitCopyErrorFallsBack : Bool :=
  match callsTo TC (some "io") "Copy" |>.filter (·.2.head? == some "recv.outfile") with
  | [(l, [_, src])] =>
    match assignAt TC l, condAt TC l, callsTo TC (some "cache") "Open" with
    | some (["_", e], ":=", [_]), some c, [(o, _)] =>
      -- the source of the copy is the file `cache.Open` returned
      (assignAt TC o).map (·.1.head?) == some (some src) &&
      -- the ERROR of the copy alone decides (not the number of bytes copied: seeded W3-1) …
      c == e ++ " != nil" &&
      -- … and all that happens under it is `return false, nil`: no hit is reported, no error, `d.cache` stays nil
      (bodyOf TC l).map (·.2) == [("return", "false, nil")] &&
      -- a hit is reported by ONE statement: the last one of the function, at its top level, behind the copy
      (returnsOf TC).filter (·.2.1.head? == some "true") == [((table TC).length - 1, ["true", "nil"], "")] &&
      l + 1 < (table TC).length - 1
    | _, _, _ => false
  | _ => false

/-- **The error of the hit copy is never reported as success**: `TryCache` copies an entry to the output in
exactly one place, `if _, e := io.Copy(d.outfile, f); e != nil`, with `f` the file `cache.Open` returned; the
condition is the error alone; the body of that `if` is `return false, nil` and nothing else (the model's
`brokenHit`: the run falls back to an uncached run, without an armed entry); `true` is returned by the
last statement alone, at the top level of the function, behind that `if`.  (Seeded W3-1 — `err != nil && n == 0` —
makes this false.) -/
theorem hit_copy_error_falls_back : hitCopyErrorFallsBack = true := by decide +kernel

/-- a call that touches the digest `a0` (the `hash.Hash` parameter): a method of it, or it is an argument -/
def onHash (on : String) (args : List String) : Bool := on == "a0" || args.contains "a0"

/-- the check behind `stdin_always_spooled_and_hashed` -/
def stdinAlwaysSpooledAndHashed : Bool :=
  match callsTo TC (some "cache") "Open", callsTo TC (some "") "gtsCacheDir",
        (Gts.Gen.IoDelegate.conds.filter fun c => c.1 == TC && c.2.2 == "recv.infile == os.Stdin").map (·.2.1),
        callsTo TC (some "ioutil") "TempFile" with
  | [(o, openArgs)], [(g, [])], [sp], [(t, _)] =>
    match assignAt TC g, assignAt TC t with
    | some ([dir, _], ":=", [_]), some ([tmp, _], ":=", [_]) =>
      -- (a) NO return in front of `cache.Open` reports a hit: there is no shortcut around the key
      (((returnsOf TC).filter (·.1 < o)).all fun r => r.2.1.head? == some "false") &&
      -- (b) stdin is spooled under the condition `d.infile == os.Stdin` ALONE (seeded C14-g adds `&& !isRegular(…)`),
      --     at the top level of the function, in front of every use of the digest: temporary file, the whole of
      --     stdin copied into it, rewound, and from then on it IS the primary input
      underAt TC sp == [] &&
      (bodyOf TC sp).filter (fun l => l.1 == 2 && l.2.1 != "if") ==
        [(2, "assign", tmp ++ ", " ++ ((assignAt TC t).map (·.1.getD 1 "")).getD "" ++ " := ioutil.TempFile(\"\", \"gts-tmp-*\")"),
         (2, "assign", "recv.infile = " ++ tmp), (2, "assign", "recv.tmpin = true")] &&
      callSeq TC (fun i on _ _ => sp < i && i ≤ sp + (bodyOf TC sp).length && on != "recv") ==
        [("ioutil", "TempFile", ["\"\"", "\"gts-tmp-*\""]), ("io", "Copy", [tmp, "os.Stdin"]),
         (tmp, "Seek", ["0", "io.SeekStart"])] &&
      -- (c) the digest is used, in this order and in front of `cache.Open`: Reset, the WHOLE primary input, Sum;
      --     Reset, the payload, Sum — and nowhere else in front of it
      (match callSeq TC (fun i on _ args => i < o && onHash on args) with
       | [("a0", "Reset", []), ("io", "Copy", ["a0", "recv.infile"]), ("a0", "Sum", ["nil"]),
          ("a0", "Reset", []), ("a0", "Write", ["p0"]), ("a0", "Sum", ["nil"])] => true
       | _ => false) &&
      (callSeq TC (fun i on _ args => i ≤ sp + (bodyOf TC sp).length && onHash on args)).isEmpty &&
      -- (d) the two sums are the key, root sum first, in the directory `gtsCacheDir` returned — for `Open` and for
      --     the entry `CreateLevel` makes on a miss
      (match (callsTo TC (some "a0") "Sum").map (fun s => (assignAt TC s.1).map (·.1)) with
       | [some [r], some [q]] =>
         openArgs == [dir, "a0", r, q] &&
         (callsTo TC (some "cache") "CreateLevel").map (·.2) == [[dir, "a0", r, q, "flate.BestSpeed"]]
       | _ => false)
    | _, _ => false
  | _, _, _, _ => false

/-- **No shortcut before the key is computed**: every `return` of `TryCache` in front of `cache.Open` returns
`false` (seeded W3-2 returns `true, nil` on empty stdin); stdin is spooled under `d.infile == os.Stdin` alone —
temporary file, `io.Copy(f, os.Stdin)`, rewind, `d.infile = f`, `d.tmpin = true` — in front of every use of the
digest; the digest sees `Reset; io.Copy(h, d.infile); Sum; Reset; Write(data); Sum` in that order and nothing else;
`cache.Open` and `cache.CreateLevel` get the directory of `gtsCacheDir` and the two sums, root sum first. -/
theorem stdin_always_spooled_and_hashed : stdinAlwaysSpooledAndHashed = true := by decide +kernel

/-- **`Commit` sets the flag and nothing else, and nothing else sets it**: its body is the one statement
`d.done = true` (no call); no other line of io.go assigns `done`; a fresh delegate has `done = false` (the last
of the five positional fields of the literal in `newIODelegate`, the field order being `types`). -/
theorem commit_only_sets_flag :
    Gts.Gen.IoDelegate.fn_ioDelegate_Commit = [(0, "func", "(recv *ioDelegate) ()"), (1, "assign", "recv.done = true")] ∧
    (Gts.Gen.IoDelegate.assigns.filter fun a => a.2.2.1.any fun l => l == "recv.done" || l == "recv") =
      [("ioDelegate.Commit", 1, ["recv.done"], "=", ["true"])] ∧
    (Gts.Gen.IoDelegate.calls.filter (·.1 == "ioDelegate.Commit")) = [] ∧
    ((Gts.Gen.IoDelegate.types.filter (·.1 == "ioDelegate")).map (·.2)) =
      [["infile *os.File", "outfile *os.File", "cache *cache.File", "tmpin bool", "done bool"]] ∧
    ((returnsOf "newIODelegate").filter (·.2.2 == "")).map (·.2.1) =
      [["&ioDelegate{v0, v1, nil, false, false}", "nil"]] := by decide +kernel

abbrev CL := "ioDelegate.Close"

/-- the check behind `close_removes_unless_committed` -/
def closeRemovesUnlessCommitted : Bool :=
  match callsTo CL (some "os") "Remove" |>.filter (·.2 == ["recv.cache.Name()"]), callsTo CL (some "recv.cache") "Close" with
  | [(l, _)], [(c, [])] =>
    match assignAt CL c with
    | some ([e], ":=", ["recv.cache.Close()"]) =>
      -- the entry is removed under: an armed entry, and (its Close failed or the run was not committed)
      underAt CL l == ["if recv.cache != nil", "if " ++ e ++ " := recv.cache.Close(); " ++ e ++ " != nil || !recv.done"] &&
      condAt CL c == some (e ++ " != nil || !recv.done") &&
      -- that `if` does nothing but remove it, the outer one nothing but that `if`
      (bodyOf CL c).map (·.2) == [("call", "os.Remove(recv.cache.Name())")] &&
      (bodyOf CL (c - 1)).length == 2 &&
      -- the entry is finalised (`cache.Close`) exactly once, before it may be removed, and Close always returns nil
      c < l && returnsOf CL == [((table CL).length - 1, ["nil"], "")]
    | _ => false
  | _, _ => false

/-- **`Close` removes the entry unless the run was committed** (and the entry's own `Close` worked): the one
`os.Remove(d.cache.Name())` of `Close` stands under `if d.cache != nil` and
`if err := d.cache.Close(); err != nil || !d.done`, which do nothing else; `d.cache.Close()` (finalising the entry)
runs exactly once and first.  This is `keep := o.committed && r.closeOk` of `CacheProto.step`. -/
theorem close_removes_unless_committed : closeRemovesUnlessCommitted = true := by decide +kernel

abbrev WR := "ioDelegate.Write"

/-- the check behind `tee_writes_both` -/
def teeWritesBoth : Bool :=
  match callSeq WR (fun _ _ _ _ => true), callsTo WR (some "recv.cache") "Write", callsTo WR (some "recv.outfile") "Write" with
  | [("recv.cache", "Write", ["p0"]), ("recv.outfile", "Write", ["p0"])], [(c, _)], [(o, _)] =>
    match assignAt WR c, assignAt WR o with
    | some ([n, e], ":=", [_]), some ([m, e'], ":=", [_]) =>
      -- the entry gets the chunk when (and only when) an entry is armed, the output always (top level)
      underAt WR c == ["if recv.cache != nil"] && underAt WR o == [] &&
      -- an entry write error is returned AT ONCE: the output does not get the chunk, the command's write fails
      (bodyOf WR (c + 1)).map (·.2) == [("return", n ++ ", " ++ e)] && condAt WR (c + 1) == some (e ++ " != nil") &&
      underAt WR (c + 1) == ["if recv.cache != nil"] &&
      -- otherwise the result of the write is the result of the OUTPUT's write
      returnsOf WR == [(c + 2, [n, e], "if " ++ e ++ " != nil"), (o + 1, [m, e'], "")]
    | _, _ => false
  | _, _, _ => false

/-- **The tee writes both**: `Write(p)` calls exactly `d.cache.Write(p)` (under `d.cache != nil` alone) and then
`d.outfile.Write(p)` (unconditionally), with the SAME buffer; what the code does on an entry write error: it is
returned at once — `return n, err` — so the real output does not get that chunk and the command's write fails
(the entry is then discarded by `Close`: the run is not committed); otherwise `Write` returns what the output's
write returned. -/
theorem tee_writes_both : teeWritesBoth = true := by decide +kernel

/-- **A hit removes the entry exactly when the output is a file**: `os.Remove(f.Name())` of the entry `cache.Open`
returned stands under `d.outfile != os.Stdout` alone (`if r.toFile then Store.set σ n none else σ`) -/
theorem hit_removes_entry_for_file_output :
    (match callsTo TC (some "cache") "Open" with
     | [(o, _)] =>
       (match assignAt TC o with
        | some ([f, _], ":=", [_]) =>
          ((callsTo TC (some "os") "Remove").filter (·.2 == [f ++ ".Name()"])).map (fun r => underAt TC r.1) ==
            [["if recv.outfile != os.Stdout"]]
        | _ => false)
     | _ => false) = true := by decide +kernel

/-- **A miss arms the tee with the entry it created, and only a miss does**: `d.cache` is assigned once in io.go,
under `if err != nil` of `cache.Open`'s error, with the file `cache.CreateLevel` returned, and the next statement is
`return false, nil` -/
theorem miss_arms_the_tee :
    (match callsTo TC (some "cache") "Open", callsTo TC (some "cache") "CreateLevel" with
     | [(o, _)], [(k, _)] =>
       (match assignAt TC o, assignAt TC k with
        | some ([_, e], ":=", [_]), some ([f, _], ":=", [_]) =>
          (Gts.Gen.IoDelegate.assigns.filter fun a => a.2.2.1.contains "recv.cache").map (fun a => (a.1, a.2.2, underAt a.1 a.2.1)) ==
            [(TC, (["recv.cache"], "=", [f]), ["if " ++ e ++ " != nil"])] &&
          condAt TC (o + 1) == some (e ++ " != nil") &&
          ((bodyOf TC (o + 1)).filter (·.1 == 2)).getLast? == some (2, "return", "false, nil")
        | _, _ => false)
     | _, _ => false) = true := by decide +kernel

/-- **A cache that cannot be set up is not an error of the run**: the failure of `gtsCacheDir()` and of
`ioutil.TempFile` is answered by `return false, nil` and nothing else — `!r.usable` of `CacheProto.step`: the body runs
uncached.  (Seeded C14-h returns the error: the command fails where `--no-cache` succeeds.) -/
theorem cache_setup_failure_bypasses :
    (match callsTo TC (some "") "gtsCacheDir", callsTo TC (some "ioutil") "TempFile" with
     | [(g, _)], [(t, _)] =>
       (match assignAt TC g, assignAt TC t with
        | some ([_, e], ":=", [_]), some ([_, e'], ":=", [_]) =>
          condAt TC (g + 1) == some (e ++ " != nil") && (bodyOf TC (g + 1)).map (·.2) == [("return", "false, nil")] &&
          condAt TC (t + 1) == some (e' ++ " != nil") && (bodyOf TC (t + 1)).map (·.2) == [("return", "false, nil")]
        | _, _ => false)
     | _, _ => false) = true := by decide +kernel

end Gts.Bridge.IoDelegate
