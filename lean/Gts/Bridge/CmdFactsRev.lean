/-
  Bridge (DESIGN.md 4.1b): the GLUE between the library and the CLI as facts — C05: reverse, complement.
  The command functions of `/repo/cmd/gts/*.go` that have no regenerated tie of their own, as go2lean extracts them from
  the Go source on every run (`Gts/Gen/CmdFacts.lean`, generator go2lean/cmdfacts.go: normal form, one line per statement,
  locals `v0, v1, …`, parameters by type), are what the hand-written expectation `Gts/Spec/CmdTable.lean` says, line by
  line with what each line does in terms of the library function the model has.

  Per command FILE `cmd_<file>` — every function, method and function literal of the file in normal form, its top-level
  declarations, its types (`rfl`: the kernel compares the two literal tables) — and `cmd_<file>_pipeline` — the library
  calls of the command function in source order with the kinds of the headers above them (no variable name, no line
  number: renaming, re-ordered option declarations, another error text keep it; a library call added, dropped, replaced
  or moved under / out of a condition or loop changes it).  One bridge module per property, so that a change of a
  command file stops the check of ITS property only.
-/
import Gts.Gen.CmdFacts
import Gts.Spec.CmdTable
namespace Gts.Bridge.Cmd

/-- `gts reverse`: `gts.Reverse` per record and nothing else -/
theorem cmd_reverse : Gts.Gen.Cmd.file_reverse = Gts.Spec.Cmd.file_reverse ∧ Gts.Gen.Cmd.decls_reverse = Gts.Spec.Cmd.decls_reverse ∧
    Gts.Gen.Cmd.types_reverse = Gts.Spec.Cmd.types_reverse := ⟨rfl, rfl, rfl⟩

/-- the library pipeline of `gts reverse` -/
theorem cmd_reverse_pipeline : Gts.Gen.Cmd.pipeline_reverse = Gts.Spec.Cmd.pipeline_reverse := rfl

/-- `gts complement`: `gts.Complement` per record and nothing else -/
theorem cmd_complement : Gts.Gen.Cmd.file_complement = Gts.Spec.Cmd.file_complement ∧ Gts.Gen.Cmd.decls_complement = Gts.Spec.Cmd.decls_complement ∧
    Gts.Gen.Cmd.types_complement = Gts.Spec.Cmd.types_complement := ⟨rfl, rfl, rfl⟩

/-- the library pipeline of `gts complement` -/
theorem cmd_complement_pipeline : Gts.Gen.Cmd.pipeline_complement = Gts.Spec.Cmd.pipeline_complement := rfl

end Gts.Bridge.Cmd
