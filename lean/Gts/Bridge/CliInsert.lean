/-
  Bridge: the per-record steps of `gts insert` and `gts infix`, regenerated from cmd/gts/insert.go and
  infix.go by go2lean (Gts/Gen/CliInsert.lean: `indices[i] = r.Head()` for every located region, the
  descending sort, one `insert(out, index, guest)` per index into a copy of the host, for every guest
  — infix: for every host —, the loops recursive helpers), write exactly the model's `Cli.insert` of
  every (host, guest) pair, in order — for EVERY record, locator, `-e` flag and list of guests / hosts.
-/
import Gts.Gen.CliInsert
import Gts.Bridge.CliLoops
namespace Gts.Bridge
open Gts

/-! ### `gts insert` -/

/-- the generated loop `for i, r := range rr { indices[i] = r.Head() }` has the fill shape -/
theorem insertStepLoop_shape (locate : Seq → List Reg) (embed : Bool) (guests : List Seq)
    (r : Reg) (rest : List Reg) (i : Int) (indices : List Int) :
    Gen.insertStepLoop locate embed guests (r :: rest) i indices =
      (Gen.clPut indices (i + 0) (Reg.head r)).bind fun ys =>
        Gen.insertStepLoop locate embed guests rest (i + 1) ys := by
  rw [Int.add_zero]
  cases h : Gen.clPut indices i (Reg.head r) <;> simp [Gen.insertStepLoop, h]

/-- `indices := make([]int, len(rr)); for i, r := range rr { indices[i] = r.Head() }` collects the
heads, in order, without an index out of range -/
theorem insertStep_heads (locate : Seq → List Reg) (embed : Bool) (guests : List Seq) (rr : List Reg) :
    Gen.insertStepLoop locate embed guests rr 0 (List.replicate rr.length default) = some (rr.map Reg.head) := by
  have h := fillLoop_spec (Gen.insertStepLoop locate embed guests) Reg.head 0 (fun _ _ => rfl)
    (insertStepLoop_shape locate embed guests) rr 0 [] (List.replicate rr.length default) [] (by simp) (by simp)
  simpa using h

/-- the generated loop `for _, index := range indices { out = insert(out, index, guest) }` -/
theorem insertStepLoop3_eq (locate : Seq → List Reg) (embed : Bool) (guests : List Seq) (guest : Seq)
    (indices : List Int) (out : Seq) :
    Gen.insertStepLoop3 locate embed guests guest indices out = some (Cli.insertAt embed indices out guest) :=
  foldLoop_spec (Gen.insertStepLoop3 locate embed guests guest)
    (fun out i => if embed then out.embed i guest else out.insert i guest)
    (fun _ => rfl) (fun _ _ _ => rfl) indices out

/-- the generated loop over the guests: one copy of the host per guest -/
theorem insertStepLoop2_eq (locate : Seq → List Reg) (embed : Bool) (guests : List Seq) (host : Seq)
    (indices : List Int) (gs : List Seq) (written : List Seq) :
    Gen.insertStepLoop2 locate embed guests host indices gs written =
      some (written ++ gs.map fun g => Cli.insertAt embed indices host g) :=
  appendLoop_spec (Gen.insertStepLoop2 locate embed guests host indices)
    (fun g => Cli.insertAt embed indices host g) (fun _ => rfl)
    (fun g rest w => by simp only [Gen.insertStepLoop2, insertStepLoop3_eq]) gs written

/-- **`gts insert`, one host record**: the scan-loop body of insert.go, as written, hands to
`WriteSeq` the model's `Cli.insert` of the host and each guest, in the order of the guests, and no
index expression in it panics. -/
theorem insertStep_eq (locate : Seq → List Reg) (embed : Bool) (guests : List Seq) (host : Seq) :
    Gen.insertStep locate embed guests host = some (guests.map fun g => Cli.insert locate embed host g) := by
  simp only [Gen.insertStep, clMake_nat, insertStep_heads, insertStepLoop2_eq, Cli.insert, List.nil_append]

example : Gen.insertStep (fun _ => [.seg 1 3, .seg 4 2]) false [⟨[], [9]⟩, ⟨[], [8, 8]⟩] ⟨[], [1, 2, 3, 4, 5]⟩
    = some ([⟨[], [9]⟩, ⟨[], [8, 8]⟩].map fun g => Cli.insert (fun _ => [.seg 1 3, .seg 4 2]) false ⟨[], [1, 2, 3, 4, 5]⟩ g) :=
  insertStep_eq _ _ _ _

theorem insertStepFacts_eq : Gen.insertStepFacts = ["sortDesc", "copy", "write", "flush"] := rfl

/-! ### `gts infix` -/

theorem infixStepLoop2_shape (locate : Seq → List Reg) (embed : Bool) (hosts : List Seq)
    (r : Reg) (rest : List Reg) (i : Int) (indices : List Int) :
    Gen.infixStepLoop2 locate embed hosts (r :: rest) i indices =
      (Gen.clPut indices (i + 0) (Reg.head r)).bind fun ys =>
        Gen.infixStepLoop2 locate embed hosts rest (i + 1) ys := by
  rw [Int.add_zero]
  cases h : Gen.clPut indices i (Reg.head r) <;> simp [Gen.infixStepLoop2, h]

theorem infixStep_heads (locate : Seq → List Reg) (embed : Bool) (hosts : List Seq) (rr : List Reg) :
    Gen.infixStepLoop2 locate embed hosts rr 0 (List.replicate rr.length default) = some (rr.map Reg.head) := by
  have h := fillLoop_spec (Gen.infixStepLoop2 locate embed hosts) Reg.head 0 (fun _ _ => rfl)
    (infixStepLoop2_shape locate embed hosts) rr 0 [] (List.replicate rr.length default) [] (by simp) (by simp)
  simpa using h

theorem infixStepLoop3_eq (locate : Seq → List Reg) (embed : Bool) (hosts : List Seq) (seq : Seq)
    (indices : List Int) (out : Seq) :
    Gen.infixStepLoop3 locate embed hosts seq indices out = some (Cli.insertAt embed indices out seq) :=
  foldLoop_spec (Gen.infixStepLoop3 locate embed hosts seq)
    (fun out i => if embed then out.embed i seq else out.insert i seq)
    (fun _ => rfl) (fun _ _ _ => rfl) indices out

/-- the generated loop over the hosts: locate, collect the heads, sort, insert the scanned record -/
theorem infixStepLoop_eq (locate : Seq → List Reg) (embed : Bool) (hosts : List Seq) (seq : Seq)
    (hs : List Seq) (written : List Seq) :
    Gen.infixStepLoop locate embed hosts seq hs written =
      some (written ++ hs.map fun h => Cli.insert locate embed h seq) :=
  appendLoop_spec (Gen.infixStepLoop locate embed hosts seq)
    (fun h => Cli.insert locate embed h seq) (fun _ => rfl)
    (fun h rest w => by
      simp only [Gen.infixStepLoop, clMake_nat, infixStep_heads, infixStepLoop3_eq, Cli.insert]) hs written

/-- **`gts infix`, one guest record**: the scan-loop body of infix.go, as written, hands to
`WriteSeq` the model's `Cli.insert` of each host and the scanned record, in the order of the hosts. -/
theorem infixStep_eq (locate : Seq → List Reg) (embed : Bool) (hosts : List Seq) (seq : Seq) :
    Gen.infixStep locate embed hosts seq = some (hosts.map fun h => Cli.insert locate embed h seq) := by
  simp only [Gen.infixStep, infixStepLoop_eq, List.nil_append]

example : Gen.infixStep (fun _ => [.seg 1 3, .seg 4 2]) true [⟨[], [1, 2, 3, 4, 5]⟩] ⟨[], [9]⟩
    = some ([⟨[], [1, 2, 3, 4, 5]⟩].map fun h => Cli.insert (fun _ => [.seg 1 3, .seg 4 2]) true h ⟨[], [9]⟩) :=
  infixStep_eq _ _ _ _

theorem infixStepFacts_eq : Gen.infixStepFacts = ["sortDesc", "copy", "write", "flush"] := rfl

end Gts.Bridge
