/-
  Bridge: the per-record steps of `gts reverse` and `gts complement`, regenerated from cmd/gts/reverse.go and
  complement.go by go2lean (Gts/Gen/CmdReverse.lean, generator go2lean/cmdsteps.go): each hands exactly one record to
  `WriteSeq` — `gts.Reverse(seq)` resp. `gts.Complement(seq)` and nothing else (no second operation, no filter in
  front or behind) — for EVERY record.
-/
import Gts.Gen.CmdReverse
namespace Gts.Bridge
open Gts

/-- **`gts reverse`, one record**: the scan-loop body of reverse.go writes `Seq.reverse` of the record (residues
reversed, every location `Reverse(len)`d; NOT complemented) -/
theorem reverseStep_eq (seq : Seq) : Gen.reverseStep seq = some [Cli.reverseStep seq] := rfl

/-- **`gts complement`, one record**: the scan-loop body of complement.go writes `Seq.complement` of the record
(residues through the complement alphabet, every location `Complement()`ed; NOT reversed) -/
theorem complementStep_eq (seq : Seq) : Gen.complementStep seq = some [Cli.complementStep seq] := rfl

/-- reverse.go flushes per record, complement.go once behind the loop -/
theorem reverseStepFacts_eq : Gen.reverseStepFacts = ["write", "flush"] ∧ Gen.complementStepFacts = ["write"] := ⟨rfl, rfl⟩

example : Gen.reverseStep ⟨[⟨"gene", .ranged 0 2 false false, []⟩], [65, 67, 71]⟩ =
    some [Cli.reverseStep ⟨[⟨"gene", .ranged 0 2 false false, []⟩], [65, 67, 71]⟩] := reverseStep_eq _

end Gts.Bridge
