/-
  Bridge: `Location.Complement()` over the seven kinds, regenerated from location.go by go2lean
  (Gts/Gen/LocComplement.lean: one arm per kind, generated from the `return` statement of the method —
  `Complemented{recv}`, `recv` or `recv.Location`), is the hand-written model's `Loc.complement`.
-/
import Gts.Gen.LocComplement
import Gts.Model.Loc
namespace Gts.Bridge
open Gts

/-- `Location.Complement()` as location.go defines it now is the model's `Loc.complement`: the six
kinds other than `Complemented` are wrapped, a `Complemented` yields its inner location -/
theorem locComplement_eq : Gen.locComplement = Loc.complement := by
  funext l
  cases l <;> rfl

-- non-vacuity
example : Gen.locComplement (.compl (.joined [.point 1, .point 5])) = .joined [.point 1, .point 5] := rfl
example : Gen.locComplement (.ranged 2 7 false true) = .compl (.ranged 2 7 false true) := rfl

end Gts.Bridge
