/-
  Bridge: `CheckStrand` / `checkStrand`, regenerated from location.go by go2lean
  (Gts/Gen/LocStrand.lean: the `Strand` constants from the `iota` block, `checkStrand` translated on
  the list of the `CheckStrand` results of the elements — the counting loop with its tagged switch —,
  `CheckStrand`'s type switch clause by clause as a structural recursion over `Gts.Loc`), are the
  hand-written model's `Loc.strandList` / `Loc.strand` (1 = forward, 2 = reverse, 0 = both) — for EVERY
  location.  `Loc.strand` is what the strand filters of C19 (`strand_spec`, `strand_exclusive`) are
  about.
-/
import Gts.Gen.LocStrand
import Gts.Model.Loc
namespace Gts.Bridge
open Gts

/-- the `Strand` constants are the numbers the model uses -/
theorem strandConsts_eq : Gen.strandBoth = 0 ∧ Gen.strandForward = 1 ∧ Gen.strandReverse = 2 :=
  ⟨rfl, rfl, rfl⟩

/-- a loop of the shape `for _, x := range xs { switch x { case 1: f++; case 2: r++; default: f++; r++ } }`
counts in `f` the elements other than 2 and in `r` the elements other than 1 -/
theorem strandLoop_shape (loop : List Int → Int → Int → Int × Int)
    (hnil : ∀ f r, loop [] f r = (f, r))
    (hcons : ∀ x rest f r, loop (x :: rest) f r =
      loop rest (if x = 2 then f else f + 1) (if x = 1 then r else r + 1)) :
    ∀ (ss : List Nat) (f r : Int), loop (ss.map Int.ofNat) f r =
      (f + ((ss.filter (· != 2)).length : Int), r + ((ss.filter (· != 1)).length : Int))
  | [], f, r => by simp [hnil]
  | s :: ss, f, r => by
    simp only [List.map_cons, hcons, strandLoop_shape loop hnil hcons ss, List.filter_cons]
    by_cases h2 : s = 2
    · subst h2; simp; omega
    · by_cases h1 : s = 1
      · subst h1; simp; omega
      · simp [h1, h2]
        omega

/-- the counting loop of `checkStrand` has that shape -/
theorem checkStrandOfListLoop_step (x : Int) (rest : List Int) (f r : Int) :
    Gen.checkStrandOfListLoop (x :: rest) f r =
      Gen.checkStrandOfListLoop rest (if x = 2 then f else f + 1) (if x = 1 then r else r + 1) := by
  simp only [Gen.checkStrandOfListLoop]
  by_cases h1 : x = 1
  · subst h1; simp
  · by_cases h2 : x = 2
    · subst h2; simp
    · simp [h1, h2]

/-- `checkStrand` on the `CheckStrand` results of the elements is the model's `strandList` -/
theorem checkStrandOfList_eq (ss : List Nat) :
    Gen.checkStrandOfList (ss.map Int.ofNat) = (Loc.strandList ss : Int) := by
  simp only [Gen.checkStrandOfList, Loc.strandList]
  rw [strandLoop_shape Gen.checkStrandOfListLoop (fun _ _ => rfl) checkStrandOfListLoop_step]
  simp only [Int.zero_add]
  by_cases hr : (ss.filter (· != 1)).length = 0
  · simp [hr]
  · by_cases hf : (ss.filter (· != 2)).length = 0
    · simp [hr, hf]
    · simp [hr, hf]

mutual
/-- `CheckStrand` as location.go defines it now is the model's `Loc.strand` -/
theorem locCheckStrand_eq : ∀ (l : Loc), Gen.locCheckStrand l = (Loc.strand l : Int)
  | .between _ => rfl
  | .point _ => rfl
  | .ranged _ _ _ _ => rfl
  | .ambiguous _ _ => rfl
  | .joined ls => by
    simp only [Gen.locCheckStrand, Loc.strand, locCheckStrandList_eq ls, checkStrandOfList_eq]
  | .ordered ls => by
    simp only [Gen.locCheckStrand, Loc.strand, locCheckStrandList_eq ls, checkStrandOfList_eq]
  | .compl _ => rfl
theorem locCheckStrandList_eq : ∀ (ls : List Loc),
    Gen.locCheckStrandList ls = (Loc.strands ls).map Int.ofNat
  | [] => rfl
  | l :: ls => by
    simp only [Gen.locCheckStrandList, Loc.strands, List.map_cons, locCheckStrand_eq l,
      locCheckStrandList_eq ls]
    rfl
end

-- non-vacuity: a join of a forward and a complemented part lies on both strands
example : Gen.locCheckStrand (.joined [.point 3, .compl (.point 9)]) = 0 := by decide
example : Gen.locCheckStrand (.ordered [.compl (.point 3), .compl (.ranged 5 9 false false)]) = 2 := by decide

end Gts.Bridge
