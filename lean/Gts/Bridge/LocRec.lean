/-
  Bridge: the RECURSIVE location methods regenerated from location.go by go2lean
  (Gts/Gen/LocRec.lean: `Location.Expand / Shift / Reverse / Normalize` over all seven kinds,
  including the two-pointer swap loop of `Joined.Reverse` / `Ordered.Reverse` translated literally)
  are equal to the hand-written model `Gts.Loc.expand / shift / reverse / normalize` the property
  theorems of C02–C05 and C10 are about — for EVERY location (structural induction), not on a sample.

  A changed boundary condition, a loop that skips or repeats a part (`l < r` instead of `l <= r`
  dropped the middle part of odd-arity joins: repaired defect 2400d2c), a wrong constructor
  (`Join` for `Order`) or a different method called on the parts changes `Gts.Gen.*` and breaks
  these proofs.
-/
import Gts.Gen.LocRec
import Gts.Bridge.Arith
namespace Gts.Bridge
open Gts

/-! ### the remaining contiguous methods -/

theorem betweenShift_eq (p i n : Int) : Gen.betweenShift p i n = Loc.shift (.between p) i n := by
  simp [Gen.betweenShift, Loc.shift, betweenExpand_eq]

theorem pointShift_eq (p i n : Int) : Gen.pointShift p i n = Loc.shift (.point p) i n := by
  simp [Gen.pointShift, Loc.shift, pointExpand_eq]

theorem betweenNormalize_eq (p L : Int) : Gen.betweenNormalize p L = Loc.normalize (.between p) L := by
  simp [Gen.betweenNormalize, Loc.normalize]

theorem pointNormalize_eq (p L : Int) : Gen.pointNormalize p L = Loc.normalize (.point p) L := by
  simp [Gen.pointNormalize, Loc.normalize]

theorem ambiguousNormalize_eq (s e L : Int) :
    Gen.ambiguousNormalize s e L = Loc.normalize (.ambiguous s e) L := by
  simp [Gen.ambiguousNormalize, Loc.normalize]

theorem rangedReverse_eq : Gen.rangedReverse = Loc.rangedReverse := by
  funext s e p5 p3 L
  cases p5 <;> cases p3 <;> simp [Gen.rangedReverse, Loc.rangedReverse]

theorem rangedNormalize_eq : Gen.rangedNormalize = Loc.rangedNormalize := by
  funext s e p5 p3 L
  simp only [Gen.rangedNormalize, Loc.rangedNormalize, rangedExpand_eq]
  by_cases h0 : e - s = L
  · simp [h0]
  · simp only [h0, if_false]
    by_cases h1 : Int.tmod s L < Int.tmod (e - 1) L + 1
    · simp [h1]
    · simp only [h1, if_false]
      cases p5 <;> cases p3 <;> simp

/-! ### the two-pointer loop fills the slice with the reversed list -/

/-- invariant of the loop `for l, r := 0, n-1; l <= r; l, r = l+1, r-1 { ll[l], ll[r] = src[r], src[l] }`:
started at `l + r = n - 1` with the cells outside `[l, r]` already mirrored, it ends with every
cell mirrored -/
theorem twoPointer_inv (loop : List Loc → Nat → Int → Int → List Loc → List Loc)
    (hloop0 : ∀ src l r ll, loop src 0 l r ll = ll)
    (hloop : ∀ src fuel l r ll, loop src (fuel + 1) l r ll =
      if l ≤ r then
        loop src fuel (l + 1) (r - 1)
          ((ll.set (Int.toNat l) (src.getD (Int.toNat r) default)).set (Int.toNat r)
            (src.getD (Int.toNat l) default))
      else ll)
    (src : List Loc) :
    ∀ (fuel : Nat) (l r : Int) (ll : List Loc), 0 ≤ l → l + r = (src.length : Int) - 1 →
      ll.length = src.length → r - l + 2 ≤ 2 * (fuel : Int) →
      (∀ j : Nat, j < src.length → ((j : Int) < l ∨ r < (j : Int)) →
        ll.getD j default = src.getD (src.length - 1 - j) default) →
      ∀ j : Nat, j < src.length →
        (loop src fuel l r ll).getD j default = src.getD (src.length - 1 - j) default := by
  intro fuel
  induction fuel with
  | zero =>
    intro l r ll hl hsum hlen hf hout j hj
    -- no fuel: then `r < l` must hold, every cell is outside
    rw [hloop0]
    exact hout j hj (by omega)
  | succ f ih =>
    intro l r ll hl hsum hlen hf hout j hj
    rw [hloop]
    by_cases hlr : l ≤ r
    · rw [if_pos hlr]
      have hr : r < (src.length : Int) := by omega
      have hr0 : 0 ≤ r := by omega
      apply ih (l + 1) (r - 1) _ (by omega) (by omega) (by simp [hlen]) (by omega)
      · intro k hk hk'
        have hlk : (Int.toNat l : Int) = l := Int.toNat_of_nonneg hl
        have hrk : (Int.toNat r : Int) = r := Int.toNat_of_nonneg hr0
        by_cases h1 : k = Int.toNat r
        · -- the cell written last
          subst h1
          rw [List.getD_eq_getElem?_getD, List.getElem?_set_self (by simp [hlen]; omega)]
          simp only [Option.getD_some]
          congr 1
          omega
        · by_cases h2 : k = Int.toNat l
          · subst h2
            rw [List.getD_eq_getElem?_getD, List.getElem?_set_ne (by omega),
              List.getElem?_set_self (by simp [hlen]; omega)]
            simp only [Option.getD_some]
            congr 1
            omega
          · rw [List.getD_eq_getElem?_getD, List.getElem?_set_ne (by omega),
              List.getElem?_set_ne (by omega), ← List.getD_eq_getElem?_getD]
            exact hout k hk (by omega)
      · exact hj
    · rw [if_neg hlr]
      exact hout j hj (by omega)

theorem twoPointer_reverse (loop : List Loc → Nat → Int → Int → List Loc → List Loc)
    (hloop0 : ∀ src l r ll, loop src 0 l r ll = ll)
    (hloop : ∀ src fuel l r ll, loop src (fuel + 1) l r ll =
      if l ≤ r then
        loop src fuel (l + 1) (r - 1)
          ((ll.set (Int.toNat l) (src.getD (Int.toNat r) default)).set (Int.toNat r)
            (src.getD (Int.toNat l) default))
      else ll)
    (hlen : ∀ src fuel l r ll, (loop src fuel l r ll).length = ll.length)
    (src : List Loc) :
    loop src (src.length + 1) 0 ((src.length : Int) - 1) (List.replicate src.length default) =
      src.reverse := by
  apply List.ext_getElem
  · simp [hlen]
  · intro j h1 h2
    have hj : j < src.length := by simpa [hlen] using h1
    have := twoPointer_inv loop hloop0 hloop src (src.length + 1) 0 ((src.length : Int) - 1)
      (List.replicate src.length default) (by omega) (by omega) (by simp)
      (by push_cast; omega) (by intro k hk hk'; omega) j hj
    rw [List.getD_eq_getElem?_getD, List.getElem?_eq_getElem h1] at this
    simp only [Option.getD_some] at this
    rw [this, List.getElem_reverse, List.getD_eq_getElem?_getD,
      List.getElem?_eq_getElem (by omega)]
    rfl

theorem joinedReverseLoop_length (src : List Loc) : ∀ fuel l r ll,
    (Gen.joinedReverseLoop src fuel l r ll).length = ll.length := by
  intro fuel
  induction fuel with
  | zero => intros; rfl
  | succ f ih =>
    intro l r ll
    simp only [Gen.joinedReverseLoop]
    split
    · rw [ih]; simp
    · rfl

theorem orderedReverseLoop_length (src : List Loc) : ∀ fuel l r ll,
    (Gen.orderedReverseLoop src fuel l r ll).length = ll.length := by
  intro fuel
  induction fuel with
  | zero => intros; rfl
  | succ f ih =>
    intro l r ll
    simp only [Gen.orderedReverseLoop]
    split
    · rw [ih]; simp
    · rfl

/-- `Joined.Reverse`'s loop, as written in location.go, yields the mirrored list of parts -/
theorem joinedReverseLoop_eq (src : List Loc) :
    Gen.joinedReverseLoop src (src.length + 1) 0 ((src.length : Int) - 1)
      (List.replicate src.length default) = src.reverse :=
  twoPointer_reverse Gen.joinedReverseLoop (fun _ _ _ _ => rfl) (fun _ _ _ _ _ => by simp only [Gen.joinedReverseLoop])
    (fun src => joinedReverseLoop_length src) src

/-- `Ordered.Reverse`'s loop likewise -/
theorem orderedReverseLoop_eq (src : List Loc) :
    Gen.orderedReverseLoop src (src.length + 1) 0 ((src.length : Int) - 1)
      (List.replicate src.length default) = src.reverse :=
  twoPointer_reverse Gen.orderedReverseLoop (fun _ _ _ _ => rfl) (fun _ _ _ _ _ => by simp only [Gen.orderedReverseLoop])
    (fun src => orderedReverseLoop_length src) src

/-! ### the recursive methods -/

mutual
theorem expand_eq : ∀ (l : Loc) (i n : Int), Gen.expand l i n = Loc.expand l i n
  | .between p, i, n => by simp [Gen.expand, Loc.expand, betweenExpand_eq]
  | .point p, i, n => by simp [Gen.expand, Loc.expand, pointExpand_eq]
  | .ranged s e a b, i, n => by simp [Gen.expand, Loc.expand, rangedExpand_eq]
  | .ambiguous s e, i, n => by simp [Gen.expand, Loc.expand, ambiguousExpand_eq]
  | .joined ls, i, n => by simp [Gen.expand, Loc.expand, expandList_eq ls i n]
  | .ordered ls, i, n => by simp [Gen.expand, Loc.expand, expandList_eq ls i n]
  | .compl l, i, n => by simp [Gen.expand, Loc.expand, expand_eq l i n]
theorem expandList_eq : ∀ (ls : List Loc) (i n : Int), Gen.expandList ls i n = Loc.expandList ls i n
  | [], _, _ => by simp [Gen.expandList, Loc.expandList]
  | l :: ls, i, n => by simp [Gen.expandList, Loc.expandList, expand_eq l i n, expandList_eq ls i n]
end

mutual
theorem shift_eq : ∀ (l : Loc) (i n : Int), Gen.shift l i n = Loc.shift l i n
  | .between p, i, n => by simp [Gen.shift, betweenShift_eq]
  | .point p, i, n => by simp [Gen.shift, pointShift_eq]
  | .ranged s e a b, i, n => by simp [Gen.shift, Loc.shift, rangedShift_eq]
  | .ambiguous s e, i, n => by simp [Gen.shift, Loc.shift, ambiguousShift_eq]
  | .joined ls, i, n => by simp [Gen.shift, Loc.shift, shiftList_eq ls i n]
  | .ordered ls, i, n => by simp [Gen.shift, Loc.shift, shiftList_eq ls i n]
  | .compl l, i, n => by simp [Gen.shift, Loc.shift, shift_eq l i n]
theorem shiftList_eq : ∀ (ls : List Loc) (i n : Int), Gen.shiftList ls i n = Loc.shiftList ls i n
  | [], _, _ => by simp [Gen.shiftList, Loc.shiftList]
  | l :: ls, i, n => by simp [Gen.shiftList, Loc.shiftList, shift_eq l i n, shiftList_eq ls i n]
end

mutual
theorem reverse_eq : ∀ (l : Loc) (len : Int), Gen.reverse l len = Loc.reverse l len
  | .between p, len => by simp [Gen.reverse, betweenReverse_eq]
  | .point p, len => by simp [Gen.reverse, pointReverse_eq]
  | .ranged s e a b, len => by simp [Gen.reverse, Loc.reverse, rangedReverse_eq]
  | .ambiguous s e, len => by simp [Gen.reverse, ambiguousReverse_eq]
  | .joined ls, len => by
      simp only [Gen.reverse, Loc.reverse, joinedReverseLoop_eq, reverseList_eq ls len]
  | .ordered ls, len => by
      simp only [Gen.reverse, Loc.reverse, orderedReverseLoop_eq, reverseList_eq ls len]
  | .compl l, len => by simp [Gen.reverse, Loc.reverse, reverse_eq l len]
theorem reverseList_eq : ∀ (ls : List Loc) (len : Int), Gen.reverseList ls len = Loc.reverseList ls len
  | [], _ => by simp [Gen.reverseList, Loc.reverseList]
  | l :: ls, len => by simp [Gen.reverseList, Loc.reverseList, reverse_eq l len, reverseList_eq ls len]
end

mutual
theorem normalize_eq : ∀ (l : Loc) (len : Int), Gen.normalize l len = Loc.normalize l len
  | .between p, len => by simp [Gen.normalize, betweenNormalize_eq]
  | .point p, len => by simp [Gen.normalize, pointNormalize_eq]
  | .ranged s e a b, len => by simp [Gen.normalize, Loc.normalize, rangedNormalize_eq]
  | .ambiguous s e, len => by simp [Gen.normalize, ambiguousNormalize_eq]
  | .joined ls, len => by simp [Gen.normalize, Loc.normalize, normalizeList_eq ls len]
  | .ordered ls, len => by simp [Gen.normalize, Loc.normalize, normalizeList_eq ls len]
  | .compl l, len => by simp [Gen.normalize, Loc.normalize, normalize_eq l len]
theorem normalizeList_eq : ∀ (ls : List Loc) (len : Int),
    Gen.normalizeList ls len = Loc.normalizeList ls len
  | [], _ => by simp [Gen.normalizeList, Loc.normalizeList]
  | l :: ls, len => by
      simp [Gen.normalizeList, Loc.normalizeList, normalize_eq l len, normalizeList_eq ls len]
end

/-- the four recursive methods of `Location`, as the current location.go defines them, are the
model's — as functions -/
theorem locrec_eq :
    Gen.expand = Loc.expand ∧ Gen.shift = Loc.shift ∧ Gen.reverse = Loc.reverse ∧
      Gen.normalize = Loc.normalize :=
  ⟨funext fun l => funext fun i => funext fun n => expand_eq l i n,
   funext fun l => funext fun i => funext fun n => shift_eq l i n,
   funext fun l => funext fun len => reverse_eq l len,
   funext fun l => funext fun len => normalize_eq l len⟩

end Gts.Bridge
