/-
  Bridge: the regenerated `GenBank.String` of seqio/genbank.go (`Gts/Gen/GenBankWrite.lean`, go2lean
  gwriter*.go) IS the model's record writer `Gts.GenBank.write` (property C01) — the LOCUS line with its
  format string and arguments, DEFINITION, ACCESSION + REGION suffix, VERSION, DBLINK, KEYWORDS,
  SOURCE / ORGANISM / taxonomy, the REFERENCE blocks, COMMENTs, extra fields, FEATURES header and table,
  CONTIG, ORIGIN, `//`: their ORDER, their GUARDS, their format strings and indents — for EVERY record, every
  registry, panic for panic (`genBankString_eq`).

  The generated function works on the Go structs (`Gts/Gen/GbFields.lean`); `goRecord` says how a record of
  the model is one: `Reference.Xref` is the map with (at most) the key `PUBMED`, every extra field carries
  the default formatter `genbankFieldFormatter` (regenerated too), `Region` is `some` iff it is a
  `gts.Segment`, an `Origin` is `(Buffer, Parsed)`.

  Parameters of the generated text and their instances: `%d` / strconv.Itoa = `itoaB`; `wrap.Space(s, n)` =
  `wrapAt 32 n` (go-wrap v1.0.3, hand-modelled); `Location.String()` = `Loc.printB`; `(*Origin).Len / String`
  = `OriginV.len / text` (regenerated and bridged on their own: `Gts/Bridge/OriginBuf.lean`, C16);
  `gts.Segment.Len` = `|tail − head|`; the registry look-ups = membership; `strings.ToUpper(date.ToTime().
  Format("02-Jan-2006"))` = ANY pair of functions that prints the record's date as the model's `Date.text`
  (hypothesis `hdate`; `dateCalls_valid`: an ASCII upper-casing of `dd-Mon-yyyy` does, for every valid date).
-/
import Gts.Gen.GenBankWrite
import Gts.Bridge.InsdcWrite
import Gts.Model.GenBank
namespace Gts.Bridge
open Gts.Pars Gts.GenBank Gts.Gen.GoStrings
open Gts.Gen.InsdcWrite (Feature INSDCFormatter insdcFormatterString)
open Gts.Gen.GbFields (GenBankFields Pair Organism ExtraField Contig gtsUnpack)
open Gts.Gen.GenBankWrite (genBankString genBankStringLoop genBankStringLoop2 genBankStringLoop3 genBankStringLoop4
  topologyString contigString extraFieldString genbankFieldFormatter genBankExtraField)

/-! ### the Go structs of a model record -/

/-- `Reference.Xref`: the nil map, or the map with the one key the writer reads -/
def goXref : Option Bytes → Option (List (Bytes × Bytes))
  | none => none
  | some v => some [(bs "PUBMED", v)]

def goReference (r : GenBank.Reference) : Gen.GbFields.Reference :=
  { Number := r.number, Info := r.info, Authors := r.authors, Group := r.group, Title := r.title,
    Journal := r.journal, Xref := goXref r.pubmed, Comment := r.comment }

def goFields (f : Fields) : GenBankFields :=
  { LocusName := f.locusName, Molecule := f.molecule, Topology := f.topology, Division := f.division,
    Date := { Year := f.date.year, Month := f.date.month, Day := f.date.day },
    Definition := f.definition, Accession := f.accession, Version := f.version,
    DBLink := f.dblink.map fun kv => { Key := kv.1, Value := kv.2 },
    Keywords := f.keywords,
    Source := { Species := f.species, Name := f.organism, Taxon := f.taxon },
    References := f.references.map goReference,
    Comments := f.comments,
    Extra := f.extra.map fun e => genBankExtraField e.1 e.2,
    Contig := { Accession := f.contigAcc, Region := (f.contigHead, f.contigTail) },
    Region := f.region }

def goOrigin : OriginV → Gen.GenBankWrite.Origin
  | .residues p => { Buffer := p, Parsed := true }
  | .buffer b => { Buffer := b, Parsed := false }

/-- an `Origin` value as the model reads it -/
def originV (o : Gen.GenBankWrite.Origin) : OriginV :=
  if o.Parsed then .residues o.Buffer else .buffer o.Buffer

def goRecord (r : Record) : Gen.GenBankWrite.GenBank :=
  { Fields := goFields r.fields, Table := r.table.map goFeature, Origin := goOrigin r.origin }

/-! ### the parameters -/

/-- `(*Origin).Len()` -/
def originLenModel (o : Gen.GenBankWrite.Origin) : Int := (originV o).len
/-- `(*Origin).String()` -/
def originStringModel (o : Gen.GenBankWrite.Origin) : Option Bytes :=
  match (originV o).text with
  | .ok t => some t
  | .error _ => none
/-- `gts.Segment.Len()` -/
def segmentLenModel (s : Int × Int) : Int := Int.ofNat (s.2 - s.1).natAbs
/-- `wrap.Space(s, n)` -/
def wrapSpaceModel (s : Bytes) (n : Int) : Bytes := wrapAt 32 n.toNat s

theorem originV_goOrigin (o : OriginV) : originV (goOrigin o) = o := by
  cases o <;> rfl

/-! ### small pieces -/

theorem bs_nl : bs "\n" = [10] := rfl
theorem bs_blank : bs " " = [32] := rfl
theorem bs_dot : bs "." = [46] := rfl
theorem bs_sp5 : bs "     " = sp 5 := rfl
theorem bs_indent : bs "            " = indent := rfl

theorem wsPadRight_eq (w : Nat) (s : Bytes) : wsPadRight w s = padRight w s := rfl
theorem wsPadLeft_eq (w : Nat) (s : Bytes) : wsPadLeft w s = padLeft w s := rfl

/-- strings.go `AddPrefix` is the model's `addPrefix` -/
theorem genAddPrefix_eq (s pre : Bytes) : Gen.GenBankWrite.addPrefix s pre = GenBank.addPrefix pre s := by
  unfold Gen.GenBankWrite.addPrefix
  exact wsReplaceByte_addPrefix pre s

/-- topology.go `Topology.String` is `topologyText` -/
theorem topologyString_eq (t : Int) : topologyString t = topologyText t := by
  unfold topologyString topologyText
  by_cases h0 : t = 0
  · simp [h0, wsLit_eq_bs]
  · by_cases h1 : t = 1
    · simp [h1, wsLit_eq_bs]
    · simp [h0, h1]

/-- contig.go `Contig.String` is `contigText` -/
theorem contigString_eq (f : Fields) :
    contigString itoaB { Accession := f.contigAcc, Region := (f.contigHead, f.contigTail) } = contigText f := by
  unfold contigString contigText gtsUnpack
  cases h : f.contigAcc with
  | nil => simp
  | cons c cs => simp [wsLit_eq_bs, List.append_assoc, bs]

/-- genbank.go `genbankFieldFormatter` (through `ExtraField.String` on a `GenBankExtraField`) is `extraText` -/
theorem extraFieldString_eq (name value : Bytes) :
    extraFieldString (genBankExtraField name value) = extraText name value := by
  unfold extraFieldString genBankExtraField genbankFieldFormatter extraText
  simp only [genAddPrefix_eq, wsPadRight_eq]
  rfl

theorem dec_eq_itoaB (n : Int) : dec n = itoaB n := by
  unfold dec itoaB
  by_cases h : n < 0
  · simp [h]
  · simp only [h, if_false]
    congr 1
    omega

/-- the REGION suffix: `gts.Range(head, tail).String()` -/
theorem printB_range (h t : Int) : Loc.printB (.ranged h t false false) = itoaB (h + 1) ++ bs ".." ++ itoaB t := by
  unfold Loc.printB
  simp [dec_eq_itoaB, bs]

/-! ### the loops -/

/-- the DBLINK loop: `DBLINK      ` in front of the first pair, the indent in front of the others -/
theorem genBankDblinkLoop_eq (l : List (Bytes × Bytes)) (i : Int) (hi : 0 ≤ i) (b : Bytes) :
    genBankStringLoop (wsLit "            ") (l.map fun kv => ({ Key := kv.1, Value := kv.2 } : Pair)) i b =
      b ++ dblinkText l (decide (i = 0)) := by
  induction l generalizing i b with
  | nil => simp [genBankStringLoop, dblinkText]
  | cons kv l ih =>
    obtain ⟨k, v⟩ := kv
    simp only [List.map_cons, genBankStringLoop]
    rw [ih (i + 1) (by omega)]
    have hne : decide (i + 1 = 0) = false := by
      simp only [decide_eq_false_iff_not]; omega
    rw [hne]
    by_cases h0 : i = 0
    · simp [h0, dblinkText, wsLit_eq_bs, bs_nl, List.append_assoc]
    · simp [h0, dblinkText, wsLit_eq_bs, bs_nl, bs_indent, List.append_assoc]

/-- one REFERENCE block as plain text (`referenceText` never fails) -/
def refText (r : GenBank.Reference) : Bytes :=
  let num := itoaB r.number
  let head :=
    if r.info.isEmpty then bs "REFERENCE   " ++ num
    else bs "REFERENCE   " ++ num ++ sp (3 - num.length) ++ r.info
  let sub (name : String) (v : Bytes) : Bytes :=
    if v.isEmpty then [] else bs name ++ GenBank.addPrefix indent v ++ [10]
  head ++ [10] ++ sub "  AUTHORS   " r.authors ++ sub "  CONSRTM   " r.group ++
    sub "  TITLE     " r.title ++ sub "  JOURNAL   " r.journal ++
    (match r.pubmed with | some v => bs "   PUBMED   " ++ v ++ [10] | none => []) ++
    sub "  REMARK    " r.comment

theorem referenceText_ok (r : GenBank.Reference) : referenceText r = .ok (refText r) := rfl

theorem referencesText_ok (rs : List GenBank.Reference) : referencesText rs = .ok (rs.flatMap refText) := by
  induction rs with
  | nil => rfl
  | cons r rs ih => simp [referencesText, referenceText_ok, ih, bind, Except.bind, pure, Except.pure]

theorem isEmpty_iff_ne_nil (v : Bytes) : (v ≠ ([] : List UInt8)) ↔ v.isEmpty = false := by
  cases v <;> simp

/-- a sub-field of a REFERENCE: written iff it is not empty -/
theorem refSub_eq (b v : Bytes) (name : String) :
    (if v ≠ ([] : List UInt8) then b ++ ((wsLit name ++ Gen.GenBankWrite.addPrefix v (wsLit "            ")) ++ wsLit "\n") else b) =
      b ++ (if v.isEmpty then [] else bs name ++ GenBank.addPrefix indent v ++ [10]) := by
  cases v with
  | nil => simp
  | cons c v => simp [genAddPrefix_eq, wsLit_eq_bs, indent, sp, bs, List.append_assoc]

theorem wsMapGet_goXref (p : Option Bytes) : wsMapGet (goXref p) (wsLit "PUBMED") = p := by
  cases p with
  | none => rfl
  | some v => simp [goXref, wsMapGet, wsLit_eq_bs]

/-- the pad between the number and the info of a REFERENCE line (761240c: never negative) -/
theorem refPad_eq (n : Nat) :
    wsRepeat (wsLit " ") (if (3 : Int) - (n : Int) < 0 then 0 else (3 : Int) - (n : Int)) = some (sp (3 - n)) := by
  by_cases h : (3 : Int) - (n : Int) < 0
  · rw [if_pos h, wsRepeat_blank _ (by omega)]
    congr 2
    omega
  · rw [if_neg h, wsRepeat_blank _ (by omega)]
    congr 2
    omega

/-- the REFERENCE loop appends the blocks in order and never panics -/
theorem genBankRefLoop_eq (rs : List GenBank.Reference) (b : Bytes) :
    genBankStringLoop2 itoaB (wsLit "            ") (rs.map goReference) b = some (b ++ rs.flatMap refText) := by
  induction rs generalizing b with
  | nil => simp [genBankStringLoop2]
  | cons r rs ih =>
    simp only [List.map_cons, genBankStringLoop2]
    have hr : ∀ k : Bytes → Option Bytes,
        ((if (goReference r).Info ≠ ([] : List UInt8) then
            (wsRepeat (wsLit " ")
              (if (3 : Int) - (((itoaB (goReference r).Number).length : Nat) : Int) < 0 then 0
               else (3 : Int) - (((itoaB (goReference r).Number).length : Nat) : Int))).bind fun x5 =>
              some ((b ++ (wsLit "REFERENCE   " ++ itoaB (goReference r).Number)) ++ (x5 ++ (goReference r).Info))
          else some (b ++ (wsLit "REFERENCE   " ++ itoaB (goReference r).Number))).bind k) =
        k (b ++ (if r.info.isEmpty then bs "REFERENCE   " ++ itoaB r.number
                 else bs "REFERENCE   " ++ itoaB r.number ++ sp (3 - (itoaB r.number).length) ++ r.info)) := by
      intro k
      have h1 : (goReference r).Info = r.info := rfl
      have h2 : (goReference r).Number = r.number := rfl
      rw [h1, h2, refPad_eq]
      cases hinfo : r.info with
      | nil => simp [wsLit_eq_bs]
      | cons c cs => simp [wsLit_eq_bs, List.append_assoc]
    rw [hr]
    simp only [refSub_eq]
    have hx : (goReference r).Xref = goXref r.pubmed := rfl
    rw [ih]
    congr 1
    simp only [List.flatMap_cons, refText, hx, wsMapGet_goXref]
    have h3 : (goReference r).Authors = r.authors := rfl
    have h4 : (goReference r).Group = r.group := rfl
    have h5 : (goReference r).Title = r.title := rfl
    have h6 : (goReference r).Journal = r.journal := rfl
    have h7 : (goReference r).Comment = r.comment := rfl
    rw [h3, h4, h5, h6, h7]
    cases hp : r.pubmed with
    | none => simp [goXref, List.append_assoc]
    | some v => simp [goXref, wsLit_eq_bs, bs_nl, List.append_assoc]

/-- the COMMENT loop -/
theorem genBankCommentLoop_eq (cs : List Bytes) (b : Bytes) :
    genBankStringLoop3 (wsLit "            ") cs b =
      b ++ cs.flatMap fun c => bs "COMMENT     " ++ GenBank.addPrefix indent c ++ [10] := by
  induction cs generalizing b with
  | nil => simp [genBankStringLoop3]
  | cons c cs ih =>
    simp only [genBankStringLoop3, ih, genAddPrefix_eq]
    simp [wsLit_eq_bs, bs_nl, bs_indent, List.append_assoc]

/-- the loop over the extra fields (each with the default formatter) -/
theorem genBankExtraLoop_eq (es : List (Bytes × Bytes)) (b : Bytes) :
    genBankStringLoop4 (es.map fun e => genBankExtraField e.1 e.2) b =
      b ++ es.flatMap fun e => extraText e.1 e.2 ++ [10] := by
  induction es generalizing b with
  | nil => simp [genBankStringLoop4]
  | cons e es ih =>
    simp only [List.map_cons, genBankStringLoop4, ih, extraFieldString_eq]
    simp [wsLit_eq_bs, bs_nl, List.append_assoc]

theorem wsJoin_eq (sep : Bytes) (l : List Bytes) : wsJoin sep l = joinWith sep l := by
  induction l with
  | nil => rfl
  | cons x l ih =>
    cases l with
    | nil => rfl
    | cons y r => rw [wsJoin, joinWith, ih]; intro h; cases h

theorem wrapSpaceModel_67 (s : Bytes) : wrapSpaceModel s 67 = wrapSpace s := rfl

/-- the text of the REGION suffix (0f056fc: for a proper segment only) -/
def regionText (reg : Option (Int × Int)) : Bytes :=
  match reg with
  | none => []
  | some (h, t) => if t ≤ h then [] else bs " REGION: " ++ itoaB (h + 1) ++ bs ".." ++ itoaB t

/-- the REGION block: the guard `ok && seg[0] < seg[1]` keeps `gts.Range` from panicking -/
theorem regionBlock_eq (reg : Option (Int × Int)) (P : Bytes) :
    (if reg.isSome = true ∧ (reg.getD (0, 0)).fst < (reg.getD (0, 0)).snd then
        (some (gtsUnpack (reg.getD (0, 0)))).bind fun x =>
          (wsRange x.fst x.snd).bind fun x3_ => some (P ++ (wsLit " REGION: " ++ x3_.printB))
      else some P) = some (P ++ regionText reg) := by
  cases reg with
  | none => simp [regionText]
  | some seg =>
    obtain ⟨h, t⟩ := seg
    by_cases hlt : h < t
    · have hnot : ¬ t ≤ h := by omega
      have hr : wsRange h t = some (Loc.ranged h t false false) := by
        unfold wsRange; rw [if_neg hnot]
      simp [regionText, hlt, hnot, gtsUnpack, hr, printB_range, wsLit_eq_bs, List.append_assoc]
    · have hle : t ≤ h := by omega
      simp [regionText, hlt, hle]

/-- the header part as plain text (`headerText` never fails) -/
def headerBytes (f : Fields) (length : Int) : Bytes :=
  locusLine f length ++ [10] ++
    bs "DEFINITION  " ++ GenBank.addPrefix indent f.definition ++ bs ".\n" ++
    bs "ACCESSION   " ++ f.accession ++ regionText f.region ++ [10] ++
    bs "VERSION     " ++ f.version ++ [10] ++
    dblinkText f.dblink true ++
    bs "KEYWORDS    " ++ GenBank.addPrefix indent (wrapSpace (joinWith (bs "; ") f.keywords ++ [46])) ++ [10] ++
    bs "SOURCE      " ++ GenBank.addPrefix indent f.species ++ [10] ++
    bs "  ORGANISM  " ++ GenBank.addPrefix indent f.organism ++ [10] ++
    indent ++ GenBank.addPrefix indent (wrapSpace (joinWith (bs "; ") f.taxon ++ [46])) ++ [10] ++
    f.references.flatMap refText ++
    (f.comments.flatMap fun c => bs "COMMENT     " ++ GenBank.addPrefix indent c ++ [10]) ++
    (f.extra.flatMap fun e => extraText e.1 e.2 ++ [10])

theorem headerText_ok (f : Fields) (length : Int) : headerText f length = .ok (headerBytes f length) := by
  unfold headerText headerBytes regionText
  rw [referencesText_ok]
  rfl

/-- the error of `Origin.String()` is the panic -/
theorem originText_eq (o : OriginV) : o.text = wOut (originStringModel (goOrigin o)) := by
  unfold originStringModel
  rw [originV_goOrigin]
  cases o with
  | buffer b => rfl
  | residues p =>
    simp only [OriginV.text, Origin.newOrigin]
    split <;> rfl

/-- what `write` does behind the header, as a function of the header, of the table text `T` and of the
ORIGIN text `O` (`none` = panic) -/
def tailM (f : Fields) (table : List QFeature) (T O : Option Bytes) (olen : Int) (header : Bytes) : Out Bytes := do
  let table ←
    if table.isEmpty then pure []
    else do
      let t ← wOut T
      pure (bs "FEATURES             Location/Qualifiers\n" ++ t ++ [10])
  let contig := contigText f
  let contig := if contig.isEmpty then [] else bs "CONTIG      " ++ contig ++ [10]
  let origin ←
    if olen > 0 then do
      let o ← wOut O
      pure (bs "ORIGIN      \n" ++ o)
    else pure []
  pure (header ++ table ++ contig ++ origin ++ bs "//\n")

/-- the blocks behind the header — FEATURES (for a non-empty table), CONTIG (when `Contig.String()` is not
empty), ORIGIN (when there are residues), `//` — for ANY header text `H` -/
theorem genTail_eq (f : Fields) (table : List QFeature) (T O : Option Bytes) (olen : Int) (H : Bytes) :
    wOut ((if ((table.map goFeature).length : Int) > 0 then
            T.bind fun x6_ => some (H ++ wsLit "FEATURES             Location/Qualifiers\n" ++ x6_ ++ [10])
          else some H).bind fun b =>
        (if olen > 0 then
            O.bind fun x7_ =>
              some ((if contigText f ≠ [] then b ++ (wsLit "CONTIG      " ++ contigText f ++ wsLit "\n") else b) ++
                  wsLit "ORIGIN      \n" ++ x7_)
          else some (if contigText f ≠ [] then b ++ (wsLit "CONTIG      " ++ contigText f ++ wsLit "\n") else b)).bind
          fun b => some (b ++ wsLit "//\n")) =
      tailM f table T O olen H := by
  unfold tailM
  by_cases h1 : olen > 0 <;> cases table <;> cases T <;> cases O <;> cases hc : contigText f <;>
    simp [h1, bind, Except.bind, pure, Except.pure, List.append_assoc, wsLit_eq_bs, bs_nl]

/-- `write` is the header followed by `tailM` -/
theorem write_eq_tail (reg : Registry) (f : Fields) (table : List QFeature) (origin : OriginV) :
    write reg { fields := f, table := table, origin := origin } =
      tailM f table
        (insdcFormatterString Loc.printB (isQuotedIn reg) (isLiteralIn reg) (isToggleIn reg)
          { Table := table.map goFeature, Prefix := sp 5, Depth := 21 })
        (originStringModel (goOrigin origin)) origin.len
        (headerBytes f (if origin.len = 0 then contigLen f else origin.len)) := by
  unfold write tailM
  rw [insdcFormatterString_eq]
  simp only [headerText_ok, originText_eq]
  rfl

/-- **genbank.go `GenBank.String` is the model's `write`** — for EVERY record and registry: the same bytes (the
LOCUS line with its format string, every field block in its place under its guard, the table, CONTIG, ORIGIN,
`//`), and a Go panic exactly where the model answers `.error .panic` (a `Props` row without a name; an
ORIGIN block whose index column overflows).  `hdate`: the two library calls that print the date print THIS record's date
as the model's `Date.text` (the model prints valid calendar dates only; `dateCalls_valid` below). -/
theorem genBankString_eq (reg : Registry) (toUpper : Bytes → Bytes) (timeFormat : String → Int → Int → Int → Bytes)
    (r : Record)
    (hdate : toUpper (timeFormat "02-Jan-2006" r.fields.date.year r.fields.date.month r.fields.date.day) =
      r.fields.date.text) :
    wOut (genBankString itoaB toUpper timeFormat wrapSpaceModel Loc.printB originLenModel originStringModel
      segmentLenModel (isQuotedIn reg) (isLiteralIn reg) (isToggleIn reg) (goRecord r)) = write reg r := by
  obtain ⟨f, table, origin⟩ := r
  rw [write_eq_tail]
  unfold genBankString
  dsimp only [goRecord, goFields]
  rw [regionBlock_eq]
  simp only [Option.bind_some, genBankDblinkLoop_eq _ 0 (Int.le_refl 0), genBankRefLoop_eq, genBankCommentLoop_eq,
    genBankExtraLoop_eq, contigString_eq]
  have holen : originLenModel (goOrigin origin) = origin.len := by
    unfold originLenModel; rw [originV_goOrigin]
  have hseg : segmentLenModel (f.contigHead, f.contigTail) = contigLen f := rfl
  rw [holen, hseg]
  have hpre : (wsLit "     " : Bytes) = sp 5 := rfl
  rw [hpre]
  generalize insdcFormatterString Loc.printB (isQuotedIn reg) (isLiteralIn reg) (isToggleIn reg)
    { Table := table.map goFeature, Prefix := sp 5, Depth := 21 } = T
  generalize originStringModel (goOrigin origin) = O
  rw [genTail_eq]
  refine congrArg (tailM f table T O origin.len) ?_
  have hd : toUpper (timeFormat "02-Jan-2006" f.date.year f.date.month f.date.day) = f.date.text := hdate
  simp only [wsLit_eq_bs, wsPadRight_eq, wsPadLeft_eq, genAddPrefix_eq, topologyString_eq,
    wrapSpaceModel_67, wsJoin_eq, hd, decide_true]
  simp only [bs_indent, bs_nl, bs_dot, bs_blank]
  unfold headerBytes locusLine
  simp only [List.append_assoc, List.nil_append]

/-! ### the date calls: an instance of `hdate` -/

/-- `strings.ToUpper` on ASCII -/
def upperASCII (s : Bytes) : Bytes := s.map fun c => if 97 ≤ c ∧ c ≤ 122 then c - 32 else c

/-- the month names of the layout `Jan` -/
def monthMixed : List Bytes := namesOf
  ["Jan", "Feb", "Mar", "Apr", "May", "Jun", "Jul", "Aug", "Sep", "Oct", "Nov", "Dec"]

/-- `time.Date(y, m, d, …).Format("02-Jan-2006")` on a valid calendar date (no normalisation happens) -/
def timeFormatValid (_layout : String) (y m d : Int) : Bytes :=
  zpad 2 d.toNat ++ [45] ++ monthMixed.getD (m.toNat - 1) [] ++ [45] ++ zpad 4 y.toNat

theorem digitByte_upper : ∀ d, d < 10 → upperASCII [digitByte d] = [digitByte d] := by decide

theorem natDigitsF_upper (fuel n : Nat) : upperASCII (natDigitsF fuel n) = natDigitsF fuel n := by
  induction fuel generalizing n with
  | zero => rfl
  | succ k ih =>
    unfold natDigitsF
    split
    · exact digitByte_upper n (by omega)
    · have h1 := ih (n / 10)
      have h2 := digitByte_upper (n % 10) (by omega)
      unfold upperASCII at h1 h2 ⊢
      rw [List.map_append, h1, h2]

theorem zpad_upper (w n : Nat) : upperASCII (zpad w n) = zpad w n := by
  unfold zpad
  have h := natDigitsF_upper (n + 1) n
  unfold upperASCII at h ⊢
  rw [List.map_append]
  unfold natDigits
  rw [h]
  congr 1
  rw [List.map_replicate]
  rfl

theorem month_upper : ∀ k, k < 12 → upperASCII (monthMixed.getD k []) = monthAbbr.getD k [] := by decide

/-- for every valid calendar date, upper-casing `dd-Mon-yyyy` prints the model's `Date.text`: the
hypothesis `hdate` of `genBankString_eq` holds for these two functions on the whole modelled domain -/
theorem dateCalls_valid (d : GenBank.Date) (h : d.valid = true) :
    upperASCII (timeFormatValid "02-Jan-2006" d.year d.month d.day) = d.text := by
  unfold Date.text timeFormatValid
  rw [if_pos h]
  have hv := h
  unfold Date.valid at hv
  simp only [decide_eq_true_eq] at hv
  have hm : d.month.toNat - 1 < 12 := by omega
  have h1 := zpad_upper 2 d.day.toNat
  have h2 := zpad_upper 4 d.year.toNat
  have h3 := month_upper _ hm
  unfold upperASCII at h1 h2 h3 ⊢
  simp only [List.map_append, h1, h2, h3]
  rfl

/-- the REGENERATED `GenBank.String` under the registry `reg`, with its library parameters instantiated as
described at the top of this file (dates through `upperASCII ∘ timeFormatValid`) -/
def genWrite (reg : Registry) (r : Record) : Out Bytes :=
  wOut (genBankString itoaB upperASCII timeFormatValid wrapSpaceModel Loc.printB originLenModel originStringModel
    segmentLenModel (isQuotedIn reg) (isLiteralIn reg) (isToggleIn reg) (goRecord r))

/-- on every record with a valid calendar date the regenerated writer is the model's `write` -/
theorem genWrite_eq (reg : Registry) (r : Record) (hv : r.fields.date.valid = true) : genWrite reg r = write reg r :=
  genBankString_eq reg upperASCII timeFormatValid r (dateCalls_valid _ hv)

/-- non-vacuity: a record with a region, a DBLINK, a reference with PUBMED, an extra field, one feature and
residues, dated 29-FEB-2020, under the initial registry -/
example :
    let r : Record :=
      { fields :=
          { Fields.empty with
            locusName := bs "X"
            molecule := bs "DNA"
            date := ⟨2020, 2, 29⟩
            region := some (2, 9)
            dblink := [(bs "BioProject", bs "P1")]
            references := [⟨1, bs "(bases 1 to 7)", bs "A", [], bs "T", bs "J", some (bs "1"), []⟩]
            extra := [(bs "PRIMARY", bs "x")] },
        table := [⟨bs "source", .ranged 0 7 false false, [[bs "mol_type", bs "genomic DNA"]]⟩],
        origin := .residues (bs "acgtacg") }
    wOut (genBankString itoaB upperASCII timeFormatValid wrapSpaceModel Loc.printB originLenModel originStringModel
      segmentLenModel (isQuotedIn Registry.default) (isLiteralIn Registry.default) (isToggleIn Registry.default)
      (goRecord r)) = write Registry.default r := by
  intro r
  exact genBankString_eq Registry.default upperASCII timeFormatValid r (dateCalls_valid _ (by decide))

end Gts.Bridge
