/-
  Bridge: the regenerated `exact` / `encodePayload` of cmd/gts/io.go (`Gts/Gen/KeyEnc.lean`, go2lean
  keyenc.go) ARE the model's `Gts.KeyEnc.exact` / `Gts.KeyEnc.encodePayload` (property C14), once the
  two library parameters are instantiated with the model's strconv.QuoteToASCII and json.Marshal.

  The generated functions work on `tuple = [2]interface{}`, i.e. on pairs of VALUES: `exact` is
  applied to the key too.  The model's tuple has a byte-string key (every call of `encodePayload`
  passes a string constant): `keyed` embeds it, `marshalTuples` is json.Marshal of a `[][2]interface{}`
  over the model's value kinds.

  What breaks these theorems: marshalling the raw tuples (the encoder before 1c2c272 — `marshal tt`),
  quoting only the value or only the key, dropping the quoting of the `[]string` elements or of the
  plain strings, swapping key and value.  What go2lean refuses: any other statement or expression
  shape, another library function (`strconv.Quote`), another error handling, other cases in the type
  switch.
-/
import Gts.Gen.KeyEnc
import Gts.Model.KeyEnc
import Gts.Lemmas.KeyEncJson
namespace Gts.Bridge.KeyEnc
open Gts.KeyEnc

/-- json.Marshal of a `[]tuple` (`[][2]interface{}`) whose members are values of the model's kinds -/
def marshalTuples (qq : List (Value × Value)) : Bytes :=
  jsonArray (qq.map fun t => jsonArray [jsonValue t.1, jsonValue t.2])

/-- a tuple of the model as a Go `tuple`: the key is a `string` -/
def keyed (t : Tuple) : Value × Value := (.str t.1, t.2)

/-- the shape of a loop that fills a fresh slice with the image of every element, in order -/
theorem mapShape {α β : Type} (f : List α → List β) (g : α → β) (h0 : f [] = [])
    (h1 : ∀ a r, f (a :: r) = g a :: f r) : ∀ l, f l = l.map g
  | [] => h0
  | a :: r => by rw [h1, mapShape f g h0 h1 r]; rfl

/-- **the frame**: `tuple` is `[2]interface{}`, `strconv` / `json` are the standard packages, the
only library calls are strconv.QuoteToASCII and json.Marshal, an error of json.Marshal panics -/
theorem keyEncFrame :
    Gts.Gen.KeyEnc.keyEncFrame =
      { tupleType := "[2]interface{}", packages := ["strconv", "encoding/json"],
        calls := ["strconv.QuoteToASCII", "json.Marshal"], onMarshalError := "panic(err)" } := by
  decide

/-- the `[]string` clause of `exact` quotes every element -/
theorem exactLoop_eq (q : Bytes → Bytes) (l : List Bytes) : Gts.Gen.KeyEnc.exactLoop q l = l.map q :=
  mapShape (Gts.Gen.KeyEnc.exactLoop q) q rfl (fun _ _ => rfl) l

/-- **io.go `exact` is the model's `exact`** (strings quoted, `[]string` element-wise, the other
kinds unchanged) -/
theorem exact_eq (v : Value) : Gts.Gen.KeyEnc.exact quoteToASCII v = Gts.KeyEnc.exact v := by
  cases v with
  | str s => rfl
  | strs l => simp only [Gts.Gen.KeyEnc.exact, exactLoop_eq, Gts.KeyEnc.exact]
  | bool b => rfl
  | int n => rfl
  | bytes b => rfl

/-- the loop of `encodePayload` applies `exact` to both members of every tuple -/
theorem encodePayloadLoop_eq (l : List (Value × Value)) :
    Gts.Gen.KeyEnc.encodePayloadLoop quoteToASCII l =
      l.map fun t => (Gts.KeyEnc.exact t.1, Gts.KeyEnc.exact t.2) := by
  rw [mapShape (Gts.Gen.KeyEnc.encodePayloadLoop quoteToASCII)
    (fun t => (Gts.Gen.KeyEnc.exact quoteToASCII t.1, Gts.Gen.KeyEnc.exact quoteToASCII t.2)) rfl (fun _ _ => rfl) l]
  simp only [exact_eq]

/-- **io.go `encodePayload` is the model's `encodePayload`**: for every payload, the regenerated
function — run with the model's QuoteToASCII and json.Marshal — gives the model's key bytes. -/
theorem encodePayload_eq (p : Payload) :
    Gts.Gen.KeyEnc.encodePayload quoteToASCII marshalTuples (p.map keyed) = Gts.KeyEnc.encodePayload p := by
  simp only [Gts.Gen.KeyEnc.encodePayload, encodePayloadLoop_eq, marshalTuples, Gts.KeyEnc.encodePayload,
    jsonOfPayload, List.map_map]
  congr 1

/-- **The key bytes computed by the code of the tree determine the payload**: the C14 theorem
`encodePayload_injective`, restated for the REGENERATED `encodePayload` (run with the model's
QuoteToASCII and json.Marshal) — re-checked against what io.go says on every run. -/
theorem generated_injective (p₁ p₂ : Payload)
    (h : Gts.Gen.KeyEnc.encodePayload quoteToASCII marshalTuples (p₁.map keyed) =
      Gts.Gen.KeyEnc.encodePayload quoteToASCII marshalTuples (p₂.map keyed)) : p₁ = p₂ := by
  rw [encodePayload_eq, encodePayload_eq] at h
  exact (encodePayload_prefix p₁ p₂ [] [] (by rw [List.append_nil, List.append_nil]; exact h)).1

/-- non-vacuity: the generated encoder on a payload with a string that is not UTF-8 -/
example : Gts.Gen.KeyEnc.encodePayload quoteToASCII marshalTuples
      ([(ascii "locator", Value.str [0x61, 0xFF, 0x62])].map keyed) =
    ascii "[[\"\\\"locator\\\"\",\"\\\"a\\\\xffb\\\"\"]]" := by decide

end Gts.Bridge.KeyEnc
