/-
  Bridge: `BySegment.Less`, `invertSegments` and the merge loop of `Minimize`, regenerated from
  region.go by go2lean (Gts/Gen/Region.lean; the loops translated literally as recursive helpers
  over the loop state), are equal to the hand-written model `Reg.segLess`, `Reg.invertSegments`,
  `Reg.mergeSegs` (Gts/Model/Region.lean) the property theorems of C09 and C15 are about — for
  EVERY list, by induction over the loop shapes (a generic lemma about a loop of that shape, then the
  generated function is shown to have the shape: renamed locals do not matter, a changed condition,
  index or merged value does).
-/
import Gts.Gen.Region
import Gts.Bridge.Arith
import Gts.Model.Region
namespace Gts.Bridge
open Gts

/-! ### `BySegment.Less` -/

/-- `BySegment.Less(i, j)`, as a function of the two array values `ss[i]`, `ss[j]`, is the model's
`Reg.segLess` — for every pair of segments, either orientation -/
theorem bySegmentLess_eq (l r : Seg) : Gen.bySegmentLess l.1 l.2 r.1 r.2 = Reg.segLess l r := by
  obtain ⟨l0, l1⟩ := l
  obtain ⟨r0, r1⟩ := r
  simp only [Gen.bySegmentLess, Reg.segLess]
  have ite_decide : ∀ (p : Prop) [Decidable p], (if p then true else false) = decide p := by
    intro p _; by_cases hp : p <;> simp [hp]
  by_cases hl : l1 < l0 <;> by_cases hr : r1 < r0 <;>
    simp only [hl, hr, if_true, if_false, ite_decide]

/-! ### `invertSegments`: the range loop carrying `start` -/

/-- a loop of the shape `for _, s := range ss { if start != s[0] { rr = append(rr, {start, s[0]}) }; start = s[1] }`
followed by the trailing `if start != n { append }` computes `rr ++ invertFrom start n ss` -/
theorem invertLoop_spec (loop : List Seg → List Seg → Int → List Seg × Int)
    (hnil : ∀ rr start, loop [] rr start = (rr, start))
    (hcons : ∀ a b rest rr start, loop ((a, b) :: rest) rr start =
      loop rest (if start ≠ a then rr ++ [(start, a)] else rr) b)
    (n : Int) : ∀ (ss rr : List Seg) (start : Int),
      (if (loop ss rr start).2 ≠ n then (loop ss rr start).1 ++ [((loop ss rr start).2, n)]
        else (loop ss rr start).1) = rr ++ Reg.invertFrom start n ss := by
  intro ss
  induction ss with
  | nil =>
    intro rr start
    simp only [hnil, Reg.invertFrom]
    split <;> simp
  | cons s rest ih =>
    intro rr start
    obtain ⟨a, b⟩ := s
    rw [hcons, ih]
    simp only [Reg.invertFrom]
    split <;> simp

/-- `invertSegments(ss, n)`, as written, is the model's `Reg.invertSegments` — for every list -/
theorem invertSegments_eq : Gen.invertSegments = Reg.invertSegments := by
  funext ss n
  have h := invertLoop_spec Gen.invertSegmentsLoop (fun _ _ => rfl) (fun _ _ _ _ _ => rfl) n ss [] 0
  simp only [Gen.invertSegments, Reg.invertSegments]
  simpa using h

/-! ### the merge loop of `Minimize` -/

theorem getD_append_length (pre : List Seg) (a : Seg) (rest : List Seg) :
    (pre ++ a :: rest).getD pre.length default = a := by
  simp [List.getD_eq_getElem?_getD]

theorem getD_append_length_succ (pre : List Seg) (a b : Seg) (rest : List Seg) :
    (pre ++ a :: b :: rest).getD (pre.length + 1) default = b := by
  simp [List.getD_eq_getElem?_getD]

theorem set_append_length (pre : List Seg) (a m : Seg) (rest : List Seg) :
    (pre ++ a :: rest).set pre.length m = pre ++ m :: rest := by
  simp

theorem eraseIdx_append_length_succ (pre : List Seg) (m b : Seg) (rest : List Seg) :
    (pre ++ m :: b :: rest).eraseIdx (pre.length + 1) = pre ++ m :: rest := by
  rw [List.eraseIdx_append_of_length_le (by omega)]
  simp

/-- a loop of the shape
`for i < len(ss)-1 { l, r := ss[i], ss[i+1]; if l[1] < r[0] { i++ } else { ss[i] = {Min(l[0],r[0]), Max(l[1],r[1])}; delete ss[i+1] } }`
started at index `i = len(pre)` on `pre ++ suf` leaves `pre` as it is and merges `suf` as the
model's `mergeSegs` does (invariant: the prefix before `i` is final); `len(suf)` units of fuel
suffice, i.e. the loop ends because its condition fails -/
theorem mergeLoop_spec (loop : Nat → List Seg → Int → List Seg × Int)
    (h0 : ∀ ss i, loop 0 ss i = (ss, i))
    (hs : ∀ fuel ss i, loop (fuel + 1) ss i =
      if i < (ss.length : Int) - 1 then
        (if (ss.getD (Int.toNat i) default).2 < (ss.getD (Int.toNat (i + 1)) default).1 then
          loop fuel ss (i + 1)
        else
          loop fuel ((ss.set (Int.toNat i)
            (Loc.gmin (ss.getD (Int.toNat i) default).1 (ss.getD (Int.toNat (i + 1)) default).1,
             Loc.gmax (ss.getD (Int.toNat i) default).2 (ss.getD (Int.toNat (i + 1)) default).2)).eraseIdx
              (Int.toNat (i + 1))) i)
      else (ss, i)) :
    ∀ (fuel : Nat) (pre suf : List Seg), suf.length ≤ fuel + 1 →
      (loop fuel (pre ++ suf) (pre.length : Int)).1 = pre ++ Reg.mergeSegs suf := by
  intro fuel
  induction fuel with
  | zero =>
    intro pre suf hf
    rw [h0]
    match suf, hf with
    | [], _ => simp [Reg.mergeSegs]
    | [a], _ => simp [Reg.mergeSegs]
  | succ f ih =>
    intro pre suf hf
    rw [hs]
    match suf, hf with
    | [], _ =>
      have : ¬ ((pre.length : Int) < ((pre ++ []).length : Int) - 1) := by
        simp only [List.append_nil]; omega
      rw [if_neg this]; simp [Reg.mergeSegs]
    | [a], _ =>
      have : ¬ ((pre.length : Int) < ((pre ++ [a]).length : Int) - 1) := by
        simp only [List.length_append, List.length_cons, List.length_nil]; omega
      rw [if_neg this]; simp [Reg.mergeSegs]
    | a :: b :: rest, hf =>
      have hc : (pre.length : Int) < ((pre ++ a :: b :: rest).length : Int) - 1 := by
        simp only [List.length_append, List.length_cons]; omega
      have e1 : Int.toNat (pre.length : Int) = pre.length := Int.toNat_natCast _
      have e2 : Int.toNat ((pre.length : Int) + 1) = pre.length + 1 := by omega
      rw [if_pos hc, e1, e2, getD_append_length, getD_append_length_succ]
      by_cases hab : a.2 < b.1
      · rw [if_pos hab]
        have := ih (pre ++ [a]) (b :: rest) (by simp only [List.length_cons] at hf ⊢; omega)
        simp only [List.append_assoc, List.singleton_append, List.length_append, List.length_cons,
          List.length_nil, Nat.zero_add] at this
        have e3 : ((pre.length + 1 : Nat) : Int) = (pre.length : Int) + 1 := by omega
        rw [e3] at this
        rw [this, Reg.mergeSegs, if_pos hab]
      · rw [if_neg hab, set_append_length, eraseIdx_append_length_succ]
        have := ih pre ((Loc.gmin a.1 b.1, Loc.gmax a.2 b.2) :: rest)
          (by simp only [List.length_cons] at hf ⊢; omega)
        rw [this, Reg.mergeSegs.eq_3, if_neg hab]

theorem minimizeMergeLoop_shape (fuel : Nat) (ss : List Seg) (i : Int) :
    Gen.minimizeMergeLoop (fuel + 1) ss i =
      if i < (ss.length : Int) - 1 then
        (if (ss.getD (Int.toNat i) default).2 < (ss.getD (Int.toNat (i + 1)) default).1 then
          Gen.minimizeMergeLoop fuel ss (i + 1)
        else
          Gen.minimizeMergeLoop fuel ((ss.set (Int.toNat i)
            (Loc.gmin (ss.getD (Int.toNat i) default).1 (ss.getD (Int.toNat (i + 1)) default).1,
             Loc.gmax (ss.getD (Int.toNat i) default).2 (ss.getD (Int.toNat (i + 1)) default).2)).eraseIdx
              (Int.toNat (i + 1))) i)
      else (ss, i) := by
  simp only [Gen.minimizeMergeLoop, gmin_eq, gmax_eq]
  by_cases hc : i < (ss.length : Int) - 1
  · simp only [hc, if_true]
    by_cases hab : (ss.getD (Int.toNat i) default).2 < (ss.getD (Int.toNat (i + 1)) default).1
    · simp only [hab, if_true]
    · simp only [hab, if_false]
  · simp only [hc, if_false]

/-- **the merge loop of `Minimize`, as written in region.go**, started at `i = 0` with any fuel
`≥ len(ss) - 1`, returns the model's `Reg.mergeSegs ss` — for EVERY list (sorted or not).
`Segment{l[0], r[1]}` instead of `Min`/`Max` (seeded change C09-a) breaks `minimizeMergeLoop_shape`. -/
theorem minimizeMerge_eq (fuel : Nat) (ss : List Seg) (h : ss.length ≤ fuel + 1) :
    Gen.minimizeMerge fuel ss = Reg.mergeSegs ss := by
  have := mergeLoop_spec Gen.minimizeMergeLoop (fun _ _ => rfl) minimizeMergeLoop_shape fuel [] ss h
  simpa [Gen.minimizeMerge] using this

example : Gen.minimizeMerge 4 [(0, 3), (2, 5), (7, 9), (9, 9)] = Reg.mergeSegs [(0, 3), (2, 5), (7, 9), (9, 9)] :=
  minimizeMerge_eq 4 _ (by decide)

/-- the statements of `Minimize` in front of the merge loop are the ones the model's
`Reg.minimize r = mergeSegs (sortSegs (flatten r))` follows -/
theorem minimizeFrame_eq :
    Gen.minimizeFrame = ["ss := flattenRegion(arg)", "sort.Sort(BySegment(ss))", "minimizeMerge ss"] := rfl

/-- `Minimize(r)` is: flatten, sort (both hand-modelled, tied by the correspondence run), then the
REGENERATED merge loop -/
theorem minimize_gen (r : Reg) (fuel : Nat) (h : (Reg.sortSegs (Reg.flatten r)).length ≤ fuel + 1) :
    Reg.minimize r = Gen.minimizeMerge fuel (Reg.sortSegs (Reg.flatten r)) := by
  rw [minimizeMerge_eq fuel _ h]; rfl

example : ((Reg.sortSegs (Reg.flatten (.many [.seg 9 7, .seg 0 3, .seg 2 5]))).length ≤ 2 + 1) := by decide

end Gts.Bridge
