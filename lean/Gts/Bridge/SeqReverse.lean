/-
  Bridge: `gts.Reverse`, regenerated from sequence.go by go2lean (Gts/Gen/SeqReverse.lean: the `range` loop
  over the features as a recursion over the list — `Feature{f.Key, f.Loc.Reverse(Len(seq)), f.Props.Clone()}`
  inserted one by one —, `make` / `copy` as checked operations, `flip.Bytes` as `List.reverse`), is the
  hand-written model's `Seq.reverse` (Gts/Model/Seq.lean) — for EVERY sequence: the function cannot panic
  (`make([]byte, Len(seq))` has a non-negative length, `copy(p, seq.Bytes())` fills it exactly), which is part
  of what `seqReverse_eq` proves.  Metadata: untouched.
-/
import Gts.Gen.SeqReverse
import Gts.Bridge.SeqBase
import Gts.Bridge.LocRec
namespace Gts.Bridge
open Gts

/-- the loop of `Reverse` inserts the mirrored features one by one -/
theorem seqReverseLoop_eq (b : List UInt8) (fs ff : List Feature) :
    Gen.seqReverseLoop b fs ff =
      .ok (Table.insertAll ff (fs.map fun f => { f with loc := f.loc.reverse b.length })) := by
  rw [foldLoop_shape (Gen.seqReverseLoop b)
    (fun f ff => Table.insert ff { f with loc := Gen.reverse f.loc b.length })
    (fun _ => rfl) (fun _ _ _ => rfl), insertAll_map]
  simp only [reverse_eq]

/-- `copy(p, src)` into a fresh buffer of the same length -/
theorem goCopyAt_fresh (src : List UInt8) :
    Gen.goCopyAt (List.replicate src.length 0) 0 src = some (src, (src.length : Int)) := by
  simp [Gen.goCopyAt]

/-- `gts.Reverse` as sequence.go defines it now is the model's `Seq.reverse`, for every sequence -/
theorem seqReverse_eq {ι : Type} (i : ι) (s : Seq) :
    Gen.seqReverse i s.feats s.bytes = .ok (i, s.reverse.feats, s.reverse.bytes) := by
  have hm : ¬ ((s.bytes.length : Int) < 0) := by omega
  simp only [Gen.seqReverse, seqReverseLoop_eq, Gen.goMake, if_neg hm, Int.toNat_natCast, goCopyAt_fresh,
    Seq.reverse, Seq.len]

-- non-vacuity
example : Gen.seqReverse (ι := Unit) () [⟨"gene", .ranged 0 2 true false, []⟩, ⟨"cds", .point 3, []⟩] [65, 67, 71, 84] =
    .ok ((), [⟨"cds", .point 0, []⟩, ⟨"gene", .ranged 2 4 false true, []⟩], [84, 71, 67, 65]) := by
  rfl

end Gts.Bridge
