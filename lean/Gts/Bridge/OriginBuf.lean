/-
  Bridge (C16): `NewOrigin`, `Origin.Bytes`, `Origin.String`, `Origin.Len` REGENERATED from
  seqio/origin.go by go2lean (Gts/Gen/OriginBuf.lean: the loops translated literally, writing with
  `copy` and single-byte stores into a destination buffer `make([]byte, n)` at an `int` offset) are
  equal, for EVERY byte string, to the hand-written model (Gts/Model/Origin.lean: `newOrigin`,
  `originBytes`, `originString`, `originLen`, which describe the byte STREAM the loops write and
  what the truncating `copy` and the panicking stores make of it) that the C16 theorems are about.
  The invariant of every loop: after the stream `s` has been written, the buffer is
  `bufOf cap s` (`s` cut at the capacity, the rest still zero) and the offset is `min |s| cap`
  (Gts/Lemmas/GoBytes.lean).
-/
import Gts.Gen.OriginBuf
import Gts.Lemmas.GoBytes
import Gts.Lemmas.Origin
import Gts.Bridge.OriginValidate
import Gts.Bridge.Origin
namespace Gts.Bridge
open Gts Gts.Origin
open Gts.Pars (Bytes Err)
open Gts.Gen (bufOf offOf)

theorem gmin_nat (a b : Nat) : Gen.gmin (a : Int) (b : Int) = ((min a b : Nat) : Int) := by
  simp only [Gen.gmin]; split <;> omega

/-! ### `Origin.Len`, `Origin.String` -/

/-- `Origin{p, false}.Len()` is the model's `originLen p` — every buffer (the `len == 0` guard:
seeded C16-d turns it into `< 12`) -/
theorem originLen_eq (p : Bytes) : Gen.originLen p false = .ok (Origin.originLen p) := by
  simp only [Gen.originLen, Origin.originLen, fromOriginLength_eq]
  by_cases h : p.length = 0
  · rw [if_pos h, if_pos (by omega)]
  · rw [if_neg h, if_neg (by omega)]; rfl

/-- `Origin{p, true}.Len()` is `len(p)` -/
theorem originLen_parsed (p : Bytes) : Gen.originLen p true = .ok (p.length : Int) := by
  simp only [Gen.originLen]
  by_cases h : p.length = 0
  · rw [if_pos (by omega)]; congr 1; omega
  · rw [if_neg (by omega)]; rfl

/-! ### `Origin.Bytes` -/

theorem bytesGroups_fuel (p : Bytes) (length : Int) (i : Nat) :
    ∀ (f f' j start : Nat) (acc : Bytes), 60 ≤ j + 10 * f → 60 ≤ j + 10 * f' →
      bytesGroups p length i f j start acc = bytesGroups p length i f' j start acc := by
  intro f
  induction f with
  | zero =>
    intro f' j start acc h h'
    cases f' with
    | zero => rfl
    | succ f' => simp only [bytesGroups]; rw [if_neg (by omega)]
  | succ f ih =>
    intro f' j start acc h h'
    cases f' with
    | zero => simp only [bytesGroups]; rw [if_neg (by omega)]
    | succ f' =>
      simp only [bytesGroups]
      split
      · split
        · rfl
        · exact ih f' (j + 10) _ _ (by omega) (by omega)
      · rfl

theorem bytesLines_fuel (p : Bytes) (length : Int) :
    ∀ (f f' i start : Nat) (acc : Bytes), length ≤ (i : Int) + 60 * (f : Int) → length ≤ (i : Int) + 60 * (f' : Int) →
      bytesLines p length f i start acc = bytesLines p length f' i start acc := by
  intro f
  induction f with
  | zero =>
    intro f' i start acc h h'
    cases f' with
    | zero => rfl
    | succ f' => simp only [bytesLines]; rw [if_neg (by omega)]
  | succ f ih =>
    intro f' i start acc h h'
    cases f' with
    | zero => simp only [bytesLines]; rw [if_neg (by omega)]
    | succ f' =>
      simp only [bytesLines]
      split
      · cases bytesGroups p length i 6 0 (start + 9) acc with
        | error e => rfl
        | ok r => exact ih f' (i + 60) _ _ (by omega) (by omega)
      · rfl

/-- outcome of a generated loop of `Bytes` (state: buffer, offset, start, counter) against the model's
loop (state: start, everything copied so far) -/
def SimBuf (cap : Nat) (m : Out (Nat × Bytes)) (g : Except Err (Bytes × Int × Int × Int)) : Prop :=
  match m with
  | .error e => g = .error e
  | .ok (start', acc') => ∃ c' : Nat, g = .ok (bufOf cap acc', (offOf cap acc' : Int), (start' : Int), (c' : Int))

/-- inner loop of `Bytes`: `start++`, the slice `p[start:min(start+10, len(p)-1)]` copied -/
theorem originBytesLoop2_sim (p : Bytes) (hp : 1 ≤ p.length) (length : Int) (cap i : Nat) :
    ∀ (f j start : Nat) (acc : Bytes),
      SimBuf cap (bytesGroups p length i f j start acc)
        (Gen.originBytesLoop2 p length (i : Int) f (bufOf cap acc) (offOf cap acc : Int) (start : Int) (j : Int)) := by
  intro f
  induction f with
  | zero => intro j start acc; exact ⟨j, rfl⟩
  | succ f ih =>
    intro j start acc
    simp only [Gen.originBytesLoop2, bytesGroups]
    by_cases hc : j < 60 ∧ ((i + j : Nat) : Int) < length
    · rw [if_pos hc, if_pos (show (j : Int) < 60 ∧ (i : Int) + (j : Int) < length by omega)]
      have e1 : (start : Int) + 1 = ((start + 1 : Nat) : Int) := by omega
      have e2 : ((start + 1 : Nat) : Int) + 10 = ((start + 1 + 10 : Nat) : Int) := by omega
      have e3 : (p.length : Int) - 1 = ((p.length - 1 : Nat) : Int) := by omega
      rw [e1, e2, e3, gmin_nat]
      by_cases hs : min (start + 1 + 10) (p.length - 1) < start + 1
      · rw [if_pos hs, Gen.goSlice_nat_none p _ _ hs]; exact rfl
      · rw [if_neg hs, Gen.goSlice_nat p _ _ (by omega) (by omega)]
        dsimp only
        rw [Gen.goCopyAt_bufOf]
        dsimp only
        rw [Gen.offOf_add_sub]
        have e4 : (j : Int) + 10 = ((j + 10 : Nat) : Int) := by omega
        rw [e4]
        exact ih (j + 10) _ _
    · rw [if_neg hc, if_neg (show ¬ ((j : Int) < 60 ∧ (i : Int) + (j : Int) < length) by omega)]
      exact ⟨j, rfl⟩

/-- outcome of the generated outer loop of `Bytes` against the model's (which returns what was copied) -/
def SimBufL (cap : Nat) (m : Out Bytes) (g : Except Err (Bytes × Int × Int × Int)) : Prop :=
  match m with
  | .error e => g = .error e
  | .ok acc' => ∃ s' c' : Nat, g = .ok (bufOf cap acc', (offOf cap acc' : Int), (s' : Int), (c' : Int))

/-- outer loop of `Bytes`: step over the nine index columns, the groups, the line feed -/
theorem originBytesLoop_sim (p : Bytes) (hp : 1 ≤ p.length) (length : Int) (cap fuel0 : Nat) (h0 : 6 ≤ fuel0) :
    ∀ (f i start : Nat) (acc : Bytes),
      SimBufL cap (bytesLines p length f i start acc)
        (Gen.originBytesLoop fuel0 p length f (bufOf cap acc) (offOf cap acc : Int) (start : Int) (i : Int)) := by
  intro f
  induction f with
  | zero => intro i start acc; exact ⟨start, i, rfl⟩
  | succ f ih =>
    intro i start acc
    simp only [Gen.originBytesLoop, bytesLines]
    by_cases hc : (i : Int) < length
    · rw [if_pos hc, if_pos hc]
      have e1 : (start : Int) + 9 = ((start + 9 : Nat) : Int) := by omega
      rw [e1, bytesGroups_fuel p length i 6 fuel0 0 _ _ (by omega) (by omega)]
      have h2 := originBytesLoop2_sim p hp length cap i fuel0 0 (start + 9) acc
      revert h2
      cases bytesGroups p length i fuel0 0 (start + 9) acc with
      | error e =>
        intro h2
        rw [show (0 : Int) = ((0 : Nat) : Int) from rfl, show Gen.originBytesLoop2 _ _ _ _ _ _ _ _ = _ from h2]
        exact rfl
      | ok r =>
        obtain ⟨start', acc'⟩ := r
        intro h2
        obtain ⟨j', hg⟩ := h2
        rw [show (0 : Int) = ((0 : Nat) : Int) from rfl, hg]
        dsimp only
        have e2 : (start' : Int) + 1 = ((start' + 1 : Nat) : Int) := by omega
        have e3 : (i : Int) + 60 = ((i + 60 : Nat) : Int) := by omega
        rw [e2, e3]
        exact ih (i + 60) (start' + 1) acc'
    · rw [if_neg hc, if_neg hc]
      exact ⟨start, i, rfl⟩

/-- **`(&Origin{p, false}).Bytes()`, as written in origin.go**, run with any fuel that covers the
trip counts, returns what the model's `originBytes p` returns (or panics where it panics) and
leaves the receiver parsed with that value — except for a buffer shorter than 12 bytes, where it
returns `nil` and leaves the receiver as it is.  Every buffer.  `<= 12` (seeded C16-a, C17-e) or a
rewritten decoding loop (seeded C16-f) breaks the proof or is refused. -/
theorem originBytes_eq (fuel : Nat) (p : Bytes) (h6 : 6 ≤ fuel)
    (hl : Origin.fromOriginLength (p.length : Int) ≤ 60 * (fuel : Int)) :
    Gen.originBytes fuel p false =
      match Origin.originBytes p with
      | .error e => .error e
      | .ok b => .ok (b, if p.length < 12 then (p, false) else (b, true)) := by
  simp only [Gen.originBytes, Origin.originBytes, fromOriginLength_eq]
  by_cases h12 : p.length < 12
  · rw [if_pos h12, if_pos (by simp), if_pos (by omega)]
    simp [h12]
  · rw [if_neg h12, if_pos (by simp), if_neg (by omega)]
    by_cases hneg : Origin.fromOriginLength (p.length : Int) < 0
    · rw [if_pos hneg, Gen.goMake_neg _ hneg]
    · rw [if_neg hneg]
      obtain ⟨n, hn⟩ : ∃ n : Nat, Origin.fromOriginLength (p.length : Int) = (n : Int) :=
        ⟨(Origin.fromOriginLength (p.length : Int)).toNat, by omega⟩
      rw [hn] at hl ⊢
      rw [Gen.goMake_nat]
      dsimp only
      have h := originBytesLoop_sim p (by omega) (n : Int) n fuel h6 fuel 0 0 []
      rw [Gen.bufOf_nil, Gen.offOf_nil] at h
      simp only [bytesDecode, Int.toNat_natCast]
      rw [bytesLines_fuel p (n : Int) n fuel 0 0 [] (by omega) (by omega)]
      revert h
      cases bytesLines p (n : Int) fuel 0 0 [] with
      | error e =>
        intro h
        rw [show (0 : Int) = ((0 : Nat) : Int) from rfl]
        rw [show Gen.originBytesLoop _ _ _ _ _ _ _ _ = _ from h]
      | ok s =>
        intro h
        obtain ⟨s', c', hg⟩ := h
        rw [show (0 : Int) = ((0 : Nat) : Int) from rfl]
        rw [show Gen.originBytesLoop _ _ _ _ _ _ _ _ = _ from hg]
        simp [h12, Gen.bufOf]

/-- a parsed receiver: `Bytes` returns the buffer and changes nothing -/
theorem originBytes_parsed (fuel : Nat) (p : Bytes) : Gen.originBytes fuel p true = .ok (p, p, true) := by
  simp [Gen.originBytes]

end Gts.Bridge
