/-
  Bridge (C16): `NewOrigin`, `Origin.Bytes`, `Origin.String`, `Origin.Len` REGENERATED from
  seqio/origin.go by go2lean (Gts/Gen/OriginBuf.lean: the loops translated literally, writing with
  `copy` and single-byte stores into a destination buffer `make([]byte, n)` at an `int` offset) are
  equal, for EVERY byte string, to the hand-written model (Gts/Model/Origin.lean: `newOrigin`,
  `originBytes`, `originString`, `originLen`, which describe the byte STREAM the loops write and
  what the truncating `copy` and the panicking stores make of it) that the C16 theorems are about.
  The invariant of every loop: after the stream `s` has been written, the buffer is
  `bufOf cap s` (`s` cut at the capacity, the rest still zero) and the offset is `min |s| cap`
  (Gts/Lemmas/GoBytes.lean).
-/
import Gts.Gen.OriginBuf
import Gts.Lemmas.GoBytes
import Gts.Lemmas.Origin
import Gts.Lemmas.OriginStream
import Gts.Bridge.OriginValidate
import Gts.Bridge.Origin
namespace Gts.Bridge
open Gts Gts.Origin
open Gts.Pars (Bytes Err)
open Gts.Gen (bufOf offOf)

theorem gmin_nat (a b : Nat) : Gen.gmin (a : Int) (b : Int) = ((min a b : Nat) : Int) := by
  simp only [Gen.gmin]; split <;> omega

/-! ### `Origin.Len`, `Origin.String` -/

/-- `Origin{p, false}.Len()` is the model's `originLen p` — every buffer (the `len == 0` guard:
seeded C16-d turns it into `< 12`) -/
theorem originLen_eq (p : Bytes) : Gen.originLen p false = .ok (Origin.originLen p) := by
  simp only [Gen.originLen, Origin.originLen, fromOriginLength_eq]
  by_cases h : p.length = 0
  · rw [if_pos h, if_pos (by omega)]
  · rw [if_neg h, if_neg (by omega)]; rfl

/-- `Origin{p, true}.Len()` is `len(p)` -/
theorem originLen_parsed (p : Bytes) : Gen.originLen p true = .ok (p.length : Int) := by
  simp only [Gen.originLen]
  by_cases h : p.length = 0
  · rw [if_pos (by omega)]; congr 1; omega
  · rw [if_neg (by omega)]; rfl

/-! ### `Origin.Bytes` -/

theorem bytesGroups_fuel (p : Bytes) (length : Int) (i : Nat) :
    ∀ (f f' j start : Nat) (acc : Bytes), 60 ≤ j + 10 * f → 60 ≤ j + 10 * f' →
      bytesGroups p length i f j start acc = bytesGroups p length i f' j start acc := by
  intro f
  induction f with
  | zero =>
    intro f' j start acc h h'
    cases f' with
    | zero => rfl
    | succ f' => simp only [bytesGroups]; rw [if_neg (by omega)]
  | succ f ih =>
    intro f' j start acc h h'
    cases f' with
    | zero => simp only [bytesGroups]; rw [if_neg (by omega)]
    | succ f' =>
      simp only [bytesGroups]
      split
      · split
        · rfl
        · exact ih f' (j + 10) _ _ (by omega) (by omega)
      · rfl

theorem bytesLines_fuel (p : Bytes) (length : Int) :
    ∀ (f f' i start : Nat) (acc : Bytes), length ≤ (i : Int) + 60 * (f : Int) → length ≤ (i : Int) + 60 * (f' : Int) →
      bytesLines p length f i start acc = bytesLines p length f' i start acc := by
  intro f
  induction f with
  | zero =>
    intro f' i start acc h h'
    cases f' with
    | zero => rfl
    | succ f' => simp only [bytesLines]; rw [if_neg (by omega)]
  | succ f ih =>
    intro f' i start acc h h'
    cases f' with
    | zero => simp only [bytesLines]; rw [if_neg (by omega)]
    | succ f' =>
      simp only [bytesLines]
      split
      · cases bytesGroups p length i 6 0 (start + 9) acc with
        | error e => rfl
        | ok r => exact ih f' (i + 60) _ _ (by omega) (by omega)
      · rfl

/-- outcome of a generated loop of `Bytes` (state: buffer, offset, start, counter) against the model's
loop (state: start, everything copied so far) -/
def SimBuf (cap : Nat) (m : Out (Nat × Bytes)) (g : Except Err (Bytes × Int × Int × Int)) : Prop :=
  match m with
  | .error e => g = .error e
  | .ok (start', acc') => ∃ c' : Nat, g = .ok (bufOf cap acc', (offOf cap acc' : Int), (start' : Int), (c' : Int))

/-- inner loop of `Bytes`: `start++`, the slice `p[start:min(start+10, len(p)-1)]` copied -/
theorem originBytesLoop2_sim (p : Bytes) (hp : 1 ≤ p.length) (length : Int) (cap i : Nat) :
    ∀ (f j start : Nat) (acc : Bytes),
      SimBuf cap (bytesGroups p length i f j start acc)
        (Gen.originBytesLoop2 p length (i : Int) f (bufOf cap acc) (offOf cap acc : Int) (start : Int) (j : Int)) := by
  intro f
  induction f with
  | zero => intro j start acc; exact ⟨j, rfl⟩
  | succ f ih =>
    intro j start acc
    simp only [Gen.originBytesLoop2, bytesGroups]
    by_cases hc : j < 60 ∧ ((i + j : Nat) : Int) < length
    · rw [if_pos hc, if_pos (show (j : Int) < 60 ∧ (i : Int) + (j : Int) < length by omega)]
      have e1 : (start : Int) + 1 = ((start + 1 : Nat) : Int) := by omega
      have e2 : ((start + 1 : Nat) : Int) + 10 = ((start + 1 + 10 : Nat) : Int) := by omega
      have e3 : (p.length : Int) - 1 = ((p.length - 1 : Nat) : Int) := by omega
      rw [e1, e2, e3, gmin_nat]
      by_cases hs : min (start + 1 + 10) (p.length - 1) < start + 1
      · rw [if_pos hs, Gen.goSlice_nat_none p _ _ hs]; exact rfl
      · rw [if_neg hs, Gen.goSlice_nat p _ _ (by omega) (by omega)]
        dsimp only
        rw [Gen.goCopyAt_bufOf]
        dsimp only
        rw [Gen.offOf_add_sub]
        have e4 : (j : Int) + 10 = ((j + 10 : Nat) : Int) := by omega
        rw [e4]
        exact ih (j + 10) _ _
    · rw [if_neg hc, if_neg (show ¬ ((j : Int) < 60 ∧ (i : Int) + (j : Int) < length) by omega)]
      exact ⟨j, rfl⟩

/-- outcome of the generated outer loop of `Bytes` against the model's (which returns what was copied) -/
def SimBufL (cap : Nat) (m : Out Bytes) (g : Except Err (Bytes × Int × Int × Int)) : Prop :=
  match m with
  | .error e => g = .error e
  | .ok acc' => ∃ s' c' : Nat, g = .ok (bufOf cap acc', (offOf cap acc' : Int), (s' : Int), (c' : Int))

/-- outer loop of `Bytes`: step over the nine index columns, the groups, the line feed -/
theorem originBytesLoop_sim (p : Bytes) (hp : 1 ≤ p.length) (length : Int) (cap fuel0 : Nat) (h0 : 6 ≤ fuel0) :
    ∀ (f i start : Nat) (acc : Bytes),
      SimBufL cap (bytesLines p length f i start acc)
        (Gen.originBytesLoop fuel0 p length f (bufOf cap acc) (offOf cap acc : Int) (start : Int) (i : Int)) := by
  intro f
  induction f with
  | zero => intro i start acc; exact ⟨start, i, rfl⟩
  | succ f ih =>
    intro i start acc
    simp only [Gen.originBytesLoop, bytesLines]
    by_cases hc : (i : Int) < length
    · rw [if_pos hc, if_pos hc]
      have e1 : (start : Int) + 9 = ((start + 9 : Nat) : Int) := by omega
      rw [e1, bytesGroups_fuel p length i 6 fuel0 0 _ _ (by omega) (by omega)]
      have h2 := originBytesLoop2_sim p hp length cap i fuel0 0 (start + 9) acc
      revert h2
      cases bytesGroups p length i fuel0 0 (start + 9) acc with
      | error e =>
        intro h2
        rw [show (0 : Int) = ((0 : Nat) : Int) from rfl, show Gen.originBytesLoop2 _ _ _ _ _ _ _ _ = _ from h2]
        exact rfl
      | ok r =>
        obtain ⟨start', acc'⟩ := r
        intro h2
        obtain ⟨j', hg⟩ := h2
        rw [show (0 : Int) = ((0 : Nat) : Int) from rfl, hg]
        dsimp only
        have e2 : (start' : Int) + 1 = ((start' + 1 : Nat) : Int) := by omega
        have e3 : (i : Int) + 60 = ((i + 60 : Nat) : Int) := by omega
        rw [e2, e3]
        exact ih (i + 60) (start' + 1) acc'
    · rw [if_neg hc, if_neg hc]
      exact ⟨start, i, rfl⟩

/-- **`(&Origin{p, false}).Bytes()`, as written in origin.go**, run with any fuel that covers the
trip counts, returns what the model's `originBytes p` returns (or panics where it panics) and
leaves the receiver parsed with that value — except for a buffer shorter than 12 bytes, where it
returns `nil` and leaves the receiver as it is.  Every buffer.  `<= 12` (seeded C16-a, C17-e) or a
rewritten decoding loop (seeded C16-f) breaks the proof or is refused. -/
theorem originBytes_eq (fuel : Nat) (p : Bytes) (h6 : 6 ≤ fuel)
    (hl : Origin.fromOriginLength (p.length : Int) ≤ 60 * (fuel : Int)) :
    Gen.originBytes fuel p false =
      match Origin.originBytes p with
      | .error e => .error e
      | .ok b => .ok (b, if p.length < 12 then (p, false) else (b, true)) := by
  simp only [Gen.originBytes, Origin.originBytes, fromOriginLength_eq]
  by_cases h12 : p.length < 12
  · rw [if_pos h12, if_pos (by simp), if_pos (by omega)]
    simp [h12]
  · rw [if_neg h12, if_pos (by simp), if_neg (by omega)]
    by_cases hneg : Origin.fromOriginLength (p.length : Int) < 0
    · rw [if_pos hneg, Gen.goMake_neg _ hneg]
    · rw [if_neg hneg]
      obtain ⟨n, hn⟩ : ∃ n : Nat, Origin.fromOriginLength (p.length : Int) = (n : Int) :=
        ⟨(Origin.fromOriginLength (p.length : Int)).toNat, by omega⟩
      rw [hn] at hl ⊢
      rw [Gen.goMake_nat]
      dsimp only
      have h := originBytesLoop_sim p (by omega) (n : Int) n fuel h6 fuel 0 0 []
      rw [Gen.bufOf_nil, Gen.offOf_nil] at h
      simp only [bytesDecode, Int.toNat_natCast]
      rw [bytesLines_fuel p (n : Int) n fuel 0 0 [] (by omega) (by omega)]
      revert h
      cases bytesLines p (n : Int) fuel 0 0 [] with
      | error e =>
        intro h
        rw [show (0 : Int) = ((0 : Nat) : Int) from rfl]
        rw [show Gen.originBytesLoop _ _ _ _ _ _ _ _ = _ from h]
      | ok s =>
        intro h
        obtain ⟨s', c', hg⟩ := h
        rw [show (0 : Int) = ((0 : Nat) : Int) from rfl]
        rw [show Gen.originBytesLoop _ _ _ _ _ _ _ _ = _ from hg]
        simp [h12, Gen.bufOf]

/-- a parsed receiver: `Bytes` returns the buffer and changes nothing -/
theorem originBytes_parsed (fuel : Nat) (p : Bytes) : Gen.originBytes fuel p true = .ok (p, p, true) := by
  simp [Gen.originBytes]

/-! ### `NewOrigin` -/

theorem fmtGroups_fuel (p : Bytes) (i : Nat) :
    ∀ (f f' j : Nat), 60 ≤ j + 10 * f → 60 ≤ j + 10 * f' → fmtGroups p i f j = fmtGroups p i f' j := by
  intro f
  induction f with
  | zero =>
    intro f' j h h'
    cases f' with
    | zero => rfl
    | succ f' => simp only [fmtGroups]; rw [if_neg (by omega)]
  | succ f ih =>
    intro f' j h h'
    cases f' with
    | zero => simp only [fmtGroups]; rw [if_neg (by omega)]
    | succ f' =>
      simp only [fmtGroups]
      split
      · rw [ih f' (j + 10) (by omega) (by omega)]
      · rfl

theorem fmtLines_fuel (p : Bytes) :
    ∀ (f f' i : Nat), p.length ≤ i + 60 * f → p.length ≤ i + 60 * f' → fmtLines p f i = fmtLines p f' i := by
  intro f
  induction f with
  | zero =>
    intro f' i h h'
    cases f' with
    | zero => rfl
    | succ f' => simp only [fmtLines]; rw [if_neg (by omega)]
  | succ f ih =>
    intro f' i h h'
    cases f' with
    | zero => simp only [fmtLines]; rw [if_neg (by omega)]
    | succ f' =>
      simp only [fmtLines]
      split
      · rw [ih f' (i + 60) (by omega) (by omega)]
      · rfl

/-- inner loop of `NewOrigin` started on the buffer after the stream `s`: it either panics — and
then the stream is longer than the buffer — or leaves the buffer after `s ++ (the groups)` -/
theorem newOriginLoop2_spec (p : Bytes) (cap i : Nat) :
    ∀ (f j : Nat) (s : Bytes),
      (Gen.newOriginLoop2 p (p.length : Int) (i : Int) f (bufOf cap s) (offOf cap s : Int) (j : Int) = .error .panic
          ∧ cap < (s ++ fmtGroups p i f j).length) ∨
      ∃ j' : Nat, Gen.newOriginLoop2 p (p.length : Int) (i : Int) f (bufOf cap s) (offOf cap s : Int) (j : Int) =
        .ok (bufOf cap (s ++ fmtGroups p i f j), (offOf cap (s ++ fmtGroups p i f j) : Int), (j' : Int)) := by
  intro f
  induction f with
  | zero => intro j s; right; exact ⟨j, by simp [Gen.newOriginLoop2, fmtGroups]⟩
  | succ f ih =>
    intro j s
    simp only [Gen.newOriginLoop2, fmtGroups]
    by_cases hc : j < 60 ∧ i + j < p.length
    · rw [if_pos hc, if_pos (show (j : Int) < 60 ∧ (i : Int) + (j : Int) < (p.length : Int) by omega)]
      by_cases hroom : s.length < cap
      · have e1 : (i : Int) + (j : Int) = ((i + j : Nat) : Int) := by omega
        have e2 : ((i + j : Nat) : Int) + 10 = ((i + j + 10 : Nat) : Int) := by omega
        rw [Gen.goStore_bufOf cap s _ hroom, e1, e2, gmin_nat]
        dsimp only
        rw [Gen.goSlice_nat p _ _ (by omega) (by omega), Gen.offOf_snoc cap s _ hroom]
        dsimp only
        rw [Gen.goCopyAt_bufOf]
        dsimp only
        rw [Gen.offOf_add_sub]
        have e4 : (j : Int) + 10 = ((j + 10 : Nat) : Int) := by omega
        rw [e4]
        have hs : s ++ Gen.spaceByte :: ((p.drop (i + j)).take (min (i + j + 10) p.length - (i + j)) ++ fmtGroups p i f (j + 10))
            = (s ++ [Gen.spaceByte] ++ (p.drop (i + j)).take (min (i + j + 10) p.length - (i + j))) ++ fmtGroups p i f (j + 10) := by
          simp
        have := ih (j + 10) (s ++ [Gen.spaceByte] ++ (p.drop (i + j)).take (min (i + j + 10) p.length - (i + j)))
        rw [← hs] at this
        exact this
      · left
        rw [Gen.goStore_bufOf_full cap s _ (by omega)]
        refine ⟨rfl, ?_⟩
        simp only [List.length_append, List.length_cons]
        omega
    · rw [if_neg hc, if_neg (show ¬ ((j : Int) < 60 ∧ (i : Int) + (j : Int) < (p.length : Int)) by omega)]
      right; exact ⟨j, by simp⟩

/-- outer loop of `NewOrigin` started on the buffer after the stream `s`: it either panics — and
then the stream is longer than the buffer — or leaves the buffer after `s ++ (the lines)`, and if
it wrote anything the stream fits (its last write is a checked single-byte store) -/
theorem newOriginLoop_spec (p : Bytes) (cap fuel0 : Nat) (h0 : 6 ≤ fuel0) :
    ∀ (f i : Nat) (s : Bytes),
      (Gen.newOriginLoop fuel0 fmt9 p (p.length : Int) f (bufOf cap s) (offOf cap s : Int) (i : Int) = .error .panic
          ∧ cap < (s ++ fmtLines p f i).length) ∨
      ∃ i' : Nat, Gen.newOriginLoop fuel0 fmt9 p (p.length : Int) f (bufOf cap s) (offOf cap s : Int) (i : Int) =
        .ok (bufOf cap (s ++ fmtLines p f i), (offOf cap (s ++ fmtLines p f i) : Int), (i' : Int))
        ∧ (fmtLines p f i = [] ∨ (s ++ fmtLines p f i).length ≤ cap) := by
  intro f
  induction f with
  | zero => intro i s; right; exact ⟨i, by simp [Gen.newOriginLoop, fmtLines], Or.inl rfl⟩
  | succ f ih =>
    intro i s
    simp only [Gen.newOriginLoop, fmtLines]
    by_cases hc : i < p.length
    · rw [if_pos hc, if_pos (show (i : Int) < (p.length : Int) by omega), fmt9_succ, Gen.goCopyAt_bufOf]
      dsimp only
      rw [Gen.offOf_add_sub, fmtGroups_fuel p i 6 fuel0 0 (by omega) (by omega)]
      have hA : ∀ (a b c : Bytes), s ++ (a ++ (b ++ 10 :: c)) = ((s ++ a) ++ b ++ [10]) ++ c := by
        intro a b c; simp
      rcases newOriginLoop2_spec p cap i fuel0 0 (s ++ index9 (i + 1)) with ⟨hg, hlen⟩ | ⟨j', hg⟩
      · left
        rw [show (0 : Int) = ((0 : Nat) : Int) from rfl, hg]
        refine ⟨rfl, ?_⟩
        rw [hA]
        simp only [List.length_append] at hlen ⊢
        omega
      · rw [show (0 : Int) = ((0 : Nat) : Int) from rfl, hg]
        dsimp only
        by_cases hroom : (s ++ index9 (i + 1) ++ fmtGroups p i fuel0 0).length < cap
        · rw [Gen.goStore_bufOf cap _ _ hroom, Gen.offOf_snoc cap _ _ hroom]
          dsimp only
          have e3 : (i : Int) + 60 = ((i + 60 : Nat) : Int) := by omega
          rw [e3, hA]
          rcases ih (i + 60) (s ++ index9 (i + 1) ++ fmtGroups p i fuel0 0 ++ [10]) with ⟨hg2, hlen2⟩ | ⟨i', hg2, hfit⟩
          · left; exact ⟨hg2, hlen2⟩
          · right
            refine ⟨i', hg2, Or.inr ?_⟩
            rcases hfit with hnil | hle
            · rw [hnil, List.append_nil]
              simp only [List.length_append, List.length_cons, List.length_nil] at hroom ⊢
              omega
            · exact hle
        · left
          rw [Gen.goStore_bufOf_full cap _ _ (by omega)]
          refine ⟨rfl, ?_⟩
          rw [hA]
          simp only [List.length_append, List.length_cons, List.length_nil] at hroom ⊢
          omega
    · rw [if_neg hc, if_neg (show ¬ (i : Int) < (p.length : Int) by omega)]
      right; exact ⟨i, by simp, Or.inl rfl⟩

/-- **`NewOrigin(p)`, as written in origin.go**, with `fmt.Sprintf("%9d", ·)` read as the model's
`index9`, run with any fuel that covers the trip counts, returns the model's `newOrigin p` as the
unparsed buffer — or panics exactly where the model says it does (a line index wider than nine
columns: the stream outgrows `make([]byte, toOriginLength(len(p)))` and a single-byte store hits
the end).  Every byte string. -/
theorem newOrigin_eq (fuel : Nat) (p : Bytes) (h6 : 6 ≤ fuel) (hl : p.length ≤ 60 * fuel) :
    Gen.newOrigin fuel fmt9 p =
      match Origin.newOrigin p with
      | .error e => .error e
      | .ok b => .ok (b, false) := by
  simp only [Gen.newOrigin, Origin.newOrigin, toOriginLength_eq, Origin.toOriginLength_nat]
  rw [Gen.goMake_nat]
  dsimp only
  have hge := Origin.originStream_length_ge p
  have hspec := newOriginLoop_spec p (tl p.length) fuel h6 fuel 0 []
  rw [Gen.bufOf_nil, Gen.offOf_nil, List.nil_append, fmtLines_fuel p fuel p.length 0 (by omega) (by omega)] at hspec
  change _ ∨ ∃ i', _ = Except.ok (bufOf (tl p.length) (originStream p), _, _) ∧ (originStream p = [] ∨ (originStream p).length ≤ _) at hspec
  rw [show (0 : Int) = ((0 : Nat) : Int) from rfl]
  rcases hspec with ⟨hg, hlen⟩ | ⟨i', hg, hfit⟩
  · have hlen' : tl p.length < (originStream p).length := hlen
    rw [hg, if_neg (by omega)]
  · have hlen : (originStream p).length = tl p.length := by
      rcases hfit with hnil | hle
      · rw [hnil] at hge ⊢; simp only [List.length_nil] at hge ⊢; omega
      · omega
    rw [hg, if_pos (by rw [hlen]), Gen.bufOf_of_length_eq _ _ hlen]

/-- **`Origin{p, parsed}.String()`, as written in origin.go**, is the model's `originString` -/
theorem originString_eq (fuel : Nat) (p : Bytes) (parsed : Bool) (h6 : 6 ≤ fuel) (hl : p.length ≤ 60 * fuel) :
    Gen.originString fuel fmt9 p parsed = Origin.originString p parsed := by
  simp only [Gen.originString, Origin.originString]
  cases parsed with
  | false => simp
  | true =>
    simp only [newOrigin_eq fuel p h6 hl]
    cases Origin.newOrigin p <;> simp

/-- a concrete 13-residue sequence through the generated code: the block, the decoding (with the
receiver left parsed), the short-buffer case, the lengths -/
example :
    Gen.newOrigin 6 fmt9 [97,99,103,116,97,99,103,116,97,99,103,116,110] =
      .ok ([32,32,32,32,32,32,32,32,49,32,97,99,103,116,97,99,103,116,97,99,32,103,116,110,10], false)
    ∧ Gen.originBytes 6 [32,32,32,32,32,32,32,32,49,32,97,99,103,116,97,99,103,116,97,99,32,103,116,110,10] false =
      .ok ([97,99,103,116,97,99,103,116,97,99,103,116,110], [97,99,103,116,97,99,103,116,97,99,103,116,110], true)
    ∧ Gen.originBytes 6 [32,32,32,32,32,32,32,32,49,32,97] false = .ok ([], [32,32,32,32,32,32,32,32,49,32,97], false)
    ∧ Gen.originLen [32,32,32,32,32,32,32,32,49,32,97,99,103,116,97,99,103,116,97,99,32,103,116,110,10] false = .ok 13
    ∧ Gen.originLen [] false = .ok 0 := by
  decide

example : (6 : Nat) ≤ 6 ∧ [97,99,103,116,97,99,103,116,97,99,103,116,110].length ≤ 60 * 6 := by decide

end Gts.Bridge
