/-
  Bridge: the per-record step of `gts repair`, regenerated from cmd/gts/repair.go by go2lean (Gts/Gen/CmdRepair.lean,
  generator go2lean/cmdsteps.go): `ff := seq.Features(); ff = gts.Repair(ff); seq = gts.WithFeatures(seq, ff)` — the
  library `Repair` on the WHOLE table of the record, once, and nothing else; residues kept.
-/
import Gts.Gen.CmdRepair
namespace Gts.Bridge
open Gts

/-- **`gts repair`, one record**: the scan-loop body of repair.go writes the record with `Repair` of its table
(`none` exactly when the model's `Repair` does not answer a table) -/
theorem repairStep_eq (seq : Seq) : Gen.repairStep seq = (Cli.repairStep seq).map fun s => [s] := by
  simp only [Gen.repairStep, Cli.repairStep]
  cases h : Cli.repairTable seq.feats <;> simp

/-- whenever the model's `Repair` answers a table the step writes exactly that table -/
theorem repairStep_ok (seq : Seq) (t : Table) (h : repair seq.feats = .ok t) :
    Gen.repairStep seq = some [⟨t, seq.bytes⟩] := by
  rw [repairStep_eq]
  simp [Cli.repairStep, Cli.repairTable, h, Cli.withFeats]

theorem repairStepFacts_eq : Gen.repairStepFacts = ["write", "flush"] := rfl

end Gts.Bridge
