/-
  Bridge: `LocationWithin` / `LocationOverlap` regenerated from location.go by go2lean
  (Gts/Gen/LocPred.lean, with the four `span` methods of Gts/Gen/Arith.lean) are the model's
  `Loc.within` / `Loc.overlap` — for every location (structural induction).  These predicates
  decide which features Erase drops and Slice keeps (C03, C10) and are the `Within` / `Overlap`
  feature filters of C19.
-/
import Gts.Gen.LocPred
import Gts.Bridge.Arith
namespace Gts.Bridge
open Gts

mutual
theorem within_eq : ∀ (l : Loc) (lo hi : Int), Gen.locationWithin l lo hi = Loc.within l lo hi
  | .between p, lo, hi => by
      simp [Gen.locationWithin, Loc.within, Gen.betweenSpan, rangeWithin_eq]
  | .point p, lo, hi => by
      simp [Gen.locationWithin, Loc.within, Gen.pointSpan, rangeWithin_eq]
  | .ranged s e a b, lo, hi => by
      simp [Gen.locationWithin, Loc.within, Gen.rangedSpan, rangeWithin_eq]
  | .ambiguous s e, lo, hi => by
      simp [Gen.locationWithin, Loc.within, Gen.ambiguousSpan, rangeWithin_eq]
  | .joined ls, lo, hi => by simp [Gen.locationWithin, Loc.within, withinList_eq ls lo hi]
  | .ordered ls, lo, hi => by simp [Gen.locationWithin, Loc.within, withinList_eq ls lo hi]
  | .compl l, lo, hi => by simp [Gen.locationWithin, Loc.within, within_eq l lo hi]
theorem withinList_eq : ∀ (ls : List Loc) (lo hi : Int),
    Gen.locationWithinList ls lo hi = Loc.withinAll ls lo hi
  | [], _, _ => by simp [Gen.locationWithinList, Loc.withinAll]
  | l :: ls, lo, hi => by
      simp only [Gen.locationWithinList, Loc.withinAll, within_eq l lo hi, withinList_eq ls lo hi]
      cases Loc.within l lo hi <;> simp
end

mutual
theorem overlap_eq : ∀ (l : Loc) (lo hi : Int), Gen.locationOverlap l lo hi = Loc.overlap l lo hi
  | .between p, lo, hi => by
      simp [Gen.locationOverlap, Loc.overlap, Gen.betweenSpan, rangeOverlap_eq]
  | .point p, lo, hi => by
      simp [Gen.locationOverlap, Loc.overlap, Gen.pointSpan, rangeOverlap_eq]
  | .ranged s e a b, lo, hi => by
      simp [Gen.locationOverlap, Loc.overlap, Gen.rangedSpan, rangeOverlap_eq]
  | .ambiguous s e, lo, hi => by
      simp [Gen.locationOverlap, Loc.overlap, Gen.ambiguousSpan, rangeOverlap_eq]
  | .joined ls, lo, hi => by simp [Gen.locationOverlap, Loc.overlap, overlapList_eq ls lo hi]
  | .ordered ls, lo, hi => by simp [Gen.locationOverlap, Loc.overlap, overlapList_eq ls lo hi]
  | .compl l, lo, hi => by simp [Gen.locationOverlap, Loc.overlap, overlap_eq l lo hi]
theorem overlapList_eq : ∀ (ls : List Loc) (lo hi : Int),
    Gen.locationOverlapList ls lo hi = Loc.overlapAny ls lo hi
  | [], _, _ => by simp [Gen.locationOverlapList, Loc.overlapAny]
  | l :: ls, lo, hi => by
      simp only [Gen.locationOverlapList, Loc.overlapAny, overlap_eq l lo hi, overlapList_eq ls lo hi]
      cases Loc.overlap l lo hi <;> simp
end

/-- the four `span` methods are the model's `span?` -/
theorem span_eq (l : Loc) :
    Loc.span? l = match l with
      | .between p => some (Gen.betweenSpan p)
      | .point p => some (Gen.pointSpan p)
      | .ranged s e a b => some (Gen.rangedSpan s e a b)
      | .ambiguous s e => some (Gen.ambiguousSpan s e)
      | _ => none := by
  cases l <;> rfl

end Gts.Bridge
