/-
  C17 bridge (DESIGN.md 4.1a): `pars.Until(q)` for a PARSER argument — the `default:` case of `Until` in convenience.go of
  go-pars v1.1.6, regenerated statement by statement on every run (`Gts/Gen/Pars.lean` `parsUntil`, generator go2lean/gparsfn.go
  key `Until/func0`) — is the model's reading `Fasta.untilP` (Gts/Model/Fasta.lean), in the bounded form of Gts/Bridge/ParsComb.lean:

    until_loopUpTo       the loop `for p(state, result) != nil { Drop; Skip(1) (end of input: Pop, error); Push }` followed by
                         `Pop`, `Trail`, `SetToken` = `untilLoop m` followed by `untilTail` (invariant: abstraction + the bound `Fr L [] 0`;
                         measure: the bytes left)
    until_simUpTo        `parsUntil env fuel q` simulates `untilP m` up to every `L < fuel`, for every `q` that simulates `m` up to `L`,
                         `m` `Safe` and not moving the position backwards when it fails (else the Go loop need not terminate; the
                         model's fuel `bytes left + 1` is then enough, so its `| 0 => fail` is never reached)
    fastaUntil_simUpTo   the instance of seqio/fasta.go: `pars.Until(pars.Any('>', pars.End))` over the regenerated `Any`, `Byte`, `End`
                         = `untilP (anyOf [gt, endP])` (`gt_eq_byte`, `endP_eq_atEnd`: the two primitives of Model/Fasta.lean are
                         the ones of the modifier model the primitives' bridges speak about)

    fastaSeq_simUpTo     the whole sequence of `FastaParser`, `pars.Seq('>', pars.Line, pars.Until(pars.Any('>', pars.End)))`, composed of
                         the regenerated `Seq`, `Byte`, `Line`, `Until`, `Any`, `End` = the model's `fastaSeq` (`fastaSeq_eq_seq3`: it is
                         the generic `seq3` of the modifier model); the children it leaves are the tokens the regenerated Map function
                         reads (Gts/Bridge/FastaRead.lean).  The `Parser.Map` frame around it is not instantiated (its mapping stores
                         an `interface{}`).

  A Go panic (a `Trail` whose saved position lies behind the current one, a panic of `q`) exactly when the model panics.
-/
import Gts.Bridge.ParsSeq
import Gts.Model.Fasta
import Gts.Lemmas.Fasta
import Gts.Lemmas.ParsSafe2
namespace Gts.Bridge
open Gts.Gen.GoPars
open Gts.Pars (PS Bytes Err)

section Until
variable {ρ ε : Type}

/-- what follows the scanning loop in `pars.Until(q)`: `Pop` back to where `q` matched, the `Trail` as token -/
def untilTail : Pars.P Bytes := do
  Pars.pop
  if !(← Pars.pushed) then Pars.fail
  Pars.trail

/-- the model's `untilP` is two `Push`es, the loop with as much fuel as bytes are left + 1, and `untilTail` -/
theorem untilP_run (m : Pars.P Unit) (s : PS) :
    (Fasta.untilP m).run' s =
      (Fasta.untilLoop m (s.rest.length + 1) >>= fun _ => untilTail).run' ⟨s.rest, s.rest :: s.rest :: s.stk⟩ := by
  rfl

theorem untilTail_run (s : PS) :
    untilTail.run' s =
      if (Pars.pop.run' s).2.stk.isEmpty then (.error .fail, (Pars.pop.run' s).2) else Pars.trail.run' (Pars.pop.run' s).2 := by
  have hpop : (Pars.pop.run' s).1 = .ok () := by rw [Pars.run_pop]; cases s.stk <;> rfl
  unfold untilTail
  rw [Pars.run_bind]
  generalize Pars.pop.run' s = r at hpop
  obtain ⟨o, s1⟩ := r
  simp only at hpop
  subst hpop
  dsimp only
  rw [Pars.run_bind]
  have hpu : Pars.pushed.run' s1 = (.ok (!s1.stk.isEmpty), s1) := rfl
  rw [hpu]
  dsimp only
  cases s1.stk.isEmpty
  · rfl
  · rfl

/-- one round of the model's scanning loop, as a function of what the inner parser does -/
theorem untilLoop_succ_run (m : Pars.P Unit) (fuel : Nat) (k : Unit → Pars.P Bytes) (s : PS) :
    (Fasta.untilLoop m (fuel + 1) >>= k).run' s = match m.run' s with
      | (.ok _, s') => (k ()).run' s'
      | (.error .fail, s') =>
        (match s'.rest with
         | [] => (.error .fail, (Pars.pop.run' ⟨s'.rest, s'.stk.drop 1⟩).2)
         | _ :: t => (Fasta.untilLoop m fuel >>= k).run' ⟨t, t :: s'.stk.drop 1⟩)
      | (.error .panic, s') => (.error .panic, s') := by
  rw [Pars.run_bind, Fasta.untilLoop, Pars.run_bind, Pars.run_attempt]
  generalize m.run' s = r
  obtain ⟨o, s'⟩ := r
  cases o with
  | ok a => rfl
  | error e =>
    cases e with
    | panic => rfl
    | fail =>
      dsimp only
      rw [Pars.run_bind, Pars.run_drop]
      dsimp only
      rw [Pars.run_bind, Pars.run_getS]
      dsimp only
      cases hr : s'.rest with
      | nil =>
        dsimp only
        rw [Pars.run_bind]
        have hpop : (Pars.pop.run' ⟨[], s'.stk.drop 1⟩).1 = .ok () := by
          rw [Pars.run_pop]; cases (s'.stk.drop 1) <;> rfl
        generalize Pars.pop.run' ⟨[], s'.stk.drop 1⟩ = q at hpop
        obtain ⟨o2, s2⟩ := q
        simp only at hpop
        subst hpop
        rfl
      | cons c t =>
        dsimp only
        rw [Pars.run_bind, Pars.run_advance1]
        dsimp only
        rw [Pars.run_bind, Pars.run_push]
        dsimp only
        rw [Pars.run_bind]
        simp only [List.drop_one, List.tail_cons]

/-- behind the loop: `state.Pop()`, `Trail`, `result.SetToken` = `untilTail` (an empty stack: `Trail` answers an error, the
model fails; a saved position behind the current one: both panic) -/
theorem until_exit (env : Env ρ ε) (pend : ρ → Option ε → Bytes) (hf : FillOk env pend) (fuel0 : Nat) (p : GoParser ρ ε)
    (g : State ρ ε) (res : ResultV) (h : Inv g) :
    Agree pend (fun t r => r = ResultV.token t) (parsUntil_exit1 env fuel0 p (g, res))
      (untilTail.run' (absState pend g)) := by
  obtain ⟨g1, hpo, hinv1, habs1⟩ := pop_sim pend g h
  rw [untilTail_run, habs1]
  dsimp only
  have ht := trail_sim env pend hf g1 hinv1
  cases hemp : (absState pend g1).stk.isEmpty with
  | true =>
    simp only [if_true]
    have hnil : (absState pend g1).stk = [] := List.isEmpty_iff.mp hemp
    have htr : Pars.trail.run' (absState pend g1) = (.ok [], absState pend g1) := by
      rw [Pars.run_trail, hnil]
    rw [htr] at ht
    obtain ⟨g', e, h1, h2, h3, h4⟩ := ht
    rw [hemp] at h4
    obtain ⟨e', rfl⟩ := Option.isSome_iff_exists.mp h4
    exact ⟨g', res, env.mkErr, by simp [parsUntil_exit1, hpo, h1], h2, h3⟩
  | false =>
    simp only [Bool.false_eq_true, if_false]
    generalize Pars.trail.run' (absState pend g1) = r at ht
    obtain ⟨o, s'⟩ := r
    cases o with
    | ok t =>
      obtain ⟨g', e, h1, h2, h3, h4⟩ := ht
      rw [hemp] at h4
      have he : e = none := by cases e <;> simp_all
      subst he
      exact ⟨g', _, by simp [parsUntil_exit1, hpo, h1], rfl, h2, h3⟩
    | error e =>
      cases e with
      | fail => exact ht.elim
      | panic =>
        show parsUntil_exit1 env fuel0 p (g, res) = none
        simp [parsUntil_exit1, hpo, ht]

/-- `Drop` keeps the bound -/
theorem fr_drop {L : Nat} {s : PS} (h : Pars.Fr L [] 0 s) : Pars.Fr L [] 0 ⟨s.rest, s.stk.drop 1⟩ := by
  obtain ⟨e, h1, _, h3⟩ := h.ex
  refine ⟨⟨s.stk.drop 1, by simp, Nat.zero_le _, ?_⟩, h.le, ?_⟩
  · intro f hf
    apply h3 f
    have : f ∈ s.stk := List.mem_of_mem_drop hf
    rw [h1] at this
    simpa using this
  · have hs := h.srt
    show Pars.Sorted s.rest.length (s.stk.drop 1)
    cases hst : s.stk with
    | nil => trivial
    | cons f st =>
      rw [hst] at hs
      exact hs.2.mono hs.1

/-- **The scanning loop of `pars.Until(q)`, BOUNDED.**  `q` simulates the model parser `m` up to `L`, `m` is `Safe` and does
not move the position backwards when it fails; with more fuel than bytes left on both sides, the regenerated loop
`for p(state, result) != nil { Drop; Skip 1 (end of input: Pop, error); Push }` followed by `Pop`, `Trail`, `SetToken` is the
model's `untilLoop m` followed by `untilTail`.  Invariant: the Go state abstracts to the model state, at most `L` bytes at the
position and at every saved position; measure: the bytes left (each round consumes one). -/
theorem until_loopUpTo (L : Nat) (env : Env ρ ε) (pend : ρ → Option ε → Bytes) (hf : FillOk env pend)
    (val : Unit → ResultV → Prop) (p : GoParser ρ ε) (m : Pars.P Unit) (hp : SimPUpTo L pend val p m) (hs : Pars.Safe m)
    (hle : ∀ s, (m.run' s).1 = .error .fail → (m.run' s).2.rest.length ≤ s.rest.length) (fuel0 : Nat) :
    ∀ (fuelM fuelG : Nat) (g : State ρ ε) (res : ResultV), Inv g → Pars.Fr L [] 0 (absState pend g) →
      (absState pend g).rest.length < fuelM → (absState pend g).rest.length < fuelG →
      Agree pend (fun t r => r = ResultV.token t)
        (loop (parsUntil_body1 env fuel0 p) (parsUntil_exit1 env fuel0 p) fuelG (g, res))
        ((Fasta.untilLoop m fuelM >>= fun _ => untilTail).run' (absState pend g)) := by
  intro fuelM
  induction fuelM with
  | zero => intro fuelG g res _ _ h0; exact absurd h0 (Nat.not_lt_zero _)
  | succ fm ih =>
    intro fuelG g res h hb hlm hlg
    cases fuelG with
    | zero => exact absurd hlg (Nat.not_lt_zero _)
    | succ fg =>
      have h1 := hp g res h hb
      have hk := fr_keeps hs hb
      have hl := hle (absState pend g)
      rw [untilLoop_succ_run]
      generalize m.run' (absState pend g) = r at h1 hk hl
      obtain ⟨o, s'⟩ := r
      cases o with
      | ok a =>
        obtain ⟨g2, res2, hp2, hv, hinv2, habs2⟩ := h1
        have hex := until_exit env pend hf fuel0 p g2 res2 hinv2
        rw [habs2] at hex
        have hstep : loop (parsUntil_body1 env fuel0 p) (parsUntil_exit1 env fuel0 p) (fg + 1) (g, res) =
            parsUntil_exit1 env fuel0 p (g2, res2) := by
          simp [loop, parsUntil_body1, hp2]
        rw [hstep]
        exact hex
      | error e =>
        cases e with
        | panic =>
          have : p g res = none := h1
          show loop _ _ (fg + 1) (g, res) = none
          simp [loop, parsUntil_body1, this]
        | fail =>
          obtain ⟨g2, res2, e2, hp2, hinv2, habs2⟩ := h1
          have hl' : s'.rest.length ≤ (absState pend g).rest.length := hl rfl
          simp only at hk
          obtain ⟨g3, hd, hinv3, habs3⟩ := stateDrop_spec pend g2 hinv2
          rw [habs2] at habs3
          have hsk := parsSkip_spec env pend hf g3 hinv3 1
          rw [habs3] at hsk
          dsimp only at hsk ⊢
          cases hr : s'.rest with
          | nil =>
            rw [hr] at hsk
            simp only [List.length_nil] at hsk
            obtain ⟨g4, e4, hs4, hinv4, habs4⟩ := hsk
            have hs4 : parsSkip env g3 1 = some (g4, some e4) := hs4
            obtain ⟨g5, hpo, hinv5, habs5⟩ := pop_sim pend g4 hinv4
            rw [habs4] at habs5
            dsimp only
            refine ⟨g5, res2, env.mkErr, ?_, hinv5, ?_⟩
            · simp [loop, parsUntil_body1, hp2, hd, hs4, hpo]
            · rw [habs5]
          | cons c t =>
            rw [hr] at hsk
            simp only [List.length_cons, Nat.le_add_left, if_true, List.drop_succ_cons, List.drop_zero] at hsk
            obtain ⟨g4, hs4, hinv4, habs4⟩ := hsk
            have hs4 : parsSkip env g3 1 = some (g4, none) := hs4
            obtain ⟨g5, hpu, hinv5, habs5, _⟩ := statePush_spec pend g4 hinv4
            rw [habs4] at habs5
            dsimp only at habs5 ⊢
            have hb5 : Pars.Fr L [] 0 (absState pend g5) := by
              rw [habs5]
              have h1 := fr_drop hk
              have h2 := Pars.Fr.advance h1 t (by simp [hr])
              exact fr_push h2
            have hlen : t.length < s'.rest.length := by rw [hr]; simp
            have := ih fg g5 res2 hinv5 hb5 (by rw [habs5]; dsimp only; omega) (by rw [habs5]; dsimp only; omega)
            rw [habs5] at this
            have hstep : loop (parsUntil_body1 env fuel0 p) (parsUntil_exit1 env fuel0 p) (fg + 1) (g, res) =
                loop (parsUntil_body1 env fuel0 p) (parsUntil_exit1 env fuel0 p) fg (g5, res2) := by
              simp [loop, parsUntil_body1, hp2, hd, hs4, hpu]
            rw [hstep]
            exact this

/-- **`pars.Until(q)` for a parser argument = the model's `Fasta.untilP`, BOUNDED.**  The regenerated default case of `Until`
(`Push`, `Push`, the scanning loop, `Pop`, `Trail`, `SetToken`) with loop fuel above the bound `L` simulates `untilP m` from
every state with at most `L` bytes at the position and at every saved position — for every Go parser `q` that simulates the
model parser `m` up to `L`, `m` `Safe` and not moving backwards on a failure.  A Go panic exactly when the model panics. -/
theorem until_simUpTo (L fuel : Nat) (hfu : L < fuel) (env : Env ρ ε) (pend : ρ → Option ε → Bytes) (hf : FillOk env pend)
    (val : Unit → ResultV → Prop) (p : GoParser ρ ε) (m : Pars.P Unit) (hp : SimPUpTo L pend val p m) (hs : Pars.Safe m)
    (hle : ∀ s, (m.run' s).1 = .error .fail → (m.run' s).2.rest.length ≤ s.rest.length) :
    SimPUpTo L pend (fun t r => r = ResultV.token t) (parsUntil env fuel p) (Fasta.untilP m) := by
  intro g res h hb
  obtain ⟨g1, hpu1, hinv1, habs1, _⟩ := statePush_spec pend g h
  obtain ⟨g2, hpu2, hinv2, habs2, _⟩ := statePush_spec pend g1 hinv1
  rw [habs1] at habs2
  dsimp only at habs2
  have hb2 : Pars.Fr L [] 0 (absState pend g2) := by rw [habs2]; exact fr_push (fr_push hb)
  have hlen : (absState pend g).rest.length ≤ L := hb.le
  have := until_loopUpTo L env pend hf val p m hp hs hle fuel ((absState pend g).rest.length + 1) fuel g2 res hinv2 hb2
    (by rw [habs2]; exact Nat.lt_succ_self _) (by rw [habs2]; dsimp only; omega)
  rw [untilP_run, ← habs2]
  simpa [parsUntil, hpu1, hpu2] using this

/-! ### the instance of seqio/fasta.go: `pars.Until(pars.Any('>', pars.End))` -/

/-- the model's `'>'` of Model/Fasta.lean is `pars.Byte('>')` of the modifier model -/
theorem gt_eq_byte : Fasta.gt = ModParse.byte 62 := by
  funext s
  obtain ⟨t, stk⟩ := s
  rw [Fasta.gt_run]
  show _ = (ModParse.byte 62).run' ⟨t, stk⟩
  unfold ModParse.byte
  rw [Pars.run_bind, Pars.run_next]
  cases t with
  | nil => rfl
  | cons c r =>
    dsimp only
    by_cases h : c = 62
    · subst h; rfl
    · have h1 : (c == 62) = false := by simpa using h
      have h2 : (c != 62) = true := by simp [bne, h1]
      simp only [h1, h2, if_true, Bool.false_eq_true, if_false]
      rfl

/-- the model's `pars.End` of Model/Fasta.lean is the one of the modifier model -/
theorem endP_eq_atEnd : Fasta.endP = ModParse.atEnd := by
  funext s
  obtain ⟨t, stk⟩ := s
  rw [Fasta.endP_run]
  cases t <;> rfl

/-- **`pars.Until(pars.Any('>', pars.End))` of `FastaParser`, BOUNDED.**  The regenerated `Until` over the regenerated `Any` over
the regenerated `Byte('>')` and `End` simulates the body parser of the model's `fastaSeq`, `untilP (anyOf [gt, endP])`, from
every state with at most `L < fuel` bytes at the position and at every saved position. -/
theorem fastaUntil_simUpTo (L fuel : Nat) (hfu : L < fuel) (env : Env ρ ε) (pend : ρ → Option ε → Bytes) (hf : FillOk env pend) :
    SimPUpTo L pend (fun t r => r = ResultV.token t)
      (parsUntil env fuel (parsAny env [parsByte env 62, fun g r => some (parsEnd env g r)]))
      (Fasta.untilP (LocParse.anyOf [Fasta.gt, Fasta.endP])) := by
  rw [gt_eq_byte, endP_eq_atEnd]
  have hb : SimPUpTo L pend (fun (_ : Unit) (_ : ResultV) => True) (parsByte env 62) (ModParse.byte 62) :=
    (byte_simUpTo L env pend hf 62).mono (fun _ _ _ => trivial)
  have he : SimPUpTo L pend (fun (_ : Unit) (_ : ResultV) => True) (fun g r => some (parsEnd env g r)) ModParse.atEnd := by
    intro g res h _
    have := end_sim env pend hf g h res
    revert this
    generalize ModParse.atEnd.run' (absState pend g) = x
    obtain ⟨o, s⟩ := x
    cases o with
    | ok a => exact fun ⟨g', r, h1, _, h3, h4⟩ => ⟨g', r, h1, trivial, h3, h4⟩
    | error e => cases e <;> exact id
  have hany := any_simUpTo L env pend (fun (_ : Unit) (_ : ResultV) => True)
    [parsByte env 62, fun g r => some (parsEnd env g r)] [ModParse.byte 62, ModParse.atEnd]
    (.cons ⟨hb, Pars.byte_safe 62⟩ (.cons ⟨he, Pars.atEnd_safe⟩ .nil))
  refine until_simUpTo L fuel hfu env pend hf _ _ _ hany
    (Pars.anyOf_safe _ (by intro p hp; simp at hp; rcases hp with rfl | rfl; exact Pars.byte_safe 62; exact Pars.atEnd_safe)) ?_
  intro s hfail
  rw [← gt_eq_byte, ← endP_eq_atEnd] at hfail ⊢
  obtain ⟨t, stk⟩ := s
  have hr : (LocParse.anyOf [Fasta.gt, Fasta.endP]).run' ⟨t, stk⟩ = _ := Fasta.any_run t stk
  rw [hr] at hfail ⊢
  cases t with
  | nil => simp at hfail
  | cons c r =>
    by_cases h : (c == 62) = true
    · simp [h] at hfail
    · simp [h]

/-! ### the sequence of `FastaParser`: `pars.Seq('>', pars.Line, pars.Until(pars.Any('>', pars.End)))` -/

/-- the value of a simulated model parser may be mapped on the model side -/
theorem SimPUpTo.mapVal {α β : Type} {L : Nat} {pend : ρ → Option ε → Bytes} {val : α → ResultV → Prop}
    {p : GoParser ρ ε} {m : Pars.P α} (h : SimPUpTo L pend val p m) (f : α → β) :
    SimPUpTo L pend (fun b r => ∃ a, b = f a ∧ val a r) p (do let a ← m; pure (f a)) := by
  intro g res hi hb
  have := h g res hi hb
  rw [Pars.run_bind]
  revert this
  generalize m.run' (absState pend g) = x
  obtain ⟨o, s⟩ := x
  cases o with
  | ok a => exact fun ⟨g', r, h1, h2, h3, h4⟩ => ⟨g', r, h1, ⟨a, rfl, h2⟩, h3, h4⟩
  | error e => cases e <;> exact id

/-- the model's `fastaSeq` (Model/Fasta.lean, written out with its own `Push` / `Pop` / `Drop`) is the generic sequence of three of
the modifier model over `'>'`, `pars.Line`, `pars.Until(pars.Any('>', pars.End))`, without the answer of `'>'` (`pars.Line` never
fails, so its `Pop` branch is dead) -/
theorem fastaSeq_eq_seq3 :
    Fasta.fastaSeq = (do
      let abc ← ModParse.seq3 Fasta.gt Pars.line (Fasta.untilP (LocParse.anyOf [Fasta.gt, Fasta.endP]))
      pure (abc.2.1, abc.2.2)) := by
  funext s
  obtain ⟨t, stk⟩ := s
  rw [Fasta.fastaSeq_run]
  unfold ModParse.seq3
  cases t with
  | nil => simp [Fasta.bind_run, Fasta.attempt_run, Fasta.gt_run]
  | cons c t' =>
    by_cases hc : c == 62 <;>
      simp [Fasta.bind_run, Fasta.map_run, Fasta.attempt_run, Fasta.gt_run, hc, Fasta.line_run, Fasta.untilP_run]

/-- **The sequence of `FastaParser` at function level, BOUNDED.**  The regenerated `pars.Seq` over the regenerated `Byte('>')`, `Line`
and `Until(Any(Byte('>'), End))` — the composition `fastaParser_shape` reads off the declaration — simulates the model's `fastaSeq`
from every state with at most `L < fuel` bytes at the position and at every saved position: on success the result holds three
children, the second the token of the description line, the third the token of the body — the two tokens the regenerated Map
function `Gen.FastaRead.fastaMap` reads (`fastaMap_seq`: it stores `(description, fastaBody body)`). -/
theorem fastaSeq_simUpTo (L fuel : Nat) (hfu : L < fuel) (env : Env ρ ε) (pend : ρ → Option ε → Bytes) (hf : FillOk env pend)
    (he : EnvOk env) :
    SimPUpTo L pend (fun db r => ∃ ra, r = .children [ra, .token db.1, .token db.2])
      (parsSeq env [parsByte env 62, parsLine env fuel,
        parsUntil env fuel (parsAny env [parsByte env 62, fun g r => some (parsEnd env g r)])])
      Fasta.fastaSeq := by
  rw [fastaSeq_eq_seq3]
  have hgt : Pars.Safe Fasta.gt := by rw [gt_eq_byte]; exact Pars.byte_safe 62
  have hb : SimPUpTo L pend (fun (_ : Unit) (_ : ResultV) => True) (parsByte env 62) Fasta.gt := by
    rw [gt_eq_byte]; exact (byte_simUpTo L env pend hf 62).mono (fun _ _ _ => trivial)
  have hline := (tokens_simUpTo L env pend hf he fuel hfu (fun _ => true) 0).2.2.1
  have h3 := seq3_simUpTo L env pend _ _ _ _ _ _ _ _ _ hb hgt hline Pars.line_safe (fastaUntil_simUpTo L fuel hfu env pend hf)
  refine (h3.mapVal (fun abc => (abc.2.1, abc.2.2))).mono ?_
  rintro ⟨d, b⟩ r ⟨⟨a, d', b'⟩, hab, ra, rb, rc, hr, _, hrb, hrc⟩
  simp only [Prod.mk.injEq] at hab
  obtain ⟨rfl, rfl⟩ := hab
  subst hrb hrc
  exact ⟨ra, hr⟩

/-- the hypotheses are satisfiable: the demonstration environment (a reader that hands over its bytes at once) -/
example : SimPUpTo 100 demoPend (fun t r => r = ResultV.token t)
    (parsUntil demoEnv 101 (parsAny demoEnv [parsByte demoEnv 62, fun g r => some (parsEnd demoEnv g r)]))
    (Fasta.untilP (LocParse.anyOf [Fasta.gt, Fasta.endP])) :=
  fastaUntil_simUpTo 100 101 (by omega) demoEnv demoPend demo_fillOk

example : SimPUpTo 100 demoPend (fun db r => ∃ ra, r = .children [ra, .token db.1, .token db.2])
    (parsSeq demoEnv [parsByte demoEnv 62, parsLine demoEnv 101,
      parsUntil demoEnv 101 (parsAny demoEnv [parsByte demoEnv 62, fun g r => some (parsEnd demoEnv g r)])])
    Fasta.fastaSeq :=
  fastaSeq_simUpTo 100 101 (by omega) demoEnv demoPend demo_fillOk demo_envOk

end Until
end Gts.Bridge
