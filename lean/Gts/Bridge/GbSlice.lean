/-
  Bridge: the regenerated `GenBankFields.Slice` of seqio/genbank.go (`Gts/Gen/GbSlice.lean`, go2lean
  gwriter*.go) IS the model's reference clipping `Gts.sliceRefs` of `Gts/Model/GbSlice.lean` (properties
  C03 / C01): for EVERY value of the Go struct and every window the function never panics, sets
  `Region = Segment{start, end}`, keeps every other field, and its references are `sliceRefsFull` — the
  references whose info is unparsable (kept verbatim) or has a range overlapping the window (info re-written
  with the overlapping ranges clipped and re-based), every other field of a kept reference untouched,
  numbered 1..m (`genBankFieldsSlice_eq`); projected on (number, info) that list is the model's `sliceRefs`
  (`sliceRefsFull_model`).

  Parameters of the generated text and their instances: `parseReferenceInfo(prefix).Parse(FromString(info))`
  behind the closure `tryParse` = the model's `parseRefInfo` (hand-modelled from seqio/reference.go), its
  ranges as `gts.Ranged{s, e, Complete}`; `gts.LocationOverlap(loc, start, end)` on a `gts.Ranged` = the model's
  `Loc.overlap` on that range (regenerated and bridged on its own: `Gts/Bridge/LocPred.lean`); `%d` =
  `intBytes`.  `make`, `ss[i] = …`, `refs[i].Number = …`, `strings.Join` are the fixed readings of
  `Gts/Gen/GoStrings.lean`; `gts.Max`, `gts.Min`, `Molecule.Counter` are regenerated here.
-/
import Gts.Gen.GbSlice
import Gts.Model.GbSlice
namespace Gts.Bridge
open Gts.Pars Gts.Gen.GoStrings
open Gts.Gen.GbFields (GenBankFields Reference)
open Gts.Gen.GbSlice

/-! ### the parameters -/

/-- a parsed range of the model as the `gts.Ranged` the Go parser builds (`gts.Range(start, end)`) -/
def goRanged (r : Int × Int) : Ranged := { Start := r.1, End := r.2, Partial := { Partial5 := false, Partial3 := false } }

/-- `parseReferenceInfo(prefix).Parse(pars.FromString(info))` through `tryParse` -/
def parseInfoModel (pref info : Bytes) : Option (List Ranged) := (parseRefInfo pref info).map (·.map goRanged)

/-- `gts.LocationOverlap` on a `gts.Ranged` -/
def overlapModel (r : Ranged) (lo hi : Int) : Bool :=
  Loc.overlap (.ranged r.Start r.End r.Partial.Partial5 r.Partial.Partial3) lo hi

/-! ### what `Slice` does to the references, with every field -/

/-- `refs[i].Number = i + 1` from `k` on -/
def renumberFrom : Nat → List Reference → List Reference
  | _, [] => []
  | k, r :: rs => { r with Number := (k : Int) + 1 } :: renumberFrom (k + 1) rs

/-- one reference: dropped (`none`), or kept with the new info -/
def sliceRefFull (pref : Bytes) (a b : Int) (r : Reference) : Option Reference :=
  (sliceRefInfo pref a b r.Info).map fun i => { r with Info := i }

/-- the references after `Slice(a, b)` -/
def sliceRefsFull (pref : Bytes) (a b : Int) (refs : List Reference) : List Reference :=
  renumberFrom 0 (refs.filterMap (sliceRefFull pref a b))

/-- the model's view of a reference -/
def toRef (r : Reference) : Ref := { number := r.Number, info := r.Info }

/-! ### small pieces -/

theorem gtsMax_eq (i j : Int) : gtsMax i j = Loc.gmax i j := rfl
theorem gtsMin_eq (i j : Int) : gtsMin i j = Loc.gmin i j := rfl

theorem str_to : str " to " = wsLit " to " := by decide +kernel
theorem str_sep : str "; " = wsLit "; " := by decide +kernel

theorem wsJoin_intersperse (sep : Bytes) (l : List Bytes) : wsJoin sep l = (l.intersperse sep).flatten := by
  induction l with
  | nil => rfl
  | cons x l ih =>
    cases l with
    | nil => simp [wsJoin]
    | cons y r =>
      rw [wsJoin, ih]
      simp [List.intersperse, List.append_assoc]

/-- the first inner loop keeps the overlapping ranges, in order -/
theorem sliceOverlapLoop_eq (a b : Int) (locs olap : List Ranged) :
    genBankFieldsSliceLoop2 overlapModel a b locs olap = olap ++ locs.filter fun r => overlapModel r a b := by
  induction locs generalizing olap with
  | nil => simp [genBankFieldsSliceLoop2]
  | cons r locs ih =>
    simp only [genBankFieldsSliceLoop2, ih, List.filter_cons]
    cases overlapModel r a b <;> simp

/-- the text of one clipped range -/
def fmtOne (a b : Int) (r : Ranged) : Bytes :=
  intBytes (Loc.gmax 0 (r.Start - a) + 1) ++ wsLit " to " ++ intBytes (Loc.gmin (b - a) (r.End - a))

/-- the second inner loop fills the fresh slice `ss`, cell `i` with the text of range `i` (no store is out of
range) -/
theorem sliceFormatLoop_eq (a b : Int) (l : List Ranged) (done : List Bytes) :
    genBankFieldsSliceLoop3 intBytes a b l (done.length : Int) (done ++ List.replicate l.length []) =
      some (done ++ l.map (fmtOne a b)) := by
  induction l generalizing done with
  | nil => simp [genBankFieldsSliceLoop3]
  | cons r l ih =>
    simp only [genBankFieldsSliceLoop3, gtsMax_eq, gtsMin_eq, List.length_cons, List.replicate_succ]
    have hset : ∀ v : Bytes, wsSet (done ++ [] :: List.replicate l.length []) (done.length : Int) v =
        some ((done ++ [v]) ++ List.replicate l.length []) := by
      intro v
      unfold wsSet
      rw [if_pos (by simp; omega)]
      simp
    rw [hset]
    simp only [Option.bind_some]
    have hl : ((done.length : Int) + 1) = (((done ++ [fmtOne a b r]).length : Nat) : Int) := by simp
    rw [show intBytes (Loc.gmax 0 (r.Start - a) + 1) ++ wsLit " to " ++ intBytes (Loc.gmin (b - a) (r.End - a)) =
      fmtOne a b r from rfl, hl, ih]
    simp

theorem filter_goRanged (a b : Int) (locs : List (Int × Int)) :
    (locs.map goRanged).filter (fun r => overlapModel r a b) =
      (locs.filter fun r => Loc.rangeOverlap r.1 r.2 a b).map goRanged := by
  induction locs with
  | nil => rfl
  | cons r locs ih =>
    simp only [List.map_cons, List.filter_cons, ih]
    have : overlapModel (goRanged r) a b = Loc.rangeOverlap r.1 r.2 a b := rfl
    rw [this]
    cases Loc.rangeOverlap r.1 r.2 a b <;> simp

/-- the re-written info: `(prefix r1; r2; …)` -/
theorem sliceInfo_fmt (pref : Bytes) (a b : Int) (olap : List (Int × Int)) :
    wsLit "(" ++ pref ++ wsLit " " ++ wsJoin (wsLit "; ") ((olap.map goRanged).map (fmtOne a b)) ++ wsLit ")" =
      fmtRanges pref (olap.map (clipRange a b)) := by
  unfold fmtRanges
  rw [wsJoin_intersperse, str_sep]
  simp only [List.map_map]
  have : (fmtOne a b ∘ goRanged) = ((fun r => intBytes (r.1 + 1) ++ str " to " ++ intBytes r.2) ∘ clipRange a b) := by
    funext r
    simp [fmtOne, goRanged, clipRange, str_to]
  rw [this]
  simp [wsLit, List.append_assoc]

theorem reference_eta (r : Reference) : { r with Info := r.Info } = r := by cases r; rfl

/-- the loop over the references: each one is dropped or kept as `sliceRefFull` says; nothing panics -/
theorem sliceRefLoop_eq (pref : Bytes) (a b : Int) (refs acc : List Reference) :
    genBankFieldsSliceLoop intBytes overlapModel parseInfoModel a b pref pref refs acc =
      some (acc ++ refs.filterMap (sliceRefFull pref a b)) := by
  induction refs generalizing acc with
  | nil => simp [genBankFieldsSliceLoop]
  | cons r refs ih =>
    simp only [genBankFieldsSliceLoop, List.filterMap_cons]
    cases hp : parseRefInfo pref r.Info with
    | none =>
      have h1 : parseInfoModel pref r.Info = none := by simp [parseInfoModel, hp]
      have h2 : sliceRefFull pref a b r = some r := by simp [sliceRefFull, sliceRefInfo, hp]
      rw [h1, h2]
      simp [ih]
    | some locs =>
      have h1 : parseInfoModel pref r.Info = some (locs.map goRanged) := by simp [parseInfoModel, hp]
      rw [h1]
      simp only [Option.isSome_some, if_true, Option.getD_some, sliceOverlapLoop_eq, List.nil_append, filter_goRanged]
      cases ho : locs.filter (fun r => Loc.rangeOverlap r.1 r.2 a b) with
      | nil =>
        have h2 : sliceRefFull pref a b r = none := by simp [sliceRefFull, sliceRefInfo, hp, ho]
        rw [h2]
        simp [ih]
      | cons o os =>
        have h2 : sliceRefFull pref a b r = some { r with Info := fmtRanges pref ((o :: os).map (clipRange a b)) } := by
          simp [sliceRefFull, sliceRefInfo, hp, ho]
        rw [h2]
        have hlen : (((List.map goRanged (o :: os)).length : Nat) : Int) > 0 := by simp
        rw [if_pos hlen]
        have hmake : wsMake ([] : List UInt8) (((List.map goRanged (o :: os)).length : Nat) : Int) =
            some (([] : List Bytes) ++ List.replicate (List.map goRanged (o :: os)).length []) := by
          unfold wsMake
          rw [if_neg (by omega)]
          simp
        rw [hmake]
        simp only [Option.bind_some]
        have hfill := sliceFormatLoop_eq a b (List.map goRanged (o :: os)) []
        rw [show (([] : List Bytes).length : Int) = 0 from rfl] at hfill
        rw [hfill]
        simp only [Option.bind_some, List.nil_append, sliceInfo_fmt, ih]
        simp

/-- the last loop numbers the kept references 1..m in place (no index is out of range) -/
theorem sliceRenumberLoop_eq (l done todo : List Reference) (h : l.length = todo.length) :
    genBankFieldsSliceLoop4 l (done.length : Int) (done ++ todo) = some (done ++ renumberFrom done.length todo) := by
  induction l generalizing done todo with
  | nil =>
    cases todo with
    | nil => simp [genBankFieldsSliceLoop4, renumberFrom]
    | cons t ts => simp at h
  | cons x l ih =>
    cases todo with
    | nil => simp at h
    | cons t ts =>
      simp only [genBankFieldsSliceLoop4]
      have hidx : wsIdx (done ++ t :: ts) (done.length : Int) = some t := by
        unfold wsIdx
        rw [if_neg (by omega)]
        simp
      have hset : ∀ v : Reference, wsSet (done ++ t :: ts) (done.length : Int) v = some ((done ++ [v]) ++ ts) := by
        intro v
        unfold wsSet
        rw [if_pos (by simp; omega)]
        simp
      rw [hidx]
      simp only [Option.bind_some]
      rw [hset]
      simp only [Option.bind_some]
      have hi := ih (done ++ [{ t with Number := (done.length : Int) + 1 }]) ts (by simpa using h)
      simp only [List.length_append, List.length_singleton] at hi
      push_cast at hi
      rw [hi]
      simp [renumberFrom]

/-- **genbank.go `GenBankFields.Slice` never panics and is the model's clipping**: the region is the window,
the references are `sliceRefsFull` under the counter word of the molecule, every other field is kept — for
EVERY value of the Go struct and every window -/
theorem genBankFieldsSlice_eq (gbf : GenBankFields) (a b : Int) :
    genBankFieldsSlice intBytes overlapModel parseInfoModel gbf a b =
      some { gbf with Region := some (a, b),
                      References := sliceRefsFull (moleculeCounter gbf.Molecule) a b gbf.References } := by
  unfold genBankFieldsSlice sliceRefsFull
  simp only [sliceRefLoop_eq, List.nil_append, Option.bind_some]
  have h := sliceRenumberLoop_eq (gbf.References.filterMap (sliceRefFull (moleculeCounter gbf.Molecule) a b)) []
    (gbf.References.filterMap (sliceRefFull (moleculeCounter gbf.Molecule) a b)) rfl
  simp only [List.length_nil, List.nil_append] at h
  rw [show ((0 : Int)) = ((0 : Nat) : Int) from rfl, h]
  rfl

theorem renumberFrom_model (k : Nat) (rs : List Reference) :
    (renumberFrom k rs).map toRef = ((rs.map (·.Info)).zipIdx k).map fun (i, n) => ⟨(n : Int) + 1, i⟩ := by
  induction rs generalizing k with
  | nil => rfl
  | cons r rs ih => simp [renumberFrom, toRef, ih, List.zipIdx_cons]

/-- **projected on (number, info), the references `Slice` returns are the model's `sliceRefs`** — the function
the C03 clipping theorems are about -/
theorem sliceRefsFull_model (pref : Bytes) (a b : Int) (refs : List Reference) :
    (sliceRefsFull pref a b refs).map toRef = sliceRefs pref a b (refs.map toRef) := by
  unfold sliceRefsFull sliceRefs renumber
  rw [renumberFrom_model]
  congr 2
  induction refs with
  | nil => rfl
  | cons r refs ih =>
    simp only [List.filterMap_cons, List.map_cons, sliceRefFull, toRef]
    cases sliceRefInfo pref a b r.Info with
    | none => simpa using ih
    | some i => simpa using ih

/-- genbank.go `Molecule.Counter`: `residues` for AA, `bases` otherwise -/
theorem moleculeCounter_eq (m : Bytes) :
    moleculeCounter m = if m = wsLit "AA" then wsLit "residues" else wsLit "bases" := rfl

/-- non-vacuity: a DNA record with three references — one inside the window (clipped and re-based), one
disjoint (dropped), one whose info is no range list (kept verbatim) — sliced to `[2, 9)` -/
example :
    let mk (n : Int) (info : String) : Reference :=
      { Number := n, Info := wsLit info, Authors := wsLit "A", Group := [], Title := [], Journal := [], Xref := none, Comment := [] }
    (sliceRefsFull (wsLit "bases") 2 9 [mk 1 "(bases 1 to 5; 8 to 20)", mk 2 "(bases 30 to 40)", mk 3 "(sites)"]).map
        (fun r => (r.Number, r.Info)) =
      [(1, wsLit "(bases 1 to 3; 6 to 7)"), (2, wsLit "(sites)")] := by
  decide +kernel

end Gts.Bridge
