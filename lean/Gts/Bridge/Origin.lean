/-
  Bridge (C16): `toOriginLength` / `fromOriginLength` REGENERATED from seqio/origin.go by go2lean
  (Gts/Gen/ArithOrigin.lean) equal the hand-written model the C16 theorems are about.
-/
import Gts.Gen.ArithOrigin
import Gts.Model.Origin
namespace Gts.Bridge
open Gts

theorem toOriginLength_eq : Gen.toOriginLength = Gts.Origin.toOriginLength := by
  funext n; simp only [Gen.toOriginLength, Gts.Origin.toOriginLength]

theorem fromOriginLength_eq : Gen.fromOriginLength = Gts.Origin.fromOriginLength := by
  funext n; simp only [Gen.fromOriginLength, Gts.Origin.fromOriginLength]

end Gts.Bridge
