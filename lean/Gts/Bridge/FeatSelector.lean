/-
  Bridge: `shiftSelector` and `toQualifier`, regenerated from feature.go by go2lean
  (Gts/Gen/FeatSelector.lean: byte loops with the index arithmetic of the source — `s[i]`, `s[:i]`,
  `s[i+1:]` are checked operations whose `none` is the Go panic — the `for` loop literally with fuel,
  the tagged `switch` as a chain of tests on the byte read once), never panic and compute the
  hand-written model: `shiftSelectorB` / `shiftIdx` (Gts/Model/Locator.lean, Gts/Lemmas/SelShift.lean,
  used by C07 and C19) for every string and every fuel ≥ its length, and `splitEqB` for the
  arguments `toQualifier` passes to `Qualifier` (a parameter: regexp is external).  `Selector` is
  regenerated over ABSTRACT filters and errors (`Key`, `And`, `FalseFilter`, `Qualifier` are parameters):
  the loop `for tail != ""` literally with fuel computes `selectorSpec` — the key filter combined by
  `And` with the clause filters in order, the first error ending it (`selector_eq`); read on predicates
  with regexp-free clauses it is the locator model's `selectorMatch` (`selector_match`).
-/
import Gts.Gen.FeatSelector
import Gts.Lemmas.GoList
import Gts.Lemmas.SelShift
namespace Gts.Bridge
open Gts Gts.Pars

/-- what `shiftSelector` returns for an outcome of its loop: the pair the loop returned, or
`(s, "")` when the loop ended -/
def shiftFinish (s : Bytes) : Option (Gen.Flow (Bool × Int) (Bytes × Bytes)) → Option (Bytes × Bytes)
  | none => none
  | some (.ret r) => some r
  | some (.next _) => some (s, [])

/-- the loop of `shiftSelector`: any function with these two equations (the generated helper has
them by unfolding) does, from index `i` with flag `esc` and fuel for the remaining bytes, what the
index-by-index model `shiftIdx` does -/
theorem shiftLoop_shape (loop : Nat → Bool → Int → Option (Gen.Flow (Bool × Int) (Bytes × Bytes))) (s : Bytes)
    (h0 : ∀ esc i, loop 0 esc i = some (.next (esc, i)))
    (hs : ∀ n esc i, loop (n + 1) esc i =
      if i < (s.length : Int) then
        (Gen.goIdx s i).bind fun c =>
          if c = 92 then loop n true (i + 1)
          else if c = 47 then
            if ¬ (esc = true) then
              (Gen.goTo s i).bind fun a => (Gen.goFrom s (i + 1)).bind fun b => some (.ret (a, b))
            else loop n esc (i + 1)
          else loop n false (i + 1)
      else some (.next (esc, i))) :
    ∀ (k n i : Nat) (esc : Bool), s.length - i = k → k ≤ n →
      shiftFinish s (loop n esc (i : Int)) = (shiftIdx s i esc).toOption := by
  intro k
  induction k with
  | zero =>
    intro n i esc hk _
    have hi : ¬ i < s.length := by omega
    rw [shiftIdx, dif_neg hi]
    cases n with
    | zero => rw [h0]; rfl
    | succ n => rw [hs, if_neg (by omega)]; rfl
  | succ k ih =>
    intro n i esc hk hn
    have hi : i < s.length := by omega
    obtain ⟨n, rfl⟩ : ∃ m, n = m + 1 := ⟨n - 1, by omega⟩
    have hget : s[i]? = some s[i] := List.getElem?_eq_getElem hi
    rw [hs, if_pos (by omega), Gen.goIdx_nat, hget, shiftIdx, dif_pos hi, hget]
    simp only [Option.bind_some]
    have hnext : ∀ e, shiftFinish s (loop n e ((i : Int) + 1)) = (shiftIdx s (i + 1) e).toOption := by
      intro e
      have := ih n (i + 1) e (by omega) (by omega)
      simpa only [Int.natCast_add, Int.cast_ofNat_Int] using this
    by_cases h92 : s[i] = 92
    · rw [if_pos h92, if_pos h92, hnext]
    · rw [if_neg h92, if_neg h92]
      by_cases h47 : s[i] = 47
      · rw [if_pos h47, if_pos h47]
        cases esc with
        | false =>
          have h1 : i ≤ s.length ∧ i + 1 ≤ s.length := ⟨by omega, by omega⟩
          have h2 : Gen.goFrom s ((i : Int) + 1) = some (s.drop (i + 1)) := by
            have := Gen.goFrom_nat s (i + 1) (by omega)
            simpa only [Int.natCast_add, Int.cast_ofNat_Int] using this
          simp only [Bool.false_eq_true, not_false_eq_true, if_true, Bool.not_false, Gen.goTo_nat s i (by omega), h2,
            Option.bind_some, shiftFinish, h1, and_self]
          rfl
        | true =>
          simp only [not_true_eq_false, if_false, Bool.not_true, Bool.false_eq_true]
          rw [hnext]
      · rw [if_neg h47, if_neg h47, hnext]

/-- the generated loop has the shape -/
theorem shiftSelectorLoop_shape (s : Bytes) (k n i : Nat) (esc : Bool) (hk : s.length - i = k) (hn : k ≤ n) :
    shiftFinish s (Gen.shiftSelectorLoop s n esc (i : Int)) = (shiftIdx s i esc).toOption :=
  shiftLoop_shape (Gen.shiftSelectorLoop s) s (fun _ _ => by rw [Gen.shiftSelectorLoop])
    (fun n esc i => by
      rw [Gen.shiftSelectorLoop]) k n i esc hk hn

/-- **`shiftSelector(s)` as feature.go defines it now never panics and returns the model's
`shiftSelectorB s`** (the text before the first unescaped `/`, the text behind it), for every string and
every fuel of at least its length (the loop ends: one byte per iteration) -/
theorem shiftSelector_eq (s : Bytes) (fuel : Nat) (h : s.length ≤ fuel) :
    Gen.shiftSelector fuel s = some (shiftSelectorB s) := by
  have := shiftSelectorLoop_shape s s.length fuel 0 false (by omega) h
  rw [shiftIdx_ok] at this
  simp only [Int.cast_ofNat_Int] at this
  simp only [Gen.shiftSelector]
  revert this
  cases Gen.shiftSelectorLoop s fuel false 0 with
  | none => intro h; exact h
  | some r => cases r <;> (intro h; exact h)

/-- … and is the index-by-index model `shiftIdx` of C07 (`shiftSelector_total`) -/
theorem shiftSelector_shiftIdx (s : Bytes) (fuel : Nat) (h : s.length ≤ fuel) :
    Gen.shiftSelector fuel s = (shiftIdx s 0 false).toOption := by
  rw [shiftSelector_eq s fuel h, shiftIdx_ok]; rfl

/-! ### `toQualifier` -/

theorem findIdx?_splitEqB : ∀ s : Bytes,
    (match s.findIdx? (· == (61 : UInt8)) with
     | some i => (s.take i, s.drop (i + 1))
     | none => (s, [])) = splitEqB s
  | [] => rfl
  | c :: r => by
    have ih := findIdx?_splitEqB r
    simp only [List.findIdx?_cons, splitEqB]
    by_cases h : c = 61
    · simp [h]
    · have hb : (c == 61) = false := by simpa using h
      simp only [hb, Bool.false_eq_true, if_false, h]
      rw [← ih]
      cases r.findIdx? (· == (61 : UInt8)) <;> simp

theorem findIdx?_le (s : Bytes) (i : Nat) (h : s.findIdx? (· == (61 : UInt8)) = some i) : i < s.length := by
  have := List.findIdx?_eq_some_iff_getElem.mp h
  exact this.1

/-- **`toQualifier(s)` as feature.go defines it now never panics and calls `Qualifier` with the model's
split of `s` at its first `=`** (`splitEqB`: the whole string and `""` when there is none) — for every
string and every `Qualifier` -/
theorem toQualifier_eq {ρ : Type} (q : Bytes → Bytes → ρ) (s : Bytes) :
    Gen.toQualifier q s = some (q (splitEqB s).1 (splitEqB s).2) := by
  have hsp := findIdx?_splitEqB s
  simp only [Gen.toQualifier]
  rcases Option.eq_none_or_eq_some (s.findIdx? (· == (61 : UInt8))) with h | ⟨i, h⟩
  · have hx : Gen.stringsIndexByte s 61 = -1 := by simp only [Gen.stringsIndexByte, h]
    rw [h] at hsp
    simp only at hsp
    rw [← hsp, hx]
    simp
  · have hx : Gen.stringsIndexByte s 61 = (i : Int) := by simp only [Gen.stringsIndexByte, h]
    rw [h] at hsp
    simp only at hsp
    rw [← hsp, hx]
    have hi := findIdx?_le s i h
    have h2 : Gen.goFrom s ((i : Int) + 1) = some (s.drop (i + 1)) := by
      have := Gen.goFrom_nat s (i + 1) (by omega)
      simpa only [Int.natCast_add, Int.cast_ofNat_Int] using this
    rw [if_neg (by omega), Gen.goTo_nat s i (by omega), h2]
    rfl

/-! ### `Selector` -/

/-- the clause loop of `Selector` on the clause texts: every clause `name[=query]` is split at its first `=` and
handed to `Qualifier`; the first error ends the loop with `(FalseFilter, err)`, otherwise the filter is
`And(filter, clause filter)` -/
def selectorGo {φ ε : Type} (false_ : φ) (and_ : φ → φ → φ) (qual : Bytes → Bytes → φ × Option ε) :
    List Bytes → φ → φ × Option ε
  | [], f => (f, none)
  | part :: rest, f =>
    if (qual (splitEqB part).1 (splitEqB part).2).2.isSome = true then
      (false_, (qual (splitEqB part).1 (splitEqB part).2).2)
    else selectorGo false_ and_ qual rest (and_ f (qual (splitEqB part).1 (splitEqB part).2).1)

/-- what `Selector(sel)` computes, on the model's decomposition of the selector string (`shiftSelectorB`,
`selectorParts` of Gts/Model/Locator.lean): `Key(head)` combined with the clauses in order -/
def selectorSpec {φ ε : Type} (key : Bytes → φ) (false_ : φ) (and_ : φ → φ → φ)
    (qual : Bytes → Bytes → φ × Option ε) (s : Bytes) : φ × Option ε :=
  selectorGo false_ and_ qual (selectorParts ((shiftSelectorB s).2.length + 1) (shiftSelectorB s).2)
    (key (shiftSelectorB s).1)

/-- what `Selector` returns for an outcome of its loop -/
def selFinish {φ ε : Type} : Option (Gen.Flow (Bytes × Bytes × φ) (φ × Option ε)) → Option (φ × Option ε)
  | none => none
  | some (.ret r) => some r
  | some (.next st) => some (st.2.2, none)

/-- the loop `for tail != ""` of `Selector`: any function with these two equations, with fuel for the
remaining text, consumes the clauses as `selectorGo` does (`F` is the fuel of the `shiftSelector` calls) -/
theorem selLoop_shape {φ ε : Type} (loop : Nat → Bytes → Bytes → φ → Option (Gen.Flow (Bytes × Bytes × φ) (φ × Option ε)))
    (F : Nat) (false_ : φ) (and_ : φ → φ → φ) (qual : Bytes → Bytes → φ × Option ε)
    (h0 : ∀ head tail f, loop 0 head tail f = some (.next (head, tail, f)))
    (hs : ∀ n head tail f, loop (n + 1) head tail f =
      if tail ≠ [] then
        (Gen.shiftSelector F tail).bind fun x => (Gen.toQualifier qual x.1).bind fun y =>
          if y.2.isSome = true then some (.ret (false_, y.2)) else loop n x.1 x.2 (and_ f y.1)
      else some (.next (head, tail, f))) :
    ∀ (n : Nat) (head tail : Bytes) (f : φ), tail.length ≤ n → tail.length ≤ F →
      selFinish (loop n head tail f) = some (selectorGo false_ and_ qual (selectorParts (tail.length + 1) tail) f)
  | 0, head, tail, f, hn, _ => by
    have : tail = [] := List.eq_nil_of_length_eq_zero (by omega)
    subst this
    rw [h0]
    rfl
  | n + 1, head, tail, f, hn, hF => by
    rw [hs]
    cases tail with
    | nil => rw [if_neg (by simp)]; rfl
    | cons c r =>
      rw [if_pos (by simp), shiftSelector_eq _ _ hF, Option.bind_some, toQualifier_eq, Option.bind_some]
      have hlt := shiftSelectorB_tail_lt c r
      simp only [selectorParts, List.isEmpty_cons, Bool.false_eq_true, if_false, selectorGo]
      split
      · rfl
      · rw [selLoop_shape loop F false_ and_ qual h0 hs n _ _ _ (by omega) (by omega)]
        rw [selectorParts_fuel ((shiftSelectorB (c :: r)).2.length + 1) (c :: r).length _ (by omega) (by omega)]

/-- **`Selector(sel)` as feature.go defines it now never panics and computes `selectorSpec`**: the key filter of the
text before the first free `/`, combined by `And` with the `Qualifier` filter of every further clause (split at its
first `=`), in order; the first `Qualifier` error ends it with `(FalseFilter, err)` — for every string, every
`Key` / `And` / `FalseFilter` / `Qualifier` and every fuel above the length of the string (the loop ends: every
round removes at least one byte of `tail`) -/
theorem selector_eq {φ ε : Type} (key : Bytes → φ) (false_ : φ) (and_ : φ → φ → φ)
    (qual : Bytes → Bytes → φ × Option ε) (s : Bytes) (fuel : Nat) (h : s.length ≤ fuel) :
    Gen.selector fuel key false_ and_ qual s = some (selectorSpec key false_ and_ qual s) := by
  simp only [Gen.selector]
  rw [shiftSelector_eq s fuel h, Option.bind_some]
  have htl : (shiftSelectorB s).2.length ≤ s.length := shiftSelectorGo_tail_le s false
  have := selLoop_shape (Gen.selectorLoop fuel false_ and_ qual) fuel false_ and_ qual
    (fun _ _ _ => by rw [Gen.selectorLoop]) (fun _ _ _ _ => by rw [Gen.selectorLoop])
    fuel (shiftSelectorB s).1 (shiftSelectorB s).2 (key (shiftSelectorB s).1) (by omega) (by omega)
  simp only [selectorSpec]
  rw [← this]
  cases Gen.selectorLoop fuel false_ and_ qual fuel (shiftSelectorB s).1 (shiftSelectorB s).2 (key (shiftSelectorB s).1) with
  | none => rfl
  | some r => cases r <;> rfl

/-- for regexp-free clauses (`Qualifier` never fails and tests `qualifierMatch`), with `Key` and `And` read as
predicates, the filter `Selector(s)` returns accepts exactly the features `selectorMatch s` accepts — the function
behind the protocol answers of the locator model (Gts/Model/Locator.lean) -/
theorem selector_match (s : Bytes) (fuel : Nat) (h : s.length ≤ fuel) :
    ∃ flt : Feature → Bool,
      Gen.selector (ε_ := Unit) fuel (fun k f => k.isEmpty || f.key.toUTF8.toList == k) (fun _ => false)
        (fun a b f => a f && b f) (fun n q => (qualifierMatch n q, none)) s = some (flt, none) ∧
      ∀ f, flt f = selectorMatch s f := by
  rw [selector_eq _ _ _ _ s fuel h]
  have key : ∀ (parts : List Bytes) (g : Feature → Bool),
      ∃ flt : Feature → Bool, selectorGo (ε := Unit) (fun _ => false) (fun a b f => a f && b f)
        (fun n q => (qualifierMatch n q, none)) parts g = (flt, none) ∧
        ∀ f, flt f = (g f && parts.all fun part => qualifierMatch (splitEqB part).1 (splitEqB part).2 f) := by
    intro parts
    induction parts with
    | nil => intro g; exact ⟨g, rfl, fun f => by simp⟩
    | cons p ps ih =>
      intro g
      obtain ⟨flt, h1, h2⟩ := ih (fun f => g f && qualifierMatch (splitEqB p).1 (splitEqB p).2 f)
      refine ⟨flt, ?_, fun f => ?_⟩
      · simp only [selectorGo, Option.isSome_none, Bool.false_eq_true, if_false]
        exact h1
      · rw [h2 f]
        simp only [List.all_cons, Bool.and_assoc]
  obtain ⟨flt, h1, h2⟩ := key (selectorParts ((shiftSelectorB s).2.length + 1) (shiftSelectorB s).2)
    (fun f => (shiftSelectorB s).1.isEmpty || f.key.toUTF8.toList == (shiftSelectorB s).1)
  refine ⟨flt, by simp only [selectorSpec]; rw [h1], fun f => ?_⟩
  rw [h2 f]
  rfl

-- non-vacuity: an escaped slash is skipped, the first free one splits (`a\/b/c=d`); the clause is split
-- at its first `=`
example : Gen.shiftSelector 8 [97, 92, 47, 98, 47, 99, 61, 100] = some ([97, 92, 47, 98], [99, 61, 100]) := by
  rw [shiftSelector_eq _ _ (by decide)]; decide
example : Gen.toQualifier (fun a b => (a, b)) [99, 61, 100, 61] = some ([99], [100, 61]) := by
  rw [toQualifier_eq]; decide
-- a key and two clauses, the second one failing: `g/a=b/c` with a `Qualifier` that rejects the name `c`
example : Gen.selector 7 (fun k => [k]) [] (fun a b => a ++ b)
    (fun n q => ([n ++ q], if n = [99] then some () else none)) [103, 47, 97, 61, 98, 47, 99] = some ([], some ()) := by
  rw [selector_eq _ _ _ _ _ _ (by decide)]; decide
example : Gen.selector 5 (fun k => [k]) [] (fun a b => a ++ b)
    (fun n q => ([n ++ q], (none : Option Unit))) [103, 47, 97, 61, 98] = some ([[103], [97, 98]], none) := by
  rw [selector_eq _ _ _ _ _ _ (by decide)]; decide

end Gts.Bridge
