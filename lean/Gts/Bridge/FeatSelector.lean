/-
  Bridge: `shiftSelector` and `toQualifier`, regenerated from feature.go by go2lean
  (Gts/Gen/FeatSelector.lean: byte loops with the index arithmetic of the source — `s[i]`, `s[:i]`,
  `s[i+1:]` are checked operations whose `none` is the Go panic — the `for` loop literally with fuel,
  the tagged `switch` as a chain of tests on the byte read once), never panic and compute the
  hand-written model: `shiftSelectorB` / `shiftIdx` (Gts/Model/Locator.lean, Gts/Lemmas/SelShift.lean,
  used by C07 and C19) for every string and every fuel ≥ its length, and `splitEqB` for the
  arguments `toQualifier` passes to `Qualifier` (a parameter: regexp is external).
-/
import Gts.Gen.FeatSelector
import Gts.Lemmas.GoList
import Gts.Lemmas.SelShift
namespace Gts.Bridge
open Gts Gts.Pars

/-- what `shiftSelector` returns for an outcome of its loop: the pair the loop returned, or
`(s, "")` when the loop ended -/
def shiftFinish (s : Bytes) : Option (Gen.Flow (Bool × Int) (Bytes × Bytes)) → Option (Bytes × Bytes)
  | none => none
  | some (.ret r) => some r
  | some (.next _) => some (s, [])

/-- the loop of `shiftSelector`: any function with these two equations (the generated helper has
them by unfolding) does, from index `i` with flag `esc` and fuel for the remaining bytes, what the
index-by-index model `shiftIdx` does -/
theorem shiftLoop_shape (loop : Nat → Bool → Int → Option (Gen.Flow (Bool × Int) (Bytes × Bytes))) (s : Bytes)
    (h0 : ∀ esc i, loop 0 esc i = some (.next (esc, i)))
    (hs : ∀ n esc i, loop (n + 1) esc i =
      if i < (s.length : Int) then
        (Gen.goIdx s i).bind fun c =>
          if c = 92 then loop n true (i + 1)
          else if c = 47 then
            if ¬ (esc = true) then
              (Gen.goTo s i).bind fun a => (Gen.goFrom s (i + 1)).bind fun b => some (.ret (a, b))
            else loop n esc (i + 1)
          else loop n false (i + 1)
      else some (.next (esc, i))) :
    ∀ (k n i : Nat) (esc : Bool), s.length - i = k → k ≤ n →
      shiftFinish s (loop n esc (i : Int)) = (shiftIdx s i esc).toOption := by
  intro k
  induction k with
  | zero =>
    intro n i esc hk _
    have hi : ¬ i < s.length := by omega
    rw [shiftIdx, dif_neg hi]
    cases n with
    | zero => rw [h0]; rfl
    | succ n => rw [hs, if_neg (by omega)]; rfl
  | succ k ih =>
    intro n i esc hk hn
    have hi : i < s.length := by omega
    obtain ⟨n, rfl⟩ : ∃ m, n = m + 1 := ⟨n - 1, by omega⟩
    have hget : s[i]? = some s[i] := List.getElem?_eq_getElem hi
    rw [hs, if_pos (by omega), Gen.goIdx_nat, hget, shiftIdx, dif_pos hi, hget]
    simp only [Option.bind_some]
    have hnext : ∀ e, shiftFinish s (loop n e ((i : Int) + 1)) = (shiftIdx s (i + 1) e).toOption := by
      intro e
      have := ih n (i + 1) e (by omega) (by omega)
      simpa only [Int.natCast_add, Int.cast_ofNat_Int] using this
    by_cases h92 : s[i] = 92
    · rw [if_pos h92, if_pos h92, hnext]
    · rw [if_neg h92, if_neg h92]
      by_cases h47 : s[i] = 47
      · rw [if_pos h47, if_pos h47]
        cases esc with
        | false =>
          have h1 : i ≤ s.length ∧ i + 1 ≤ s.length := ⟨by omega, by omega⟩
          have h2 : Gen.goFrom s ((i : Int) + 1) = some (s.drop (i + 1)) := by
            have := Gen.goFrom_nat s (i + 1) (by omega)
            simpa only [Int.natCast_add, Int.cast_ofNat_Int] using this
          simp only [Bool.false_eq_true, not_false_eq_true, if_true, Bool.not_false, Gen.goTo_nat s i (by omega), h2,
            Option.bind_some, shiftFinish, h1, and_self]
          rfl
        | true =>
          simp only [not_true_eq_false, if_false, Bool.not_true, Bool.false_eq_true]
          rw [hnext]
      · rw [if_neg h47, if_neg h47, hnext]

/-- the generated loop has the shape -/
theorem shiftSelectorLoop_shape (s : Bytes) (k n i : Nat) (esc : Bool) (hk : s.length - i = k) (hn : k ≤ n) :
    shiftFinish s (Gen.shiftSelectorLoop s n esc (i : Int)) = (shiftIdx s i esc).toOption :=
  shiftLoop_shape (Gen.shiftSelectorLoop s) s (fun _ _ => by rw [Gen.shiftSelectorLoop])
    (fun n esc i => by
      rw [Gen.shiftSelectorLoop]) k n i esc hk hn

/-- **`shiftSelector(s)` as feature.go defines it now never panics and returns the model's
`shiftSelectorB s`** (the text before the first unescaped `/`, the text behind it), for every string and
every fuel of at least its length (the loop ends: one byte per iteration) -/
theorem shiftSelector_eq (s : Bytes) (fuel : Nat) (h : s.length ≤ fuel) :
    Gen.shiftSelector fuel s = some (shiftSelectorB s) := by
  have := shiftSelectorLoop_shape s s.length fuel 0 false (by omega) h
  rw [shiftIdx_ok] at this
  simp only [Int.cast_ofNat_Int] at this
  simp only [Gen.shiftSelector]
  revert this
  cases Gen.shiftSelectorLoop s fuel false 0 with
  | none => intro h; exact h
  | some r => cases r <;> (intro h; exact h)

/-- … and is the index-by-index model `shiftIdx` of C07 (`shiftSelector_total`) -/
theorem shiftSelector_shiftIdx (s : Bytes) (fuel : Nat) (h : s.length ≤ fuel) :
    Gen.shiftSelector fuel s = (shiftIdx s 0 false).toOption := by
  rw [shiftSelector_eq s fuel h, shiftIdx_ok]; rfl

/-! ### `toQualifier` -/

theorem findIdx?_splitEqB : ∀ s : Bytes,
    (match s.findIdx? (· == (61 : UInt8)) with
     | some i => (s.take i, s.drop (i + 1))
     | none => (s, [])) = splitEqB s
  | [] => rfl
  | c :: r => by
    have ih := findIdx?_splitEqB r
    simp only [List.findIdx?_cons, splitEqB]
    by_cases h : c = 61
    · simp [h]
    · have hb : (c == 61) = false := by simpa using h
      simp only [hb, Bool.false_eq_true, if_false, h]
      rw [← ih]
      cases r.findIdx? (· == (61 : UInt8)) <;> simp

theorem findIdx?_le (s : Bytes) (i : Nat) (h : s.findIdx? (· == (61 : UInt8)) = some i) : i < s.length := by
  have := List.findIdx?_eq_some_iff_getElem.mp h
  exact this.1

/-- **`toQualifier(s)` as feature.go defines it now never panics and calls `Qualifier` with the model's
split of `s` at its first `=`** (`splitEqB`: the whole string and `""` when there is none) — for every
string and every `Qualifier` -/
theorem toQualifier_eq {ρ : Type} (q : Bytes → Bytes → ρ) (s : Bytes) :
    Gen.toQualifier q s = some (q (splitEqB s).1 (splitEqB s).2) := by
  have hsp := findIdx?_splitEqB s
  simp only [Gen.toQualifier]
  rcases Option.eq_none_or_eq_some (s.findIdx? (· == (61 : UInt8))) with h | ⟨i, h⟩
  · have hx : Gen.stringsIndexByte s 61 = -1 := by simp only [Gen.stringsIndexByte, h]
    rw [h] at hsp
    simp only at hsp
    rw [← hsp, hx]
    simp
  · have hx : Gen.stringsIndexByte s 61 = (i : Int) := by simp only [Gen.stringsIndexByte, h]
    rw [h] at hsp
    simp only at hsp
    rw [← hsp, hx]
    have hi := findIdx?_le s i h
    have h2 : Gen.goFrom s ((i : Int) + 1) = some (s.drop (i + 1)) := by
      have := Gen.goFrom_nat s (i + 1) (by omega)
      simpa only [Int.natCast_add, Int.cast_ofNat_Int] using this
    rw [if_neg (by omega), Gen.goTo_nat s i (by omega), h2]
    rfl

-- non-vacuity: an escaped slash is skipped, the first free one splits (`a\/b/c=d`); the clause is split
-- at its first `=`
example : Gen.shiftSelector 8 [97, 92, 47, 98, 47, 99, 61, 100] = some ([97, 92, 47, 98], [99, 61, 100]) := by
  rw [shiftSelector_eq _ _ (by decide)]; decide
example : Gen.toQualifier (fun a b => (a, b)) [99, 61, 100, 61] = some ([99], [100, 61]) := by
  rw [toQualifier_eq]; decide

end Gts.Bridge
