/-
  Bridge: the per-record step of `gts delete`, regenerated from cmd/gts/delete.go by go2lean
  (Gts/Gen/CliDelete.lean: `ss := gts.Minimize(locate(seq)); flip.Flip(gts.BySegment(ss));
  for _, s := range ss { i, n := s.Head(), s.Len(); seq = delete(seq, i, n) }; WriteSeq(seq)`, the loop
  a recursive helper), writes exactly one record, the model's `Cli.delete` — for EVERY record,
  locator and `-e` flag.  The theorems of `Gts/Props/C15.lean` about `Cli.delete` are thereby about
  what delete.go says now.
-/
import Gts.Gen.CliDelete
import Gts.Bridge.CliLoops
namespace Gts.Bridge
open Gts

/-- one iteration of the generated loop: delete (or erase, with `-e`) `s.Len()` residues at `s.Head()` -/
theorem deleteStepLoop_shape (locate : Seq → List Reg) (erase : Bool) (s : Seg) (rest : List Seg) (seq : Seq) :
    Gen.deleteStepLoop locate erase (s :: rest) seq =
      Gen.deleteStepLoop locate erase rest
        (if erase then seq.erase s.1 (Reg.gabs (s.2 - s.1)) else seq.delete s.1 (Reg.gabs (s.2 - s.1))) := by
  simp only [Gen.deleteStepLoop, Reg.head, Reg.len]

/-- **`gts delete`, one record**: the scan-loop body of delete.go, as written, hands exactly one
record to `WriteSeq` — the model's `Cli.delete` — and no index expression in it panics. -/
theorem deleteStep_eq (locate : Seq → List Reg) (erase : Bool) (seq : Seq) :
    Gen.deleteStep locate erase seq = some [Cli.delete locate erase seq] := by
  have h := foldLoop_spec (Gen.deleteStepLoop locate erase)
    (fun (acc : Seq) (sg : Seg) =>
      if erase then acc.erase sg.1 (Reg.gabs (sg.2 - sg.1)) else acc.delete sg.1 (Reg.gabs (sg.2 - sg.1)))
    (fun _ => rfl) (deleteStepLoop_shape locate erase)
  simp only [Gen.deleteStep, h, Cli.delete, Cli.deleteSegs, List.nil_append]

example : Gen.deleteStep (fun _ => [.seg 1 3, .seg 2 4]) true ⟨[], [1, 2, 3, 4, 5]⟩
    = some [Cli.delete (fun _ => [.seg 1 3, .seg 2 4]) true ⟨[], [1, 2, 3, 4, 5]⟩] := deleteStep_eq _ _ _

/-- the calls of the step that are read by specification (`flip.Flip` reverses) and its I/O statements -/
theorem deleteStepFacts_eq : Gen.deleteStepFacts = ["flip", "write", "flush"] := rfl

end Gts.Bridge
