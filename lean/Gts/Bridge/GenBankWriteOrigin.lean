/-
  Bridge: `GenBank.String` with NOTHING of seqio left as a parameter — the regenerated record writer
  (`Gts/Gen/GenBankWrite.lean`) run with the regenerated `(*Origin).Len` and `(*Origin).String`
  (`Gts/Gen/OriginBuf.lean`, bridged by `Gts/Bridge/OriginBuf.lean`) in place of its two ORIGIN parameters is the
  model's `write` (properties C01, C16): the ORIGIN block a record is written with is the block the C16 layout
  theorems are about.  The fuel of the literal loops of `NewOrigin` is any number ≥ 6 with `len ≤ 60·fuel`.
-/
import Gts.Bridge.GenBankWrite
import Gts.Bridge.OriginBuf
namespace Gts.Bridge
open Gts.Pars Gts.GenBank Gts.Gen.GoStrings
open Gts.Gen.GenBankWrite (genBankString)

/-- `(*Origin).Len()` as regenerated from origin.go (it has no error path) -/
def originLenGen (o : Gen.GenBankWrite.Origin) : Int :=
  match Gen.originLen o.Buffer o.Parsed with
  | .ok n => n
  | .error _ => 0

/-- `(*Origin).String()` as regenerated from origin.go (`none`: the panic) -/
def originStringGen (fuel : Nat) (o : Gen.GenBankWrite.Origin) : Option Bytes :=
  match Gen.originString fuel fmt9 o.Buffer o.Parsed with
  | .ok s => some s
  | .error _ => none

theorem originLenGen_eq (o : Gen.GenBankWrite.Origin) : originLenGen o = originLenModel o := by
  obtain ⟨p, parsed⟩ := o
  unfold originLenGen originLenModel originV
  cases parsed with
  | false => simp [originLen_eq, OriginV.len]
  | true => simp [originLen_parsed, OriginV.len]

theorem originStringGen_eq (fuel : Nat) (o : Gen.GenBankWrite.Origin) (h6 : 6 ≤ fuel) (hl : o.Buffer.length ≤ 60 * fuel) :
    originStringGen fuel o = originStringModel o := by
  obtain ⟨p, parsed⟩ := o
  unfold originStringGen originStringModel originV
  rw [originString_eq fuel p parsed h6 hl]
  cases parsed with
  | false => simp [Origin.originString, OriginV.text]
  | true =>
    simp only [Origin.originString, OriginV.text, if_true, Bool.not_true, Bool.false_eq_true, if_false]
    cases Origin.newOrigin p <;> rfl

/-- the length of what an `Origin` holds (residues, or the formatted block) -/
def originHeld : OriginV → Nat
  | .residues p => p.length
  | .buffer b => b.length

/-- **`GenBank.String` with the regenerated ORIGIN code is the model's `write`**: the statement of
`genBankString_eq` with `(*Origin).Len` / `(*Origin).String` read from origin.go too, for every fuel the
loops of `NewOrigin` can run out with (≥ 6, and 60 residues per round) -/
theorem genBankString_origin_eq (reg : Registry) (toUpper : Bytes → Bytes)
    (timeFormat : String → Int → Int → Int → Bytes) (r : Record) (fuel : Nat)
    (hdate : toUpper (timeFormat "02-Jan-2006" r.fields.date.year r.fields.date.month r.fields.date.day) =
      r.fields.date.text)
    (h6 : 6 ≤ fuel) (hl : originHeld r.origin ≤ 60 * fuel) :
    wOut (genBankString itoaB toUpper timeFormat wrapSpaceModel Loc.printB originLenGen (originStringGen fuel)
      segmentLenModel (isQuotedIn reg) (isLiteralIn reg) (isToggleIn reg) (goRecord r)) = write reg r := by
  rw [← genBankString_eq reg toUpper timeFormat r hdate]
  have h1 : originLenGen = originLenModel := funext originLenGen_eq
  have hb : (goRecord r).Origin.Buffer.length = originHeld r.origin := by
    obtain ⟨f, t, o⟩ := r
    cases o <;> rfl
  unfold genBankString
  rw [h1, originStringGen_eq fuel (goRecord r).Origin h6 (by rw [hb]; exact hl)]

/-- non-vacuity: 61 residues (two ORIGIN lines), fuel 6 -/
example : (6 : Nat) ≤ 6 ∧ originHeld (OriginV.residues (List.replicate 61 97)) ≤ 60 * 6 := by decide

end Gts.Bridge
