/-
  Bridge: `Repair`, regenerated from feature.go (Gts/Gen/FeatRepair.lean), is `repairWith sort` for EVERY value
  of its parameter `sortLocs_` (= `sort.Sort(Locations(·))`).  Gts/Bridge/FeatRepair.lean ties the generated function
  to the model's `repair` under the assumption that `sort.Sort` is the model's insertion sort; the theorems below are
  the same statements with the sort left arbitrary — no assumption about `sort.Sort(Locations(·))` at all: whatever
  function it is, the generated `Repair` never panics and returns the table `repairWith sort` returns (the model
  of Gts/Model/RepairSort.lean, about which Gts/Props/C12Sort.lean proves the clauses of C12 for every correct sort).
  The loop-shape lemmas are those of Gts/Bridge/FeatRepair.lean.
-/
import Gts.Bridge.FeatRepair
import Gts.Lemmas.RepairSortSpine
namespace Gts.Bridge
open Gts

/-- one iteration of `for _, indices := range index` with the nil `Location` as a value (the model's
`classStepWith sort` flags it instead: `RepairSt.nil`) -/
def classStepNS (sort : List Loc → List Loc) (nil : Loc) (ff : Table) (st : Table × List Nat) (idx : List Nat) : Table × List Nat :=
  let p := sliceN nil (pushedOfWith sort (classForce ff idx) (classLocs st.1 idx))
  if p.length < idx.length then (writeLocs st.1 (idx.zip p), st.2 ++ idx.take p.length) else (st.1, st.2 ++ idx)

theorem length_classStepN_sort (sort : List Loc → List Loc) (nil : Loc) (ff : Table) (st : Table × List Nat) (idx : List Nat) :
    (classStepNS sort nil ff st idx).1.length = st.1.length := by
  simp only [classStepNS]
  split
  · exact length_writeLocs _ _
  · rfl

/-- one iteration of the generated class loop is `classStepNS sort` -/
theorem repairLoop2_cons_sort (sort : List Loc → List Loc) (nil : Loc) (ff gg : Table) (keep idx : List Nat) (k : String)
    (rest : List (String × List Int)) (hidx : ∀ j ∈ idx, j < gg.length) (hlen : gg.length = ff.length) :
    Gen.repairLoop2 nil sort ff ((k, idx.map Int.ofNat) :: rest) gg (keep.map Int.ofNat) =
      Gen.repairLoop2 nil sort ff rest (classStepNS sort nil ff (gg, keep) idx).1
        ((classStepNS sort nil ff (gg, keep) idx).2.map Int.ofNat) := by
  rw [Gen.repairLoop2]
  simp only [List.length_map]
  cases idx with
  | nil =>
    rw [if_neg (by simp)]
    simp only [Option.bind_some, classStepNS, List.length_nil, Nat.not_lt_zero, if_false, List.append_nil,
      List.map_nil]
  | cons i0 idx' =>
    have hi0 : i0 < ff.length := by have := hidx i0 List.mem_cons_self; omega
    rw [if_pos (by simp only [List.length_cons]; omega), Gen.goMake_nat]
    simp only [Option.bind_some]
    rw [repairLoop3_eq nil gg (i0 :: idx') hidx]
    simp only [Option.bind_some]
    have h0 : Gen.goIdx (List.map Int.ofNat (i0 :: idx')) 0 = some (i0 : Int) := rfl
    rw [h0]
    simp only [Option.bind_some]
    rw [Gen.goIdx_lt ff i0 hi0]
    simp only [Option.bind_some]
    rw [repairLoop4_eq]
    simp only [Option.bind_some, locationListSlice_eq]
    have hforce : decide (ff[i0].key = "source") = classForce ff (i0 :: idx') := by
      simp only [classForce, List.getElem?_eq_getElem hi0]
      rfl
    rw [hforce]
    have hp : (Loc.pushAll [] (sort (classLocs gg (i0 :: idx'))) (classForce ff (i0 :: idx'))).reverse =
        pushedOfWith sort (classForce ff (i0 :: idx')) (classLocs gg (i0 :: idx')) := rfl
    rw [hp]
    simp only [classStepNS]
    generalize sliceN nil (pushedOfWith sort (classForce ff (i0 :: idx')) (classLocs gg (i0 :: idx'))) = p
    by_cases hlt : p.length < (i0 :: idx').length
    · rw [if_pos (by simp only [List.length_cons] at hlt ⊢; omega), if_pos hlt,
        repairLoop5_eq (i0 :: idx') p gg hidx (by omega)]
      simp only [Option.bind_some]
      have hto : Gen.goTo (List.map Int.ofNat (i0 :: idx')) (p.length : Int) =
          some (List.map Int.ofNat ((i0 :: idx').take p.length)) := by
        rw [Gen.goTo_nat _ _ (by simp only [List.length_map]; omega), List.map_take]
      rw [hto]
      simp only [Option.bind_some, List.map_append]
    · rw [if_neg (by simp only [List.length_cons] at hlt ⊢; omega), if_neg hlt]
      simp only [Option.bind_some, List.map_append]

/-- the generated class loop, over classes of valid indices, is the fold of `classStepNS sort` -/
theorem repairLoop2_eq_sort (sort : List Loc → List Loc) (nil : Loc) (ff : Table) : ∀ (cs : List (String × List Nat)) (gg : Table) (keep : List Nat),
    (∀ c ∈ cs, ∀ j ∈ c.2, j < gg.length) → gg.length = ff.length →
    Gen.repairLoop2 nil sort ff (cs.map fun c => (c.1, c.2.map Int.ofNat)) gg (keep.map Int.ofNat) =
      some ((cs.foldl (fun st c => classStepNS sort nil ff st c.2) (gg, keep)).1,
        (cs.foldl (fun st c => classStepNS sort nil ff st c.2) (gg, keep)).2.map Int.ofNat)
  | [], gg, keep, _, _ => by rw [List.map_nil, Gen.repairLoop2]; rfl
  | c :: cs, gg, keep, hv, hlen => by
    rw [List.map_cons, repairLoop2_cons_sort sort nil ff gg keep c.2 c.1 _ (hv c List.mem_cons_self) hlen]
    have hl := length_classStepN_sort sort nil ff (gg, keep) c.2
    rw [repairLoop2_eq_sort sort nil ff cs _ _ (fun c' hc' j hj => by
      rw [hl]; exact hv c' (List.mem_cons_of_mem _ hc') j hj) (by rw [hl]; exact hlen)]
    rfl

/-! ### the function -/

/-- `Repair(ff)` with the nil `Location` as a value, the classes visited in the order `cs` -/
def repairOrdNS (sort : List Loc → List Loc) (nil : Loc) (ff : Table) (cs : List (List Nat)) : Option Table :=
  compact (cs.foldl (classStepNS sort nil ff) (ff, [])).1 (sortNat (cs.foldl (classStepNS sort nil ff) (ff, [])).2)


/-- **the generated `Repair` is `repairOrdNS sort`** for the order in which the map is visited, which is a
permutation of the model's classes `Table.groups` -/
theorem repair_gen_ord_sort (sort : List Loc → List Loc) (zero : Feature) (nil : Loc) (sortInts : List Int → List Int)
    (sprintf : String → String → List (List String) → String)
    (rangeMap : List (String × List Int) → List (String × List Int))
    (hfmt : ∀ f : Feature, sprintf "%q:%q" f.key f.props = classKey f)
    (hsort : ∀ l, (sortInts l).Perm l ∧ (sortInts l).Pairwise (· ≤ ·))
    (hrange : ∀ m, (rangeMap m).Perm m) (ff : Table) :
    ∃ cs : List (List Nat), cs.Perm (Table.groups ff) ∧
      Gen.repair zero nil sort sortInts sprintf rangeMap ff = repairOrdNS sort nil ff cs := by
  -- the index map
  have hindex := indexLoop_shape (Gen.repairLoop sprintf) (fun _ _ => by rw [Gen.repairLoop])
    (fun f rest i m => by rw [Gen.repairLoop, hfmt]) ff
  generalize hA : ((Table.classKeys ff).map fun k => (k, (Table.memberIdx ff k).map Int.ofNat)) = idxA at hindex
  -- the order in which it is visited
  have hR := hrange idxA
  generalize hRdef : rangeMap idxA = R at hR
  have hmemR : ∀ e ∈ R, ∃ k, e = (k, (Table.memberIdx ff k).map Int.ofNat) := by
    intro e he
    have := hR.subset he
    rw [← hA] at this
    obtain ⟨k, _, rfl⟩ := List.mem_map.mp this
    exact ⟨k, rfl⟩
  let csK : List (String × List Nat) := R.map fun e => (e.1, e.2.map Int.toNat)
  have hRK : R = csK.map fun c => (c.1, c.2.map Int.ofNat) := by
    simp only [csK, List.map_map]
    conv => lhs; rw [← List.map_id R]
    apply List.map_congr_left
    intro e he
    obtain ⟨k, rfl⟩ := hmemR e he
    simp only [id, Function.comp, map_toNat_ofNat]
  have hvalid : ∀ c ∈ csK, ∀ j ∈ c.2, j < ff.length := by
    intro c hc j hj
    obtain ⟨e, he, rfl⟩ := List.mem_map.mp hc
    obtain ⟨k, rfl⟩ := hmemR e he
    simp only [map_toNat_ofNat] at hj
    obtain ⟨f, hf, _⟩ := (Table.mem_memberIdx ff k j).mp hj
    exact (List.getElem?_eq_some_iff.mp hf).1
  refine ⟨csK.map (·.2), ?_, ?_⟩
  · have h1 : (R.map fun e => e.2.map Int.toNat).Perm (idxA.map fun e => e.2.map Int.toNat) := hR.map _
    have h2 : (idxA.map fun e => e.2.map Int.toNat) = Table.groups ff := by
      rw [← hA, List.map_map, Table.groups]
      apply List.map_congr_left
      intro k _
      exact map_toNat_ofNat _
    rw [h2] at h1
    have h3 : csK.map (·.2) = R.map fun e => e.2.map Int.toNat := by
      simp only [csK, List.map_map]
      rfl
    rw [h3]
    exact h1
  · simp only [Gen.repair]
    rw [Gen.goMake_nat, Option.bind_some, goCopy_replicate, hindex, Option.bind_some, Gen.goMake3_zero,
      Option.bind_some, hRdef, hRK]
    have hloop := repairLoop2_eq_sort sort nil ff csK ff [] hvalid rfl
    simp only [List.map_nil] at hloop
    rw [hloop, Option.bind_some]
    simp only [sortInts_eq sortInts hsort]
    rw [repairTail_eq]
    simp only [repairOrdNS, List.foldl_map]


theorem foldl_classStep_nil_mono_sort (sort : List Loc → List Loc) (ff : Table) : ∀ (cs : List (List Nat)) (s : RepairSt),
    (cs.foldl (classStepWith sort ff) s).nil = false → s.nil = false
  | [], _, h => h
  | c :: cs, s, h => by
    have := foldl_classStep_nil_mono_sort sort ff cs (classStepWith sort ff s c) h
    simp only [classStepWith] at this
    split at this
    · simp only [Bool.or_eq_false_iff] at this; exact this.1
    · exact this

/-- as long as the model writes no nil `Location`, the two class loops are in the same state -/
theorem foldl_classStepN_eq_sort (sort : List Loc → List Loc) (nil : Loc) (ff : Table) : ∀ (cs : List (List Nat)) (st : Table × List Nat) (stM : RepairSt),
    st.1 = stM.gg → st.2 = stM.keep → (cs.foldl (classStepWith sort ff) stM).nil = false →
    cs.foldl (classStepNS sort nil ff) st = ((cs.foldl (classStepWith sort ff) stM).gg, (cs.foldl (classStepWith sort ff) stM).keep)
  | [], st, stM, h1, h2, _ => by simp only [List.foldl_nil, ← h1, ← h2]
  | c :: cs, st, stM, h1, h2, hn => by
    simp only [List.foldl_cons] at hn ⊢
    have hc := foldl_classStep_nil_mono_sort sort ff cs _ hn
    apply foldl_classStepN_eq_sort sort nil ff cs _ _ _ _ hn
    · simp only [classStepNS, classStepWith, length_sliceN, h1] at hc ⊢
      split
      · rename_i hlt
        simp only [hlt, if_true, Bool.or_eq_false_iff] at hc
        simp only [sliceN, hc.2, Bool.false_eq_true, if_false]
      · rfl
    · simp only [classStepNS, classStepWith, length_sliceN, h1, h2]
      split <;> rfl

/-- the kept indices are taken from the classes -/
theorem foldl_classStepN_keep_sort (sort : List Loc → List Loc) (nil : Loc) (ff : Table) : ∀ (cs : List (List Nat)) (st : Table × List Nat),
    ∃ X, (cs.foldl (classStepNS sort nil ff) st).2 = st.2 ++ X ∧ X.Sublist cs.flatten
  | [], st => ⟨[], by simp, List.Sublist.refl _⟩
  | c :: cs, st => by
    obtain ⟨X, hX, hs⟩ := foldl_classStepN_keep_sort sort nil ff cs (classStepNS sort nil ff st c)
    simp only [List.foldl_cons, List.flatten_cons]
    rw [hX]
    simp only [classStepNS]
    split
    · exact ⟨c.take (sliceN nil (pushedOfWith sort (classForce ff c) (classLocs st.1 c))).length ++ X,
        by simp only [List.append_assoc], (List.take_sublist _ _).append hs⟩
    · exact ⟨c ++ X, by simp only [List.append_assoc], (List.Sublist.refl _).append hs⟩

theorem length_foldl_classStepN_sort (sort : List Loc → List Loc) (nil : Loc) (ff : Table) : ∀ (cs : List (List Nat)) (st : Table × List Nat),
    (cs.foldl (classStepNS sort nil ff) st).1.length = st.1.length
  | [], _ => rfl
  | c :: cs, st => by
    rw [List.foldl_cons, length_foldl_classStepN_sort sort nil ff cs, length_classStepN_sort sort]

/-- **`repairOrdNS sort` never fails** over a permutation of the classes of the table (the compaction reads and
writes inside the table: `keep` is a duplicate-free list of table indices) -/
theorem repairOrdN_some_sort (sort : List Loc → List Loc) (nil : Loc) (ff : Table) (cs : List (List Nat)) (hp : cs.Perm (Table.groups ff)) :
    ∃ t, repairOrdNS sort nil ff cs = some t := by
  obtain ⟨X, hX, hs⟩ := foldl_classStepN_keep_sort sort nil ff cs (ff, [])
  simp only [List.nil_append] at hX
  have hnd : cs.flatten.Nodup := (hp.flatten.nodup_iff).mpr (Table.groups_flatten_nodup ff)
  have hXnd : X.Nodup := hnd.sublist hs
  have hXlt : ∀ j ∈ X, j < ff.length := fun j hj =>
    (Table.mem_groups_flatten ff j).mp ((hp.flatten.mem_iff).mp (hs.subset hj))
  have hperm := sortNat_perm X
  have hsorted : (sortNat X).Pairwise (· < ·) := by
    have hle := sortNat_sorted X
    have hnd' : (sortNat X).Nodup := (hperm.nodup_iff).mpr hXnd
    have := hle.and hnd'
    exact this.imp (fun ⟨h1, h2⟩ => Nat.lt_of_le_of_ne h1 h2)
  have hc := compact_incr (cs.foldl (classStepNS sort nil ff) (ff, [])).1 (sortNat X) hsorted (fun j hj => by
    rw [length_foldl_classStepN_sort sort]
    exact hXlt j ((hperm.mem_iff).mp hj))
  exact ⟨_, by simp only [repairOrdNS, hX]; exact hc⟩

theorem repairOrd_ok_sort (sort : List Loc → List Loc) (ff : Table) (cs : List (List Nat)) (t : Table) (h : repairOrdWith sort ff cs = .ok t) :
    (cs.foldl (classStepWith sort ff) ⟨ff, [], false⟩).nil = false ∧
      compact (cs.foldl (classStepWith sort ff) ⟨ff, [], false⟩).gg (sortNat (cs.foldl (classStepWith sort ff) ⟨ff, [], false⟩).keep) = some t := by
  simp only [repairOrdWith] at h
  split at h
  · cases h
  · rename_i gg hgg
    split at h
    · cases h
    · rename_i hnil
      cases h
      exact ⟨by simpa using hnil, hgg⟩

/-- when the model answers a table, `repairOrdNS sort` answers the same table -/
theorem repairOrdN_of_ok_sort (sort : List Loc → List Loc) (nil : Loc) (ff : Table) (cs : List (List Nat)) (t : Table)
    (h : repairOrdWith sort ff cs = .ok t) : repairOrdNS sort nil ff cs = some t := by
  obtain ⟨hn, hc⟩ := repairOrd_ok_sort sort ff cs t h
  simp only [repairOrdNS, foldl_classStepN_eq_sort sort nil ff cs (ff, []) ⟨ff, [], false⟩ rfl rfl hn]
  exact hc

/-- **`Repair(ff)` as feature.go defines it now returns the table the model's `repairWith sort ff` returns** — for every
table on which the model answers a table (every table without a class of two or more empty `Joined{}`
literals: `Gts.C12.no_panic_ok_with`), EVERY function `sort` standing for `sort.Sort(Locations(·))`, every order in
which Go visits the map, every sorted permutation that `sort.Sort(sort.IntSlice(keep))` produces, every zero `Feature`
and nil `Location` -/
theorem repair_gen_sort (sort : List Loc → List Loc) (zero : Feature) (nil : Loc) (sortInts : List Int → List Int)
    (sprintf : String → String → List (List String) → String)
    (rangeMap : List (String × List Int) → List (String × List Int))
    (hfmt : ∀ f : Feature, sprintf "%q:%q" f.key f.props = classKey f)
    (hsort : ∀ l, (sortInts l).Perm l ∧ (sortInts l).Pairwise (· ≤ ·))
    (hrange : ∀ m, (rangeMap m).Perm m) (ff t : Table) (h : repairWith sort ff = .ok t) :
    Gen.repair zero nil sort sortInts sprintf rangeMap ff = some t := by
  obtain ⟨cs, hp, he⟩ := repair_gen_ord_sort sort zero nil sortInts sprintf rangeMap hfmt hsort hrange ff
  rw [he]
  apply repairOrdN_of_ok_sort sort
  have : repairOrdWith sort ff cs = repairWith sort ff :=
    (repairOrd_permW sort ff _ _ hp.symm (Table.groups_flatten_nodup ff)).symm
  rw [this, h]

/-- **`Repair(ff)` as feature.go defines it now never panics**, on any table, whatever `sort.Sort(Locations(·))`
returns — even a list of another length (in particular: the index
expressions `gg[i]`, `ff[indices[0]]`, `gg[indices[i]]`, the slice `indices[:len(locs)]`, the compaction and
`gg[:len(keep)]` stay in range) -/
theorem repair_gen_nopanic_sort (sort : List Loc → List Loc) (zero : Feature) (nil : Loc) (sortInts : List Int → List Int)
    (sprintf : String → String → List (List String) → String)
    (rangeMap : List (String × List Int) → List (String × List Int))
    (hfmt : ∀ f : Feature, sprintf "%q:%q" f.key f.props = classKey f)
    (hsort : ∀ l, (sortInts l).Perm l ∧ (sortInts l).Pairwise (· ≤ ·))
    (hrange : ∀ m, (rangeMap m).Perm m) (ff : Table) :
    ∃ t, Gen.repair zero nil sort sortInts sprintf rangeMap ff = some t := by
  obtain ⟨cs, hp, he⟩ := repair_gen_ord_sort sort zero nil sortInts sprintf rangeMap hfmt hsort hrange ff
  rw [he]
  exact repairOrdN_some_sort sort nil ff cs hp

-- non-vacuity: a sort other than the model's insertion sort (ties in the opposite order), on a table where that matters
example : repairWith (fun xs => sortLocs xs.reverse) [⟨"gene", .point 3, []⟩, ⟨"gene", .ranged 3 4 false false, []⟩] =
      .ok [⟨"gene", .point 3, []⟩, ⟨"gene", .ranged 3 4 false false, []⟩] ∧
    repair [⟨"gene", .point 3, []⟩, ⟨"gene", .ranged 3 4 false false, []⟩] = .ok [⟨"gene", .ranged 3 4 false false, []⟩] :=
  ⟨by rfl, by rfl⟩

end Gts.Bridge
