/-
  Bridge: `gts.Rotate`, regenerated from sequence.go by go2lean (Gts/Gen/SeqRotate.lean: the loop
  `for Len(seq) > 0 && n < 0 { n += Len(seq) }` LITERALLY with fuel, `n %= Len(seq)` as a checked remainder,
  the `range` loop over the features as a recursion over the list, the two slice expressions of the byte
  splice as checked operations), is the hand-written model's `Seq.rotate` (Gts/Model/Seq.lean) — for every
  non-empty sequence, every `n : Int` and every fuel of at least `-n` (the loop runs `⌈-n / L⌉` times).

  The model writes the loop in closed form (`n + ((-n + L - 1) / L) * L`); `rotateLoop_neg` shows that the
  literal loop computes `n mod L`, `rotN_closed` that the closed form does.

  Where Go panics: `n %= Len(seq)` on the EMPTY sequence (integer divide by zero), for every `n`
  (`seqRotate_panic`).  The model is total there (`Int.tmod x 0 = x`), so equality is stated for `0 < L`.
  On a non-empty sequence `1 ≤ m = L - n' ≤ L` and neither slice expression can fail.

  Metadata: `Rotate` does not touch it.
-/
import Gts.Gen.SeqRotate
import Gts.Bridge.SeqBase
import Gts.Bridge.LocRec
namespace Gts.Bridge
open Gts

/-- the closed form the model uses for `for n < 0 { n += L }; n %= L` is the mathematical residue -/
theorem rotN_closed (n L : Int) (hL : 0 < L) :
    Int.tmod (if n < 0 then n + ((-n + L - 1) / L) * L else n) L = n % L := by
  by_cases hn : n < 0
  · rw [if_pos hn]
    have h1 := Int.emod_add_ediv_mul (-n + L - 1) L
    have h2 := Int.emod_lt_of_pos (-n + L - 1) hL
    generalize hq : (-n + L - 1) / L = q at *
    generalize hqL : q * L = qL at *
    have : 0 ≤ n + qL := by omega
    rw [Int.tmod_eq_emod_of_nonneg this, ← hqL, Int.add_mul_emod_self_right]
  · rw [if_neg hn, Int.tmod_eq_emod_of_nonneg (by omega)]

/-- the normalisation loop leaves a non-negative `n` alone (any fuel, any sequence) -/
theorem rotateLoop_nonneg (b : List UInt8) (fuel : Nat) (n : Int) (hn : 0 ≤ n) :
    Gen.seqRotateLoop b fuel n = .ok n := by
  cases fuel with
  | zero => rfl
  | succ fuel =>
    have : ¬ (((b.length : Int) > 0) ∧ (n < 0)) := by omega
    simp only [Gen.seqRotateLoop, if_neg this]

/-- the normalisation loop on an empty sequence does nothing -/
theorem rotateLoop_empty (fuel : Nat) (n : Int) : Gen.seqRotateLoop [] fuel n = .ok n := by
  cases fuel with
  | zero => rfl
  | succ fuel => simp [Gen.seqRotateLoop]

/-- the normalisation loop takes a negative `n` to `n mod L`, given `-n` units of fuel -/
theorem rotateLoop_neg (b : List UInt8) (hL : 0 < (b.length : Int)) :
    ∀ (fuel : Nat) (n : Int), n < 0 → -n ≤ fuel → Gen.seqRotateLoop b fuel n = .ok (n % (b.length : Int))
  | 0, n, hn, hf => by omega
  | fuel + 1, n, hn, hf => by
    have hc : ((b.length : Int) > 0) ∧ (n < 0) := ⟨hL, hn⟩
    simp only [Gen.seqRotateLoop, if_pos hc]
    by_cases h2 : n + (b.length : Int) < 0
    · rw [rotateLoop_neg b hL fuel _ h2 (by omega), Int.add_emod_right]
    · rw [rotateLoop_nonneg b fuel _ (by omega)]
      have : (n + (b.length : Int)) % (b.length : Int) = n + (b.length : Int) :=
        Int.emod_eq_of_lt (by omega) (by omega)
      rw [← this, Int.add_emod_right]

/-- the loop over the features inserts the re-located features one by one -/
theorem seqRotateLoop2_eq (b : List UInt8) (n : Int) (fs ff : List Feature) :
    Gen.seqRotateLoop2 b n fs ff =
      .ok (Table.insertAll ff (fs.map fun f => { f with loc := (f.loc.expand 0 n).normalize b.length })) := by
  rw [foldLoop_shape (Gen.seqRotateLoop2 b n)
    (fun f ff => Table.insert ff { f with loc := Gen.normalize (Gen.expand f.loc 0 n) b.length })
    (fun _ => rfl) (fun _ _ _ => rfl), insertAll_map]
  simp only [expand_eq, normalize_eq]

/-- `gts.Rotate` as sequence.go defines it now is the model's `Seq.rotate` on every non-empty sequence, for
every `n` and every fuel of at least `-n`; the metadata is untouched -/
theorem seqRotate_eq {ι : Type} (fuel : Nat) (i : ι) (s : Seq) (n : Int) (hL : 0 < s.len) (hf : -n ≤ fuel) :
    Gen.seqRotate fuel i s.feats s.bytes n = .ok (i, (s.rotate n).feats, (s.rotate n).bytes) := by
  simp only [Seq.len] at hL
  have hloop : Gen.seqRotateLoop s.bytes fuel n = .ok (if n < 0 then n % (s.bytes.length : Int) else n) := by
    by_cases hn : n < 0
    · rw [if_pos hn, rotateLoop_neg s.bytes hL fuel n hn hf]
    · rw [if_neg hn, rotateLoop_nonneg s.bytes fuel n (by omega)]
  have hr0 := Int.emod_nonneg n (show (s.bytes.length : Int) ≠ 0 by omega)
  have hr1 := Int.emod_lt_of_pos n hL
  have hrem : Int.tmod (if n < 0 then n % (s.bytes.length : Int) else n) (s.bytes.length : Int) =
      n % (s.bytes.length : Int) := by
    by_cases hn : n < 0
    · rw [if_pos hn, Int.tmod_eq_emod_of_nonneg hr0, Int.emod_emod_of_dvd _ (Int.dvd_refl _)]
    · rw [if_neg hn, Int.tmod_eq_emod_of_nonneg (by omega)]
  have hne : ¬ ((s.bytes.length : Int) = 0) := by omega
  have hcap : ¬ ((s.bytes.length : Int) < 0) := by omega
  simp only [Gen.seqRotate, hloop, Gen.goRem, if_neg hne, hrem, seqRotateLoop2_eq, Gen.goMakeCap, if_neg hcap,
    Seq.rotate, Seq.len, rotN_closed n _ hL]
  generalize n % (s.bytes.length : Int) = r at *
  have h1 : 0 ≤ (s.bytes.length : Int) - r ∧ (s.bytes.length : Int) - r ≤ (s.bytes.length : Int) := by omega
  simp only [Gen.goSliceFrom, Gen.goSliceTo, if_pos h1, List.nil_append]

/-- … and panics on the empty sequence (`n %= 0`), for every `n` and every fuel -/
theorem seqRotate_panic {ι : Type} (fuel : Nat) (i : ι) (feats : List Feature) (n : Int) :
    Gen.seqRotate fuel i feats [] n = .error .panic := by
  simp [Gen.seqRotate, rotateLoop_empty, Gen.goRem]

-- non-vacuity: `n = -7` on six residues is a rotation by 5; a feature crossing the new origin is split
example : Gen.seqRotate (ι := Unit) 7 () [⟨"gene", .ranged 0 3 false false, []⟩] [65, 67, 71, 84, 65, 67] (-7) =
    .ok ((), [⟨"gene", .joined [.ranged 5 6 false false, .ranged 0 2 false false], []⟩], [67, 71, 84, 65, 67, 65]) := by
  rfl

end Gts.Bridge
